/-
  C05 — Close and reload preserve every record exactly.

  "After any sequence of API operations on a persistent swamp, letting it close (idle eviction or
   shutdown) and reading it again returns, for every key, the same existence, the same value type
   and value, and the same created/updated/expiry metadata as before the close. This includes
   zero-like values such as 0, false, the empty string and empty byte arrays."

  Statement (`Holds`): for EVERY persistent kind (write interval 0 = `p0`, write interval > 0 = `p1`)
  and EVERY multi-session history — requests interleaved with closes (idle eviction, shutdown;
  the next request reloads the file) — the reference view (`Model.abs`: existence, typed value,
  metadata of every key, what Get/GetAll return) after one more `closeStep` (flush of the write
  buffer through the storage encoding, instance dropped) equals the view before it.

  Keys: the model stores a record under any key.  The file format holds non-empty keys of at
  most 65535 bytes; the statements are to be read for such keys.  (For the others the code
  acknowledges the write and its writer refuses the entry — finding
  `C05-unstorable-key-acknowledged`, reproduced by the correspondence driver, not by this model.)

  Proved about `Holds` (history level), for symbolic facts:
    * `not_holds_gob`        — with the gob encoding a typed zero comes back as "no value";
    * `not_holds_incfail`    — with `incFailClean = false` a reloaded record whose conditional
                               Increment failed shows metadata that the next close loses;
    * `not_holds_resurrect`  — with `recreateKeepsPointer = false`: delete, re-create and delete a
                               key of the file within one session, close: the key is back.
  The verdict is over `Full` = `HoldsSingle` (one session on a buffered swamp; `reload_view`,
  `single_typeTagged`, `not_single_gob`) ∧ `FailKeepsRecs` ∧ `RecreateStaysFiled` (the two
  mechanisms above, stated for one request), each decided in both directions by its fact.  That
  `Holds` follows when all three hold — several sessions, write interval 0 — is exercised by the
  correspondence run, not proved.
-/
import Hv.Data.Persist
import Hv.Data.Persist2
import Hv.Props.C06

namespace Hv.C05
open Hv.Data
open Hv.C06 (runM Hist init run_sim inv_init)

/-- an event of a multi-session history: a request, or a close (idle eviction / shutdown; the
    next request reloads the swamp from its file) -/
inductive Ev where
  | req (now : Int) (r : Req)
  | close
  deriving Repr

def runE (cfg : Cfg) (ar : Arith) : State → List Ev → State
  | s, [] => s
  | s, .req now r :: rest => runE cfg ar (Model.step cfg ar now s r).s rest
  | s, .close :: rest => runE cfg ar (Model.closeStep cfg s).1 rest

/-- **C05**, full strength: any persistent kind, any number of sessions. -/
def Holds (cfg : Cfg) : Prop :=
  ∀ (ar : Arith) (kind : Kind), kind ≠ .mem → ∀ (h : List Ev),
    (runE cfg ar (init kind) h).dead = false →
    Model.abs (Model.closeStep cfg (runE cfg ar (init kind) h)).1 = Model.abs (runE cfg ar (init kind) h)

/-- the single-session fragment on a buffered swamp -/
def HoldsSingle (cfg : Cfg) : Prop :=
  ∀ (ar : Arith) (h : Hist),
    (runM cfg ar (init .p1) h).2.1.dead = false →
    Model.abs (Model.closeStep cfg (runM cfg ar (init .p1) h).2.1).1 = Model.abs (runM cfg ar (init .p1) h).2.1

theorem runE_req (cfg : Cfg) (ar : Arith) (h : Hist) : ∀ s,
    runE cfg ar s (h.map fun p => Ev.req p.1 p.2) = (runM cfg ar s h).2.1 := by
  induction h with
  | nil => intro s; rfl
  | cons p rest ih => intro s; obtain ⟨now, r⟩ := p; simp only [List.map_cons, runE, runM]; exact ih _

theorem single_of_holds (cfg : Cfg) (hh : Holds cfg) : HoldsSingle cfg := by
  intro ar h hd
  have := hh ar .p1 (by decide) (h.map fun p => Ev.req p.1 p.2)
  rw [runE_req] at this
  exact this hd

theorem sok_init : SOK (init .p1) := ⟨rfl, rfl, fun i hi => by cases hi⟩

theorem sok_run (cfg : Cfg) (ar : Arith) (h : Hist) : ∀ s, SOK s → SOK (runM cfg ar s h).2.1 := by
  induction h with
  | nil => intro s hs; exact hs
  | cons p rest ih =>
    intro s hs
    obtain ⟨now, r⟩ := p
    simp only [runM]
    exact ih _ (sok_step cfg ar now s r hs)

/-- what is read back after the close, for any facts and any history -/
theorem reload_view (cfg : Cfg) (ar : Arith) (h : Hist) (hd : (runM cfg ar (init .p1) h).2.1.dead = false) :
    Model.abs (Model.closeStep cfg (runM cfg ar (init .p1) h).2.1).1 =
      match (runM cfg ar (init .p1) h).2.1.live with
      | some i => AL.mapV (reloadView cfg.encoding) i.recs
      | none => [] := by
  have hs := sok_run cfg ar h (init .p1) sok_init
  cases hl : (runM cfg ar (init .p1) h).2.1.live with
  | some i => exact close_view cfg _ hs hd i hl
  | none =>
    simp only [Model.closeStep, hd, Bool.false_eq_true, if_false, hl, Model.abs, hs.nofile]
    rfl

theorem mapV_congr {α β : Type} (f g : α → β) (l : List (String × α)) (h : ∀ p, p ∈ l → f p.2 = g p.2) :
    AL.mapV f l = AL.mapV g l := by
  induction l with
  | nil => rfl
  | cons p t ih =>
    simp only [AL.mapV, List.map_cons]
    rw [h p (by simp)]
    congr 1
    exact ih (fun q hq => h q (List.mem_cons_of_mem _ hq))

/-- **C05 for a type-tagged record encoding** — whatever the other facts are. -/
theorem single_typeTagged (cfg : Cfg) (he : cfg.encoding = .typeTagged) : HoldsSingle cfg := by
  intro ar h hd
  rw [reload_view cfg ar h hd, he]
  cases hl : (runM cfg ar (init .p1) h).2.1.live with
  | some i => simp only [Model.abs, hl]; exact mapV_congr _ _ _ (fun p _ => rfl)
  | none =>
    have hs := sok_run cfg ar h (init .p1) sok_init
    simp [Model.abs, hl, hs.nofile, AL.mapV]

/-- **C05_partial** (gob): a history that exercises no quirk mechanism and ends without a
    zero-like value in the swamp is read back exactly. -/
def HoldsPartial (cfg : Cfg) : Prop :=
  ∀ (ar : Arith) (h : Hist),
    (runM cfg ar (init .p1) h).2.2 = [] →
    (∀ p, p ∈ Model.abs (runM cfg ar (init .p1) h).2.1 → p.2.val.zeroLike = false) →
    Model.abs (Model.closeStep cfg (runM cfg ar (init .p1) h).2.1).1 = Model.abs (runM cfg ar (init .p1) h).2.1

theorem C05_partial (cfg : Cfg) : HoldsPartial cfg := by
  intro ar h ht hz
  obtain ⟨_, _, hinv⟩ := run_sim cfg ar h (init .p1) (inv_init cfg .p1) (Or.inr ht)
  rw [reload_view cfg ar h hinv.alive]
  cases hl : (runM cfg ar (init .p1) h).2.1.live with
  | none =>
    have hs := sok_run cfg ar h (init .p1) sok_init
    simp [Model.abs, hl, hs.nofile, AL.mapV]
  | some i =>
    obtain ⟨hi, _⟩ := hinv.live i hl
    simp only [Model.abs, hl] at hz ⊢
    apply mapV_congr
    intro p hp
    have hwf := (hi.recs p hp).wf
    have hnz : p.2.c.vis.zeroLike = false := by
      have := hz (p.1, p.2.abs) (by
        simp only [AL.mapV, List.mem_map]
        exact ⟨p, hp, rfl⟩)
      simpa [MRec.abs] using this
    cases he : cfg.encoding with
    | typeTagged => rfl
    | gobOmitZero => exact (persistRecord_id_iff p.2 hwf).mpr hnz

/-! ### counterexample for gob: a typed zero does not survive -/

def hZero : Hist := [(0, .set true true [{ key := "k", val := .int .i32 0 }])]

theorem not_single_gob (cfg : Cfg) (he : cfg.encoding = .gobOmitZero) : ¬ HoldsSingle cfg := by
  intro hh
  have h1 := hh Hv.C06.ar0 hZero
  cases hr : cfg.resetsFlags <;> cases hn : cfg.noEmptyLive <;> cases hi : cfg.saveReleasesImmediate <;>
    cases hk : cfg.keyChecked <;>
    simp [hZero, runM, init, Model.step, Model.stepCore, Model.stepCoreV, Req.badKey, Hv.C06.validKey_k, hk, Model.ghost, Model.exists_, Model.abs, AL.mapV, Model.summon,
      Model.setLoop, Model.setOne, AL.has, AL.find, Model.createTreasure, Model.applyItem, normVal, setValue,
      setScalar, Content.fresh, Content.vis, Model.validTs, Model.itemSupplied, Model.metaFlag, itemMeta,
      Model.valueTags, Model.tsTags, Model.save, AL.insert, AL.erase, Model.settleAfterTouch, Model.withLive,
      Cfg.setters, MRec.abs, Model.closeStep, Model.closeDisk, Model.flushDisk, Model.flushStep, Model.addWaiting,
      persistRec, persistContent, loadRec, Val.zeroLike, he, hr, hn, hi] at h1

theorem not_holds_gob (cfg : Cfg) (he : cfg.encoding = .gobOmitZero) : ¬ Holds cfg :=
  fun hh => not_single_gob cfg he (single_of_holds cfg hh)

/-- the witness of DESIGN §8 for the facts as extracted today (closed terms): Get shows Int32
    before the close and "no value" after -/
theorem current_zero_witness :
    Model.abs (runM Hv.C06.current Hv.C06.ar0 (init .p1) hZero).2.1 = [("k", { val := .int .i32 0 })] ∧
    Model.abs (Model.closeStep Hv.C06.current (runM Hv.C06.current Hv.C06.ar0 (init .p1) hZero).2.1).1
      = [("k", { val := .none })] := by decide

/-- non-vacuity of the partial theorem: a history with non-zero values raises no tag and ends
    without zero-like values -/
example : (runM Hv.C06.current Hv.C06.ar0 (init .p1)
    [(0, .set true true [Hv.C06.k5]), (0, .inc (.int .i64) "k" 1 none none none)]).2.2 = [] := by decide

/-! ### counterexamples over several sessions -/

def kA : Item := { key := "a", val := .int .i64 5 }
def kB : Item := { key := "b", val := .int .i64 6 }

/-- delete, re-create and delete a key that is in the file, within one session -/
def hRes : List Ev :=
  [.req 0 (.set true true [kA, kB]), .close, .req 0 (.del ["a"]), .req 0 (.inc (.int .i64) "a" 1 none none none),
   .req 0 (.del ["a"])]

/-- a conditional Increment fails on a reloaded record and carries expiry metadata -/
def hFail : List Ev :=
  [.req 0 (.set true true [kA]), .close,
   .req 0 (.inc (.int .i64) "a" 1 (some (.eq, 77)) none (some { exp := some 99 }))]

example : (Model.abs (runE Hv.C06.current Hv.C06.ar0 (init .p1) hRes)).map (·.1) = ["b"] ∧
    (Model.abs (Model.closeStep Hv.C06.current (runE Hv.C06.current Hv.C06.ar0 (init .p1) hRes)).1).map (·.1) = ["a", "b"] := by decide
example : (Model.abs (runE Hv.C06.current Hv.C06.ar0 (init .p1) hFail)).map (·.2.m.exp) = [99] ∧
    (Model.abs (Model.closeStep Hv.C06.current (runE Hv.C06.current Hv.C06.ar0 (init .p1) hFail)).1).map (·.2.m.exp) = [0] := by decide

theorem validKey_a : validKey "a" = true := by decide
theorem validKey_b : validKey "b" = true := by decide

/-- evaluation of a closed multi-session history with symbolic facts -/
macro "c05_eval" "[" hs:Lean.Parser.Tactic.simpLemma,* "]" "at" h:ident : tactic => `(tactic|
  simp [$hs,*, runE, init, Model.step, Model.stepCore, Model.stepCoreV, Req.badKey, validKey_a, validKey_b, Model.ghost, Model.exists_, Model.abs, AL.mapV,
    Model.summon, Model.setLoop, Model.setOne, AL.has, AL.find,
    Model.createTreasure, Model.applyItem, normVal, dedupVal, setValue, setScalar, setVoid,
    Content.fresh, Content.vis, Content.ofVal, Model.validTs, Model.itemSupplied, Model.metaFlag, itemMeta,
    Model.valueTags, Model.tsTags, Model.save, AL.insert, AL.erase, Model.settleAfterTouch,
    Model.settleAfterDelete, Model.withLive, Model.destroy, Cfg.setters, MRec.abs,
    Model.deleteRec, Model.delLoop, Model.idxRemove, Model.idxAdd,
    Val.scalar, Val.isSlice, Val.sliceD, Model.incStep, Model.incCore, Model.incStart, Model.incApply,
    Model.park, Model.applyIncMeta, numIsZero, numZero, numVal, numOf, numAdd, numCmp, numWrap, IntTy.bits, IntTy.signed, condHolds, metaResp, loadRec,
    Model.closeStep, Model.closeDisk, Model.flushDisk, Model.flushStep, Model.addWaiting, persistRec, persistContent,
    Val.zeroLike, IntTy.wrap, kA, kB, hRes, hFail] at $h:ident)

theorem not_holds_resurrect (cfg : Cfg) (hp : cfg.recreateKeepsPointer = false) : ¬ Holds cfg := by
  intro hh
  have h1 := hh Hv.C06.ar0 .p1 (by decide) hRes
  cases hr : cfg.resetsFlags <;> cases hn : cfg.noEmptyLive <;> cases he : cfg.encoding <;> cases hk : cfg.keyChecked <;>
    c05_eval [he, hr, hn, hk, hp] at h1

/-- with the pointer inherited the same history is read back as it was -/
example : (Model.abs (Model.closeStep { Hv.C06.current with recreateKeepsPointer := true }
      (runE { Hv.C06.current with recreateKeepsPointer := true } Hv.C06.ar0 (init .p1) hRes)).1).map (·.1) = ["b"] := by decide

theorem not_holds_incfail (cfg : Cfg) (hc : cfg.incFailClean = false) : ¬ Holds cfg := by
  intro hh
  have h1 := hh Hv.C06.ar0 .p1 (by decide) hFail
  cases hr : cfg.resetsFlags <;> cases hn : cfg.noEmptyLive <;> cases he : cfg.encoding <;> cases hk : cfg.keyChecked <;>
    cases hp : cfg.recreateKeepsPointer <;> c05_eval [he, hr, hn, hk, hp, hc] at h1

/-! ### several sessions, either write interval: `Holds` reduced to a per-request obligation

  `POKState`: the live instance (if any) satisfies `Hv.Data.POK` — every key that is not waiting for
  the writer has, in the instance's file image, the persisted form of its live record — and a closed
  swamp's file is in key order and holds persisted records.  It holds initially, a close keeps it
  (`pokstate_close`), and from it one more close + reload shows the records passed once through the
  encoding (`Hv.Data.close_view_pok`).  Hence `holds_multi_partial`: with a type-tagged encoding,
  `Holds` — any persistent kind, any number of sessions — follows from `StepKeepsPOK`, the statement
  that every REQUEST keeps `POKState`.  For the write-buffer steps themselves that is proved in
  `Hv.Data.Persist2` (`pok_save`, `pok_delete`, with the side conditions "a treasure whose changed
  flag is clear is the stored one or already queued" and "an object without a file pointer is not in
  the file"); discharging those side conditions along every request path (flag accuracy of the
  setters under `resetsFlags ∧ metaCompare` or sticky flags; `recreateKeepsPointer`; `incFailClean`)
  is what remains open.  The three counterexamples above are exactly the ways it fails. -/

structure POKState (cfg : Cfg) (s : State) : Prop where
  kind : s.kind ≠ .mem
  live : ∀ i, s.live = some i → POK cfg.encoding i
  closed : s.live = none → AL.Sorted (s.file.getD []) ∧ ∀ p, p ∈ s.file.getD [] → persistRec cfg.encoding (loadRec p.2) = p.2

def StepKeepsPOK (cfg : Cfg) : Prop :=
  ∀ (ar : Arith) (now : Int) (s : State) (req : Req), POKState cfg s → POKState cfg (Model.step cfg ar now s req).s

theorem pokstate_init (cfg : Cfg) (kind : Kind) (hk : kind ≠ .mem) : POKState cfg (init kind) :=
  ⟨hk, fun i hi => (by cases hi), fun _ => ⟨AL.sorted_nil, fun p hp => (by cases hp)⟩⟩

theorem pokstate_close (cfg : Cfg) (he : cfg.encoding = .typeTagged) (s : State) (hs : POKState cfg s) :
    POKState cfg (Model.closeStep cfg s).1 := by
  obtain ⟨hk, hl, hf⟩ := hs
  unfold Model.closeStep
  cases hd : s.dead with
  | true => simp only [if_true]; exact ⟨hk, hl, hf⟩
  | false =>
    simp only [Bool.false_eq_true, if_false]
    cases hlive : s.live with
    | none => simp only; exact ⟨hk, fun i hi => (by rw [hlive] at hi; cases hi), fun _ => hf hlive⟩
    | some i =>
      have hi := hl i hlive
      have hfile := closeDisk_pok cfg i hi
      cases hkind : s.kind with
      | mem => exact absurd hkind hk
      | p0 =>
        simp only
        refine ⟨by simp [hkind], fun j hj => (by cases hj), fun _ => ?_⟩
        simp only [hfile]
        exact ⟨AL.sorted_mapV _ _ hi.srt, fun p _ => by rw [he]; rfl⟩
      | p1 =>
        simp only
        refine ⟨by simp [hkind], fun j hj => (by cases hj), fun _ => ?_⟩
        simp only [hfile]
        exact ⟨AL.sorted_mapV _ _ hi.srt, fun p _ => by rw [he]; rfl⟩

theorem pokstate_runE (cfg : Cfg) (he : cfg.encoding = .typeTagged) (hstep : StepKeepsPOK cfg) (ar : Arith) (h : List Ev) :
    ∀ s, POKState cfg s → POKState cfg (runE cfg ar s h) := by
  induction h with
  | nil => intro s hs; exact hs
  | cons ev rest ih =>
    intro s hs
    cases ev with
    | req now r => simp only [runE]; exact ih _ (hstep ar now s r hs)
    | close => simp only [runE]; exact ih _ (pokstate_close cfg he s hs)

/-- **C05 over several sessions and either write interval, as far as it is proved**: with a
    type-tagged encoding, `Holds` follows from the per-request obligation `StepKeepsPOK`. -/
theorem holds_multi_partial (cfg : Cfg) (he : cfg.encoding = .typeTagged) (hstep : StepKeepsPOK cfg) : Holds cfg := by
  intro ar kind hk h hd
  obtain ⟨hkind, hl, _⟩ := pokstate_runE cfg he hstep ar h (init kind) (pokstate_init cfg kind hk)
  cases hlive : (runE cfg ar (init kind) h).live with
  | none => simp only [Model.closeStep, hd, Bool.false_eq_true, if_false, hlive]
  | some i =>
    rw [close_view_pok cfg _ hkind hd i hlive (hl i hlive), he]
    simp only [Model.abs, hlive]
    exact mapV_congr _ _ _ (fun p _ => rfl)

/-! ### decision over the extracted facts -/

inductive Enc where
  | gobOmitZero | typeTagged | unknown
  deriving DecidableEq, Repr, Inhabited

structure Facts where
  encoding : Enc
  resetsFlags : Tri
  metaCompare : Tri
  tsPositive : Tri
  voidClears : Tri
  pushChecksType : Tri
  setSliceReplaces : Tri
  u32delReleases : Tri
  u32delChecksType : Tri
  incFailClean : Tri
  noEmptyLive : Tri
  arekAllFalse : Tri
  countMissingOk : Tri
  setErrSingle : Tri
  fltCondDirect : Tri
  keyChecked : Tri
  recreateKeepsPointer : Tri
  patchAsksFirst : Tri
  fltSetBitwise : Tri
  saveReleasesImmediate : Tri
  wireExpNe0 : Tri
  deriving DecidableEq, Repr

def kvFacts (f : Facts) : Hv.C06.Facts :=
  ⟨f.resetsFlags, f.metaCompare, f.tsPositive, f.voidClears, f.pushChecksType, f.setSliceReplaces,
   f.u32delReleases, f.u32delChecksType, f.incFailClean, f.noEmptyLive, f.arekAllFalse, f.countMissingOk,
   f.setErrSingle, f.fltCondDirect, f.keyChecked, f.recreateKeepsPointer, f.patchAsksFirst, f.fltSetBitwise, f.saveReleasesImmediate, f.wireExpNe0⟩

def cfgOf (f : Facts) : Cfg :=
  { Hv.C06.cfgOf (kvFacts f) with encoding := match f.encoding with | .typeTagged => .typeTagged | _ => .gobOmitZero }

/-! ### the mechanisms behind the multi-session counterexamples, one request at a time -/

/-- a conditional Increment that answers "not incremented" leaves the records as they were -/
def FailKeepsRecs (cfg : Cfg) : Prop :=
  ∀ (ar : Arith) (now : Int) (i : Inst) (ty : NumTy) (k : Key) (by_ : Int) (cond : Option (RelOp × Int))
    (ine ie : Option IncMeta) (v : Val) (m : Option Meta),
    (Model.incCore cfg ar now i ty k by_ cond ine ie).r = .inc v false m →
    (Model.incCore cfg ar now i ty k by_ cond ine ie).i.recs = i.recs

theorem fail_keeps_recs (cfg : Cfg) (h : cfg.incFailClean = true) : FailKeepsRecs cfg := by
  intro ar now i ty k by_ cond ine ie v m hr
  unfold Model.incCore at hr ⊢
  cases hs : Model.incStart ty (Model.createTreasure i k).1 with
  | none => simp only [hs] at hr; cases hr
  | some x =>
    obtain ⟨t1, cur, u⟩ := x
    simp only [hs] at hr ⊢
    cases hc : condHolds ar ty cond cur with
    | true => simp only [hc, if_true] at hr; injection hr with _ hb _; cases hb
    | false =>
      simp only [hc, h, if_true, Bool.false_eq_true, if_false]
      split <;> rfl

theorem not_fail_keeps_recs (cfg : Cfg) (h : cfg.incFailClean = false) : ¬ FailKeepsRecs cfg := by
  intro hh
  have := hh Hv.C06.ar0 0 { recs := [("a", { c := { val := .int .i64 5 } })] } (.int .i64) "a" 1 (some (.eq, 77)) none
    (some { exp := some 200 }) (.int .i64 5) (some { exp := 200 })
    (by simp [Model.incCore, Model.createTreasure, AL.find, Model.incStart, Content.vis, condHolds, numCmp, numWrap,
          IntTy.wrap, IntTy.bits, IntTy.signed, numOf, numVal, Model.applyIncMeta, metaResp, h, Val.scalar])
  revert this
  simp [Model.incCore, Model.createTreasure, AL.find, AL.has, AL.insert, Model.incStart, Content.vis, condHolds, numCmp,
    numWrap, IntTy.wrap, IntTy.bits, IntTy.signed, numOf, numVal, Model.applyIncMeta, Model.park, h, Val.scalar]

/-- a record created under a key whose delete is still waiting for the writer keeps the file
    pointer, so that a following delete is queued too (buffered swamps) -/
def RecreateStaysFiled (cfg : Cfg) : Prop :=
  ∀ (i : Inst) (k : Key) (t : MRec) (fresh : Bool), i.imm = false → AL.find k i.recs = none →
    i.waiting.contains k = true → (Model.save cfg i k t fresh).1.filed.contains k = true

theorem recreate_stays_filed (cfg : Cfg) (h : cfg.recreateKeepsPointer = true) : RecreateStaysFiled cfg := by
  intro i k t fresh him hf hw
  simp only [Model.save, hf, him, Bool.false_and, Bool.false_eq_true, if_false, h, hw, Bool.and_self, if_true]
  cases hc : i.filed.contains k with
  | true => simp only [if_true]; exact hc
  | false => simp [hc]

theorem not_recreate_stays_filed (cfg : Cfg) (h : cfg.recreateKeepsPointer = false) : ¬ RecreateStaysFiled cfg := by
  intro hh
  have := hh { waiting := ["a"] } "a" {} true rfl rfl (by decide)
  revert this
  simp [Model.save, AL.find, h]

/-- **C05**, as far as it is proved in the positive direction: a session on a buffered swamp is
    read back exactly (`HoldsSingle`), and the two mechanisms by which several sessions lose data
    are absent.  `Holds` (any kind, any number of sessions) is refuted whenever one of the three
    fails (`not_holds_*`); that it holds when all three do is validated by the correspondence run. -/
def Full (cfg : Cfg) : Prop := HoldsSingle cfg ∧ FailKeepsRecs cfg ∧ RecreateStaysFiled cfg

def findings (f : Facts) : List String :=
  (if f.encoding = .gobOmitZero then ["C05-zero-like-reloads-void"] else []) ++
  (if f.incFailClean = .yes then [] else ["C05-failed-increment-leaves-trace"]) ++
  (if f.recreateKeepsPointer = .yes then [] else ["C05-deleted-key-resurrected"])

def classify (f : Facts) : Verdict :=
  if f.encoding = .unknown then .undetermined "the record encoding of ConvertToByte / LoadFromByte was not recognised"
  else if f.incFailClean = .unknown then .undetermined "the failure path of the conditional Increment was not recognised"
  else if f.recreateKeepsPointer = .unknown then .undetermined "the re-create branch of SaveFunction was not recognised"
  else if findings f = [] then .holds
  else .violated (findings f)

theorem cfg_enc (f : Facts) : (cfgOf f).encoding = (match f.encoding with | .typeTagged => .typeTagged | _ => .gobOmitZero) := rfl
theorem cfg_incFail (f : Facts) : (cfgOf f).incFailClean = f.incFailClean.isYes := by
  simp [cfgOf, Hv.C06.cfgOf, kvFacts]
theorem cfg_recreate (f : Facts) : (cfgOf f).recreateKeepsPointer = f.recreateKeepsPointer.isYes := by
  simp [cfgOf, Hv.C06.cfgOf, kvFacts]

theorem classify_sound (f : Facts) : (classify f).Sound (Full (cfgOf f)) (HoldsPartial (cfgOf f)) := by
  unfold classify
  split
  · trivial
  split
  · trivial
  split
  · trivial
  rename_i he hi hp
  split
  · rename_i hfd
    have he' : f.encoding = .typeTagged := by
      cases hx : f.encoding <;> simp_all [findings]
    have hi' : f.incFailClean = .yes := by
      cases hx : f.incFailClean <;> simp_all [findings]
    have hp' : f.recreateKeepsPointer = .yes := by
      cases hx : f.recreateKeepsPointer <;> simp_all [findings]
    exact ⟨single_typeTagged _ (by rw [cfg_enc, he']), fail_keeps_recs _ (by rw [cfg_incFail, hi']; rfl),
           recreate_stays_filed _ (by rw [cfg_recreate, hp']; rfl)⟩
  · rename_i hfd
    refine ⟨fun hfull => ?_, C05_partial _⟩
    cases hx : f.encoding with
    | unknown => exact he hx
    | gobOmitZero => exact not_single_gob _ (by rw [cfg_enc, hx]) hfull.1
    | typeTagged =>
      cases hy : f.incFailClean with
      | unknown => exact hi hy
      | no => exact not_fail_keeps_recs _ (by rw [cfg_incFail, hy]; rfl) hfull.2.1
      | yes =>
        cases hz : f.recreateKeepsPointer with
        | unknown => exact hp hz
        | no => exact not_recreate_stays_filed _ (by rw [cfg_recreate, hz]; rfl) hfull.2.2
        | yes => simp [findings, hx, hy, hz] at hfd

/-- each listed finding is backed by a multi-session (or, for the encoding, single-session)
    history on which close + reload changes what is read -/
theorem findings_backed (f : Facts) :
    (f.encoding = .gobOmitZero → ¬ Holds (cfgOf f)) ∧
    (f.incFailClean = .no → ¬ Holds (cfgOf f)) ∧
    (f.recreateKeepsPointer = .no → ¬ Holds (cfgOf f)) := by
  refine ⟨fun he => not_holds_gob _ (by simp [cfgOf, he]), fun hc => not_holds_incfail _ ?_,
          fun hp => not_holds_resurrect _ ?_⟩
  · rw [cfg_incFail, hc]; rfl
  · rw [cfg_recreate, hp]; rfl

end Hv.C05
