/-
  C05 — Close and reload preserve every record exactly.

  "After any sequence of API operations on a persistent swamp, letting it close (idle eviction or
   shutdown) and reading it again returns, for every key, the same existence, the same value type
   and value, and the same created/updated/expiry metadata as before the close. This includes
   zero-like values such as 0, false, the empty string and empty byte arrays."

  Statement: for every history on a fresh persistent swamp, the reference view (`Model.abs`:
  existence, typed value, metadata of every key — what Get/GetAll return) after `closeStep`
  (flush of the write buffer through the storage encoding, instance dropped, next request
  reloads) equals the view before.

  Proved: the "every mutation marks dirty" invariant (`DOK`, for ANY facts) gives `close_view`:
  the reloaded view is every record passed once through `LoadFromByte ∘ ConvertToByte`; with a
  type-tagged encoding that is the identity, with gob it is the identity exactly on values that
  are not zero-like (`persistRecord_id_iff`).  Scope of the lifted theorem: write interval > 0
  (`Kind.p1`, the writer runs at close); the write-inside-Save path (`p0`) and multi-session
  histories are covered by the correspondence run only (DESIGN §8 C05, partial by construction).
-/
import Hv.Data.Persist
import Hv.Props.C06

namespace Hv.C05
open Hv.Data
open Hv.C06 (runM Hist init run_sim inv_init)

/-- full-strength statement (single session on a fresh persistent swamp, then close + reload) -/
def Holds (cfg : Cfg) : Prop :=
  ∀ (ar : Arith) (h : Hist),
    (runM cfg ar (init .p1) h).2.1.dead = false →
    Model.abs (Model.closeStep cfg (runM cfg ar (init .p1) h).2.1).1 = Model.abs (runM cfg ar (init .p1) h).2.1

theorem sok_init : SOK (init .p1) := ⟨rfl, rfl, fun i hi => by cases hi⟩

theorem sok_run (cfg : Cfg) (ar : Arith) (h : Hist) : ∀ s, SOK s → SOK (runM cfg ar s h).2.1 := by
  induction h with
  | nil => intro s hs; exact hs
  | cons p rest ih =>
    intro s hs
    obtain ⟨now, r⟩ := p
    simp only [runM]
    exact ih _ (sok_step cfg ar now s r hs)

/-- what is read back after the close, for any facts and any history -/
theorem reload_view (cfg : Cfg) (ar : Arith) (h : Hist) (hd : (runM cfg ar (init .p1) h).2.1.dead = false) :
    Model.abs (Model.closeStep cfg (runM cfg ar (init .p1) h).2.1).1 =
      match (runM cfg ar (init .p1) h).2.1.live with
      | some i => AL.mapV (reloadView cfg.encoding) i.recs
      | none => [] := by
  have hs := sok_run cfg ar h (init .p1) sok_init
  cases hl : (runM cfg ar (init .p1) h).2.1.live with
  | some i => exact close_view cfg _ hs hd i hl
  | none =>
    simp only [Model.closeStep, hd, Bool.false_eq_true, if_false, hl, Model.abs, hs.nofile]
    rfl

theorem mapV_congr {α β : Type} (f g : α → β) (l : List (String × α)) (h : ∀ p, p ∈ l → f p.2 = g p.2) :
    AL.mapV f l = AL.mapV g l := by
  induction l with
  | nil => rfl
  | cons p t ih =>
    simp only [AL.mapV, List.map_cons]
    rw [h p (by simp)]
    congr 1
    exact ih (fun q hq => h q (List.mem_cons_of_mem _ hq))

/-- **C05 for a type-tagged record encoding** — whatever the other facts are. -/
theorem holds_typeTagged (cfg : Cfg) (he : cfg.encoding = .typeTagged) : Holds cfg := by
  intro ar h hd
  rw [reload_view cfg ar h hd, he]
  cases hl : (runM cfg ar (init .p1) h).2.1.live with
  | some i => simp only [Model.abs, hl]; exact mapV_congr _ _ _ (fun p _ => rfl)
  | none =>
    have hs := sok_run cfg ar h (init .p1) sok_init
    simp [Model.abs, hl, hs.nofile, AL.mapV]

/-- **C05_partial** (gob): a history that exercises no quirk mechanism and ends without a
    zero-like value in the swamp is read back exactly. -/
def HoldsPartial (cfg : Cfg) : Prop :=
  ∀ (ar : Arith) (h : Hist),
    (runM cfg ar (init .p1) h).2.2 = [] →
    (∀ p, p ∈ Model.abs (runM cfg ar (init .p1) h).2.1 → p.2.val.zeroLike = false) →
    Model.abs (Model.closeStep cfg (runM cfg ar (init .p1) h).2.1).1 = Model.abs (runM cfg ar (init .p1) h).2.1

theorem C05_partial (cfg : Cfg) : HoldsPartial cfg := by
  intro ar h ht hz
  obtain ⟨_, _, hinv⟩ := run_sim cfg ar h (init .p1) (inv_init cfg .p1) (Or.inr ht)
  rw [reload_view cfg ar h hinv.alive]
  cases hl : (runM cfg ar (init .p1) h).2.1.live with
  | none =>
    have hs := sok_run cfg ar h (init .p1) sok_init
    simp [Model.abs, hl, hs.nofile, AL.mapV]
  | some i =>
    obtain ⟨hi, _⟩ := hinv.live i hl
    simp only [Model.abs, hl] at hz ⊢
    apply mapV_congr
    intro p hp
    have hwf := (hi.recs p hp).wf
    have hnz : p.2.c.vis.zeroLike = false := by
      have := hz (p.1, p.2.abs) (by
        simp only [AL.mapV, List.mem_map]
        exact ⟨p, hp, rfl⟩)
      simpa [MRec.abs] using this
    cases he : cfg.encoding with
    | typeTagged => rfl
    | gobOmitZero => exact (persistRecord_id_iff p.2 hwf).mpr hnz

/-! ### counterexample for gob: a typed zero does not survive -/

def hZero : Hist := [(0, .set true true [{ key := "k", val := .int .i32 0 }])]

theorem not_holds_gob (cfg : Cfg) (he : cfg.encoding = .gobOmitZero) : ¬ Holds cfg := by
  intro hh
  have h1 := hh Hv.C06.ar0 hZero
  cases hr : cfg.resetsFlags <;> cases hn : cfg.noEmptyLive <;> cases hi : cfg.saveReleasesImmediate <;>
    simp [hZero, runM, init, Model.step, Model.stepCore, Model.ghost, Model.exists_, Model.abs, AL.mapV, Model.summon,
      Model.setLoop, Model.setOne, AL.has, AL.find, Model.createTreasure, Model.applyItem, normVal, setValue,
      setScalar, Content.fresh, Content.vis, Model.validTs, Model.itemSupplied, Model.metaFlag, itemMeta,
      Model.valueTags, Model.tsTags, Model.save, AL.insert, AL.erase, Model.settleAfterTouch, Model.withLive,
      Cfg.setters, MRec.abs, Model.closeStep, Model.closeDisk, Model.flushDisk, Model.flushStep, Model.addWaiting,
      persistRec, persistContent, loadRec, Val.zeroLike, he, hr, hn, hi] at h1

/-- the witness of DESIGN §8 for the facts as extracted today (closed terms): Get shows Int32
    before the close and "no value" after -/
theorem current_zero_witness :
    Model.abs (runM Hv.C06.current Hv.C06.ar0 (init .p1) hZero).2.1 = [("k", { val := .int .i32 0 })] ∧
    Model.abs (Model.closeStep Hv.C06.current (runM Hv.C06.current Hv.C06.ar0 (init .p1) hZero).2.1).1
      = [("k", { val := .none })] := by decide

/-- non-vacuity of the partial theorem: a history with non-zero values raises no tag and ends
    without zero-like values -/
example : (runM Hv.C06.current Hv.C06.ar0 (init .p1)
    [(0, .set true true [Hv.C06.k5]), (0, .inc (.int .i64) "k" 1 none none none)]).2.2 = [] := by decide

/-! ### decision over the extracted facts -/

inductive Enc where
  | gobOmitZero | typeTagged | unknown
  deriving DecidableEq, Repr, Inhabited

structure Facts where
  encoding : Enc
  resetsFlags : Tri
  metaCompare : Tri
  tsPositive : Tri
  voidClears : Tri
  pushChecksType : Tri
  setSliceReplaces : Tri
  u32delReleases : Tri
  u32delChecksType : Tri
  incFailClean : Tri
  noEmptyLive : Tri
  arekAllFalse : Tri
  countMissingOk : Tri
  setErrSingle : Tri
  saveReleasesImmediate : Tri
  deriving DecidableEq, Repr

def kvFacts (f : Facts) : Hv.C06.Facts :=
  ⟨f.resetsFlags, f.metaCompare, f.tsPositive, f.voidClears, f.pushChecksType, f.setSliceReplaces,
   f.u32delReleases, f.u32delChecksType, f.incFailClean, f.noEmptyLive, f.arekAllFalse, f.countMissingOk,
   f.setErrSingle, f.saveReleasesImmediate⟩

def cfgOf (f : Facts) : Cfg :=
  { Hv.C06.cfgOf (kvFacts f) with encoding := match f.encoding with | .typeTagged => .typeTagged | _ => .gobOmitZero }

def classify (f : Facts) : Verdict :=
  match f.encoding with
  | .unknown => .undetermined "the record encoding of ConvertToByte / LoadFromByte was not recognised"
  | .typeTagged => .holds
  | .gobOmitZero => .violated ["C05-zero-like-reloads-void"]

theorem classify_sound (f : Facts) : (classify f).Sound (Holds (cfgOf f)) (HoldsPartial (cfgOf f)) := by
  unfold classify
  cases he : f.encoding with
  | unknown => trivial
  | typeTagged => exact holds_typeTagged _ (by simp [cfgOf, he])
  | gobOmitZero => exact ⟨not_holds_gob _ (by simp [cfgOf, he]), C05_partial _⟩

end Hv.C05
