/-
  C24 — Compression round-trips and never hides corruption.

  "For every supported compression algorithm and every input, decompressing the compressed
   form returns the input exactly.  Decompressing damaged data either returns an error or the
   original data, never different or empty data with no error."

  What is proved here is the wrapper's part, for *every* library behaviour and every byte
  string: the wrapper reports exactly what the library reports (`Faithful`).  Hence if the
  library round-trips and detects a corruption, so does the wrapper.  The libraries themselves
  (gzip/lz4/snappy/zstd) are parameters: their round-trip law and their ability to detect
  corruption are *tested* by the correspondence run, not proved (DESIGN §8 C24, partial by
  construction).
-/
import Hv.Misc.Compressor

namespace Hv.C24
open Hv.Compressor

/-- The wrapper never turns a library error into a success, and never alters data. -/
def Faithful (cfg : Cfg) : Prop :=
  ∀ (lib : Lib) (a : Alg) (c : Bytes),
    (libDecode lib a c = .err → decompress cfg lib a c = .err) ∧
    (∀ d, libDecode lib a c = .ok d → decompress cfg lib a c = .ok d)

/-- Consequence used by the property: relative to a library that round-trips `enc` and that
    answers a damaged input with an error or the original, the wrapper does too. -/
def Holds (cfg : Cfg) : Prop :=
  Faithful cfg ∧
  (∀ (lib : Lib) (a : Alg) (orig c : Bytes),
    (libDecode lib a c = .err ∨ libDecode lib a c = .ok orig) →
    (decompress cfg lib a c = .err ∨ decompress cfg lib a c = .ok orig)) ∧
  -- round trip: relative to a library that decodes what it encoded, decompressing the
  -- compressed form returns the input exactly (every input, every algorithm)
  (∀ (enc : Enc) (lib : Lib), LibRoundTrips enc lib → ∀ (a : Alg) (x c : Bytes),
    compress enc a x = .ok c → decompress cfg lib a c = .ok x)

theorem faithful_of_allPropagate (cfg : Cfg) (h : cfg.allPropagate = true) : Faithful cfg := by
  simp only [Cfg.allPropagate, Bool.and_eq_true, beq_iff_eq] at h
  obtain ⟨⟨⟨⟨h1, h2⟩, h3⟩, h4⟩, h5⟩ := h
  intro lib a c
  cases a <;> simp only [libDecode, decompress]
  · by_cases hh : lib.gzipHeaderOk c = true
    · simp only [hh, if_true, h2]
      cases lib.gzipBody c <;> simp [liftRes, viaSite]
    · simp [hh, h1, viaSite]
  · rw [h3]; cases lib.lz4 c <;> simp [liftRes, viaSite]
  · rw [h4]; cases lib.snappy c <;> simp [liftRes, viaSite]
  · rw [h5]; cases lib.zstd c <;> simp [liftRes, viaSite]

theorem holds_of_allPropagate (cfg : Cfg) (h : cfg.allPropagate = true) : Holds cfg := by
  have hf := faithful_of_allPropagate cfg h
  refine ⟨hf, ?_, ?_⟩
  · intro lib a orig c hl
    rcases hl with hl | hl
    · exact Or.inl ((hf lib a c).1 hl)
    · exact Or.inr ((hf lib a c).2 orig hl)
  · intro enc lib hrt a x c hc
    have he : enc a x = .ok c := by
      unfold compress at hc
      cases h' : enc a x with
      | ok c' => simp [h'] at hc; exact hc ▸ rfl
      | err => simp [h'] at hc
    exact (hf lib a c).2 x (hrt a x c he)

/-- Non-vacuity: a configuration where every site propagates exists (the repaired code). -/
def good : Cfg := ⟨.propagates, .propagates, .propagates, .propagates, .propagates⟩
example : good.allPropagate = true := by decide

/-- Non-vacuity of the round-trip clause: a (store-only) library that decodes what it encoded. -/
def idEnc : Enc := fun _ x => .ok x
def idLib : Lib := ⟨fun _ => true, fun c => .ok c, fun c => .ok c, fun c => .ok c, fun c => .ok c⟩
example : LibRoundTrips idEnc idLib := by
  intro a x c h
  simp only [idEnc, LibRes.ok.injEq] at h
  subst h
  cases a <;> simp [libDecode, idLib]

/-! ### Witnesses: any swallowing site makes the wrapper hide an error -/

/-- a library that rejects everything -/
def rejectAll : Lib := ⟨fun _ => false, fun _ => .err, fun _ => .err, fun _ => .err, fun _ => .err⟩
/-- a library whose gzip header check passes but whose body read fails (checksum error) -/
def rejectBody : Lib := ⟨fun _ => true, fun _ => .err, fun _ => .err, fun _ => .err, fun _ => .err⟩

/-- which algorithm / library exhibits the first non-propagating site -/
def witnessOf (cfg : Cfg) : Alg × Bool :=   -- Bool: use `rejectBody`
  if cfg.gzipNewReader != .propagates then (.gzip, false)
  else if cfg.gzipRead != .propagates then (.gzip, true)
  else if cfg.lz4Read != .propagates then (.lz4, false)
  else if cfg.snappyDecode != .propagates then (.snappy, false)
  else (.zstd, false)

theorem not_faithful_of_swallow (cfg : Cfg) (h : cfg.allPropagate = false) : ¬ Faithful cfg := by
  intro hf
  obtain ⟨s1, s2, s3, s4, s5⟩ := cfg
  have e1 := (hf rejectAll .gzip []).1 (by simp [libDecode, rejectAll])
  have e2 := (hf rejectBody .gzip []).1 (by simp [libDecode, rejectBody])
  have e3 := (hf rejectAll .lz4 []).1 (by simp [libDecode, rejectAll])
  have e4 := (hf rejectAll .snappy []).1 (by simp [libDecode, rejectAll])
  have e5 := (hf rejectAll .zstd []).1 (by simp [libDecode, rejectAll])
  simp only [decompress, rejectAll, rejectBody, liftRes, if_true] at e1 e2 e3 e4 e5
  cases s1 <;> cases s2 <;> cases s3 <;> cases s4 <;> cases s5 <;>
    simp_all [viaSite, Cfg.allPropagate]

theorem not_holds_of_swallow (cfg : Cfg) (h : cfg.allPropagate = false) : ¬ Holds cfg :=
  fun hh => not_faithful_of_swallow cfg h hh.1

/-- The current gzip wrapper: both sites return the nil named result. Closed witness. -/
theorem gzip_swallows_witness :
    decompress ⟨.swallows, .swallows, .propagates, .propagates, .propagates⟩ rejectAll .gzip [0x6e, 0x6f] = .ok [] := by
  decide

/-! ### Decision over the extracted facts -/

abbrev Facts := Cfg

def hasUnknown (f : Facts) : Bool :=
  f.gzipNewReader == .unknown || f.gzipRead == .unknown || f.lz4Read == .unknown ||
  f.snappyDecode == .unknown || f.zstdDecode == .unknown

def findings (f : Facts) : List String :=
  (if f.gzipNewReader == .swallows || f.gzipRead == .swallows then ["C24-gzip-swallows-error"] else []) ++
  (if f.lz4Read == .swallows then ["C24-lz4-swallows-error"] else []) ++
  (if f.snappyDecode == .swallows then ["C24-snappy-swallows-error"] else []) ++
  (if f.zstdDecode == .swallows then ["C24-zstd-swallows-error"] else [])

def classify (f : Facts) : Verdict :=
  if hasUnknown f then .undetermined "an error site of compressor.go was not recognised"
  else if f.allPropagate then .holds
  else .violated (findings f)

theorem classify_sound (f : Facts) : (classify f).Sound (Holds f) := by
  unfold classify
  split
  · trivial
  · split
    · rename_i h; exact holds_of_allPropagate f h
    · rename_i h; exact ⟨not_holds_of_swallow f (by simpa using h), trivial⟩

end Hv.C24
