/-
  C18 — At most one live in-memory instance per swamp.

  "However requests, idle closes and destroys interleave, the server never has two live in-memory
   instances of the same swamp at once, and every request for a swamp is served by the current
   instance.  Two instances would each append to the same storage file."

  Quantifier: every schedule, of any length, of any number of summoners of one swamp name going
  through `lookup / enter (or wait, or give up) / body (get, create, store, or leave on a
  cancelled context) / leave` and of close callbacks.  Model: `Hv/Conc/Summon.lean`.
-/
import Hv.Conc.SummonLemmas
import Hv.Basic.Verdict

namespace Hv.C18
open Hv.Summon

/-- The full-strength statement. -/
structure Holds (cfg : Cfg) : Prop where
  /-- `summon_mutex` -/
  oneLive : ∀ as s, run cfg init as = some s → s.live.length ≤ 1
  /-- the instance in `swamps` is the live one (every request is served by the current instance) -/
  mappedIsLive : ∀ as s i, run cfg init as = some s → s.swampMap = some i → s.live = [i]
  /-- at most one summoner is between `ready = true` and the deferred `ready = false` -/
  oneInside : ∀ as s a b, run cfg init as = some s → isCS (s.thr a).pc = true → isCS (s.thr b).pc = true → a = b

theorem inv_step (s : St) (a : Act) (s' : St) (h : Inv s) (hs : step rc s a = some s') : Inv s' := by
  cases a with
  | lookup t =>
    by_cases hpc : (s.thr t).pc = .idle
    · exact inv_lookup s h t hpc s' hs
    · simp [step, hpc] at hs
  | enter t =>
    simp only [step] at hs
    split at hs
    · rename_i hpc
      cases ho : (s.slots (s.thr t).slot).owner with
      | none =>
        simp only [ho] at hs; simp at hs; subst hs
        exact inv_enterAcquire s h t hpc ho
      | some o =>
        simp only [ho, rc] at hs; simp at hs; subst hs
        have hA : isA Pc.waiting = isA (s.thr t).pc := by rcases hpc with e | e <;> rw [e] <;> rfl
        have hC : isCS Pc.waiting = isCS (s.thr t).pc := by rcases hpc with e | e <;> rw [e] <;> rfl
        exact inv_repc s h t .waiting none hA hC (by simp) (by simp) (by simp)
          (by intro i; rcases hpc with e | e <;> rw [e] <;> simp)
    · simp at hs
  | giveUp t =>
    simp only [step] at hs
    split at hs
    · rename_i hc
      obtain ⟨hpc, _⟩ := hc
      simp [rc] at hs; subst hs
      have hA : isA Pc.left1 = isA (s.thr t).pc := by rcases hpc with e | e <;> rw [e] <;> rfl
      have hC : isCS Pc.left1 = isCS (s.thr t).pc := by rcases hpc with e | e <;> rw [e] <;> rfl
      exact inv_repc s h t .left1 (some (s.thr t).slot) hA hC (by simp) (by simp) (by simp)
        (by intro i; rcases hpc with e | e <;> rw [e] <;> simp)
    · simp at hs
  | bodyCtxDone t =>
    simp only [step] at hs
    split at hs
    · rename_i hpc; simp at hs; subst hs
      exact inv_repc s h t .leaving none (by rw [hpc]; rfl) (by rw [hpc]; rfl) (by simp) (by simp) (by simp)
        (by intro i; rw [hpc]; simp)
    · simp at hs
  | bodyGet t =>
    simp only [step] at hs
    split at hs
    · rename_i hpc
      split at hs
      · simp at hs; subst hs
        exact inv_repc s h t .leaving none (by rw [hpc]; rfl) (by rw [hpc]; rfl) (by simp) (by simp) (by simp)
          (by intro i; rw [hpc]; simp)
      · rename_i hm
        simp at hs; subst hs
        exact inv_repc s h t .creating none (by rw [hpc]; rfl) (by rw [hpc]; rfl) (by simp) (fun _ => hm) (by simp)
          (by intro i; rw [hpc]; simp)
    · simp at hs
  | bodyCreate t =>
    simp only [step] at hs
    split at hs
    · rename_i hpc; simp at hs; subst hs; exact inv_bodyCreate s h t hpc
    · simp at hs
  | bodyStore t =>
    simp only [step] at hs
    cases hpc : (s.thr t).pc <;> simp only [hpc] at hs <;> try (simp at hs)
    subst hs
    exact inv_bodyStore s h t _ hpc
  | leaveUnready t =>
    simp only [step] at hs
    split at hs
    · rename_i hpc; simp at hs; subst hs; exact inv_leaveUnready s h t hpc
    · simp at hs
  | leaveDec t =>
    simp only [step] at hs
    split at hs
    · rename_i hpc; simp [rc] at hs; subst hs; exact inv_leaveDec s h t hpc
    · simp at hs
  | leaveDel t =>
    simp only [step] at hs
    split at hs
    · rename_i hpc; exact absurd hpc (h.noLeft2 t)
    · simp at hs
  | closeCallback =>
    simp only [step] at hs
    cases hm : s.swampMap with
    | none => simp [hm] at hs
    | some i => simp only [hm] at hs; simp at hs; subst hs; exact inv_close s h i hm

theorem reach_inv (as : List Act) (s : St) (h : run rc init as = some s) : Inv s :=
  LTS.inv_run (step rc) Inv (fun s a s' hi hs => inv_step s a s' hi hs) init as s inv_init h

/-- `summon_mutex`: with reference-counted slots no schedule has two live instances. -/
theorem summon_mutex : Holds rc := by
  refine ⟨?_, ?_, ?_⟩
  · intro as s h
    have hi := reach_inv as s h
    cases hm : s.swampMap with
    | some i => rw [(hi.mapped i hm).1]; simp
    | none =>
      by_cases hc : ∃ t j, (s.thr t).pc = .created j
      · obtain ⟨t, j, e⟩ := hc
        rw [(hi.created t j e).2]; simp
      · have : s.live = [] := hi.empty hm (by intro t j e; exact hc ⟨t, j, e⟩)
        rw [this]; simp
  · intro as s i h hm; exact ((reach_inv as s h).mapped i hm).1
  · intro as s a b h ha hb; exact cs_unique s (reach_inv as s h) a b ha hb

/-- Non-vacuity: three summoners under the repaired bookkeeping; the first leaves on a cancelled
    context while the second waits — the slot survives (count 2 → 1), the third joins the same
    slot and waits; one instance is created, the third is served the stored one. -/
example : (run rc init [.lookup 1, .enter 1, .lookup 2, .enter 2, .bodyCtxDone 1, .leaveUnready 1, .leaveDec 1,
      .enter 2, .lookup 3, .enter 3, .bodyGet 2, .bodyCreate 2, .bodyStore 2, .leaveUnready 2, .leaveDec 2,
      .enter 3, .bodyGet 3, .leaveUnready 3, .leaveDec 3]).map
    (fun s => (s.live, s.swampMap, s.slotMap, s.nextSlot)) = some ([0], some 0, none, 1) := by decide

/-! ### The bookkeeping as it is: only waiters count -/

def current : Cfg := { refCounted := false }

/-- S1 owns the slot (uncounted), S2 waits (count 1), S1 leaves on a cancelled context and its
    decrement drops the slot from the map; S2 wakes on the orphan, S3 gets a fresh slot; both are
    inside, both find no swamp, both create. -/
def witness : List Act :=
  [.lookup 1, .enter 1, .lookup 2, .enter 2, .bodyCtxDone 1, .leaveUnready 1, .leaveDec 1, .leaveDel 1,
   .enter 2, .lookup 3, .enter 3, .bodyGet 2, .bodyGet 3, .bodyCreate 2, .bodyCreate 3]

theorem witness_two_live :
    (run current init witness).map (fun s => (s.live, (s.thr 2).slot, (s.thr 3).slot, s.slotMap)) =
    some ([0, 1], 0, 1, some 1) := by decide

theorem refutes_current : ¬ Holds current := by
  intro h
  cases hs : run current init witness with
  | none => have := witness_two_live; simp [hs] at this
  | some s =>
    have hw := witness_two_live
    simp [hs] at hw
    have := h.oneLive witness s hs
    rw [hw.1] at this; simp at this

/-! ### Decision over the extracted facts -/

structure Facts where
  /-- `LoadOrStore(name, newSwampWaiter())` on `summoningSwamps` -/
  lookupLoadOrStore : Tri
  /-- the wait loop `for waiter.ready { … count++ ; Wait() }` then `ready = true`, all under `cond.L` -/
  enterUnderCondLock : Tri
  /-- who increments `waiter.count`: only waiters inside the loop (`no`) / every entrant with the lookup (`yes`) -/
  everyEntrantCounts : Tri
  /-- deferred block: `ready = false; Broadcast()` under `L`, then `AddInt32(-1)`, then `Delete` when the count reads 0 -/
  leaveShape : Tri
  /-- the decrement and the conditional delete are one atomic step with respect to lookups -/
  decDeleteAtomic : Tri
  /-- `createNewSwamp` and `swamps.Store` only inside the critical section, after `getSwamp` returned nil -/
  createInsideOnly : Tri
  /-- the close callback is `swamps.Delete(name)` -/
  callbackDeletes : Tri
  deriving Repr

def structural (f : Facts) : Bool :=
  f.lookupLoadOrStore.isYes && f.enterUnderCondLock.isYes && f.createInsideOnly.isYes && f.callbackDeletes.isYes

def classify (f : Facts) : Verdict :=
  if !structural f then .undetermined "SummonSwamp no longer has the modelled shape" else
  match f.everyEntrantCounts, f.decDeleteAtomic, f.leaveShape with
  | .yes, .yes, _ => .holds
  | .no, .no, .yes => .violated ["C18-slot-dropped-while-in-use"]
  | _, _, _ => .undetermined "summon slot bookkeeping (who counts / how the slot is deleted)"

def cfgOf (f : Facts) : Cfg := { refCounted := f.everyEntrantCounts.isYes && f.decDeleteAtomic.isYes }

theorem classify_sound (f : Facts) : (classify f).Sound (Holds (cfgOf f)) := by
  unfold classify
  split
  · simp [Verdict.Sound]
  · cases he : f.everyEntrantCounts <;> cases hd : f.decDeleteAtomic <;> cases hl : f.leaveShape <;>
      simp only [Verdict.Sound, cfgOf, he, hd, Tri.isYes, Bool.and_self, Bool.and_false, Bool.false_and] <;>
      first
        | trivial
        | exact summon_mutex
        | exact ⟨refutes_current, trivial⟩

end Hv.C18
