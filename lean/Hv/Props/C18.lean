/-
  C18 — At most one live in-memory instance per swamp.

  "However requests, idle closes and destroys interleave, the server never has two live in-memory
   instances of the same swamp at once, and every request for a swamp is served by the current
   instance.  Two instances would each append to the same storage file."

  Quantifier: every schedule, of any length, of any number of summoners of one swamp name going
  through `lookup / enter (or wait, or give up) / body (get, create, store, or leave on a
  cancelled context) / leave` and of close callbacks.  Model: `Hv/Conc/Summon.lean`.
-/
import Hv.Conc.SummonLemmas
import Hv.Conc.SummonExit
import Hv.Basic.Verdict

namespace Hv.C18
open Hv.Summon

/-- The full-strength statement. -/
structure Holds (cfg : Cfg) : Prop where
  /-- `summon_mutex` -/
  oneLive : ∀ as s, run cfg init as = some s → s.live.length ≤ 1
  /-- the instance in `swamps` is the live one (every request is served by the current instance) -/
  mappedIsLive : ∀ as s i, run cfg init as = some s → s.swampMap = some i → s.live = [i]
  /-- at most one summoner is between `ready = true` and the deferred `ready = false` -/
  oneInside : ∀ as s a b, run cfg init as = some s → isCS (s.thr a).pc = true → isCS (s.thr b).pc = true → a = b

theorem inv_step (s : St) (a : Act) (s' : St) (h : Inv s) (hp : PubInv s) (hs : step rc s a = some s') : Inv s' := by
  cases a with
  | lookup t =>
    by_cases hpc : (s.thr t).pc = .idle
    · exact inv_lookup s h t hpc s' hs
    · simp [step, hpc] at hs
  | enter t =>
    simp only [step] at hs
    split at hs
    · rename_i hpc
      cases ho : (s.slots (s.thr t).slot).owner with
      | none =>
        simp only [ho] at hs; simp at hs; subst hs
        exact inv_enterAcquire s h t hpc ho
      | some o =>
        simp only [ho, rc] at hs; simp at hs; subst hs
        have hA : isA Pc.waiting = isA (s.thr t).pc := by rcases hpc with e | e <;> rw [e] <;> rfl
        have hC : isCS Pc.waiting = isCS (s.thr t).pc := by rcases hpc with e | e <;> rw [e] <;> rfl
        exact inv_repc s h t .waiting none hA hC (by simp) (by simp) (by simp)
          (by intro i; rcases hpc with e | e <;> rw [e] <;> simp)
    · simp at hs
  | giveUp t =>
    simp only [step] at hs
    split at hs
    · rename_i hc
      obtain ⟨hpc, _⟩ := hc
      simp [rc] at hs; subst hs
      have hA : isA Pc.left1 = isA (s.thr t).pc := by rcases hpc with e | e <;> rw [e] <;> rfl
      have hC : isCS Pc.left1 = isCS (s.thr t).pc := by rcases hpc with e | e <;> rw [e] <;> rfl
      exact inv_repc s h t .left1 (some (s.thr t).slot) hA hC (by simp) (by simp) (by simp)
        (by intro i; rcases hpc with e | e <;> rw [e] <;> simp)
    · simp at hs
  | bodyCtxDone t =>
    simp only [step] at hs
    split at hs
    · rename_i hpc; simp at hs; subst hs
      exact inv_repc s h t .leaving none (by rw [hpc]; rfl) (by rw [hpc]; rfl) (by simp) (by simp) (by simp)
        (by intro i; rw [hpc]; simp)
    · simp at hs
  | bodyGet t =>
    simp only [step] at hs
    split at hs
    · rename_i hpc
      split at hs
      · simp at hs; subst hs
        exact inv_repc s h t .leaving none (by rw [hpc]; rfl) (by rw [hpc]; rfl) (by simp) (by simp) (by simp)
          (by intro i; rw [hpc]; simp)
      · rename_i hm
        simp at hs; subst hs
        exact inv_repc s h t .creating none (by rw [hpc]; rfl) (by rw [hpc]; rfl) (by simp) (fun _ => hm) (by simp)
          (by intro i; rw [hpc]; simp)
    · simp at hs
  | bodyCreate t =>
    simp only [step] at hs
    split at hs
    · rename_i hpc; simp at hs; subst hs; exact inv_bodyCreate s h t hpc
    · simp at hs
  | bodyStore t =>
    simp only [step] at hs
    cases hpc : (s.thr t).pc <;> simp only [hpc] at hs <;> try (simp at hs)
    subst hs
    exact inv_bodyStore s h t _ hpc
  | leaveUnready t =>
    simp only [step] at hs
    split at hs
    · rename_i hpc; simp at hs; subst hs; exact inv_leaveUnready s h t hpc
    · simp at hs
  | leaveDec t =>
    simp only [step] at hs
    split at hs
    · rename_i hpc; simp [rc] at hs; subst hs; exact inv_leaveDec s h t hpc
    · simp at hs
  | leaveDel t =>
    simp only [step] at hs
    split at hs
    · rename_i hpc; exact absurd hpc (h.noLeft2 t)
    · simp at hs
  | closeInst i =>
    simp only [step] at hs
    split at hs
    · rename_i hc
      simp at hs; subst hs
      have hm : s.swampMap = some i := hp.liveMapped i hc.2 hc.1
      have : unmap rc s.swampMap i = none := by simp [unmap, rc, hm]
      rw [this]
      exact inv_close s h i hm
    · simp at hs
  | staleCallback i =>
    simp only [step] at hs
    split at hs
    · rename_i hc
      simp at hs; subst hs
      have hne : s.swampMap ≠ some i := by
        intro e; have := (h.mapped i e).1; rw [this] at hc; simp at hc
      have : unmap rc s.swampMap i = s.swampMap := by simp [unmap, rc, hne]
      rw [this]
      exact h
    · simp at hs

theorem created_setThr (s : St) (thr0 : Nat → Thread) (t : Nat) (x : Thread)
    (h0 : ∀ y j, (thr0 y).pc = .created j → (s.thr y).pc = .created j) (hx : ∀ j, x.pc ≠ .created j) :
    ∀ y j, (setThr { s with thr := thr0 } t x y).pc = .created j → (s.thr y).pc = .created j := by
  intro y j e
  by_cases hy : y = t
  · subst hy; simp [setThr] at e; exact absurd e (hx j)
  · simp [setThr, hy] at e; exact h0 y j e

theorem pub_step (s : St) (a : Act) (s' : St) (h : Inv s) (hp : PubInv s) (hs : step rc s a = some s') : PubInv s' := by
  obtain ⟨hLM, hB, hCB⟩ := hp
  have plain : ∀ (t : Nat) (x : Thread), (∀ j, x.pc ≠ .created j) →
      ∀ y j, (setThr s t x y).pc = .created j → j < s.nextInst := by
    intro t x hx y j e
    exact hCB y j (created_setThr s s.thr t x (fun _ _ e => e) hx y j e)
  have woken : ∀ (σ t : Nat) (x : Thread), (∀ j, x.pc ≠ .created j) →
      ∀ y j, (setThr { s with thr := wake s.thr σ } t x y).pc = .created j → j < s.nextInst := by
    intro σ t x hx y j e
    exact hCB y j (created_setThr s (wake s.thr σ) t x (fun y j e => (wake_created _ _ _ j).mp e) hx y j e)
  cases a with
  | lookup t =>
    simp only [step] at hs
    split at hs
    · cases hm : s.slotMap with
      | some σ => simp only [hm] at hs; simp at hs; subst hs; exact ⟨hLM, hB, plain t _ (by simp)⟩
      | none => simp only [hm] at hs; simp at hs; subst hs; exact ⟨hLM, hB, plain t _ (by simp)⟩
    · simp at hs
  | enter t =>
    simp only [step] at hs
    split at hs
    · cases ho : (s.slots (s.thr t).slot).owner with
      | none => simp only [ho] at hs; simp at hs; subst hs; exact ⟨hLM, hB, plain t _ (by simp)⟩
      | some o => simp only [ho] at hs; simp at hs; subst hs; exact ⟨hLM, hB, plain t _ (by simp)⟩
    · simp at hs
  | giveUp t =>
    simp only [step] at hs
    split at hs
    · simp [rc] at hs; subst hs; exact ⟨hLM, hB, woken _ t _ (by simp)⟩
    · simp at hs
  | bodyCtxDone t =>
    simp only [step] at hs
    split at hs
    · simp at hs; subst hs; exact ⟨hLM, hB, plain t _ (by simp)⟩
    · simp at hs
  | bodyGet t =>
    simp only [step] at hs
    split at hs
    · split at hs <;> simp at hs <;> subst hs <;> exact ⟨hLM, hB, plain t _ (by simp)⟩
    · simp at hs
  | bodyCreate t =>
    simp only [step] at hs
    split at hs
    · rename_i hpc
      simp at hs; subst hs
      refine ⟨?_, ?_, ?_⟩
      · intro i hi hl
        dsimp only at hi hl ⊢
        -- the new instance is not published yet, and nothing else is alive
        have hnone := h.creating t hpc
        have : s.live = [] := by
          apply h.empty hnone
          intro y j e
          have hc1 : isCS (s.thr y).pc = true := by rw [e]; rfl
          have hc2 : isCS (s.thr t).pc = true := by rw [hpc]; rfl
          have := cs_unique s h y t hc1 hc2
          subst this; rw [hpc] at e; simp at e
        rw [this] at hl; simp at hl
        have := hB i hi; omega
      · intro i hi; have := hB i hi; show i < s.nextInst + 1; omega
      · intro y j e
        dsimp only at e ⊢
        by_cases hy : y = t
        · subst hy; simp [setThr] at e; omega
        · simp [setThr, hy] at e; have := hCB y j e; omega
    · simp at hs
  | bodyStore t =>
    simp only [step] at hs
    cases hpc : (s.thr t).pc <;> simp only [hpc] at hs <;> try (simp at hs)
    subst hs
    rename_i i
    have hl := (h.created t i hpc).2
    refine ⟨?_, ?_, plain t _ (by simp)⟩
    · intro k hk hkl
      dsimp only at hk hkl ⊢
      rw [hl] at hkl; simp at hkl; rw [hkl]
    · intro k hk
      dsimp only at hk ⊢
      rcases List.mem_append.mp hk with hk | hk
      · exact hB k hk
      · simp at hk; subst hk; exact hCB t k hpc
  | leaveUnready t =>
    simp only [step] at hs
    split at hs
    · simp at hs; subst hs; exact ⟨hLM, hB, woken _ t _ (by simp)⟩
    · simp at hs
  | leaveDec t =>
    simp only [step] at hs
    split at hs
    · simp [rc] at hs; subst hs; exact ⟨hLM, hB, plain t _ (by simp)⟩
    · simp at hs
  | leaveDel t =>
    simp only [step] at hs
    split at hs
    · simp at hs; subst hs; exact ⟨hLM, hB, plain t _ (by simp)⟩
    · simp at hs
  | closeInst i =>
    simp only [step] at hs
    split at hs
    · rename_i hc
      simp at hs; subst hs
      have hm : s.swampMap = some i := hLM i hc.2 hc.1
      have hlive : s.live = [i] := (h.mapped i hm).1
      refine ⟨?_, hB, hCB⟩
      intro k _ hkl
      dsimp only at hkl
      rw [hlive] at hkl; simp at hkl
    · simp at hs
  | staleCallback i =>
    simp only [step] at hs
    split at hs
    · rename_i hc
      simp at hs; subst hs
      have hne : s.swampMap ≠ some i := by
        intro e; have := (h.mapped i e).1; rw [this] at hc; simp at hc
      have hun : unmap rc s.swampMap i = s.swampMap := by simp [unmap, rc, hne]
      refine ⟨?_, hB, hCB⟩
      intro k hk hkl
      dsimp only at hkl ⊢
      rw [hun]; exact hLM k hk hkl
    · simp at hs

theorem reach_both (as : List Act) (s : St) (h : run rc init as = some s) : Inv s ∧ PubInv s :=
  LTS.inv_run (step rc) (fun s => Inv s ∧ PubInv s)
    (fun s a s' hi hs => ⟨inv_step s a s' hi.1 hi.2 hs, pub_step s a s' hi.1 hi.2 hs⟩) init as s ⟨inv_init, pub_init⟩ h

theorem reach_inv (as : List Act) (s : St) (h : run rc init as = some s) : Inv s := (reach_both as s h).1

/-- `summon_mutex`: with reference-counted slots no schedule has two live instances. -/
theorem summon_mutex : Holds rc := by
  refine ⟨?_, ?_, ?_⟩
  · intro as s h
    have hi := reach_inv as s h
    cases hm : s.swampMap with
    | some i => rw [(hi.mapped i hm).1]; simp
    | none =>
      by_cases hc : ∃ t j, (s.thr t).pc = .created j
      · obtain ⟨t, j, e⟩ := hc
        rw [(hi.created t j e).2]; simp
      · have : s.live = [] := hi.empty hm (by intro t j e; exact hc ⟨t, j, e⟩)
        rw [this]; simp
  · intro as s i h hm; exact ((reach_inv as s h).mapped i hm).1
  · intro as s a b h ha hb; exact cs_unique s (reach_inv as s h) a b ha hb

/-- Non-vacuity: three summoners under the repaired bookkeeping; the first leaves on a cancelled
    context while the second waits — the slot survives (count 2 → 1), the third joins the same
    slot and waits; one instance is created, the third is served the stored one. -/
example : (run rc init [.lookup 1, .enter 1, .lookup 2, .enter 2, .bodyCtxDone 1, .leaveUnready 1, .leaveDec 1,
      .enter 2, .lookup 3, .enter 3, .bodyGet 2, .bodyCreate 2, .bodyStore 2, .leaveUnready 2, .leaveDec 2,
      .enter 3, .bodyGet 3, .leaveUnready 3, .leaveDec 3]).map
    (fun s => (s.live, s.swampMap, s.slotMap, s.nextSlot)) = some ([0], some 0, none, 1) := by decide

/-! ### The bookkeeping as it is: only waiters count -/

/-- S1 owns the slot (uncounted), S2 waits (count 1), S1 leaves on a cancelled context and its
    decrement drops the slot from the map; S2 wakes on the orphan, S3 gets a fresh slot; both are
    inside, both find no swamp, both create. -/
def witness : List Act :=
  [.lookup 1, .enter 1, .lookup 2, .enter 2, .bodyCtxDone 1, .leaveUnready 1, .leaveDec 1, .leaveDel 1,
   .enter 2, .lookup 3, .enter 3, .bodyGet 2, .bodyGet 3, .bodyCreate 2, .bodyCreate 3]

theorem witness_two_live (c : Bool) :
    (run { refCounted := false, callbackCompares := c } init witness).map
      (fun s => (s.live, (s.thr 2).slot, (s.thr 3).slot, s.slotMap)) = some ([0, 1], 0, 1, some 1) := by
  cases c <;> decide

theorem refutes_waiterCount (c : Bool) : ¬ Holds { refCounted := false, callbackCompares := c } := by
  intro h
  cases hs : run { refCounted := false, callbackCompares := c } init witness with
  | none => have := witness_two_live c; simp [hs] at this
  | some s =>
    have hw := witness_two_live c
    simp [hs] at hw
    have := h.oneLive witness s hs
    rw [hw.1] at this; simp at this

/-! ### The close callback as it is: `swamps.Delete(name)` -/

/-- Instance 0 is summoned and closes; instance 1 is summoned; a second callback of the dead
    instance 0 (`Destroy()` on the stale handle) deletes the map entry — by name — under the live
    instance 1; the next summoner finds nothing and creates instance 2. -/
def witnessStale : List Act :=
  [.lookup 1, .enter 1, .bodyGet 1, .bodyCreate 1, .bodyStore 1, .leaveUnready 1, .leaveDec 1, .leaveDel 1,
   .closeInst 0,
   .lookup 2, .enter 2, .bodyGet 2, .bodyCreate 2, .bodyStore 2, .leaveUnready 2, .leaveDec 2, .leaveDel 2,
   .staleCallback 0,
   .lookup 3, .enter 3, .bodyGet 3, .bodyCreate 3]

/-- (`leaveDel` is not a step of the reference-counted variant: the schedule without it) -/
def witnessStaleRc : List Act := witnessStale.filter (fun a => match a with | .leaveDel _ => false | _ => true)

theorem witness_stale_two_live :
    (run { refCounted := true, callbackCompares := false } init witnessStaleRc).map (fun s => (s.live, s.swampMap)) =
      some ([1, 2], none) ∧
    (run { refCounted := false, callbackCompares := false } init witnessStale).map (fun s => (s.live, s.swampMap)) =
      some ([1, 2], none) := by
  constructor <;> decide

theorem refutes_staleCallback : ¬ Holds { refCounted := true, callbackCompares := false } := by
  intro h
  cases hs : run { refCounted := true, callbackCompares := false } init witnessStaleRc with
  | none => have := witness_stale_two_live.1; simp [hs] at this
  | some s =>
    have hw := witness_stale_two_live.1
    simp [hs] at hw
    have := h.oneLive witnessStaleRc s hs
    rw [hw.1] at this; simp at this

/-! ### Decision over the extracted facts -/

structure Facts where
  /-- `LoadOrStore(name, newSwampWaiter())` on `summoningSwamps` -/
  lookupLoadOrStore : Tri
  /-- the wait loop `for waiter.ready { … count++ ; Wait() }` then `ready = true`, all under `cond.L` -/
  enterUnderCondLock : Tri
  /-- who increments `waiter.count`: only waiters inside the loop (`no`) / every entrant with the lookup (`yes`) -/
  everyEntrantCounts : Tri
  /-- deferred block: `ready = false; Broadcast()` under `L`, then the decrement and the delete at zero -/
  leaveShape : Tri
  /-- the decrement and the conditional delete are one atomic step with respect to lookups -/
  decDeleteAtomic : Tri
  /-- `createNewSwamp` and `swamps.Store` only inside the critical section, after `getSwamp` returned nil -/
  createInsideOnly : Tri
  /-- the close callback removes the `swamps` entry only if it is still this instance
      (`CompareAndDelete`): yes; `swamps.Delete(name)`: no -/
  callbackCompares : Tri
  /-- the deferred exit ends with `if err == nil && swampObj != nil && swampObj.IsClosing() { … swampObj, err =
      h.SummonSwamp(ctx, islandID, swampName) }`: an instance that was closed while the summoner left the
      wait slot is not handed out — the summoner enters the protocol again (yes); no such statement (no) -/
  exitRechecksClosing : Tri
  deriving Repr

def structural (f : Facts) : Bool :=
  f.lookupLoadOrStore.isYes && f.enterUnderCondLock.isYes && f.createInsideOnly.isYes && f.leaveShape.isYes

def triBool : Tri → Option Bool
  | .yes => some true | .no => some false | .unknown => none

/-- reference counted = every entrant counts ∧ decrement+delete atomic; anything mixed is not covered -/
def rcFact (f : Facts) : Option Bool :=
  match f.everyEntrantCounts, f.decDeleteAtomic with
  | .yes, .yes => some true
  | .no, .no => some false
  | _, _ => none

/-- The property with the hand-out clause: besides `Holds` (one live instance, one summoner inside —
    the re-summon of the deferred exit is an ordinary entrant of the same LTS, another thread id, so
    `summon_mutex` covers it unchanged), the instance a summoner hands out is not closing at hand-out. -/
structure HoldsAll (cfg : Cfg) (exitRechecks : Bool) : Prop where
  core : Holds cfg
  handsOutLive : ∀ as s, SummonExit.run ⟨exitRechecks⟩ SummonExit.init as = some s → s.handedClosed = false

/-- the re-entry after a closed instance is just another entrant: `summon_mutex` for every schedule,
    whatever thread ids take part -/
theorem resummon_covered : Holds rc := summon_mutex

theorem holds_all : HoldsAll rc true := ⟨summon_mutex, SummonExit.hands_out_live⟩

/-- no re-check at the end of the deferred exit: an instance closed by its idle listener while the
    summoner was leaving the wait slot is handed out (`SummonExit.witness_hands_out_closed`) -/
theorem refutes_noRecheck (cfg : Cfg) : ¬ HoldsAll cfg false := by
  intro h
  have hw := SummonExit.witness_hands_out_closed
  cases hs : SummonExit.run ⟨false⟩ SummonExit.init SummonExit.witness with
  | none => simp [hs] at hw
  | some s =>
    simp [hs] at hw
    have := h.handsOutLive SummonExit.witness s hs
    rw [hw.2] at this
    cases this

def classify (f : Facts) : Verdict :=
  if !structural f then .undetermined "SummonSwamp no longer has the modelled shape" else
  match triBool f.exitRechecksClosing with
  | none => .undetermined "the end of SummonSwamp's deferred exit"
  | some false => .violated ["C18-hands-out-closed-instance"]
  | some true =>
  match rcFact f, triBool f.callbackCompares with
  | some true, some true => .holds
  | some false, some true => .violated ["C18-slot-dropped-while-in-use"]
  | some false, some false => .violated ["C18-slot-dropped-while-in-use", "C18-stale-callback-unmaps-live-instance"]
  | some true, some false => .violated ["C18-stale-callback-unmaps-live-instance"]
  | _, _ => .undetermined "summon slot bookkeeping / close callback shape"

def cfgOf (f : Facts) : Cfg :=
  { refCounted := (rcFact f).getD false, callbackCompares := (triBool f.callbackCompares).getD false }

def exitOf (f : Facts) : Bool := f.exitRechecksClosing.isYes

theorem classify_sound (f : Facts) : (classify f).Sound (HoldsAll (cfgOf f) (exitOf f)) := by
  unfold classify
  split
  · simp [Verdict.Sound]
  · cases he : f.exitRechecksClosing
    · -- yes
      rw [show triBool Tri.yes = some true from rfl]
      dsimp only
      cases hr : rcFact f with
      | none => simp [Verdict.Sound]
      | some r =>
        cases hc : triBool f.callbackCompares with
        | none => simp [Verdict.Sound]
        | some c =>
          cases r <;> cases c <;> simp only [Verdict.Sound, cfgOf, exitOf, he, hr, hc, Option.getD, Tri.isYes]
          · exact ⟨fun h => refutes_waiterCount false h.core, trivial⟩
          · exact ⟨fun h => refutes_waiterCount true h.core, trivial⟩
          · exact ⟨fun h => refutes_staleCallback h.core, trivial⟩
          · exact holds_all
    · -- no
      rw [show triBool Tri.no = some false from rfl]
      simp only [Verdict.Sound, exitOf, he, Tri.isYes]
      exact ⟨refutes_noRecheck _, trivial⟩
    · rw [show triBool Tri.unknown = none from rfl]
      simp [Verdict.Sound]

end Hv.C18
