/-
  C07 — Ordered index reads return the correctly sorted, ranged page.

  "For any swamp contents reached by any history, an index read by key, creation time, update
   time, expiry time or value, in either order and with any offset, limit and time window,
   returns exactly the records that carry that attribute, sorted by it, restricted to
   [from, to), then paged.  Records with equal sort values may appear in any order."

  Model: `Hv/Data/Beacon.lean` (lazy cold build, incremental maintenance, in-place updates,
  `GetManyFromOrderPosition`, `findTimeRangeBounds`), parametrised by the code facts `Cfg`.
  Spec: `CorrectPage` (ibid.).  Lemmas: `Hv/Data/BeaconLemmas.lean`.
-/
import Hv.Data.BeaconLemmas
import Hv.Data.BeaconSingle
import Hv.Data.BeaconRange

namespace Hv.C07
open Hv.Beacon

/-- Full-strength statement: after every history, every index read that is answered is a
    correct page of the swamp's current contents.  (`answer = none` is the gateway's
    "Swamp does not exist" when no record is alive.) -/
def HoldsSeq (cfg : Cfg) : Prop :=
  ∀ (h : List Op) (q : Query) (res : List Rec),
    answer cfg (run cfg h) q = some res → CorrectPage res q (run cfg h).store

/-- …also for the second of two concurrent first readers of an index (the only concurrency in
    this property: reads that race on the lazy build; writes stay sequential) -/
def HoldsRace (cfg : Cfg) : Prop :=
  ∀ (h : List Op) (q : Query) (res : List Rec),
    answerSecond cfg (run cfg h) q = some res → CorrectPage res q (run cfg h).store

/-- the claim-race witness: `k1` (n = 1) and `k2` (n = 2) are selected by a key-ordered shift for
    `n >= 1`; before the shifter gets to its deletes `k1`'s counter is set to 0 (it does not match any
    more).  `k1` must be alive and back in the key index afterwards, `k2` claimed. -/
def claimWitnessOk (cfg : Cfg) : Bool :=
  let q : Query := { slot := .key, asc := true, from_ := 0, limit := 0, fromT := none, toT := none }
  let st0 := run cfg [.set { key := "k0", ct := .i64, val := 7, created := 0, updated := 0, expire := 0 },
                      .set { key := "k1", ct := .bytes, val := 1, created := 0, updated := 0, expire := 0 },
                      .set { key := "k2", ct := .bytes, val := 2, created := 0, updated := 0, expire := 0 }]
  let (st1, keys) := claimSelect cfg st0 q 1
  let st2 := stepSet cfg st1 { key := "k1", ct := .bytes, val := 0, created := 0, updated := 0, expire := 0 }
  let (st3, claimed) := claimRelease cfg st2 1 keys
  claimed == ["k2"] && (answer cfg st3 q).map (·.map (·.key)) == some ["k0", "k1"]

/-- …in the forced schedule of `claimWitnessOk` the record that lost the claim is read again -/
def HoldsClaim (cfg : Cfg) : Prop := claimWitnessOk cfg = true

/-- Full-strength statement: every answered read is a correct page, the second of two racing
    first readers included, and a record that loses a claim race is back in its index. -/
def Holds (cfg : Cfg) : Prop := HoldsSeq cfg ∧ HoldsRace cfg ∧ HoldsClaim cfg

/-- the same, for reads of the index types in `S` only (the history is still arbitrary) -/
def HoldsFor (cfg : Cfg) (S : Slot → Prop) : Prop :=
  ∀ (h : List Op) (q : Query) (res : List Rec), S q.slot →
    answer cfg (run cfg h) q = some res → CorrectPage res q (run cfg h).store

/-! ### 1. the two binary searches -/

/-- On every list of timestamps sorted ascending (`asc = true`) or descending, the bounds
    returned by `findTimeRangeBounds` enclose exactly the indices whose timestamp lies in
    `[fromT, toT)` — for any combination of present/absent bounds, any duplicates, any length. -/
theorem bounds_correct (cfg : Cfg) (hg : BsGood cfg) (asc : Bool) (tl : List Int) (fromT toT : Option Int)
    (hs : if asc then tl.Pairwise (fun a b => a ≤ b) else tl.Pairwise (fun a b => b ≤ a)) :
    ∀ i, i < tl.length →
      (((findBounds cfg asc tl fromT toT).1 ≤ (i : Int) ∧ (i : Int) ≤ (findBounds cfg asc tl fromT toT).2) ↔
        win fromT toT (tl.getD i 0) = true) := by
  intro i hi
  have hn : ¬ tl.length = 0 := by omega
  have hiv : boundStart cfg asc tl fromT toT ≤ tl.length ∧ boundStop cfg asc tl fromT toT ≤ tl.length ∧
      ∀ i, i < tl.length → (win fromT toT (tl.getD i 0) = true ↔
        (boundStart cfg asc tl fromT toT ≤ i ∧ i < boundStop cfg asc tl fromT toT)) := by
    cases asc with
    | true => exact window_interval_asc cfg hg tl fromT toT (by simpa using hs)
    | false => exact window_interval_desc cfg hg tl fromT toT (by simpa using hs)
  obtain ⟨ha, hb, hw⟩ := hiv
  simp only [findBounds, hn, if_false]
  rw [hw i hi]
  exact normBounds_spec _ _ _ ha hb i hi

/-- the bounds never leave the slice, and `(0,-1)`-style emptiness is the only degenerate shape -/
theorem bounds_in_range (cfg : Cfg) (hg : BsGood cfg) (asc : Bool) (l : List Rec) (tsf : Rec → Int)
    (fromT toT : Option Int)
    (hs : if asc then l.Pairwise (fun a b => tsf a ≤ tsf b) else l.Pairwise (fun a b => tsf b ≤ tsf a)) :
    0 ≤ (findBounds cfg asc (l.map tsf) fromT toT).1 ∧ (findBounds cfg asc (l.map tsf) fromT toT).2 < l.length := by
  have := findBounds_slice cfg hg asc l tsf fromT toT hs
  exact ⟨this.1, this.2.1⟩

/-! ### 2. the page -/

theorem ordB_ts (s : Slot) (asc : Bool) (a b : Rec) (h : ordB s asc a b) :
    if asc then ts s a ≤ ts s b else ts s b ≤ ts s a := by
  cases s <;> cases asc <;>
    simp only [ordB, lessPure, Bool.false_eq_true, if_false, if_true, decide_eq_false_iff_not] at h <;>
    simp only [ts, Bool.false_eq_true, if_false, if_true] <;> omega

theorem sorted_ts (s : Slot) (asc : Bool) (l : List Rec) (h : l.Pairwise (ordB s asc)) :
    if asc then l.Pairwise (fun a b => ts s a ≤ ts s b) else l.Pairwise (fun a b => ts s b ≤ ts s a) := by
  cases asc
  · simp only [Bool.false_eq_true, if_false]
    exact h.imp (fun {a b} hab => by simpa using ordB_ts s false a b hab)
  · simp only [if_true]
    exact h.imp (fun {a b} hab => by simpa using ordB_ts s true a b hab)

theorem inWindow_eq_win (q : Query) (r : Rec) : inWindow q r = win q.fromT q.toT (ts q.slot r) := by
  unfold inWindow win loOk hiOk
  cases q.fromT <;> cases q.toT <;> rfl

/-- `GetManyFromOrderPosition` on a slice sorted in the beacon's order is the Spec's page of the
    Spec's window — for every offset, limit (0 = all) and window. -/
theorem page_correct (cfg : Cfg) (hg : BsGood cfg) (q : Query) (l : List Rec)
    (hs : l.Pairwise (ordB q.slot q.asc)) :
    getMany cfg l (ts q.slot) q.asc q.from_ q.limit
        (if q.slot.isTime then q.fromT else none) (if q.slot.isTime then q.toT else none) =
      page q (inRange q l) := by
  rw [getMany_eq cfg hg q.asc l (ts q.slot) q.from_ q.limit _ _ (sorted_ts q.slot q.asc l hs)]
  unfold page pageOf inRange
  cases ht : q.slot.isTime
  · simp
  · simp only [if_true]
    have : (if (q.fromT.isSome || q.toT.isSome) = true then l.filter (fun r => win q.fromT q.toT (ts q.slot r)) else l)
        = l.filter (inWindow q) := by
      have hf : (fun r => win q.fromT q.toT (ts q.slot r)) = inWindow q := by
        funext r; exact (inWindow_eq_win q r).symm
      rw [hf]
      split
      · rfl
      · rename_i hno
        have h1 : q.fromT = none := by
          cases hq : q.fromT with
          | none => rfl
          | some _ => simp [hq] at hno
        have h2 : q.toT = none := by
          cases hq : q.toT with
          | none => rfl
          | some _ => simp [hq] at hno
        symm
        rw [List.filter_eq_self]
        intro a _
        simp [inWindow, h1, h2]
    rw [this]

/-! ### 3. sortedness is an invariant of every history -/

/-- Under sound facts for index type `s`, after *any* history of sets, in-place updates, deletes
    and reads, a built beacon pair of `s` holds exactly the records that carry the attribute,
    each once, in ascending resp. descending order of it. -/
theorem beacon_sorted_inv (cfg : Cfg) (s : Slot) (hg : SlotGood cfg s) (h : List Op) :
    ((run cfg h).pairs s).init = true →
      (((run cfg h).pairs s).asc.Perm ((run cfg h).store.filter (carries s)) ∧
       ((run cfg h).pairs s).asc.Pairwise (ordB s true)) ∧
      (((run cfg h).pairs s).desc.Perm ((run cfg h).store.filter (carries s)) ∧
       ((run cfg h).pairs s).desc.Pairwise (ordB s false)) := by
  intro hi
  obtain ⟨hs, hp⟩ := slotInv_run hg h
  obtain ⟨ha, hd⟩ := hp hi
  exact ⟨⟨ha.perm hs, ha.sorted⟩, ⟨hd.perm hs, hd.sorted⟩⟩

theorem page_limit_all (q : Query) (n : Nat) (w : List Rec) (hw : w.length ≤ n) :
    page { q with limit := (if q.limit = 0 then n else q.limit) } w = page q w := by
  unfold page
  simp only []
  by_cases hl0 : q.limit = 0
  · simp only [hl0, if_true]
    split
    · rfl
    · apply List.take_of_length_le
      rw [List.length_drop]; omega
  · simp only [hl0, if_false]

/-- the read of an index whose ordered slice is what it should be (`ListOk`) is a correct page —
    for every offset, limit and window, bounds outside the representable range included -/
theorem correct_of_listOk (cfg : Cfg) (hb : BsGood cfg) (hw : cfg.windowBoundsChecked = true) (q : Query) (store : List Rec)
    (hs : KeysNodup store) (hr : ∀ r ∈ store, InR r) (l : List Rec) (hlok : ListOk q.slot q.asc store l) :
    CorrectPage (readList cfg q l (if q.limit = 0 then store.length else q.limit)) q store := by
  have hperm := hlok.perm hs
  refine ⟨l, hperm, ?_, ?_⟩
  · refine hlok.sorted.imp ?_
    intro a b hab
    have := (ordB_iff_sle q.slot q.asc a b).mp hab
    unfold ord
    cases hqa : q.asc <;> simpa [hqa] using this
  · have hlen : l.length ≤ store.length := by
      rw [hperm.length_eq]; exact List.length_filter_le _ _
    have hrl : (inRange q l).length ≤ store.length := by
      unfold inRange
      split
      · have := List.length_filter_le (inWindow q) l; omega
      · exact hlen
    rw [← page_limit_all q store.length (inRange q l) hrl]
    unfold readList
    cases ht : q.slot.isTime
    · -- key / value index: no window
      simp only [Bool.false_eq_true, if_false]
      have := page_correct cfg hb { q with limit := (if q.limit = 0 then store.length else q.limit) } l hlok.sorted
      simp only [ht, Bool.false_eq_true, if_false] at this
      rw [this]
      simp [inRange, ht]
    · simp only [if_true]
      have hx : ∀ r ∈ l, inI64 (ts q.slot r) := fun r hrl' => ts_inI64 q.slot r (hr r ((hlok.mem r).mp hrl').1)
      cases hew : effWindow cfg q.fromT q.toT with
      | none =>
        simp only []
        have hnil : inRange q l = [] := by
          simp only [inRange, ht, if_true]
          rw [List.filter_eq_nil_iff]
          intro r hrl'
          have := effWindow_spec cfg hw q.fromT q.toT (ts q.slot r) (hx r hrl')
          rw [hew] at this
          rw [inWindow_eq_win, this]; simp
        rw [hnil]; simp [page]
      | some ft =>
        obtain ⟨f, t⟩ := ft
        simp only []
        have hpc := page_correct cfg hb { q with fromT := f, toT := t, limit := (if q.limit = 0 then store.length else q.limit) } l hlok.sorted
        simp only [ht, if_true] at hpc
        rw [hpc]
        have hsame : inRange { q with fromT := f, toT := t, limit := (if q.limit = 0 then store.length else q.limit) } l = inRange q l := by
          simp only [inRange, ht, if_true]
          apply List.filter_congr
          intro r hrl'
          have := effWindow_spec cfg hw q.fromT q.toT (ts q.slot r) (hx r hrl')
          rw [hew] at this
          rw [inWindow_eq_win, inWindow_eq_win]
          exact this
        rw [hsame]
        rfl

/-- …hence every read of that index type is a correct page. -/
theorem slot_correct (cfg : Cfg) (hb : BsGood cfg) (hw : cfg.windowBoundsChecked = true) (s : Slot) (hg : SlotGood cfg s) :
    HoldsFor cfg (fun x => x = s) := by
  intro h q res hq ha
  subst hq
  obtain ⟨hs, hp⟩ := slotInv_run hg h
  have hr := rangeInv_run cfg h
  generalize run cfg h = st at *
  unfold answer at ha
  cases hempty : st.store.isEmpty
  · simp only [hempty, Bool.false_eq_true, if_false] at ha
    have hpair : (stepBuild cfg st q).pairs (phys cfg q.slot) = (st.pairs q.slot).build cfg q.slot st.store := by
      simp only [stepBuild, hempty, Bool.false_eq_true, if_false, setPair, if_true, hg.phys]
    have hok : PairOk q.slot st.store ((st.pairs q.slot).build cfg q.slot st.store) := hp.build hg hs
    obtain ⟨hasc, hdesc⟩ := hok (Pair.build_init cfg q.slot st.store _)
    rw [hpair] at ha
    generalize hl : (if q.asc = true then ((st.pairs q.slot).build cfg q.slot st.store).asc
        else ((st.pairs q.slot).build cfg q.slot st.store).desc) = l at ha
    have hlok : ListOk q.slot q.asc st.store l := by
      cases hqa : q.asc
      · simp only [hqa, Bool.false_eq_true, if_false] at hl; rw [← hl]; exact hdesc
      · simp only [hqa, if_true] at hl; rw [← hl]; exact hasc
    simp only [Option.some.injEq] at ha
    rw [← ha]
    exact correct_of_listOk cfg hb hw q st.store hs hr l hlok
  · simp [hempty] at ha

/-- **Partial theorem for value indexes (single-type swamps).**  With the one shared value pair that
    every add and every content change drops (the current tree): in a swamp all of whose records
    have content type `t` — every Set writes `t`, Increment only where `t` is int64 — and whose value
    reads ask for `t` only, every read of the value index of `t`, after every such history, is a
    correct page.  (Reads of the other index types, deletes, patches, shifts and reloads are free.) -/
theorem value_single_type (cfg : Cfg) (hb : BsGood cfg) (hw : cfg.windowBoundsChecked = true) (hv : ValFacts cfg) (t : CT) (h : List Op)
    (hok : ∀ op ∈ h, OpOk t op) (q : Query) (hq : q.slot = .value t) (res : List Rec)
    (ha : answer cfg (run cfg h) q = some res) : CorrectPage res q (run cfg h).store := by
  have hinv := singleInv_run hv h hok
  have hr := rangeInv_run cfg h
  generalize run cfg h = st at *
  unfold answer at ha
  cases hempty : st.store.isEmpty
  · simp only [hempty, Bool.false_eq_true, if_false] at ha
    have hq' : ∀ t', q.slot = .value t' → t' = t := by
      intro t' h'; rw [hq] at h'; exact (Slot.value.inj h').symm
    obtain ⟨hs, _, hp⟩ := singleInv_stepBuild hv st q hq' hinv
    have hstore : (stepBuild cfg st q).store = st.store := by
      simp only [stepBuild]; split <;> rfl
    have hphys : phys cfg q.slot = .value .i64 := by rw [hq]; simp [phys, hv.shared]
    have hinit : ((stepBuild cfg st q).pairs (.value .i64)).init = true := by
      simp only [stepBuild, hempty, Bool.false_eq_true, if_false, setPair, hphys, if_true]
      exact Pair.build_init cfg q.slot st.store _
    obtain ⟨hasc, hdesc⟩ := hp hinit
    rw [hstore] at hasc hdesc hs
    rw [hphys] at ha
    generalize hl : (if q.asc = true then ((stepBuild cfg st q).pairs (.value .i64)).asc
        else ((stepBuild cfg st q).pairs (.value .i64)).desc) = l at ha
    have hlok : ListOk q.slot q.asc st.store l := by
      rw [hq]
      cases hqa : q.asc
      · simp only [hqa, Bool.false_eq_true, if_false] at hl; rw [← hl]; exact hdesc
      · simp only [hqa, if_true] at hl; rw [← hl]; exact hasc
    simp only [Option.some.injEq] at ha
    rw [← ha]
    exact correct_of_listOk cfg hb hw q st.store hs hr l hlok
  · simp [hempty] at ha

/-! ### 4. decidable soundness of the facts -/

/-- the type-change branch cannot meet a treasure that just became void -/
def voidSafeB (cfg : Cfg) : Bool := !(cfg.typeChangeDetected && cfg.setVoidClearsTyped)

theorem voidSafe_of (cfg : Cfg) (h : voidSafeB cfg = true) :
    cfg.typeChangeDetected = false ∨ cfg.setVoidClearsTyped = false := by
  unfold voidSafeB at h
  cases h1 : cfg.typeChangeDetected <;> cases h2 : cfg.setVoidClearsTyped <;> simp_all

/-- the facts about index type `s` are the sound ones -/
def slotGoodB (cfg : Cfg) : Slot → Bool
  | .key => cfg.resortKey == .own && voidSafeB cfg
  | .created => cfg.resortCreated == .own && cfg.coldFilterCreated && cfg.addGuardCreated &&
      cfg.updRefreshCreated && voidSafeB cfg
  | .updated => cfg.resortUpdated == .own && cfg.coldFilterUpdated && cfg.addGuardUpdated &&
      cfg.updRefreshUpdated && voidSafeB cfg
  | .expire => cfg.resortExpire == .own && cfg.coldFilterExpire && cfg.addGuardExpire &&
      cfg.updRefreshExpireOnFlag && voidSafeB cfg && cfg.refileGuardExpire && cfg.patchExpiredReindexesAll
  | .value _ => !cfg.valueShared && cfg.resortValue == .own && cfg.coldFilterValueType && cfg.addGuardValueType &&
      cfg.updRefreshValue && voidSafeB cfg

def bsGoodB (cfg : Cfg) : Bool :=
  cfg.bsAscFrom == .lt && cfg.bsAscTo == .lt && cfg.bsDescTo == .lt && cfg.bsDescFrom == .lt && cfg.windowBoundsChecked

theorem bsGood_of (cfg : Cfg) (h : bsGoodB cfg = true) : BsGood cfg := by
  simp only [bsGoodB, Bool.and_eq_true, beq_iff_eq] at h
  exact ⟨h.1.1.1.1, h.1.1.1.2, h.1.1.2, h.1.2⟩

theorem winChecked_of (cfg : Cfg) (h : bsGoodB cfg = true) : cfg.windowBoundsChecked = true := by
  simp only [bsGoodB, Bool.and_eq_true] at h
  exact h.2

theorem slotGood_of (cfg : Cfg) (s : Slot) (h : slotGoodB cfg s = true) : SlotGood cfg s := by
  cases s with
  | key =>
    simp only [slotGoodB, Bool.and_eq_true, beq_iff_eq] at h
    exact { phys := rfl, cold := fun _ => rfl, guard := fun _ => rfl,
            resort := by simp [incrSort, h.1],
            exclusive := by intro s' hs'; cases s' <;> simp_all [phys],
            voidSafe := voidSafe_of cfg h.2,
            stable := fun o rq => Or.inr (by simp [attrEq, mergeRec]),
            refile := fun _ => rfl, reindex := fun h => by cases h }
  | created =>
    simp only [slotGoodB, Bool.and_eq_true, beq_iff_eq] at h
    obtain ⟨⟨⟨⟨h1, h2⟩, h3⟩, h4⟩, h5⟩ := h
    exact { phys := rfl, cold := fun _ => by simp [coldIncl, carries, h2], guard := fun _ => by simp [addGuard, carries, h3],
            resort := by simp [incrSort, h1],
            exclusive := by intro s' hs'; cases s' <;> simp_all [phys],
            voidSafe := voidSafe_of cfg h5,
            stable := fun o rq => Or.inl (by simp [refreshes, h4]),
            refile := fun _ => by simp [refileGuard, addGuard, carries, h3], reindex := fun h => by cases h }
  | updated =>
    simp only [slotGoodB, Bool.and_eq_true, beq_iff_eq] at h
    obtain ⟨⟨⟨⟨h1, h2⟩, h3⟩, h4⟩, h5⟩ := h
    exact { phys := rfl, cold := fun _ => by simp [coldIncl, carries, h2], guard := fun _ => by simp [addGuard, carries, h3],
            resort := by simp [incrSort, h1],
            exclusive := by intro s' hs'; cases s' <;> simp_all [phys],
            voidSafe := voidSafe_of cfg h5,
            stable := fun o rq => Or.inl (by simp [refreshes, h4]),
            refile := fun _ => by simp [refileGuard, addGuard, carries, h3], reindex := fun h => by cases h }
  | expire =>
    simp only [slotGoodB, Bool.and_eq_true, beq_iff_eq] at h
    obtain ⟨⟨⟨⟨⟨⟨h1, h2⟩, h3⟩, h4⟩, h5⟩, h6⟩, h7⟩ := h
    exact { phys := rfl, cold := fun _ => by simp [coldIncl, carries, h2], guard := fun _ => by simp [addGuard, carries, h3],
            resort := by simp [incrSort, h1],
            exclusive := by intro s' hs'; cases s' <;> simp_all [phys],
            voidSafe := voidSafe_of cfg h5,
            stable := by
              intro o rq
              by_cases hc : rq.clearExpire = true
              · exact Or.inl (by simp [refreshes, h4, mergeRec, hc])
              · by_cases he : rq.expire = 0
                · exact Or.inr (by simp [attrEq, mergeRec, he, hc])
                · exact Or.inl (by simp [refreshes, h4, mergeRec, he])
            refile := fun _ => by simp [refileGuard, carries, h6]
            reindex := fun _ => h7 }
  | value t =>
    simp only [slotGoodB, Bool.and_eq_true, beq_iff_eq, Bool.not_eq_true'] at h
    obtain ⟨⟨⟨⟨⟨h0, h1⟩, h2⟩, h3⟩, h4⟩, h5⟩ := h
    exact { phys := by simp [phys, h0], cold := fun _ => by simp [coldIncl, carries, h2],
            guard := fun _ => by simp [addGuard, carries, h3],
            resort := by simp [incrSort, h1],
            exclusive := by intro s' hs'; cases s' <;> simp_all [phys],
            voidSafe := voidSafe_of cfg h5,
            stable := by
              intro o rq
              -- re-filed whenever `contentChanged` is up; when it is not, the content did not move
              cases hc : (mergeRec cfg (some o) rq).contFlag
              · refine Or.inr ?_
                simp only [mergeRec, Bool.or_eq_false_iff, Bool.and_eq_false_iff, Bool.not_eq_false',
                  bne_eq_false_iff_eq] at hc
                simp only [attrEq, mergeRec]
                rcases hc.2 with hkeep | hsame
                · simp [hkeep]
                · by_cases hkeep : (rq.ct == CT.void && !cfg.setVoidClearsTyped) = true
                  · simp [hkeep]
                  · simp only [hkeep, Bool.false_eq_true, if_false]
                    exact ⟨hsame.2.symm, hsame.1.symm⟩
              · exact Or.inl (by simp [refreshes, h4, hc])
            refile := fun _ => by simp [refileGuard, addGuard, carries, h3]
            reindex := fun h => by cases h }

/-- What `ShiftMatchingTreasures` (no filters) hands out and removes: after every history, the first
    `HowMany` (0: all) records of the index in its order, inside `[from, to)` — a correct page with
    offset 0 of the swamp's contents before the shift. -/
theorem shift_correct (cfg : Cfg) (hw : cfg.windowBoundsChecked = true) (s : Slot) (hg : SlotGood cfg s) (h : List Op) (q : Query)
    (hq : q.slot = s) (h0 : q.from_ = 0) (hne : (run cfg h).store.isEmpty = false) :
    CorrectPage (matchList cfg (run cfg h) q) q (run cfg h).store := by
  subst hq
  obtain ⟨hs, hp⟩ := slotInv_run hg h
  have hr := rangeInv_run cfg h
  generalize run cfg h = st at *
  have hpair : (stepBuild cfg st q).pairs (phys cfg q.slot) = (st.pairs q.slot).build cfg q.slot st.store := by
    simp only [stepBuild, hne, Bool.false_eq_true, if_false, setPair, if_true, hg.phys]
  have hok : PairOk q.slot st.store ((st.pairs q.slot).build cfg q.slot st.store) := hp.build hg hs
  obtain ⟨hasc, hdesc⟩ := hok (Pair.build_init cfg q.slot st.store _)
  unfold matchList
  simp only []
  rw [hpair]
  generalize hl : (if q.asc = true then ((st.pairs q.slot).build cfg q.slot st.store).asc
      else ((st.pairs q.slot).build cfg q.slot st.store).desc) = l
  have hlok : ListOk q.slot q.asc st.store l := by
    cases hqa : q.asc
    · simp only [hqa, Bool.false_eq_true, if_false] at hl; rw [← hl]; exact hdesc
    · simp only [hqa, if_true] at hl; rw [← hl]; exact hasc
  refine ⟨l, hlok.perm hs, ?_, ?_⟩
  · refine hlok.sorted.imp ?_
    intro a b hab
    have := (ordB_iff_sle q.slot q.asc a b).mp hab
    unfold ord
    cases hqa : q.asc <;> simpa [hqa] using this
  · have hm : windowed cfg q l = inRange q l := by
      unfold inRange windowed
      cases ht : q.slot.isTime
      · simp
      · simp only [if_true]
        have hx : ∀ r ∈ l, inI64 (ts q.slot r) := fun r hrl' => ts_inI64 q.slot r (hr r ((hlok.mem r).mp hrl').1)
        have hitr : ∀ (f t : Option Int) (x : Int), inTimeRange x f t = win f t x := by
          intro f t x
          unfold inTimeRange win loOk hiOk
          cases f <;> cases t <;> rfl
        cases hew : effWindow cfg q.fromT q.toT with
        | none =>
          simp only []
          symm
          rw [List.filter_eq_nil_iff]
          intro r hrl'
          have := effWindow_spec cfg hw q.fromT q.toT (ts q.slot r) (hx r hrl')
          rw [hew] at this
          rw [inWindow_eq_win, this]; simp
        | some ft =>
          obtain ⟨f, t⟩ := ft
          simp only []
          apply List.filter_congr
          intro r hrl'
          have := effWindow_spec cfg hw q.fromT q.toT (ts q.slot r) (hx r hrl')
          rw [hew] at this
          rw [hitr, inWindow_eq_win]
          exact this
    simp only [hm, page, h0, List.drop_zero]

/-- …for every index type whose facts are sound -/
theorem shift_partial (cfg : Cfg) (hw : cfg.windowBoundsChecked = true) (h : List Op) (q : Query) (hs : slotGoodB cfg q.slot = true)
    (h0 : q.from_ = 0) (hne : (run cfg h).store.isEmpty = false) :
    CorrectPage (matchList cfg (run cfg h) q) q (run cfg h).store :=
  shift_correct cfg hw q.slot (slotGood_of cfg _ hs) h q rfl h0 hne

/-- all facts sound -/
def seqGoodB (cfg : Cfg) : Bool :=
  bsGoodB cfg && slotGoodB cfg .key && slotGoodB cfg .created && slotGoodB cfg .updated &&
  slotGoodB cfg .expire && slotGoodB cfg (.value .i64)

def goodB (cfg : Cfg) : Bool := seqGoodB cfg && cfg.initialisedAfterFill && claimWitnessOk cfg

/-- **Full theorem (repaired facts).**  If every change of a sort attribute re-files the record,
    incremental inserts re-sort with the beacon's own comparator, cold builds and inserts admit
    exactly the carriers, value indexes are per type, and the four search operators are `<`,
    then every index read after every history is a correct page. -/
theorem holdsSeq_of_good (cfg : Cfg) (h : seqGoodB cfg = true) : HoldsSeq cfg := by
  simp only [seqGoodB, Bool.and_eq_true] at h
  obtain ⟨⟨⟨⟨⟨hb, hk⟩, hc⟩, hu⟩, he⟩, hv⟩ := h
  intro hist q res ha
  have hsg : SlotGood cfg q.slot := by
    cases hq : q.slot with
    | key => exact slotGood_of cfg _ hk
    | created => exact slotGood_of cfg _ hc
    | updated => exact slotGood_of cfg _ hu
    | expire => exact slotGood_of cfg _ he
    | value t => exact slotGood_of cfg _ (by simpa [slotGoodB] using hv)
  exact slot_correct cfg (bsGood_of cfg hb) (winChecked_of cfg hb) q.slot hsg hist q res rfl ha

/-- with the flag published last, the second of two racing first readers is answered like a lone one -/
theorem holdsRace_of (cfg : Cfg) (hs : HoldsSeq cfg) (hf : cfg.initialisedAfterFill = true) : HoldsRace cfg := by
  intro hist q res ha
  unfold answerSecond at ha
  by_cases he : (run cfg hist).store.isEmpty = true
  · simp [he] at ha
  · simp only [he, Bool.false_eq_true, if_false, hf, Bool.or_true, if_true] at ha
    exact hs hist q res ha

theorem holds_of_good (cfg : Cfg) (h : goodB cfg = true) : Holds cfg := by
  simp only [goodB, Bool.and_eq_true] at h
  exact ⟨holdsSeq_of_good cfg h.1.1, holdsRace_of cfg (holdsSeq_of_good cfg h.1.1) h.1.2, h.2⟩

/-- **Partial theorem.**  Whatever the other facts are: the index types whose own facts are sound
    are always read correctly, for every history (including histories that break other indexes). -/
theorem holds_partial (cfg : Cfg) (hb : bsGoodB cfg = true) :
    HoldsFor cfg (fun s => slotGoodB cfg s = true) := by
  intro hist q res hs ha
  exact slot_correct cfg (bsGood_of cfg hb) (winChecked_of cfg hb) q.slot (slotGood_of cfg _ hs) hist q res rfl ha


/-! ### 5. counterexamples: witness histories evaluated in the model -/

/-- a full read (no offset, no limit, no window) of an index -/
def fullRead (s : Slot) (asc : Bool) : Query :=
  { slot := s, asc := asc, from_ := 0, limit := 0, fromT := none, toT := none }

def pairwiseB (ok : Rec → Rec → Bool) : List Rec → Bool
  | [] => true
  | x :: xs => xs.all (ok x) && pairwiseB ok xs

theorem pairwiseB_of (ok : Rec → Rec → Bool) (l : List Rec) (h : l.Pairwise (fun a b => ok a b = true)) :
    pairwiseB ok l = true := by
  induction l with
  | nil => rfl
  | cons x xs ih =>
    rw [List.pairwise_cons] at h
    simp only [pairwiseB, Bool.and_eq_true, List.all_eq_true]
    exact ⟨h.1, ih h.2⟩

/-- an unpaged read (no offset, no limit) with a window -/
def windowRead (s : Slot) (asc : Bool) (fromT toT : Option Int) : Query :=
  { slot := s, asc := asc, from_ := 0, limit := 0, fromT := fromT, toT := toT }

/-- decidable necessary condition for the answer to an unpaged read: as many records as carry the
    attribute inside the window, and no later record strictly before an earlier one -/
def unpagedOk (q : Query) (res store : List Rec) : Bool :=
  res.length == (inRange q (store.filter (carries q.slot))).length &&
  pairwiseB (fun a b => !lessPure q.slot q.asc b a) res

theorem inRange_perm (q : Query) (l₁ l₂ : List Rec) (h : l₁.Perm l₂) : (inRange q l₁).Perm (inRange q l₂) := by
  unfold inRange
  split
  · exact h.filter _
  · exact h

theorem unpagedOk_of_correct (q : Query) (res store : List Rec) (h0 : q.from_ = 0) (h1 : q.limit = 0)
    (h : CorrectPage res q store) : unpagedOk q res store = true := by
  obtain ⟨l, hperm, hsorted, hres⟩ := h
  have hl : res = inRange q l := by
    rw [hres]; simp [page, h0, h1]
  simp only [unpagedOk, Bool.and_eq_true, beq_iff_eq]
  refine ⟨?_, pairwiseB_of _ _ ?_⟩
  · rw [hl]; exact (inRange_perm q _ _ hperm).length_eq
  · have hsub : res.Sublist l := by
      rw [hl]; unfold inRange; split
      · exact List.filter_sublist
      · exact List.Sublist.refl _
    refine (hsorted.sublist hsub).imp ?_
    intro a b hab
    have : ordB q.slot q.asc a b := (ordB_iff_sle q.slot q.asc a b).mpr (by
      unfold ord at hab
      cases hq : q.asc <;> simpa [hq] using hab)
    simpa [ordB] using this

/-- run history `h`, then answer the unpaged read `q`: does the model's answer fail `unpagedOk`? -/
def witnessFails (cfg : Cfg) (h : List Op) (q : Query) : Bool :=
  q.from_ == 0 && q.limit == 0 &&
  match answer cfg (run cfg h) q with
  | some res => !unpagedOk q res (run cfg h).store
  | none => false

/-- a failing witness refutes the property for those facts — whatever the facts are -/
theorem refutes_of_witness (cfg : Cfg) (h : List Op) (q : Query)
    (hw : witnessFails cfg h q = true) : ¬ HoldsSeq cfg := by
  intro hh
  unfold witnessFails at hw
  simp only [Bool.and_eq_true, beq_iff_eq] at hw
  obtain ⟨⟨h0, h1⟩, hw⟩ := hw
  cases ha : answer cfg (run cfg h) q with
  | none => simp [ha] at hw
  | some res =>
    have := unpagedOk_of_correct q res _ h0 h1 (hh h q res ha)
    simp [ha, this] at hw

def setOp (k : String) (t : CT) (v c u e : Int) : Op :=
  .set { key := k, ct := t, val := v, created := c, updated := u, expire := e }

/-- (finding id, history, unpaged read afterwards).  The first five fail under the current facts
    (each reproduced on the real code by corpus cases 0–5 of harness/c07.go); the others fail only
    under facts the current tree does not have (a `<=` in a binary search, a cold build without
    the zero filter) and make such a change classify as `violated` with a named finding. -/
def witnesses : List (String × List Op × Query) := [
  ("C07-updated-update-stale",
    [setOp "k1" .i64 1 1 1 0, setOp "k2" .i64 2 2 2 0, .read (fullRead .updated true), setOp "k1" .i64 1 0 5 0],
    fullRead .updated true),
  ("C07-created-update-stale",
    [setOp "k1" .i64 1 1 0 0, setOp "k2" .i64 2 2 0 0, .read (fullRead .created true), setOp "k1" .i64 1 5 0 0],
    fullRead .created true),
  ("C07-value-update-stale",
    [setOp "k1" .i64 1 0 0 0, setOp "k2" .i64 2 0 0 0, .read (fullRead (.value .i64) true), setOp "k1" .i64 3 0 0 0],
    fullRead (.value .i64) true),
  ("C07-value-insert-wrong-comparator",
    [setOp "k1" .f64 1 0 0 0, setOp "k2" .f64 3 0 0 0, .read (fullRead (.value .f64) true), setOp "k3" .f64 2 0 0 0],
    fullRead (.value .f64) true),
  ("C07-value-index-mixed-types",
    [setOp "k1" .str 1 0 0 0, setOp "k2" .f64 3 0 0 0],
    fullRead (.value .str) true),
  ("C07-window-bounds-operator", [setOp "k1" .i64 1 3 0 0, setOp "k2" .i64 2 5 0 0], windowRead .created true (some 3) none),
  ("C07-window-bounds-operator", [setOp "k1" .i64 1 3 0 0, setOp "k2" .i64 2 5 0 0], windowRead .created true none (some 5)),
  ("C07-window-bounds-operator", [setOp "k1" .i64 1 3 0 0, setOp "k2" .i64 2 5 0 0], windowRead .created false none (some 5)),
  ("C07-window-bounds-operator", [setOp "k1" .i64 1 3 0 0, setOp "k2" .i64 2 5 0 0], windowRead .created false (some 3) none),
  ("C07-cold-build-no-zero-filter", [setOp "k1" .i64 1 0 0 0, setOp "k2" .i64 2 2 2 2], fullRead .created true),
  ("C07-cold-build-no-zero-filter", [setOp "k1" .i64 1 0 0 0, setOp "k2" .i64 2 2 2 2], fullRead .updated true),
  ("C07-cold-build-no-zero-filter", [setOp "k1" .i64 1 0 0 0, setOp "k2" .i64 2 2 2 2], fullRead .expire true),
  ("C07-void-dropped-from-key-index",
    [setOp "k1" .i64 1 0 0 0, .read (fullRead .key true), setOp "k1" .void 0 0 0 0], fullRead .key true),
  -- an upper bound in year 9999: its UnixNano wraps to a negative number
  ("C07-window-bound-wraps", [setOp "k1" .i64 1 3 0 0, setOp "k2" .i64 2 5 0 0],
    windowRead .created true none (some 253402300799000000000)),
  ("C07-window-bound-wraps", [setOp "k1" .i64 1 3 0 0, setOp "k2" .i64 2 5 0 0],
    windowRead .created false (some (-62135596800000000000)) none),
  -- a patch clears the expiry of a record filed in the built expiration index
  ("C07-expire-cleared-refiled",
    [setOp "k1" .bytes 0 0 0 3, setOp "k2" .bytes 0 0 0 5, .read (fullRead .expire true), .patch "k1" .clear],
    fullRead .expire true),
  -- after a reload (flags clear) an ops-only PatchExpired leaves its selection out of the ascending index
  ("C07-patch-expired-partial-reindex",
    [setOp "k1" .bytes 0 0 0 3, setOp "k2" .bytes 0 0 0 5, .reload, .patchExpired .keep],
    fullRead .expire true)]

/-- the findings whose witness fails under `cfg` -/
def seqFindings (cfg : Cfg) : List String :=
  ((witnesses.filter (fun w => witnessFails cfg w.2.1 w.2.2)).map (·.1)).eraseDups

theorem refutes_of_seqFindings (cfg : Cfg) (h : seqFindings cfg ≠ []) : ¬ HoldsSeq cfg := by
  unfold seqFindings at h
  have : witnesses.filter (fun w => witnessFails cfg w.2.1 w.2.2) ≠ [] := by
    intro he; rw [he] at h; exact h (by simp)
  obtain ⟨w, hw⟩ := List.exists_mem_of_ne_nil _ this
  exact refutes_of_witness cfg w.2.1 w.2.2 (List.mem_filter.mp hw).2

/-- the race witness: one record; two first readers of the key index, ascending -/
def raceHistory : List Op := [setOp "k1" .i64 1 0 0 0]

def raceFails (cfg : Cfg) : Bool :=
  match answerSecond cfg (run cfg raceHistory) (fullRead .key true) with
  | some res => !unpagedOk (fullRead .key true) res (run cfg raceHistory).store
  | none => false

theorem refutes_of_race (cfg : Cfg) (h : raceFails cfg = true) : ¬ HoldsRace cfg := by
  intro hh
  unfold raceFails at h
  cases ha : answerSecond cfg (run cfg raceHistory) (fullRead .key true) with
  | none => simp [ha] at h
  | some res =>
    have := unpagedOk_of_correct (fullRead .key true) res _ rfl rfl (hh raceHistory (fullRead .key true) res ha)
    simp [ha, this] at h

def findings (cfg : Cfg) : List String :=
  seqFindings cfg ++ (if raceFails cfg then ["C07-first-readers-race"] else []) ++
  (if !claimWitnessOk cfg then ["C07-claim-loser-dropped"] else [])

theorem refutes_of_findings (cfg : Cfg) (h : findings cfg ≠ []) : ¬ Holds cfg := by
  intro hh
  unfold findings at h
  by_cases hs : seqFindings cfg = []
  · by_cases hr : raceFails cfg = true
    · exact refutes_of_race cfg hr hh.2.1
    · by_cases hc : claimWitnessOk cfg = true
      · simp [hs, hr, hc] at h
      · exact hc hh.2.2
  · exact refutes_of_seqFindings cfg hs hh.1

/-- the facts of the tree before the four `fix:` commits on the index maintenance -/
def beforeFix : Cfg := {
  bsAscFrom := .lt, bsAscTo := .lt, bsDescTo := .lt, bsDescFrom := .lt,
  resortKey := .own, resortCreated := .own, resortUpdated := .own, resortExpire := .own, resortValue := .int64,
  coldFilterCreated := true, coldFilterUpdated := true, coldFilterExpire := true, coldFilterValueType := false,
  addGuardCreated := true, addGuardUpdated := true, addGuardExpire := true, addGuardValueType := false,
  updRefreshCreated := false, updRefreshUpdated := false, updRefreshValue := false, updRefreshExpireOnFlag := true,
  typeChangeDetected := false, valueShared := true, flagsSticky := true, setVoidClearsTyped := false,
  initialisedAfterFill := false, refileGuardExpire := true, patchExpiredReindexesAll := true,
  windowBoundsChecked := false, claimLoserRefiled := true }

/-- the facts of the tree as of this writing: `SaveFunction` re-files a treasure in the built
    creation-time or update-time index when that timestamp changes, and any add to / content change in
    a built value index drops it (the next read rebuilds it with the requested type's comparator);
    `buildBeacon` publishes `initialized` last, under a build lock -/
def current : Cfg := { beforeFix with
  windowBoundsChecked := true, initialisedAfterFill := true, setVoidClearsTyped := true, resortValue := .invalidate, updRefreshCreated := true, updRefreshUpdated := true, updRefreshValue := true }

/-- the repaired facts -/
def repaired : Cfg := { beforeFix with
  windowBoundsChecked := true, initialisedAfterFill := true,
  resortValue := .own, coldFilterValueType := true, addGuardValueType := true,
  updRefreshCreated := true, updRefreshUpdated := true, updRefreshValue := true, valueShared := false }

/-- Closed witness: after `k1` (UpdatedAt 1) and `k2` (UpdatedAt 2) were indexed, moving `k1` to
    UpdatedAt 5 leaves the update-time index answering `[k1, k2]`. -/
theorem witness_updated_stale :
    (answer beforeFix (run beforeFix [setOp "k1" .i64 1 1 1 0, setOp "k2" .i64 2 2 2 0, .read (fullRead .updated true),
        setOp "k1" .i64 1 0 5 0]) (fullRead .updated true)).map (·.map (fun r => (r.key, r.updated)))
      = some [("k1", 5), ("k2", 2)] := by decide

theorem witness_created_stale :
    (answer beforeFix (run beforeFix [setOp "k1" .i64 1 1 0 0, setOp "k2" .i64 2 2 0 0, .read (fullRead .created true),
        setOp "k1" .i64 1 5 0 0]) (fullRead .created true)).map (·.map (fun r => (r.key, r.created)))
      = some [("k1", 5), ("k2", 2)] := by decide

theorem witness_value_update_stale :
    (answer beforeFix (run beforeFix [setOp "k1" .i64 1 0 0 0, setOp "k2" .i64 2 0 0 0, .read (fullRead (.value .i64) true),
        setOp "k1" .i64 3 0 0 0]) (fullRead (.value .i64) true)).map (·.map (fun r => (r.key, r.val)))
      = some [("k1", 3), ("k2", 2)] := by decide

/-- inserting 2 into the float index [1, 3] re-sorts "as int64", which fails: the answer is [1, 3, 2] -/
theorem witness_value_insert_wrong_comparator :
    (answer beforeFix (run beforeFix [setOp "k1" .f64 1 0 0 0, setOp "k2" .f64 3 0 0 0, .read (fullRead (.value .f64) true),
        setOp "k3" .f64 2 0 0 0]) (fullRead (.value .f64) true)).map (·.map (fun r => (r.key, r.val)))
      = some [("k1", 1), ("k2", 3), ("k3", 2)] := by decide

/-- a string-value read of a swamp holding one string and one float returns both records -/
theorem witness_value_mixed_types :
    (answer current (run current [setOp "k1" .str 1 0 0 0, setOp "k2" .f64 3 0 0 0])
        (fullRead (.value .str) true)).map (·.length) = some 2 := by decide

theorem findings_beforeFix : findings beforeFix =
    ["C07-updated-update-stale", "C07-created-update-stale", "C07-value-update-stale",
     "C07-value-insert-wrong-comparator", "C07-value-index-mixed-types", "C07-window-bound-wraps",
     "C07-first-readers-race"] := by decide

/-- Closed witness of the race: the key index of a one-record swamp is not built; the first reader
    has raised `initialized` and not filled the slice yet; the second reader is answered `[]`. -/
theorem witness_first_readers_race :
    answerSecond beforeFix (run beforeFix raceHistory) (fullRead .key true) = some [] ∧
    (answer beforeFix (run beforeFix raceHistory) (fullRead .key true)).map (·.map (·.key)) = some ["k1"] := by decide

/-- after the fixes only the shared, unfiltered value index remains -/
theorem findings_current : findings current = ["C07-value-index-mixed-types"] := by decide

theorem refutes_current : ¬ Holds current := refutes_of_findings current (by rw [findings_current]; simp)

/-- non-vacuity of the full theorem: the repaired facts are sound, and none of the witnesses fails -/
example : goodB repaired = true := by decide
example : findings repaired = [] := by decide
/-- the extra witnesses do fail under the facts they are meant for -/
example : findings { repaired with bsAscFrom := .le } = ["C07-window-bounds-operator"] := by decide
example : findings { repaired with bsDescTo := .le } = ["C07-window-bounds-operator"] := by decide
example : findings { repaired with coldFilterExpire := false } = ["C07-cold-build-no-zero-filter"] := by decide
example : findings { repaired with claimLoserRefiled := false } = ["C07-claim-loser-dropped"] := by decide
example : findings { current with claimLoserRefiled := false } = ["C07-value-index-mixed-types", "C07-claim-loser-dropped"] := by decide
example : findings { repaired with windowBoundsChecked := false } = ["C07-window-bound-wraps"] := by decide
/-- Closed witness: an upper window bound of 9999-12-31T23:59:59Z becomes a negative int64, and the
    creation-time read of two records returns nothing. -/
theorem witness_window_bound_wraps :
    answer { current with windowBoundsChecked := false }
      (run { current with windowBoundsChecked := false } [setOp "k1" .i64 1 3 0 0, setOp "k2" .i64 2 5 0 0])
      (windowRead .created true none (some 253402300799000000000)) = some [] ∧
    (answer current (run current [setOp "k1" .i64 1 3 0 0, setOp "k2" .i64 2 5 0 0])
      (windowRead .created true none (some 253402300799000000000))).map (·.map (·.key)) = some ["k1", "k2"] := by decide
example : findings { repaired with refileGuardExpire := false } = ["C07-expire-cleared-refiled"] := by decide
example : findings { repaired with patchExpiredReindexesAll := false } = ["C07-patch-expired-partial-reindex"] := by decide
/-- Closed witness: with the re-add unguarded, clearing `k1`'s expiry by a patch leaves it in the
    built expiration index, under key 0. -/
theorem witness_expire_cleared_refiled :
    (answer { current with refileGuardExpire := false }
      (run { current with refileGuardExpire := false }
        [setOp "k1" .bytes 0 0 0 3, setOp "k2" .bytes 0 0 0 5, .read (fullRead .expire true), .patch "k1" .clear])
      (fullRead .expire true)).map (·.map (fun r => (r.key, r.expire))) = some [("k1", 0), ("k2", 5)] := by decide
/-- Closed witness: re-indexing only what was not patched loses, after a reload, every patched record
    from the ascending expiration index (the descending one still has them). -/
theorem witness_patch_expired_partial_reindex :
    let cfg := { current with patchExpiredReindexesAll := false }
    let h := [setOp "k1" .bytes 0 0 0 3, setOp "k2" .bytes 0 0 0 5, .reload, .patchExpired .keep]
    (answer cfg (run cfg h) (fullRead .expire true)).map (·.map (·.key)) = some [] ∧
    (answer cfg (run cfg h) (fullRead .expire false)).map (·.map (·.key)) = some ["k2", "k1"] := by decide
/-- the same history without the reload is harmless (the sticky flag makes `SaveFunction` re-file) -/
example :
    let cfg := { current with patchExpiredReindexesAll := false }
    let h := [setOp "k1" .bytes 0 0 0 3, setOp "k2" .bytes 0 0 0 5, .patchExpired .keep]
    (answer cfg (run cfg h) (fullRead .expire true)).map (·.map (·.key)) = some ["k1", "k2"] := by decide
theorem holds_repaired : Holds repaired := holds_of_good repaired (by decide)
/-- …also when the `SetContent…` setters are repaired to raise `contentTypeChanged` (the first
    `SaveFunction` branch becomes reachable): a Set never turns typed content into void -/
example : goodB { repaired with typeChangeDetected := true } = true := by decide
/-- …but not together with a `SetContentVoid` that clears typed content: the type-change branch
    then drops the void treasure from every index, the key index included -/
example : goodB { repaired with typeChangeDetected := true, setVoidClearsTyped := true } = false := by decide
example : findings { repaired with typeChangeDetected := true, setVoidClearsTyped := true } = ["C07-void-dropped-from-key-index"] := by decide

/-- non-vacuity of the partial theorem: before the fixes the key and expiration-time indexes
    satisfy it; now all four non-value index types do, the value indexes still do not -/
example : slotGoodB beforeFix .key = true ∧ slotGoodB beforeFix .expire = true ∧
    slotGoodB beforeFix .created = false ∧ slotGoodB beforeFix .updated = false ∧
    slotGoodB beforeFix (.value .i64) = false := by decide
example : slotGoodB current .key = true ∧ slotGoodB current .expire = true ∧
    slotGoodB current .created = true ∧ slotGoodB current .updated = true ∧
    slotGoodB current (.value .i64) = false := by decide

/-- **Partial theorem for the current tree**: every read of the key, creation-time, update-time
    and expiration-time index, after every history, is a correct page. -/
theorem holds_current_nonvalue :
    HoldsFor current (fun s => s = .key ∨ s = .created ∨ s = .updated ∨ s = .expire) := by
  intro hist q res hs ha
  refine holds_partial current (by decide) hist q res ?_ ha
  rcases hs with h | h | h | h <;> rw [h] <;> decide

def valFactsB (cfg : Cfg) : Bool :=
  cfg.valueShared && cfg.resortValue == .invalidate && !cfg.addGuardValueType && cfg.updRefreshValue

theorem valFacts_of (cfg : Cfg) (h : valFactsB cfg = true) : ValFacts cfg := by
  simp only [valFactsB, Bool.and_eq_true, beq_iff_eq, Bool.not_eq_true'] at h
  exact ⟨h.1.1.1, h.1.1.2, h.1.2, h.2⟩

/-- **What holds on the current tree for value indexes**: single-type swamps. -/
theorem holds_current_single_type (t : CT) (h : List Op) (hok : ∀ op ∈ h, OpOk t op) (q : Query) (hq : q.slot = .value t)
    (res : List Rec) (ha : answer current (run current h) q = some res) : CorrectPage res q (run current h).store :=
  value_single_type current (bsGood_of current (by decide)) (by decide) (valFacts_of current (by decide)) t h hok q hq res ha

/-- non-vacuity: a float swamp with an update and an insert after the index was built is read sorted;
    the same reads with one string record in the swamp are not (the recorded finding) -/
example :
    (answer current (run current [setOp "k1" .f64 1 0 0 0, setOp "k2" .f64 3 0 0 0, .read (fullRead (.value .f64) true),
        setOp "k3" .f64 2 0 0 0, setOp "k1" .f64 4 0 0 0]) (fullRead (.value .f64) true)).map (·.map (·.key))
      = some ["k3", "k2", "k1"] := by decide

/-- non-vacuity of `bounds_correct`: a sorted slice with duplicates, window [3,7) -/
example : findBounds current true [1, 3, 3, 5, 7, 9] (some 3) (some 7) = (1, 3) := by decide
example : findBounds current false [9, 7, 5, 3, 3, 1] (some 3) (some 7) = (2, 4) := by decide
example : findBounds current true [1, 3, 3] (some 4) (some 9) = (0, -1) := by decide

/-! ### 6. decision over the extracted facts -/

inductive FCmp where
  | lt | le | unknown
  deriving DecidableEq, Repr

inductive FResort where
  | own | int64 | none | invalidate | unknown
  deriving DecidableEq, Repr

structure Facts where
  bsAscFrom : FCmp
  bsAscTo : FCmp
  bsDescTo : FCmp
  bsDescFrom : FCmp
  resortKey : FResort
  resortCreated : FResort
  resortUpdated : FResort
  resortExpire : FResort
  resortValue : FResort
  /-- the gateway converts window bounds and record timestamps with their nanosecond part
      (`AsTime()`), as the model's integer timestamps assume -/
  timestampsFullPrecision : Tri
  /-- `GetManyFromOrderPosition` has exactly the modelled arithmetic -/
  pageArith : Tri
  /-- `GetTreasuresByBeacon` replaces limit 0 by the record count -/
  limitZeroAll : Tri
  /-- every `SortBy…` has the modelled comparator / error behaviour / `sortOrder` assignment -/
  comparatorsStandard : Tri
  /-- only the three time indexes pass the window on -/
  windowOnTimeIndexesOnly : Tri
  coldFilterCreated : Tri
  coldFilterUpdated : Tri
  coldFilterExpire : Tri
  coldFilterValueType : Tri
  addGuardCreated : Tri
  addGuardUpdated : Tri
  addGuardExpire : Tri
  addGuardValueType : Tri
  updRefreshCreated : Tri
  updRefreshUpdated : Tri
  updRefreshValue : Tri
  updRefreshExpireOnFlag : Tri
  typeChangeDetected : Tri
  valueShared : Tri
  flagsSticky : Tri
  setVoidClearsTyped : Tri
  /-- `buildBeacon` publishes the `initialized` flag after filling and sorting, under a build lock -/
  initialisedAfterFill : Tri
  /-- the expiration branch of `SaveFunction` re-adds only a non-zero expiry -/
  refileGuardExpire : Tri
  /-- `PatchExpired` re-indexes its whole selection -/
  patchExpiredReindexesAll : Tri
  /-- window bounds that `UnixNano` cannot represent are recognised instead of converted -/
  windowBoundsChecked : Tri
  /-- `deleteHandlerIf` puts a record that is not wanted any more back into the indexes -/
  claimLoserRefiled : Tri
  /-- `PatchExpired`, `SelectExpiredForPatchWithCap`, `ReindexExpiration`, `applyPatchMeta`,
      `CloneAndDeleteMatchingTreasures` and `beacon.ShiftMatching` have the modelled shape -/
  claimPathsStandard : Tri
  /-- `GetBeacon` (used by ShiftMatching, C11) serves all eleven value index types / builds the
      requested type: recorded, not used by the index-read path -/
  getBeaconServesAllValueTypes : Tri
  getBeaconBuildsRequestedType : Tri
  deriving Repr

def cmpOf : FCmp → Cmp
  | .le => .le
  | _ => .lt

def resortOf : FResort → Resort
  | .own => .own
  | .int64 => .int64
  | .invalidate => .invalidate
  | _ => .none

def cfgOf (f : Facts) : Cfg := {
  bsAscFrom := cmpOf f.bsAscFrom, bsAscTo := cmpOf f.bsAscTo, bsDescTo := cmpOf f.bsDescTo, bsDescFrom := cmpOf f.bsDescFrom,
  resortKey := resortOf f.resortKey, resortCreated := resortOf f.resortCreated, resortUpdated := resortOf f.resortUpdated,
  resortExpire := resortOf f.resortExpire, resortValue := resortOf f.resortValue,
  coldFilterCreated := f.coldFilterCreated.isYes, coldFilterUpdated := f.coldFilterUpdated.isYes,
  coldFilterExpire := f.coldFilterExpire.isYes, coldFilterValueType := f.coldFilterValueType.isYes,
  addGuardCreated := f.addGuardCreated.isYes, addGuardUpdated := f.addGuardUpdated.isYes,
  addGuardExpire := f.addGuardExpire.isYes, addGuardValueType := f.addGuardValueType.isYes,
  updRefreshCreated := f.updRefreshCreated.isYes, updRefreshUpdated := f.updRefreshUpdated.isYes,
  updRefreshValue := f.updRefreshValue.isYes, updRefreshExpireOnFlag := f.updRefreshExpireOnFlag.isYes,
  typeChangeDetected := f.typeChangeDetected.isYes, valueShared := f.valueShared.isYes, flagsSticky := f.flagsSticky.isYes,
  setVoidClearsTyped := f.setVoidClearsTyped.isYes, initialisedAfterFill := f.initialisedAfterFill.isYes,
  refileGuardExpire := f.refileGuardExpire.isYes, patchExpiredReindexesAll := f.patchExpiredReindexesAll.isYes,
  windowBoundsChecked := f.windowBoundsChecked.isYes, claimLoserRefiled := f.claimLoserRefiled.isYes }

/-- a fact the model depends on was not recognised in the source -/
def unknownFact (f : Facts) : Option String :=
  if f.bsAscFrom == .unknown || f.bsAscTo == .unknown || f.bsDescTo == .unknown || f.bsDescFrom == .unknown then
    some "a binary search of findTimeRangeBounds" else
  if f.resortKey == .unknown || f.resortCreated == .unknown || f.resortUpdated == .unknown ||
     f.resortExpire == .unknown || f.resortValue == .unknown then some "an addTo…Beacon function" else
  if !f.timestampsFullPrecision.isYes then some "gateway timestamp conversion" else
  if !f.pageArith.isYes then some "GetManyFromOrderPosition arithmetic" else
  if !f.limitZeroAll.isYes then some "GetTreasuresByBeacon limit==0" else
  if !f.comparatorsStandard.isYes then some "a SortBy… comparator" else
  if !f.windowOnTimeIndexesOnly.isYes then some "findIn…Beacon window pass-through" else
  if [f.coldFilterCreated, f.coldFilterUpdated, f.coldFilterExpire, f.coldFilterValueType,
      f.addGuardCreated, f.addGuardUpdated, f.addGuardExpire, f.addGuardValueType,
      f.updRefreshCreated, f.updRefreshUpdated, f.updRefreshValue, f.updRefreshExpireOnFlag,
      f.typeChangeDetected, f.valueShared, f.flagsSticky, f.setVoidClearsTyped, f.initialisedAfterFill,
      f.refileGuardExpire, f.windowBoundsChecked, f.claimLoserRefiled].any (· == .unknown) then
    some "treasuresForBeacon / addTreasureToBeacons / SaveFunction / treasure flags" else
  if f.patchExpiredReindexesAll == .unknown || !f.claimPathsStandard.isYes then
    some "PatchExpired / ReindexExpiration / ShiftMatching" else
  none

def classify (f : Facts) : Verdict :=
  match unknownFact f with
  | some why => .undetermined why
  | none =>
    if goodB (cfgOf f) then .holds
    else if findings (cfgOf f) != [] then .violated (findings (cfgOf f))
    else .undetermined "facts are neither the sound ones nor refuted by a witness"

/-- what is still proved when the property is violated: the index types with sound facts -/
def Partial (cfg : Cfg) : Prop :=
  bsGoodB cfg = true →
    HoldsFor cfg (fun s => slotGoodB cfg s = true) ∧
    -- value indexes: single-type swamps, when the shared pair is dropped by every add / content change
    (valFactsB cfg = true → ∀ (t : CT) (h : List Op), (∀ op ∈ h, OpOk t op) → ∀ (q : Query), q.slot = .value t →
      ∀ res, answer cfg (run cfg h) q = some res → CorrectPage res q (run cfg h).store)

theorem classify_sound (f : Facts) : (classify f).Sound (Holds (cfgOf f)) (Partial (cfgOf f)) := by
  unfold classify
  split
  · trivial
  · split
    · rename_i hg; exact holds_of_good _ hg
    · split
      · rename_i hf
        refine ⟨refutes_of_findings _ ?_, fun hb => ⟨holds_partial _ hb, fun hv t h hok q hq res ha =>
          value_single_type _ (bsGood_of _ hb) (winChecked_of _ hb) (valFacts_of _ hv) t h hok q hq res ha⟩⟩
        intro he; rw [he] at hf; simp at hf
      · trivial

end Hv.C07
