/-
  C19 — Subscribers get each committed change once, in order, with correct time.

  "A client subscribed to a swamp receives exactly one event for every record that is created,
   updated or deleted while it is subscribed, and none for saves that change nothing or for
   reads.  Events for the same record arrive in commit order and carry the committed values,
   and each event's timestamp is the wall-clock time of the change.  Concurrent changes never
   corrupt the event stream."

  Quantifiers: every history of set/inc/del/shift/get/reload/sub/unsub (any length), every
  event time (any `Int`), every schedule of any number of writer goroutines (any length).
  Model: `Hv/Data/Events.lean`.
-/
import Hv.Data.Events
import Hv.Basic.Verdict

namespace Hv.C19
open Hv.Events

structure Cfg where
  ev : Events.Cfg
  timeConv : TimeConv
  /-- the callback takes a per-stream mutex around `SendMsg` -/
  sendUnderMutex : Bool
  /-- events are emitted before the record guard is released, and the fan-out is synchronous -/
  emittedUnderGuard : Bool
  /-- `Event.EventTime` is read from the clock when the event is built (not taken from the record's metadata) -/
  stampFromClock : Bool
  /-- SummonSwamp looks for subscribers after it has stored the new instance in the swamp map -/
  checksSubscribersAfterStore : Bool
  deriving DecidableEq, Repr

/-! ### a subscription that arrives while the swamp is being loaded

  hydra.go: SummonSwamp creates the instance (loading it from disk), stores it in the swamp map and switches event
  sending on when somebody is subscribed; SubscribeToSwampEvents registers the subscriber and then switches sending on
  when the swamp is in the map.  Store-then-look on both sides: whoever comes second sees the other. -/
namespace SubRace

structure St where
  pcA : Nat        -- summoner
  pcB : Nat        -- subscriber
  stored : Bool
  subscribed : Bool
  saw : Bool       -- defective order only: what the summoner saw before the load
  sending : Bool
  deriving DecidableEq, Repr

def init : St := { pcA := 0, pcB := 0, stored := false, subscribed := false, saw := false, sending := false }

/-- `true`: a step of the summoner, `false`: of the subscriber -/
def step (afterStore : Bool) (s : St) (a : Bool) : Option St :=
  if a then
    match s.pcA with
    | 0 => if afterStore then some { s with pcA := 1, stored := true } else some { s with pcA := 1, saw := s.subscribed }
    | 1 => if afterStore then some { s with pcA := 2, sending := s.sending || s.subscribed }
           else some { s with pcA := 2, stored := true, sending := s.sending || s.saw }
    | _ => none
  else
    match s.pcB with
    | 0 => some { s with pcB := 1, subscribed := true }
    | 1 => some { s with pcB := 2, sending := s.sending || s.stored }
    | _ => none

abbrev run (afterStore : Bool) := LTS.run (step afterStore)

structure Inv (s : St) : Prop where
  a : 1 ≤ s.pcA → s.stored = true
  b : 1 ≤ s.pcB → s.subscribed = true
  j : s.pcA = 2 → s.pcB = 2 → s.sending = true

theorem inv_step (s s' : St) (x : Bool) (h : Inv s) (hs : step true s x = some s') : Inv s' := by
  obtain ⟨ha, hb, hj⟩ := h
  cases x
  · have hc : s.pcB = 0 ∨ s.pcB = 1 ∨ 2 ≤ s.pcB := by omega
    rcases hc with h0 | h1 | h2
    · simp [step, h0] at hs; subst hs
      exact ⟨ha, fun _ => rfl, fun _ h2 => by simp at h2⟩
    · simp [step, h1] at hs; subst hs
      refine ⟨ha, fun _ => hb (by omega), fun hA _ => ?_⟩
      simp [ha (by simp at hA; omega)]
    · have : ∃ n, s.pcB = n + 2 := ⟨s.pcB - 2, by omega⟩
      obtain ⟨n, hn⟩ := this
      simp [step, hn] at hs
  · have hc : s.pcA = 0 ∨ s.pcA = 1 ∨ 2 ≤ s.pcA := by omega
    rcases hc with h0 | h1 | h2
    · simp [step, h0] at hs; subst hs
      exact ⟨fun _ => rfl, hb, fun h2 _ => by simp at h2⟩
    · simp [step, h1] at hs; subst hs
      refine ⟨fun _ => ha (by omega), hb, fun _ hB => ?_⟩
      simp [hb (by simp at hB; omega)]
    · have : ∃ n, s.pcA = n + 2 := ⟨s.pcA - 2, by omega⟩
      obtain ⟨n, hn⟩ := this
      simp [step, hn] at hs

/-- whatever the interleaving, once both calls have returned the swamp is sending -/
theorem sending_after_store (l : List Bool) (s : St) (h : run true init l = some s) (hA : s.pcA = 2) (hB : s.pcB = 2) :
    s.sending = true :=
  (LTS.inv_run (step true) Inv (fun s a s' hi hs => inv_step s s' a hi hs) init l s
    ⟨by simp [init], by simp [init], by simp [init]⟩ h).j hA hB

/-- looking before the load: the subscriber registers during the load, finds no swamp in the map, and nobody switches
    sending on -/
theorem missed_when_checked_first : (run false init [true, false, false, true]).map (·.sending) = some false := by decide

end SubRace

/-- the stamp an event gets: the clock, or — defective — the record's CreatedAt / ModifiedAt when it has one
    (client-supplied metadata, any instant) -/
def stamp (fromClock : Bool) (now rmeta : Int) : Int := if fromClock then now else if rmeta > 0 then rmeta else now

/-- The full-strength statement. -/
structure Holds (c : Cfg) : Prop where
  /-- the wire timestamp denotes exactly the wall-clock instant of the change, whatever metadata the record carries -/
  timeExact : ∀ now rmeta : Int, toNanos (conv c.timeConv (stamp c.stampFromClock now rmeta)) = now
  /-- every subscriber receives exactly the Spec's events of its subscription window:
      one per create / real update / delete with the committed and previous values, none
      for no-op saves and reads -/
  exactlyOnce : ∀ i ops, deliveredM c.ev i St.init ops = deliveredS i Spec.init ops
  /-- per record, emission order is commit order: the emitted sequence is always the commit
      sequence minus at most the one commit whose writer still holds the guard -/
  perKeyOrder : ∀ sched s, Order.run c.emittedUnderGuard Order.init sched = some s →
      ∃ rest, s.commits = s.emitted ++ rest ∧ rest.length ≤ 1
  /-- no two goroutines are inside `SendMsg` on one stream at the same time -/
  serialized : ∀ sched s, Send.run c.sendUnderMutex Send.init sched = some s → Send.Serialized s
  /-- a subscription made while the swamp is being summoned is served: once the summon and the subscribe call have
      both returned, the swamp sends events -/
  subscribedWhileLoading : ∀ l s, SubRace.run c.checksSubscribersAfterStore SubRace.init l = some s →
      s.pcA = 2 → s.pcB = 2 → s.sending = true

/-! ### time conversion (pure `Int` arithmetic) -/

def TimeConv.exact (tc : TimeConv) : Prop := tc = .unixNano ∨ tc = .unixSplit

instance (tc : TimeConv) : Decidable (TimeConv.exact tc) := by unfold TimeConv.exact; exact inferInstance

theorem conv_nano (n : Int) : toNanos (conv .unixNano n) = n := by
  simp only [conv, unixTs, toNanos, giga]; omega

theorem conv_split (n : Int) : toNanos (conv .unixSplit n) = n := by
  simp only [conv, unixTs, toNanos, giga]; omega

theorem conv_sec (n : Int) : toNanos (conv .unixSec n) = n * 1000000000 := by
  simp only [conv, unixTs, toNanos, giga]; omega

/-- the conversion is the identity on instants exactly for the nanosecond forms -/
theorem time_conv_id (tc : TimeConv) : (∀ n : Int, toNanos (conv tc n) = n) ↔ TimeConv.exact tc := by
  constructor
  · intro h
    cases tc with
    | unixSec => have := h 1; rw [conv_sec] at this; omega
    | unixNano => exact Or.inl rfl
    | unixSplit => exact Or.inr rfl
    | unknown => have := h 1; simp [conv, toNanos] at this
  · rintro (h | h) n <;> subst h
    · exact conv_nano n
    · exact conv_split n

/-- the concrete size of the error for the seconds form: a 2026 event is rendered ~5·10¹⁰ years ahead -/
example : toNanos (conv .unixSec 1790000000000000000) = 1790000000000000000 * 1000000000 := conv_sec _

/-! ### exactly once (sequential histories) -/

def goodEv : Events.Cfg := { resetsChangedFlags := true, oldIsLive := false }

/-- model state and Spec state agree, and no record carries a stale changed flag -/
structure Rel (s : St) (sp : Spec) : Prop where
  vals : ∀ k, (s.recs k).map (·.val) = sp.recs k
  clean : ∀ k r, s.recs k = some r → r.dirty = false
  subs : s.subs = sp.subs

theorem rel_init : Rel St.init Spec.init := ⟨fun _ => rfl, fun _ _ h => by simp [St.init] at h, rfl⟩

theorem rel_upd_some (s : St) (sp : Spec) (h : Rel s sp) (k : String) (v : Val) :
    Rel { s with recs := upd s.recs k (some { val := v, dirty := false }) }
        { sp with recs := upd sp.recs k (some v) } := by
  refine ⟨?_, ?_, h.subs⟩
  · intro k'; simp only [upd]; split
    · rfl
    · exact h.vals k'
  · intro k' r hr; simp only [upd] at hr; split at hr
    · simp at hr; subst hr; rfl
    · exact h.clean k' r hr

theorem rel_upd_none (s : St) (sp : Spec) (h : Rel s sp) (k : String) :
    Rel { s with recs := upd s.recs k none } { sp with recs := upd sp.recs k none } := by
  refine ⟨?_, ?_, h.subs⟩
  · intro k'; simp only [upd]; split
    · rfl
    · exact h.vals k'
  · intro k' r hr; simp only [upd] at hr; split at hr
    · simp at hr
    · exact h.clean k' r hr

theorem save_rel (s : St) (sp : Spec) (h : Rel s sp) (k : String) (v : Val) :
    (save goodEv s k v).2.2 = (specSave sp k v).2 ∧ Rel (save goodEv s k v).1 (specSave sp k v).1 := by
  have hv := h.vals k
  cases hr : s.recs k with
  | none =>
    have hs : sp.recs k = none := by simpa [hr] using hv.symm
    simp only [save, specSave, hr, hs, goodEv]
    exact ⟨by simp, rel_upd_some s sp h k v⟩
  | some r =>
    have hs : sp.recs k = some r.val := by simpa [hr] using hv.symm
    have hd : r.dirty = false := h.clean k r hr
    simp only [save, specSave, hr, hs, goodEv, hd, Bool.false_or]
    by_cases hne : (r.val != v) = true
    · simp only [hne, if_true]
      exact ⟨by simp, rel_upd_some s sp h k v⟩
    · simp only [hne]
      exact ⟨by simp, h⟩

theorem remove_rel (s : St) (sp : Spec) (h : Rel s sp) (k : String) :
    (remove s k).2.2 = (specRemove sp k).2 ∧ Rel (remove s k).1 (specRemove sp k).1 := by
  have hv := h.vals k
  cases hr : s.recs k with
  | none =>
    have hs : sp.recs k = none := by simpa [hr] using hv.symm
    simp only [remove, specRemove, hr, hs]; exact ⟨by simp, h⟩
  | some r =>
    have hs : sp.recs k = some r.val := by simpa [hr] using hv.symm
    simp only [remove, specRemove, hr, hs]; exact ⟨by simp, rel_upd_none s sp h k⟩

theorem step_rel (s : St) (sp : Spec) (h : Rel s sp) (op : Op) :
    (stepM goodEv s op).2.2 = (stepS sp op).2 ∧ Rel (stepM goodEv s op).1 (stepS sp op).1 := by
  cases op with
  | set k v =>
    have := save_rel s sp h k v
    simp only [stepM, goodEv, Bool.not_true, Bool.and_false, Bool.false_eq_true, if_false]
    exact this
  | drain b => exact ⟨rfl, h.vals, h.clean, h.subs⟩
  | inc k n =>
    have hv := h.vals k
    cases hr : s.recs k with
    | none =>
      have hs : sp.recs k = none := by simpa [hr] using hv.symm
      simp only [stepM, stepS, hr, hs]; exact save_rel s sp h k _
    | some r =>
      have hs : sp.recs k = some r.val := by simpa [hr] using hv.symm
      cases hval : r.val with
      | int i =>
        simp only [stepM, stepS, hr, hs, hval]; exact save_rel s sp h k _
      | str x =>
        simp only [stepM, stepS, hr, hs, hval]; exact ⟨by simp, h⟩
  | del k => exact remove_rel s sp h k
  | shift k => exact remove_rel s sp h k
  | get k => exact ⟨rfl, h⟩
  | reload =>
    refine ⟨rfl, ?_, ?_, h.subs⟩
    · intro k; simp only [stepM, stepS]
      rw [← h.vals k]; cases s.recs k <;> rfl
    · intro k r hr; simp only [stepM] at hr
      cases hk : s.recs k with
      | none => simp [hk] at hr
      | some r0 => simp [hk] at hr; subst hr; rfl
  | sub i => exact ⟨rfl, h.vals, h.clean, by simp only [stepM, stepS, h.subs]⟩
  | unsub i => exact ⟨rfl, h.vals, h.clean, by simp only [stepM, stepS, h.subs]⟩

/-- With flags reset after every committed save and a cloned old record, every subscriber
    receives exactly the Spec's events, for every history. -/
theorem exactly_once (i : Nat) (ops : List Op) (s : St) (sp : Spec) (h : Rel s sp) :
    deliveredM goodEv i s ops = deliveredS i sp ops := by
  induction ops generalizing s sp with
  | nil => rfl
  | cons op ops ih =>
    have hs := step_rel s sp h op
    simp only [deliveredM, deliveredS, hs.1, h.subs]
    rw [ih _ _ hs.2]

/-- Non-vacuity: a history with a no-op save, a read and an unsubscribed change. -/
example : deliveredM goodEv 1 St.init
    [.sub 1, .set "a" (.str "x"), .set "a" (.str "x"), .get "a", .inc "n" 2, .inc "n" 3,
     .unsub 1, .set "a" (.str "y"), .sub 1, .del "a"] =
    [⟨.new, "a", .str "x", none⟩, ⟨.new, "n", .int 2, none⟩, ⟨.mod, "n", .int 5, some (.int 2)⟩,
     ⟨.del, "a", .str "y", none⟩] := by decide

/-- Current code (flags never cleared): the second, identical save is reported again. -/
def witnessNoop : List Op := [.sub 1, .set "a" (.str "x"), .set "a" (.str "x")]

theorem noop_save_emits (oldLive dr : Bool) :
    deliveredM { resetsChangedFlags := false, oldIsLive := oldLive, sendsDuringDrain := dr } 1 St.init witnessNoop
      ≠ deliveredS 1 Spec.init witnessNoop := by
  cases oldLive <;> cases dr <;> decide

/-- `OldTreasure` is the live (already updated) object: the previous value never reaches the client. -/
def witnessOld : List Op := [.sub 1, .set "a" (.str "x"), .set "a" (.str "y")]

theorem old_value_lost (dr : Bool) :
    deliveredM { resetsChangedFlags := true, oldIsLive := true, sendsDuringDrain := dr } 1 St.init witnessOld
      ≠ deliveredS 1 Spec.init witnessOld := by cases dr <;> decide

/-- Destroy switches event sending off before it drains the in-flight requests: a record inserted during the drain
    is committed (and survives, the swamp is closed instead of destroyed) but its NEW event is never sent. -/
def witnessDrain : List Op := [.sub 1, .set "a" (.str "x"), .drain true, .set "b" (.str "y"), .drain false]

theorem event_dropped_during_drain :
    deliveredM { resetsChangedFlags := true, oldIsLive := false, sendsDuringDrain := false } 1 St.init witnessDrain
      ≠ deliveredS 1 Spec.init witnessDrain := by decide

/-! ### per-key order -/

structure OInv (s : Order.St) : Prop where
  hold : ∀ t, s.pc t ≠ 0 ↔ s.holder = some t
  pend : ∀ t, s.pending t ≠ none → s.pc t = 2
  main : s.commits = s.emitted ++ (match s.holder with | some t => (s.pending t).toList | none => [])

theorem oinv_init : OInv Order.init := by
  refine ⟨?_, ?_, ?_⟩ <;> simp [Order.init]

theorem oinv_step (s : Order.St) (t : Nat) (s' : Order.St) (h : OInv s)
    (hs : Order.step true s t = some s') : OInv s' := by
  obtain ⟨hold, pend, main⟩ := h
  simp only [Order.step] at hs
  split at hs
  · -- pc t = 0: acquire
    rename_i hpc
    split at hs
    · rename_i hh
      simp at hs; subst hs
      have hpt : s.pending t = none := by
        cases hp : s.pending t with
        | none => rfl
        | some n => have := pend t (by simp [hp]); omega
      refine ⟨?_, ?_, ?_⟩
      · intro u; simp only [Order.setp]
        by_cases hu : u = t
        · subst hu; simp
        · simp only [hu, if_false]
          have := hold u; rw [hh] at this
          constructor
          · intro h1; exact absurd (this.mp h1) (by simp)
          · intro h1; simp at h1; exact absurd h1.symm hu
      · intro u hu; simp only [Order.setp]
        have := pend u hu
        by_cases hut : u = t
        · subst hut; omega
        · simp [hut, this]
      · simp only [hpt, Option.toList]; rw [hh] at main; simpa using main
    · simp at hs
  · -- pc t = 1: commit
    rename_i hpc
    simp at hs; subst hs
    have hh : s.holder = some t := (hold t).mp (by omega)
    have hpt : s.pending t = none := by
      cases hp : s.pending t with
      | none => rfl
      | some n => have := pend t (by simp [hp]); omega
    refine ⟨?_, ?_, ?_⟩
    · intro u; simp only [Order.setp]
      by_cases hu : u = t
      · subst hu; simp [hh]
      · simp only [hu, if_false]; exact hold u
    · intro u hu; simp only [Order.setp] at hu ⊢
      by_cases hut : u = t
      · simp [hut]
      · simp only [hut, if_false] at hu ⊢; exact pend u hu
    · simp only [hh, Order.setp, if_true, Option.toList]
      rw [hh] at main; simp only [hpt, Option.toList, List.append_nil] at main
      rw [main]
  · -- pc t = 2: emit under the guard
    rename_i hpc
    simp at hs; subst hs
    have hh : s.holder = some t := (hold t).mp (by omega)
    cases hp : s.pending t with
    | none =>
      simp only [Order.emit, hp]
      refine ⟨?_, ?_, ?_⟩
      · intro u; simp only [Order.setp]
        by_cases hu : u = t
        · subst hu; simp [hh]
        · simp only [hu, if_false]; exact hold u
      · intro u hu; simp only [Order.setp]
        by_cases hut : u = t
        · subst hut; exact absurd hp hu
        · simp only [hut, if_false]; exact pend u hu
      · exact main
    | some n =>
      simp only [Order.emit, hp]
      refine ⟨?_, ?_, ?_⟩
      · intro u; simp only [Order.setp]
        by_cases hu : u = t
        · subst hu; simp [hh]
        · simp only [hu, if_false]; exact hold u
      · intro u hu; simp only [Order.setp] at hu ⊢
        by_cases hut : u = t
        · simp [hut] at hu
        · simp only [hut, if_false] at hu ⊢; exact pend u hu
      · simp only [hh, Order.setp, if_true, Option.toList, List.append_nil]
        rw [hh] at main; simp only [hp, Option.toList] at main
        exact main
  · -- pc t ≥ 3: release
    rename_i h0 h1 h2
    simp at hs; subst hs
    have hpc : s.pc t ≠ 0 := h0
    have hh : s.holder = some t := (hold t).mp hpc
    have hpt : s.pending t = none := by
      cases hp : s.pending t with
      | none => rfl
      | some n => have := pend t (by simp [hp]); exact absurd this h2
    refine ⟨?_, ?_, ?_⟩
    · intro u; simp only [Order.setp]
      by_cases hu : u = t
      · subst hu; simp
      · simp only [hu, if_false]
        have := hold u; rw [hh] at this
        constructor
        · intro h3; have := this.mp h3; simp at this; exact absurd this.symm hu
        · intro h3; simp at h3
    · intro u hu; simp only [Order.setp]
      have := pend u hu
      by_cases hut : u = t
      · subst hut; exact absurd this h2
      · simp [hut, this]
    · rw [hh] at main; simp only [hpt, Option.toList, List.append_nil] at main
      simp [main]

/-- Emission under the record guard: the emitted sequence is the commit sequence, minus at most
    the holder's not-yet-emitted commit — for every number of writers and every schedule. -/
theorem per_key_order (sched : List Nat) (s : Order.St)
    (h : Order.run true Order.init sched = some s) :
    ∃ rest, s.commits = s.emitted ++ rest ∧ rest.length ≤ 1 := by
  have hi : OInv s := LTS.inv_run (Order.step true) OInv (fun s a s' hi hs => oinv_step s a s' hi hs)
    Order.init sched s oinv_init h
  refine ⟨_, hi.main, ?_⟩
  cases s.holder with
  | none => simp
  | some t => cases hp : s.pending t <;> simp [hp]

/-- …and once nobody holds the guard, exactly the commit sequence has been emitted. -/
theorem per_key_order_quiescent (sched : List Nat) (s : Order.St)
    (h : Order.run true Order.init sched = some s) (hq : s.holder = none) : s.emitted = s.commits := by
  have hi : OInv s := LTS.inv_run (Order.step true) OInv (fun s a s' hi hs => oinv_step s a s' hi hs)
    Order.init sched s oinv_init h
  have := hi.main; rw [hq] at this; simpa using this.symm

/-- Non-vacuity: two writers, one blocked behind the other, both commits emitted in order. -/
example : (Order.run true Order.init [1, 1, 1, 1, 2, 2, 2, 2]).map (fun s => (s.commits, s.emitted, s.holder))
    = some ([0, 1], [0, 1], none) := by decide

/-- Emission after the release: writer 1 commits first, writer 2 emits first. -/
def witnessOrder : List Nat := [1, 1, 1, 2, 2, 2, 2, 1]

theorem order_lost_without_guard :
    (Order.run false Order.init witnessOrder).map (fun s => (s.commits, s.emitted)) = some ([0, 1], [1, 0]) := by
  decide

/-! ### serialised sends -/

structure SInv (s : Send.St) : Prop where
  own : ∀ t, (s.pc t = 1 ∨ s.pc t = 2 ∨ s.pc t = 3) → s.holder = some t
  range : ∀ t, s.pc t ≤ 3

theorem sinv_init : SInv Send.init := by
  constructor <;> intro t <;> simp [Send.init]

theorem sinv_step (s : Send.St) (t : Nat) (s' : Send.St) (h : SInv s)
    (hs : Send.step true s t = some s') : SInv s' := by
  obtain ⟨own, range⟩ := h
  simp only [Send.step] at hs
  split at hs
  · rename_i hpc
    simp only [if_true] at hs
    split at hs
    · rename_i hh
      simp at hs; subst hs
      constructor
      · intro u hu; simp only [Send.set] at hu ⊢
        by_cases hut : u = t
        · subst hut; rfl
        · simp only [hut, if_false] at hu
          have := own u hu; rw [hh] at this; simp at this
      · intro u; simp only [Send.set]; split
        · omega
        · exact range u
    · simp at hs
  · rename_i hpc
    simp at hs; subst hs
    have hh := own t (Or.inl hpc)
    constructor
    · intro u hu; simp only [Send.set] at hu ⊢
      by_cases hut : u = t
      · subst hut; exact hh
      · simp only [hut, if_false] at hu; exact own u hu
    · intro u; simp only [Send.set]; split
      · omega
      · exact range u
  · rename_i hpc
    simp at hs; subst hs
    have hh := own t (Or.inr (Or.inl hpc))
    constructor
    · intro u hu; simp only [Send.set] at hu ⊢
      by_cases hut : u = t
      · subst hut; exact hh
      · simp only [hut, if_false] at hu; exact own u hu
    · intro u; simp only [Send.set]; split
      · omega
      · exact range u
  · rename_i h0 h1 h2
    simp at hs; subst hs
    have h0' : s.pc t ≠ 0 := h0
    have h1' : s.pc t ≠ 1 := h1
    have h2' : s.pc t ≠ 2 := h2
    have h3 : s.pc t = 3 := by have := range t; omega
    have hh := own t (Or.inr (Or.inr h3))
    constructor
    · intro u hu; simp only [Send.set] at hu
      by_cases hut : u = t
      · subst hut; simp at hu
      · simp only [hut, if_false] at hu
        have := own u hu; rw [hh] at this; simp at this; exact absurd this.symm hut
    · intro u; simp only [Send.set]; split
      · omega
      · exact range u

theorem serialized_of_mutex (sched : List Nat) (s : Send.St)
    (h : Send.run true Send.init sched = some s) : Send.Serialized s := by
  have hi : SInv s := LTS.inv_run (Send.step true) SInv (fun s a s' hi hs => sinv_step s a s' hi hs)
    Send.init sched s sinv_init h
  intro t u ht hu
  have h1 := hi.own t (Or.inr (Or.inl ht))
  have h2 := hi.own u (Or.inr (Or.inl hu))
  rw [h1] at h2; exact Option.some.inj h2

/-- Without the mutex two writers are inside `SendMsg` together after four steps. -/
def witnessSend : List Nat := [1, 1, 2, 2]

theorem overlap_without_mutex :
    (Send.run false Send.init witnessSend).map (fun s => (s.pc 1, s.pc 2)) = some (2, 2) := by decide

/-- `SendMsg` calls on one stream never overlap, for every schedule, iff the mutex is there. -/
theorem sends_serialized (m : Bool) :
    (∀ sched s, Send.run m Send.init sched = some s → Send.Serialized s) ↔ m = true := by
  constructor
  · intro h
    cases m with
    | true => rfl
    | false =>
      exfalso
      cases hr : Send.run false Send.init witnessSend with
      | none => have := overlap_without_mutex; rw [hr] at this; simp at this
      | some s =>
        have hw := overlap_without_mutex; rw [hr] at hw
        simp at hw
        have := h witnessSend s hr 1 2 hw.1 hw.2
        exact absurd this (by decide)
  · intro hm; subst hm; exact serialized_of_mutex

/-- Non-vacuity: with the mutex the second writer is refused until the first has unlocked. -/
example : (Send.run true Send.init [1, 1, 2]).isNone = true ∧
    ((Send.run true Send.init [1, 1, 1, 1, 2, 2]).map (fun s => (s.pc 1, s.pc 2))) = some (0, 2) := by decide

/-! ### decision over the extracted facts -/

structure Facts where
  timeConv : TimeConv
  sendUnderMutex : Tri
  emittedUnderGuard : Tri
  fanoutSynchronous : Tri
  resetsChangedFlags : Tri
  oldIsLive : Tri
  /-- every `Event{…}` literal in swamp.go takes `EventTime` from `time.Now()` -/
  eventTimeFromClock : Tri
  /-- hydra.SummonSwamp: `hasEventSubscriber` is consulted after `h.swamps.Store` -/
  checksSubscribersAfterStore : Tri
  /-- swamp.destroy calls StopSendingEvents after the vigil drain and the non-empty re-check -/
  stopsSendingAfterDrain : Tri
  deriving Repr

def cfgOf (f : Facts) : Cfg :=
  { ev := { resetsChangedFlags := f.resetsChangedFlags.isYes, oldIsLive := !f.oldIsLive.isNo,
            sendsDuringDrain := !f.stopsSendingAfterDrain.isNo },
    timeConv := f.timeConv,
    sendUnderMutex := f.sendUnderMutex.isYes,
    emittedUnderGuard := f.emittedUnderGuard.isYes && f.fanoutSynchronous.isYes,
    stampFromClock := !f.eventTimeFromClock.isNo,
    checksSubscribersAfterStore := !f.checksSubscribersAfterStore.isNo }

def findings (c : Cfg) : List String :=
  (if c.timeConv = .unixSec then ["C19-event-time-nanos-as-seconds"] else []) ++
  (if c.sendUnderMutex then [] else ["C19-concurrent-sendmsg"]) ++
  (if c.ev.resetsChangedFlags then [] else ["C19-noop-save-emits-event"]) ++
  (if c.ev.oldIsLive then ["C19-old-treasure-is-live-object"] else []) ++
  (if c.emittedUnderGuard then [] else ["C19-events-out-of-order"]) ++
  (if c.stampFromClock then [] else ["C19-event-time-from-record-metadata"]) ++
  (if c.checksSubscribersAfterStore then [] else ["C19-subscribe-during-load-misses-events"]) ++
  (if c.ev.sendsDuringDrain then [] else ["C19-event-dropped-during-destroy-drain"])

def classify (f : Facts) : Verdict :=
  if f.timeConv = .unknown then .undetermined "events.timeConv" else
  if f.sendUnderMutex = .unknown then .undetermined "events.sendUnderMutex" else
  if f.emittedUnderGuard = .unknown then .undetermined "events.emittedUnderGuard" else
  if f.fanoutSynchronous = .unknown then .undetermined "events.fanoutSynchronous" else
  if f.resetsChangedFlags = .unknown then .undetermined "save.resetsChangedFlags" else
  if f.oldIsLive = .unknown then .undetermined "events.oldIsLive" else
  if f.eventTimeFromClock = .unknown then .undetermined "events.eventTimeFromClock" else
  if f.checksSubscribersAfterStore = .unknown then .undetermined "summon.checksSubscribersAfterStore" else
  if f.stopsSendingAfterDrain = .unknown then .undetermined "destroy.stopsSendingAfterDrain" else
  match findings (cfgOf f) with
  | [] => .holds
  | fs => .violated fs

/-- The `_partial` statement: every clause of `Holds` whose own facts are good holds,
    whatever the other facts are. -/
structure HoldsPartial (c : Cfg) : Prop where
  timeExact : TimeConv.exact c.timeConv → c.stampFromClock = true →
    ∀ now rmeta : Int, toNanos (conv c.timeConv (stamp c.stampFromClock now rmeta)) = now
  exactlyOnce : c.ev = goodEv → ∀ i ops, deliveredM c.ev i St.init ops = deliveredS i Spec.init ops
  perKeyOrder : c.emittedUnderGuard = true → ∀ sched s, Order.run c.emittedUnderGuard Order.init sched = some s →
      ∃ rest, s.commits = s.emitted ++ rest ∧ rest.length ≤ 1
  serialized : c.sendUnderMutex = true → ∀ sched s, Send.run c.sendUnderMutex Send.init sched = some s → Send.Serialized s
  subscribedWhileLoading : c.checksSubscribersAfterStore = true → ∀ l s,
      SubRace.run c.checksSubscribersAfterStore SubRace.init l = some s → s.pcA = 2 → s.pcB = 2 → s.sending = true

theorem holds_partial (c : Cfg) : HoldsPartial c := by
  refine ⟨?_, ?_, ?_, ?_, ?_⟩
  · intro h hc now rmeta; rw [hc]; simp only [stamp, if_true]; exact (time_conv_id _).mpr h now
  · intro h i ops; rw [h]; exact exactly_once i ops _ _ rel_init
  · intro h sched s hr; rw [h] at hr; exact per_key_order sched s hr
  · intro h sched s hr; rw [h] at hr; exact serialized_of_mutex sched s hr
  · intro h l s hr hA hB; rw [h] at hr; exact SubRace.sending_after_store l s hr hA hB

theorem holds_of_no_findings (c : Cfg) (hex : c.timeConv ≠ .unknown) (h : findings c = []) : Holds c := by
  simp only [findings, List.append_eq_nil_iff] at h
  obtain ⟨⟨⟨⟨⟨⟨⟨h1, h2⟩, h3⟩, h4⟩, h5⟩, h6⟩, h7⟩, h8⟩ := h
  have hdd : c.ev.sendsDuringDrain = true := by cases hh : c.ev.sendsDuringDrain <;> simp [hh] at h8 ⊢
  have hsc : c.stampFromClock = true := by cases hh : c.stampFromClock <;> simp [hh] at h6 ⊢
  have hcs : c.checksSubscribersAfterStore = true := by cases hh : c.checksSubscribersAfterStore <;> simp [hh] at h7 ⊢
  have p := holds_partial c
  have ht : TimeConv.exact c.timeConv := by
    cases htc : c.timeConv with
    | unixSec => simp [htc] at h1
    | unixNano => exact Or.inl rfl
    | unixSplit => exact Or.inr rfl
    | unknown => exact absurd htc hex
  have hm : c.sendUnderMutex = true := by cases hh : c.sendUnderMutex <;> simp [hh] at h2 ⊢
  have hr : c.ev.resetsChangedFlags = true := by cases hh : c.ev.resetsChangedFlags <;> simp [hh] at h3 ⊢
  have ho : c.ev.oldIsLive = false := by cases hh : c.ev.oldIsLive <;> simp [hh] at h4 ⊢
  have hg : c.emittedUnderGuard = true := by cases hh : c.emittedUnderGuard <;> simp [hh] at h5 ⊢
  have hev : c.ev = goodEv := by cases hc : c.ev; simp [hc] at hr ho hdd; simp [goodEv, hr, ho, hdd]
  exact ⟨p.timeExact ht hsc, p.exactlyOnce hev, p.perKeyOrder hg, p.serialized hm, p.subscribedWhileLoading hcs⟩

theorem refutes_of_findings (c : Cfg) (h : findings c ≠ []) : ¬ Holds c := by
  intro hh
  apply h
  have h1 : c.timeConv ≠ .unixSec := by
    intro e; have := hh.timeExact 1 0
    have hs : stamp c.stampFromClock 1 0 = 1 := by unfold stamp; cases c.stampFromClock <;> simp
    rw [hs, e, conv_sec] at this; omega
  have h2 : c.sendUnderMutex = true := (sends_serialized _).mp hh.serialized
  have h3 : c.ev.resetsChangedFlags = true := by
    cases hr : c.ev.resetsChangedFlags with
    | true => rfl
    | false =>
      exfalso
      have := hh.exactlyOnce 1 witnessNoop
      have hc : c.ev = { resetsChangedFlags := false, oldIsLive := c.ev.oldIsLive, sendsDuringDrain := c.ev.sendsDuringDrain } := by
        cases hc : c.ev; simp [hc] at hr; simp [hr]
      rw [hc] at this; exact noop_save_emits _ _ this
  have h4 : c.ev.oldIsLive = false := by
    cases ho : c.ev.oldIsLive with
    | false => rfl
    | true =>
      exfalso
      have := hh.exactlyOnce 1 witnessOld
      have hc : c.ev = { resetsChangedFlags := true, oldIsLive := true, sendsDuringDrain := c.ev.sendsDuringDrain } := by
        cases hc : c.ev; simp [hc] at h3 ho; simp [h3, ho]
      rw [hc] at this; exact old_value_lost _ this
  have h8 : c.ev.sendsDuringDrain = true := by
    cases hd : c.ev.sendsDuringDrain with
    | true => rfl
    | false =>
      exfalso
      have := hh.exactlyOnce 1 witnessDrain
      have hc : c.ev = { resetsChangedFlags := true, oldIsLive := false, sendsDuringDrain := false } := by
        cases hc : c.ev; simp [hc] at h3 h4 hd; simp [h3, h4, hd]
      rw [hc] at this; exact event_dropped_during_drain this
  have h5 : c.emittedUnderGuard = true := by
    cases hg : c.emittedUnderGuard with
    | true => rfl
    | false =>
      exfalso
      cases hr : Order.run false Order.init witnessOrder with
      | none => have := order_lost_without_guard; rw [hr] at this; simp at this
      | some s =>
        have hw := order_lost_without_guard; rw [hr] at hw; simp at hw
        have := hh.perKeyOrder witnessOrder s (by rw [hg]; exact hr)
        obtain ⟨rest, he, _⟩ := this
        rw [hw.1, hw.2] at he
        simp at he
  have h6 : c.stampFromClock = true := by
    cases hs : c.stampFromClock with
    | true => rfl
    | false =>
      exfalso
      -- a record created "in 2001" (meta = 5) and changed now (now = 7): the wire time is 5
      have := hh.timeExact 7 5
      rw [hs] at this
      have hx : stamp false 7 5 = 5 := by decide
      rw [hx] at this
      cases htc : c.timeConv with
      | unixSec => exact h1 htc
      | unixNano => rw [htc, conv_nano] at this; omega
      | unixSplit => rw [htc, conv_split] at this; omega
      | unknown => rw [htc] at this; simp [conv, toNanos] at this
  have h7 : c.checksSubscribersAfterStore = true := by
    cases hs : c.checksSubscribersAfterStore with
    | true => rfl
    | false =>
      exfalso
      cases hr : SubRace.run false SubRace.init [true, false, false, true] with
      | none => have := SubRace.missed_when_checked_first; rw [hr] at this; simp at this
      | some s =>
        have hw := SubRace.missed_when_checked_first; rw [hr] at hw; simp at hw
        have hpc : s.pcA = 2 ∧ s.pcB = 2 := by
          have : (SubRace.run false SubRace.init [true, false, false, true]).map (fun s => (s.pcA, s.pcB)) = some (2, 2) := by decide
          rw [hr] at this; simp at this; exact this
        have := hh.subscribedWhileLoading [true, false, false, true] s (by rw [hs]; exact hr) hpc.1 hpc.2
        rw [hw] at this; exact absurd this (by simp)
  simp [findings, h1, h2, h3, h4, h5, h6, h7, h8]

theorem classify_sound (f : Facts) : (classify f).Sound (Holds (cfgOf f)) (HoldsPartial (cfgOf f)) := by
  unfold classify
  split; · trivial
  split; · trivial
  split; · trivial
  split; · trivial
  split; · trivial
  split; · trivial
  split; · trivial
  split; · trivial
  split; · trivial
  rename_i hex _ _ _ _ _ _ _ _
  split
  · rename_i hf
    exact holds_of_no_findings _ (by simpa [cfgOf] using hex) hf
  · rename_i fs hne
    refine ⟨refutes_of_findings _ ?_, holds_partial _⟩
    intro he; exact hne he

end Hv.C19
