/-
  C29 — Fast swamp-name discovery agrees with the stored name.

  "For every storage file written by the engine, whether in the legacy or current format, freshly
   written, appended or compacted, the fast name lookup used by the explorer returns the name of
   the swamp that wrote it.  The explorer's listing contains exactly the swamps present on disk."

  Quantifiers: every swamp name (bytes), every history of writer calls (any entries at all — the
  name theorems need no hypothesis on keys, payloads or block sizes), every lawful codec and
  checksum; for the legacy format every valid version-2 header and every list of well-formed
  blocks whose first entry is the `__swamp_meta__` metadata entry.

  Compaction is modelled on the same byte-level writer (`compactSt`: LoadIndex, fresh V3 file under
  the loaded name, one INSERT per live key, close, replace): `compacted` / `compactedV2` state that
  the compacted file answers the same name (legacy files become V3 carrying the metadata name).
  The crash-safety of the replacement (temp file, rename) is C03's subject.
-/
import Hv.Storage.NameLemmas
import Hv.Storage.CompactLemmas
import Hv.Storage.Listing
import Hv.Basic.Verdict

namespace Hv.C29
open Hv.Storage

structure Holds (cfg : Cfg) : Prop where
  /-- current format: whatever the engine then writes, `ReadSwampName` returns the creating name -/
  v3 : ∀ (codec : Codec) (crc : Checksum) (bs : Nat) (name : Bytes) (now : Nat) (st : St) (ops : List Op),
    createFileCfg cfg name now = some st →
    readSwampName cfg codec.toDecoder crc (runOps cfg codec crc bs st ops).file = .ok name
  /-- legacy format, as found and after any further appending by the current writer: the name of
      the leading metadata entry -/
  v2 : ∀ (codec : Codec) (crc : Checksum) (bs : Nat) (hdr : FileHeader) (blocks : List (List Entry))
      (nm : Bytes) (rest : List Entry) (ops : List Op),
    hdr.Valid → hdr.version = 2 → (∀ b ∈ blocks, GoodBlock b) →
    blocks.flatten = ⟨opMetadata, metadataKey, nm⟩ :: rest → nm ≠ [] →
    Params cfg bs → WritesOK cfg ops →
    readSwampName cfg codec.toDecoder crc (runOps cfg codec crc bs (legacyState codec crc hdr blocks) ops).file = .ok nm
  /-- …and after compaction of the closed file -/
  compacted : ∀ (codec : Codec) (crc : Checksum) (bs : Nat) (name : Bytes) (now now' : Nat) (st : St) (ops : List Op),
    createFileCfg cfg name now = some st → name ≠ [] → Params cfg bs → WritesOK cfg ops →
    readSwampName cfg codec.toDecoder crc
      (compactSt cfg codec crc bs now' (runOps cfg codec crc bs st (ops ++ [.close]))).1.file = .ok name
  /-- a compacted legacy file is a V3 file carrying the metadata name -/
  compactedV2 : ∀ (codec : Codec) (crc : Checksum) (bs : Nat) (hdr : FileHeader) (blocks : List (List Entry))
      (nm : Bytes) (rest : List Entry) (ops : List Op) (now' : Nat),
    hdr.Valid → hdr.version = 2 → (∀ b ∈ blocks, GoodBlock b) →
    blocks.flatten = ⟨opMetadata, metadataKey, nm⟩ :: rest → nm ≠ [] → nm.length < 2 ^ 16 →
    Params cfg bs → WritesOK cfg ops →
    readSwampName cfg codec.toDecoder crc
      (compactSt cfg codec crc bs now' (runOps cfg codec crc bs (legacyState codec crc hdr blocks) (ops ++ [.close]))).1.file = .ok nm
  /-- over a whole directory of engine-written files (duplicates allowed) the index is exactly the set
      of their three-part names, each once -/
  listing : ∀ (codec : Codec) (crc : Checksum) (bs : Nat) (dir : List (Bytes × Bytes)),
    (∀ p ∈ dir, p.2 ≠ [] ∧ ∃ now ops st, createFileCfg cfg p.2 now = some st ∧ p.1 = (runOps cfg codec crc bs st ops).file) →
    (∀ n, n ∈ Hv.Storage.listing cfg codec.toDecoder crc (dir.map (·.1)) ↔ (n ∈ dir.map (·.2) ∧ splits3 n = true)) ∧
    (Hv.Storage.listing cfg codec.toDecoder crc (dir.map (·.1))).Nodup
  /-- …and a legacy file (also after appends) under the name of its metadata entry -/
  listedV2 : ∀ (codec : Codec) (crc : Checksum) (bs : Nat) (hdr : FileHeader) (blocks : List (List Entry))
      (nm : Bytes) (rest : List Entry) (ops : List Op),
    hdr.Valid → hdr.version = 2 → (∀ b ∈ blocks, GoodBlock b) →
    blocks.flatten = ⟨opMetadata, metadataKey, nm⟩ :: rest → nm ≠ [] → Params cfg bs → WritesOK cfg ops →
    scanListed cfg codec.toDecoder crc (runOps cfg codec crc bs (legacyState codec crc hdr blocks) ops).file
      = if splits3 nm then some nm else none
  /-- the interactive explorer shows the whole listing of a realm, however large -/
  tuiComplete : ∀ sorted : List Bytes, tuiView cfg sorted = sorted
  /-- the explorer lists a file the engine wrote under exactly its name, iff the name has the
      three-part form; nothing else can appear for it -/
  listed : ∀ (codec : Codec) (crc : Checksum) (bs : Nat) (name : Bytes) (now : Nat) (st : St) (ops : List Op),
    createFileCfg cfg name now = some st → name ≠ [] →
    scanListed cfg codec.toDecoder crc (runOps cfg codec crc bs st ops).file = if splits3 name then some name else none

theorem createFileCfg_some (cfg : Cfg) (hr : cfg.rejectsLongName = true) (name : Bytes) (now : Nat) (st : St)
    (h : createFileCfg cfg name now = some st) : st = createFile name now ∧ name.length < 2 ^ 16 := by
  unfold createFileCfg at h
  split at h
  · cases h
  · rename_i hc
    simp only [hr, Bool.true_and, decide_eq_true_eq] at hc
    cases h
    exact ⟨rfl, by omega⟩

/-- V3 name round trip, for every history and every value of the other code facts -/
theorem name_roundtrip_v3 (cfg : Cfg) (codec : Codec) (crc : Checksum) (bs : Nat) (name : Bytes) (now : Nat)
    (hn : name.length < 2 ^ 16) (ops : List Op) :
    readSwampName cfg codec.toDecoder crc (runOps cfg codec crc bs (createFile name now) ops).file = .ok name := by
  have hs := runOps_shape cfg codec crc bs 3 name ops _ (createFile_shape name now hn)
  obtain ⟨hdr, ho, hver⟩ := openReader_shape 3 name _ hs
  unfold readSwampName
  rw [ho]
  simp [hver]

/-- the explorer's `scanFile` on the same files -/
theorem scan_v3 (cfg : Cfg) (codec : Codec) (crc : Checksum) (bs : Nat) (name : Bytes) (now : Nat)
    (hn : name.length < 2 ^ 16) (hne : name ≠ []) (ops : List Op) :
    scanListed cfg codec.toDecoder crc (runOps cfg codec crc bs (createFile name now) ops).file
      = if splits3 name then some name else none := by
  have hs := runOps_shape cfg codec crc bs 3 name ops _ (createFile_shape name now hn)
  obtain ⟨hdr, ho, _⟩ := openReader_shape 3 name _ hs
  have hemp : name.isEmpty = false := by cases name with | nil => exact absurd rfl hne | cons _ _ => rfl
  unfold scanListed scanName
  rw [ho]
  simp [hemp]

/-- V2 fallback, including files the current writer has appended to -/
theorem name_roundtrip_v2_fallback (cfg : Cfg) (hf : cfg.v2Fallback = true) (codec : Codec) (crc : Checksum) (bs : Nat)
    (hdr : FileHeader) (blocks : List (List Entry)) (nm : Bytes) (rest : List Entry) (ops : List Op)
    (hv : hdr.Valid) (h2 : hdr.version = 2) (hg : ∀ b ∈ blocks, GoodBlock b)
    (hfirst : blocks.flatten = ⟨opMetadata, metadataKey, nm⟩ :: rest) (hne : nm ≠ [])
    (hP : Params cfg bs) (hW : WritesOK cfg ops) :
    readSwampName cfg codec.toDecoder crc (runOps cfg codec crc bs (legacyState codec crc hdr blocks) ops).file = .ok nm := by
  have hI0 := legacyState_inv cfg codec crc bs hdr blocks hv h2 hg
  obtain ⟨fl, hfl, hload⟩ := loadIndex_runOps_from cfg codec crc bs hP [] _ _ _ hI0 ops hW
  have hle := runOps_pending_le cfg codec crc bs hP [] ops _ _ _ hI0 hW
  have hp0 : (legacyState codec crc hdr blocks).pending = [] := by simp [legacyState, St.pending]
  rw [hp0] at hle
  simp only [List.length_nil, Nat.zero_add] at hle
  obtain ⟨e, he⟩ := prefix_of_append_eq _ _ _ _ hfl hle
  have hs := runOps_shape cfg codec crc bs 2 [] ops _ (legacyState_shape codec crc hdr blocks hv h2)
  obtain ⟨hdr', ho, hver⟩ := openReader_shape 2 [] _ hs
  unfold readSwampName
  rw [ho]
  simp only [hver, hf]
  rw [hload]
  simp [he, hfirst, metaName_cons nm _ hne]

theorem openAfterAll_close (b : Bool) (ops : List Op) : openAfterAll b (ops ++ [.close]) = false := by
  induction ops generalizing b with
  | nil => rfl
  | cons op ops ih => simp [openAfterAll, ih]

theorem writesOK_close (cfg : Cfg) (ops : List Op) (h : WritesOK cfg ops) : WritesOK cfg (ops ++ [.close]) := by
  intro e he ha
  apply h e _ ha
  have : ∀ l : List Op, writesOf (l ++ [.close]) = writesOf l := by
    intro l; induction l with
    | nil => rfl
    | cons o l ih => cases o <;> simp [writesOf, ih]
  rwa [this] at he

theorem compacted_v3 (cfg : Cfg) (codec : Codec) (crc : Checksum) (bs : Nat) (name : Bytes) (now now' : Nat)
    (hn : name.length < 2 ^ 16) (hne : name ≠ []) (hP : Params cfg bs) (ops : List Op) (hW : WritesOK cfg ops) :
    readSwampName cfg codec.toDecoder crc
      (compactSt cfg codec crc bs now' (runOps cfg codec crc bs (createFile name now) (ops ++ [.close]))).1.file = .ok name := by
  have hI := runOps_inv cfg codec crc bs hP name (ops ++ [.close]) _ [] true
    (createFile_inv cfg codec crc bs name now hn) (writesOK_close cfg ops hW)
  rw [openAfterAll_close] at hI
  have hemp : name.isEmpty = false := by cases name with | nil => exact absurd rfl hne | cons _ _ => rfl
  have := (compaction_keeps_name cfg codec crc bs now' name _ _ hI (by simp [hemp]; exact hn)).2
  simpa [hemp] using this

theorem compacted_v2 (cfg : Cfg) (codec : Codec) (crc : Checksum) (bs : Nat)
    (hdr : FileHeader) (blocks : List (List Entry)) (nm : Bytes) (rest : List Entry) (ops : List Op) (now' : Nat)
    (hv : hdr.Valid) (h2 : hdr.version = 2) (hg : ∀ b ∈ blocks, GoodBlock b)
    (hfirst : blocks.flatten = ⟨opMetadata, metadataKey, nm⟩ :: rest) (hne : nm ≠ []) (hlen : nm.length < 2 ^ 16)
    (hP : Params cfg bs) (hW : WritesOK cfg ops) :
    readSwampName cfg codec.toDecoder crc
      (compactSt cfg codec crc bs now' (runOps cfg codec crc bs (legacyState codec crc hdr blocks) (ops ++ [.close]))).1.file = .ok nm := by
  have hI := runOps_inv cfg codec crc bs hP [] (ops ++ [.close]) _ _ false
    (legacyState_inv cfg codec crc bs hdr blocks hv h2 hg) (writesOK_close cfg ops hW)
  rw [openAfterAll_close] at hI
  have hm : metaName (blocks.flatten ++ accepted cfg false (ops ++ [.close])) = nm := by
    rw [hfirst]; exact metaName_cons nm _ hne
  have := (compaction_keeps_name cfg codec crc bs now' [] _ _ hI (by simp [hm]; exact hlen)).2
  simpa [hm] using this

/-- **listing_exact**: a directory whose files were each written by the engine under some name
    (non-empty, < 65536 bytes; any history, any number of files, duplicates allowed): the explorer's
    index contains exactly the names that have the three-part form — each once, nothing else. -/
theorem listing_exact (cfg : Cfg) (codec : Codec) (crc : Checksum) (bs : Nat) (dir : List (Bytes × Bytes))
    (hw : ∀ p ∈ dir, p.2 ≠ [] ∧ p.2.length < 2 ^ 16 ∧
      ∃ now ops, p.1 = (runOps cfg codec crc bs (createFile p.2 now) ops).file) :
    (∀ n, n ∈ listing cfg codec.toDecoder crc (dir.map (·.1)) ↔ (n ∈ dir.map (·.2) ∧ splits3 n = true)) ∧
    (listing cfg codec.toDecoder crc (dir.map (·.1))).Nodup := by
  obtain ⟨hmem, hnd⟩ := listing_spec cfg codec.toDecoder crc (dir.map (·.1))
  refine ⟨fun n => ?_, hnd⟩
  rw [hmem n]
  constructor
  · rintro ⟨f, hf, hs⟩
    obtain ⟨p, hp, rfl⟩ := List.mem_map.mp hf
    obtain ⟨hne, hlen, now, ops, hfile⟩ := hw p hp
    rw [hfile, scan_v3 cfg codec crc bs p.2 now hlen hne ops] at hs
    by_cases h3 : splits3 p.2 = true
    · simp only [h3, if_true, Option.some.injEq] at hs
      subst hs
      exact ⟨List.mem_map.mpr ⟨p, hp, rfl⟩, h3⟩
    · simp [h3] at hs
  · rintro ⟨hn, h3⟩
    obtain ⟨p, hp, rfl⟩ := List.mem_map.mp hn
    obtain ⟨hne, hlen, now, ops, hfile⟩ := hw p hp
    refine ⟨p.1, List.mem_map.mpr ⟨p, hp, rfl⟩, ?_⟩
    rw [hfile, scan_v3 cfg codec crc bs p.2 now hlen hne ops]
    simp [h3]

/-- `scanFile` on a legacy file (also after appends by the current writer): its own fallback — the
    first `__swamp_meta__` entry among the entries read, empty data allowed, errors tolerated — finds
    the same name `LoadIndex`'s fallback reports (`name_roundtrip_v2_fallback`) -/
theorem scan_v2 (cfg : Cfg) (codec : Codec) (crc : Checksum) (bs : Nat)
    (hdr : FileHeader) (blocks : List (List Entry)) (nm : Bytes) (rest : List Entry) (ops : List Op)
    (hv : hdr.Valid) (h2 : hdr.version = 2) (hg : ∀ b ∈ blocks, GoodBlock b)
    (hfirst : blocks.flatten = ⟨opMetadata, metadataKey, nm⟩ :: rest) (hne : nm ≠ [])
    (hP : Params cfg bs) (hW : WritesOK cfg ops) :
    scanListed cfg codec.toDecoder crc (runOps cfg codec crc bs (legacyState codec crc hdr blocks) ops).file
      = if splits3 nm then some nm else none := by
  have hI := runOps_inv cfg codec crc bs hP [] ops _ _ false (legacyState_inv cfg codec crc bs hdr blocks hv h2 hg) hW
  have hle := runOps_pending_le cfg codec crc bs hP [] ops _ _ _ (legacyState_inv cfg codec crc bs hdr blocks hv h2 hg) hW
  obtain ⟨⟨blocks', ⟨⟨hdr', hfile, hv', hn'⟩, hgood'⟩, hacc⟩, _, _⟩ := hI
  have hp0 : (legacyState codec crc hdr blocks).pending = [] := by simp [legacyState, St.pending]
  rw [hp0] at hle
  simp only [List.length_nil, Nat.zero_add] at hle
  obtain ⟨e, he⟩ := prefix_of_append_eq _ _ _ _ hacc hle
  have hread : readBlocksP cfg codec.toDecoder crc (renderBlocks codec crc blocks') = (blocks'.flatten, none) := by
    have := readBlocksP_blocks cfg codec crc blocks' [] hgood'
    rw [List.append_nil, readBlocksP_nil] at this
    simpa using this
  have hemp : nm.isEmpty = false := by cases nm with | nil => exact absurd rfl hne | cons _ _ => rfl
  unfold scanListed scanName
  rw [hfile]
  unfold render
  rw [openReader_prefix hdr' [] _ hv' hn']
  simp only [List.isEmpty_nil, if_true]
  rw [drop_dataStart hdr' [] _ hn', hread, he, hfirst]
  simp [scanMetaName_cons, hemp]

/-- the Load self-heal `CompactFromIndex(…, name, index)`: the rewritten file answers the name it was given -/
theorem compactFromIndex_keeps_given_name (cfg : Cfg) (codec : Codec) (crc : Checksum) (bs now : Nat) (name : Bytes)
    (idx : Index) (st : St) (hn : name.length < 2 ^ 16) :
    readSwampName cfg codec.toDecoder crc (compactFromIndexSt cfg codec crc bs now name idx st).1.file = .ok name := by
  have hcf : createFileCfg cfg name now = some (createFile name now) := by
    unfold createFileCfg
    rw [if_neg]
    simp only [Bool.and_eq_true, decide_eq_true_eq, not_and, Nat.not_lt]
    intro _; omega
  simp only [compactFromIndexSt, hcf]
  exact name_roundtrip_v3 cfg codec crc bs name now hn _

def Good (cfg : Cfg) : Prop :=
  cfg.rejectsLongName = true ∧ cfg.v2Fallback = true ∧ cfg.tuiListsAll = true

theorem holds_of_good (cfg : Cfg) (hg : Good cfg) : Holds cfg := by
  obtain ⟨h1, h2, h3⟩ := hg
  refine ⟨?_, ?_, ?_, ?_, ?_, fun codec crc bs hdr blocks nm rest ops hv hv2 hgb hf hne hP hW => scan_v2 cfg codec crc bs hdr blocks nm rest ops hv hv2 hgb hf hne hP hW, tuiView_all cfg h3, ?_⟩
  · intro codec crc bs name now st ops hc
    obtain ⟨hst, hn⟩ := createFileCfg_some cfg h1 name now st hc
    subst hst
    exact name_roundtrip_v3 cfg codec crc bs name now hn ops
  · intro codec crc bs hdr blocks nm rest ops hv hv2 hgb hfirst hne hP hW
    exact name_roundtrip_v2_fallback cfg h2 codec crc bs hdr blocks nm rest ops hv hv2 hgb hfirst hne hP hW
  · intro codec crc bs name now now' st ops hc hne hP hW
    obtain ⟨hst, hn⟩ := createFileCfg_some cfg h1 name now st hc
    subst hst
    exact compacted_v3 cfg codec crc bs name now now' hn hne hP ops hW
  · intro codec crc bs hdr blocks nm rest ops now' hv hv2 hgb hfirst hne hlen hP hW
    exact compacted_v2 cfg codec crc bs hdr blocks nm rest ops now' hv hv2 hgb hfirst hne hlen hP hW
  · intro codec crc bs dir hw
    apply listing_exact cfg codec crc bs dir
    intro p hp
    obtain ⟨hne, now, ops, st, hc, hf⟩ := hw p hp
    obtain ⟨hst, hn⟩ := createFileCfg_some cfg h1 p.2 now st hc
    subst hst
    exact ⟨hne, hn, now, ops, hf⟩
  · intro codec crc bs name now st ops hc hne
    obtain ⟨hst, hn⟩ := createFileCfg_some cfg h1 name now st hc
    subst hst
    exact scan_v3 cfg codec crc bs name now hn hne ops

/-- `_partial`: for names shorter than 65536 bytes the V3 clauses hold whatever the facts are -/
def HoldsPartial (cfg : Cfg) : Prop :=
  ∀ (codec : Codec) (crc : Checksum) (bs : Nat) (name : Bytes) (now : Nat) (ops : List Op),
    name.length < 2 ^ 16 →
    readSwampName cfg codec.toDecoder crc (runOps cfg codec crc bs (createFile name now) ops).file = .ok name ∧
    (name ≠ [] → scanListed cfg codec.toDecoder crc (runOps cfg codec crc bs (createFile name now) ops).file
      = if splits3 name then some name else none)

theorem holds_partial (cfg : Cfg) : HoldsPartial cfg :=
  fun codec crc bs name now ops hn =>
    ⟨name_roundtrip_v3 cfg codec crc bs name now hn ops, fun hne => scan_v3 cfg codec crc bs name now hn hne ops⟩

/-! non-vacuity -/
example : Good goodCfg := ⟨rfl, rfl, rfl⟩
example : splits3 [0x61, 0x2f, 0x62, 0x2f, 0x63] = true := by decide   -- "a/b/c"
example : splits3 [0x61, 0x2f, 0x62] = false := by decide              -- "a/b"

/-! ### Witnesses -/

/-- a 65536-byte swamp name: `uint16(len(name))` is 0, the name bytes are still written -/
def longName : Bytes := List.replicate 65536 0x61
theorem longName_length : longName.length = 65536 := List.length_replicate

/-- the freshly created file answers the empty name -/
theorem longName_truncates (cfg : Cfg) (d : Decoder) (crc : Checksum) :
    readSwampName cfg d crc (createFile longName 0).file = .ok [] := by
  have hv : (initHdr longName 0).Valid :=
    ⟨Or.inr rfl, by simp [initHdr], Nat.mod_lt _ (by decide), Nat.mod_lt _ (by decide), by simp [initHdr],
      by simp [initHdr], by simp [initHdr], Nat.mod_lt _ (by decide), by simp [initHdr], by simp [initHdr]⟩
  have hnl : (initHdr longName 0).nameLength = 0 := by simp [initHdr, longName_length]
  have hfile : (createFile longName 0).file = encodeFileHeader (initHdr longName 0) ++ ([] ++ longName) := by
    simp [createFile]
  have ho := openReader_prefix (initHdr longName 0) [] longName hv (Or.inl ⟨rfl, by simp [hnl]⟩)
  unfold readSwampName
  rw [hfile, ho]
  simp [initHdr]

theorem not_holds_of_acceptsLongName (cfg : Cfg) (h : cfg.rejectsLongName = false) : ¬ Holds cfg := by
  intro hh
  have := hh.v3 idCodec crc0 0 longName 0 (createFile longName 0) [] (by simp [createFileCfg, h])
  simp only [runOps, List.foldl_nil] at this
  rw [longName_truncates] at this
  have hl := congrArg (fun r => match r with | Except.ok (n : Bytes) => n.length | Except.error _ => 0) this
  simp [longName_length] at hl

/-- without the fallback a legacy file has no discoverable name -/
def metaEntry : Entry := ⟨opMetadata, metadataKey, [0x61, 0x2f, 0x62, 0x2f, 0x63]⟩
def hdrV2 : FileHeader := { initHdr [] 0 with version := 2 }

theorem not_holds_of_noFallback (cfg : Cfg) (h : cfg.v2Fallback = false) : ¬ Holds cfg := by
  intro hh
  have hv : hdrV2.Valid :=
    ⟨Or.inl rfl, by simp [hdrV2, initHdr], by simp [hdrV2, initHdr], by simp [hdrV2, initHdr], by simp [hdrV2, initHdr],
      by simp [hdrV2, initHdr], by simp [hdrV2, initHdr], by simp [hdrV2, initHdr], by simp [hdrV2, initHdr],
      by simp [hdrV2, initHdr]⟩
  have hg : ∀ b ∈ [[metaEntry]], GoodBlock b := by
    intro b hb
    simp at hb
    subst hb
    exact ⟨by intro e he; simp at he; subst he; decide, by simp, by simp [sizeSum, Entry.size, metaEntry, metadataKey], by simp⟩
  have := hh.v2 idCodec crc0 0 hdrV2 [[metaEntry]] _ [] [] hv rfl hg rfl (by decide)
    ⟨by decide, Or.inr (by decide)⟩ (by intro e he; simp [writesOf] at he)
  simp only [runOps, List.foldl_nil] at this
  have hs := legacyState_shape idCodec crc0 hdrV2 [[metaEntry]] hv rfl
  obtain ⟨hdr', ho, hver⟩ := openReader_shape 2 [] _ hs
  unfold readSwampName at this
  rw [ho] at this
  simp [hver, h] at this

theorem not_holds_of_tuiOnePage (cfg : Cfg) (h : cfg.tuiListsAll = false) : ¬ Holds cfg := by
  intro hh
  have := congrArg List.length (hh.tuiComplete (List.replicate 1001 []))
  rw [tuiView_truncates cfg h, List.length_replicate] at this
  omega

/-! ### Decision over the extracted facts -/

structure Facts where
  nameLenBytes : Option Nat
  writesNameAfterHeader : Tri
  nameReadGuardedByV3 : Tri
  v2ZeroesNameLength : Tri
  dataStartUsesNameLength : Tri
  v2Fallback : Tri
  loadIndexMetaFallback : Tri
  scanFallback : Tri
  scanSplits3 : Tri
  rejectsLongName : Tri
  /-- `openExistingFile` starts a file over when it is shorter than header + name (a crash between
      the two writes of `createNewFile`), so blocks are never appended inside the name area -/
  openRecreatesShortFile : Tri
  /-- `Explorer.Scan` clears the index before every directory walk -/
  scanClearsIndex : Tri
  /-- the TUI pages through ListSwamps (or uses ListAllSwamps) when it opens a realm -/
  tuiListsAll : Tri
  deriving Repr

def cfgOf (f : Facts) : Cfg :=
  { goodCfg with v2Fallback := f.v2Fallback.isYes, rejectsLongName := f.rejectsLongName.isYes, tuiListsAll := f.tuiListsAll.isYes }

def shapeOk (f : Facts) : Bool :=
  f.nameLenBytes == some 2 && f.writesNameAfterHeader == .yes && f.nameReadGuardedByV3 == .yes &&
  f.v2ZeroesNameLength == .yes && f.dataStartUsesNameLength == .yes && f.loadIndexMetaFallback == .yes &&
  f.scanFallback == .yes && f.scanSplits3 == .yes && f.openRecreatesShortFile == .yes && f.scanClearsIndex == .yes

def findings (f : Facts) : List String :=
  (if f.rejectsLongName == .no then ["C29-long-name-truncated"] else []) ++
  (if f.v2Fallback == .no then ["C29-no-v2-fallback"] else []) ++
  (if f.tuiListsAll == .no then ["C29-tui-truncates-large-realm"] else [])

def classify (f : Facts) : Verdict :=
  if !shapeOk f then .undetermined "name-area facts (NameLength width, V3 guard, DataStartOffset, metadata fallbacks, SplitN, short-file re-creation on open, index cleared per scan) differ from the model"
  else if f.rejectsLongName == .unknown || f.v2Fallback == .unknown || f.tuiListsAll == .unknown then .undetermined "createNewFile / ReadSwampName pattern not recognised"
  else if !(findings f).isEmpty then .violated (findings f)
  else .holds

theorem classify_sound (f : Facts) : (classify f).Sound (Holds (cfgOf f)) (HoldsPartial (cfgOf f)) := by
  unfold classify
  split
  · trivial
  · split
    · trivial
    · rename_i hu
      simp only [Bool.or_eq_true, beq_iff_eq, not_or] at hu
      obtain ⟨⟨hu1, hu2⟩, hu3⟩ := hu
      split
      · rename_i hf
        refine ⟨?_, holds_partial _⟩
        by_cases h1 : f.rejectsLongName = .no
        · exact not_holds_of_acceptsLongName _ (by simp [cfgOf, h1, Tri.isYes])
        · by_cases h2 : f.v2Fallback = .no
          · exact not_holds_of_noFallback _ (by simp [cfgOf, h2, Tri.isYes])
          · by_cases h3 : f.tuiListsAll = .no
            · exact not_holds_of_tuiOnePage _ (by simp [cfgOf, h3, Tri.isYes])
            · exfalso; simp [findings, h1, h2, h3] at hf
      · rename_i hf
        have h1 : f.rejectsLongName = .yes := by cases h : f.rejectsLongName <;> simp_all [findings]
        have h2 : f.v2Fallback = .yes := by cases h : f.v2Fallback <;> simp_all [findings]
        have h3 : f.tuiListsAll = .yes := by cases h : f.tuiListsAll <;> simp_all [findings]
        exact holds_of_good _ ⟨by simp [cfgOf, h1, Tri.isYes], by simp [cfgOf, h2, Tri.isYes], by simp [cfgOf, h3, Tri.isYes]⟩

end Hv.C29
