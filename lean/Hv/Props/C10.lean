/-
  C10 — Concurrent use never crashes the server or races on memory   (PARTIAL decision)

  "No mix of concurrent read and write requests on a swamp crashes the server process, panics a
   request, or performs unsynchronised access to shared memory.  Every read returns a record
   whose value and metadata belong to the same committed version."

  What is decided here: for the access table extracted from the `beacon` and `treasure` structs
  (per method and field: read or write, and the mode in which the struct's own mutex is held),
  whether two conflicting accesses can be in progress at the same time in *any* schedule of the
  mutex LTS of `Hv/Conc/Lockset.lean`.  The lockset argument is sufficient for race freedom of
  those fields, not necessary (other synchronisation, e.g. the record guard, is not credited),
  and the rest of the server is outside the table.
-/
import Hv.Conc.Lockset
import Hv.Basic.Verdict

namespace Hv.C10
open Hv.Lockset

/-- The statement for a given access table: no schedule has two conflicting accesses in progress. -/
def Holds (tbl : List Row) : Prop := ∀ sched s, run tbl init sched = some s → ¬ Race s

structure Inv (tbl : List Row) (s : St) : Prop where
  asTable : ∀ p ∈ s.prog, heldBy s p.1 = p.2.held ∧ p.2 ∈ tbl
  excl : ∀ t, s.writer = some t → s.readers = []

theorem inv_init (tbl : List Row) : Inv tbl init := by
  constructor <;> simp [init]

theorem not_busy_ne (s : St) (t : Nat) (h : busy s t = false) (p : Nat × Row) (hp : p ∈ s.prog) : p.1 ≠ t := by
  intro e
  have : busy s t = true := by
    simp only [busy, List.any_eq_true]; exact ⟨p, hp, by simp [e]⟩
  rw [h] at this; simp at this

theorem inv_step (tbl : List Row) (s : St) (a : Act) (s' : St) (h : Inv tbl s) (hs : step tbl s a = some s') : Inv tbl s' := by
  obtain ⟨hT, hE⟩ := h
  cases a with
  | lock t =>
    simp only [step] at hs
    split at hs
    · rename_i hc; simp at hc
      cases hs
      refine ⟨?_, fun _ _ => hc.1.2⟩
      intro p hp
      have hne := not_busy_ne s t hc.2 p hp
      refine ⟨?_, (hT p hp).2⟩
      have := (hT p hp).1
      simp only [heldBy, hc.1.1, hc.1.2] at this ⊢
      have hne' : ¬ t = p.1 := fun e => hne e.symm
      simp [hne, hne'] at this ⊢; exact this
    · simp at hs
  | unlock t =>
    simp only [step] at hs
    split at hs
    · rename_i hc; simp at hc
      cases hs
      refine ⟨?_, fun _ h2 => by simp at h2⟩
      intro p hp
      have hne := not_busy_ne s t hc.2 p hp
      refine ⟨?_, (hT p hp).2⟩
      have := (hT p hp).1
      have hr : s.readers = [] := hE t hc.1
      simp only [heldBy, hc.1, hr] at this ⊢
      have hne' : ¬ t = p.1 := fun e => hne e.symm
      simp [hne, hne'] at this ⊢; exact this
    · simp at hs
  | rlock t =>
    simp only [step] at hs
    split at hs
    · rename_i hc; simp at hc
      cases hs
      refine ⟨?_, fun u hu => by simp [hc.1.1] at hu⟩
      intro p hp
      have hne := not_busy_ne s t hc.2 p hp
      refine ⟨?_, (hT p hp).2⟩
      have := (hT p hp).1
      simp only [heldBy, hc.1.1] at this ⊢
      have hne' : ¬ t = p.1 := fun e => hne e.symm
      simp [hne, hne'] at this ⊢; exact this
    · simp at hs
  | runlock t =>
    simp only [step] at hs
    split at hs
    · rename_i hc; simp at hc
      cases hs
      refine ⟨?_, fun u hu => by simp [hE u hu]⟩
      intro p hp
      have hne := not_busy_ne s t hc.2 p hp
      refine ⟨?_, (hT p hp).2⟩
      have := (hT p hp).1
      simp only [heldBy] at this ⊢
      have hne' : ¬ t = p.1 := fun e => hne e.symm
      simp [hne, hne'] at this ⊢; exact this
    · simp at hs
  | begin t r =>
    simp only [step] at hs
    split at hs
    · rename_i hc; simp at hc
      cases hs
      refine ⟨?_, hE⟩
      intro p hp
      rcases List.mem_append.mp hp with h1 | h1
      · exact hT p h1
      · simp at h1; subst h1
        exact ⟨hc.1.2, hc.1.1⟩
    · simp at hs
  | finish t r =>
    simp only [step] at hs
    split at hs
    · cases hs
      exact ⟨fun p hp => hT p (List.mem_filter.mp hp).1, hE⟩
    · simp at hs

/-- two different threads never hold the mutex in incompatible modes -/
theorem modes_coexist (s : St) (hE : ∀ t, s.writer = some t → s.readers = []) (t u : Nat) (hne : t ≠ u) :
    coexist (heldBy s t) (heldBy s u) = true := by
  simp only [heldBy]
  cases hw : s.writer with
  | none => simp; split <;> split <;> rfl
  | some w =>
    have hr := hE w hw
    simp [hr]
    by_cases h1 : w = t
    · have h2 : w ≠ u := fun e => hne (h1 ▸ e)
      simp [h1, h2, coexist]
      have : ¬ t = u := hne
      simp [this, coexist]
    · by_cases h2 : w = u
      · simp [h1, h2, coexist]
        have : ¬ u = t := fun e => hne e.symm
        simp [this, coexist]
      · simp [h1, h2, coexist]

theorem mem_racyPairs (tbl : List Row) (a b : Row) (ha : a ∈ tbl) (hb : b ∈ tbl) (hc : conflict a b = true)
    (hx : coexist a.held b.held = true) : (a, b) ∈ racyPairs tbl := by
  simp only [racyPairs, List.mem_filter, List.mem_flatMap, List.mem_map]
  exact ⟨⟨a, ha, b, hb, rfl⟩, by simp [hc, hx]⟩

/-- No racy pair in the table ⇒ no race in any schedule. -/
theorem no_race_of_no_pairs (tbl : List Row) (h : racyPairs tbl = []) : Holds tbl := by
  intro sched s hr
  have hi : Inv tbl s := LTS.inv_run (step tbl) (Inv tbl) (fun s a s' hi hs => inv_step tbl s a s' hi hs) init sched s (inv_init tbl) hr
  rintro ⟨a, ha, b, hb, hne, hc⟩
  have h1 := hi.asTable a ha
  have h2 := hi.asTable b hb
  have hx := modes_coexist s hi.excl a.1 b.1 hne
  rw [h1.1, h2.1] at hx
  have := mem_racyPairs tbl a.2 b.2 h1.2 h2.2 hc hx
  rw [h] at this; simp at this

theorem no_pairs_of_disciplined (tbl : List Row) (h : Disciplined tbl) : racyPairs tbl = [] := by
  apply List.eq_nil_iff_forall_not_mem.mpr
  intro p hp
  simp only [racyPairs, List.mem_filter, List.mem_flatMap, List.mem_map] at hp
  obtain ⟨⟨a, ha, b, hb, rfl⟩, hcx⟩ := hp
  simp only [Bool.and_eq_true] at hcx
  obtain ⟨hc, hx⟩ := hcx
  have oa := h a ha
  have ob := h b hb
  simp only [conflict, Bool.and_eq_true, Bool.or_eq_true] at hc
  simp only [Row.ok] at oa ob
  rcases hc.2 with hw | hw
  · simp [hw] at oa
    cases hbm : b.held <;> cases hbw : b.isWrite <;> simp [hbm, hbw] at ob <;> simp [oa, hbm, coexist] at hx
  · simp [hw] at ob
    cases ham : a.held <;> cases haw : a.isWrite <;> simp [ham, haw] at oa <;> simp [ob, ham, coexist] at hx

/-- Eraser-style soundness: a lockset-disciplined access table admits no schedule in which two
    conflicting accesses overlap. -/
theorem discipline_sound (tbl : List Row) (h : Disciplined tbl) : Holds tbl :=
  no_race_of_no_pairs tbl (no_pairs_of_disciplined tbl h)

def acquire (t : Nat) : Mode → List Act
  | .none => []
  | .read => [.rlock t]
  | .write => [.lock t]

/-- a racy pair is realised by four steps at most: both threads take the mutex as the table says
    (the modes can coexist), both begin their access -/
theorem race_of_pair (tbl : List Row) (a b : Row) (hp : (a, b) ∈ racyPairs tbl) : ¬ Holds tbl := by
  simp only [racyPairs, List.mem_filter, List.mem_flatMap, List.mem_map] at hp
  obtain ⟨⟨a', ha, b', hb, he⟩, hcx⟩ := hp
  simp at he; obtain ⟨rfl, rfl⟩ := he
  simp only [Bool.and_eq_true] at hcx
  obtain ⟨hc, hx⟩ := hcx
  have hca : tbl.contains a' = true := by simpa using ha
  have hcb : tbl.contains b' = true := by simpa using hb
  intro hh
  have key : ∃ s, run tbl init (acquire 1 a'.held ++ acquire 2 b'.held ++ [.begin 1 a', .begin 2 b']) = some s ∧
      (1, a') ∈ s.prog ∧ (2, b') ∈ s.prog := by
    cases hma : a'.held <;> cases hmb : b'.held <;> simp [hma, hmb, coexist] at hx <;>
      simp [acquire, run, LTS.run, step, init, heldBy, busy, hca, hcb, ha, hb, hma, hmb]
  obtain ⟨s, hr, h1, h2⟩ := key
  exact hh _ s hr ⟨(1, a'), h1, (2, b'), h2, by simp, hc⟩

/-- The decision is exact for the lockset LTS. -/
theorem holds_iff (tbl : List Row) : Holds tbl ↔ racyPairs tbl = [] := by
  constructor
  · intro h
    cases hp : racyPairs tbl with
    | nil => rfl
    | cons p ps => exact absurd h (race_of_pair tbl p.1 p.2 (by rw [hp]; simp))
  · exact no_race_of_no_pairs tbl

/-- Non-vacuity: a disciplined two-row table, writer and reader alternate. -/
example : (run [⟨"beacon", "m", "Add", true, .write⟩, ⟨"beacon", "m", "Get", false, .read⟩] init
    [.lock 1, .begin 1 ⟨"beacon", "m", "Add", true, .write⟩, .finish 1 ⟨"beacon", "m", "Add", true, .write⟩, .unlock 1,
     .rlock 2, .rlock 3, .begin 2 ⟨"beacon", "m", "Get", false, .read⟩, .begin 3 ⟨"beacon", "m", "Get", false, .read⟩]).map
    (fun s => s.prog.length) = some 2 := by decide

/-! ### decision over the generated table -/

structure Facts where
  /-- every method of the covered structs was analysed (no lock pattern the extractor cannot follow) -/
  complete : Tri
  table : List Row
  deriving Repr

def dedup : List String → List String
  | [] => []
  | x :: xs => if xs.contains x then dedup xs else x :: dedup xs

def findingIds (ps : List (Row × Row)) : List String :=
  dedup (ps.map (fun p => "C10-race-" ++ p.1.struct ++ "-" ++ p.1.field))

def classify (f : Facts) : Verdict :=
  if f.complete ≠ .yes then .undetermined "lockset.table incomplete" else
  match racyPairs f.table with
  | [] => .holds
  | ps => .violated (findingIds ps)

theorem classify_sound (f : Facts) : (classify f).Sound (Holds f.table) := by
  unfold classify
  split; · trivial
  split
  · rename_i h; exact no_race_of_no_pairs _ h
  · rename_i ps hne
    refine ⟨fun hh => hne ((holds_iff _).mp hh), trivial⟩

end Hv.C10
