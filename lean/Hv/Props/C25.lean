/-
  C25 — Disk write failures never corrupt durable data.

  "If the disk rejects or partially performs a write (full disk, I/O error) at any point, data
   that was already durable stays readable.  Once the fault clears, later writes are again stored
   and recoverable; a failed write never leaves the file in a state that hides earlier or later
   records."

  Statement used here (one writer, one fault episode): the writer sits at the end of a cleanly
  written file with a non-empty buffer; the flush of that buffer gets an arbitrary result stream
  (`ok | err | short n` for every operation it issues); then the fault clears, more entries are
  written and `Sync` succeeds.  The file must then load to: the old blocks, the buffered entries,
  the new entries — nothing hidden, nothing dropped.

  Model: Hv/Storage/Fault.lean (`flushWF`, `addManyWF`, `syncWF` mirror flushLocked / WriteEntry /
  Sync including what they leave undone after an error).
-/
import Hv.Storage.FaultLemmas
import Hv.Basic.Verdict

namespace Hv.C25
open Hv.BlockStore

/-- the fault has cleared: every further operation succeeds -/
def cleared (s : FSt) : FSt := { s with rs := [], failed := false }

/-- an outage: the flush of the buffer and the writes `during` all run under the results `rs`
    (every flush they trigger may fail, again and again — the callers only log the errors);
    then the fault clears, `after` is written and synced -/
def afterFault (c : Cfg) (fc : FCfg) (mk : Mk) (w : WSt) (d : Disk) (rs : List Res) (during after : List (Op × Nat)) : FSt :=
  syncWF c fc mk (addManyWF fc mk (cleared (addManyWF fc mk (flushWF fc mk { w := w, d := d, rs := rs }) during)) after)

/-- The full-strength statement.  The buffer `w.buf` is arbitrary — in particular it may hold more
    than `maxEnts` entries, which is what a series of failed flushes leaves behind — and the
    encoder is only assumed to work for batches that fit the 16-bit count field (`MkOk`). -/
def HoldsFlush (c : Cfg) (fc : FCfg) : Prop :=
  ∀ (mk : Mk), MkOk mk → ∀ (nl : Nat) (bs : List Block), (∀ b ∈ bs, b.WF) →
  ∀ (w : WSt) (d : Disk), WInv d w (fileCells nl bs) → w.nl = nl → w.dirty = false →
  ∀ (rs : List Res) (during after : List (Op × Nat)),
    ∃ f, (afterFault c fc mk w d rs during after).d.get w.path = some f ∧
      loadEntries c.r f = entsOf bs ++ w.buf ++ during.map (·.1) ++ after.map (·.1)

/-- **A deleted record stays deleted.**  A record `k` (not live before) is handed to `WriteEntry`
    under the results `rs`.  The swamp gives a treasure a file pointer only when that call reported
    success, and a later `Delete` writes a tombstone only for a treasure that has one.  The fault
    clears, the record is deleted, `Sync`: the file must not bring `k` back. -/
def DeleteSticks (c : Cfg) (fc : FCfg) : Prop :=
  ∀ (mk : Mk), MkOk mk → ∀ (nl : Nat) (bs : List Block), (∀ b ∈ bs, b.WF) →
  ∀ (w : WSt) (d : Disk), WInv d w (fileCells nl bs) → w.nl = nl → w.dirty = false →
  ∀ (rs : List Res) (k v sz szd : Nat), Index.get (Index.replay [] (entsOf bs ++ w.buf)) k = none →
    ∃ f, (syncWF c fc mk (addManyWF fc mk (cleared (addWF fc mk { w := w, d := d, rs := rs } (.put k v) sz))
            (if (addWF fc mk { w := w, d := d, rs := rs } (.put k v) sz).failed then [] else [(Op.del k, szd)]))).d.get w.path = some f ∧
      Index.get (Index.replay [] (loadEntries c.r f)) k = none

/-- what follows a `Close` that failed: with `closeKeepsWriter` the chronicler's writer is still
    usable — more entries, then `Close` again; otherwise its descriptor is closed and nothing it is
    handed reaches the disk any more -/
def closeAgain (c : Cfg) (fc : FCfg) (mk : Mk) (s1 : FSt) (items : List (Op × Nat)) : FSt :=
  if fc.closeKeepsWriter then closeWF c fc mk (addManyWF fc mk (cleared s1) items) else s1

/-- **A failed Close is not the end of the writer.**  `Close` fails under the results `rs` (the
    chronicler keeps its writer: inline compaction, swamp not evicted); the fault clears, more is
    written, `Close` again: everything is in the file. -/
def CloseRetry (c : Cfg) (fc : FCfg) : Prop :=
  ∀ (mk : Mk), MkOk mk → ∀ (nl : Nat) (bs : List Block), (∀ b ∈ bs, b.WF) →
  ∀ (w : WSt) (d : Disk), WInv d w (fileCells nl bs) → w.nl = nl → w.dirty = false →
  ∀ (rs : List Res) (items : List (Op × Nat)), (closeWF c fc mk { w := w, d := d, rs := rs }).failed = true →
    ∃ f, (closeAgain c fc mk (closeWF c fc mk { w := w, d := d, rs := rs }) items).d.get w.path = some f ∧
      loadEntries c.r f = entsOf bs ++ w.buf ++ items.map (·.1)

/-- The full-strength statement. -/
structure Holds (c : Cfg) (fc : FCfg) : Prop where
  flush : HoldsFlush c fc
  deleteSticks : DeleteSticks c fc
  closeRetry : CloseRetry c fc

/-! ### After the fault has cleared the writer is the plain writer -/

/-- from a writer at the end of a file with an intact header: write `items`, `Sync`, load -/
theorem finish_clean (c : Cfg) (fc : FCfg) (mk : Mk) (hmk : MkOk mk) (nl : Nat) (bs1 : List Block)
    (hwf : ∀ b ∈ bs1, b.WF) (s : FSt) (hinv : WInv s.d s.w (fileCells nl bs1)) (hdirty : s.w.dirty = false)
    (hlen : s.w.buf.length < maxEnts) (items : List (Op × Nat)) :
    ∃ f, (syncWF c fc mk (addManyWF fc mk (cleared s) items)).d.get s.w.path = some f ∧
      loadEntries c.r f = entsOf bs1 ++ s.w.buf ++ items.map (·.1) := by
  have h1 := addManyWF_nofault fc mk items (cleared s) rfl hdirty (Or.inr hlen)
  obtain ⟨a, ha, pa⟩ := addManyW_spec mk hmk items s.d s.w _ hinv hlen
  have hd2 : (addManyWF fc mk (cleared s) items).w.dirty = false := by
    rw [h1.1, addManyW_dirty]; exact hdirty
  have hl2 : (addManyWF fc mk (cleared s) items).w.buf.length ≤ maxEnts := by
    rw [h1.1]; exact Nat.le_of_lt pa.cnt
  have h2 := syncWF_nofault_disk c fc mk (addManyWF fc mk (cleared s) items) h1.2.2 hd2 (Or.inr hl2)
  rw [h2, h1.1, h1.2.1]
  simp only [cleared]
  obtain ⟨nbs, hn, hnwf, hget⟩ := syncW_spec c mk hmk _ _ _ pa.inv (Nat.le_of_lt pa.cnt)
  rw [pa.path] at hget
  refine ⟨_, hget, ?_⟩
  have hall : ∀ b ∈ bs1 ++ a ++ nbs, b.WF := by
    intro b hb
    rcases List.mem_append.mp hb with hb | hb
    · rcases List.mem_append.mp hb with hb | hb
      · exact hwf b hb
      · exact pa.wf b hb
    · exact hnwf b hb
  have hfile : fileCells nl bs1 ++ render a ++ render nbs = fileCells nl (bs1 ++ a ++ nbs) := by
    simp [fileCells, render_append, List.append_assoc]
  rw [hfile]
  simp only [loadEntries, loadFile_clean c.r nl _ hall]
  rw [entsOf_append, entsOf_append, hn, List.append_assoc, List.append_assoc, ha]

/-! ### The code as it is -/

theorem apply_write_nil (d : Disk) (p : Path) (f : List Cell) (h : d.get p = some f) (off : Nat) (ho : off ≤ f.length) :
    d.apply (.write p off []) = d := by
  have : splice f off [] = f := by
    simp [splice, ho, List.take_append_drop]
  cases p <;> simp [Disk.apply, Disk.get, Disk.set] at h ⊢ <;> cases d <;> simp_all

/-- **A failed block write loses its entries.**  `WriteBuffer.Flush` empties the buffer before the
    block is written; when the first write fails outright the entries are gone, although the
    caller (`chronicler.Write`) only logs the error.  Later writes succeed, so the loss is silent. -/
theorem failed_write_drops_entries (c : Cfg) (fc : FCfg) (h1 : fc.clearsBufferBeforeWrite = true)
    (h2 : fc.rollsBackFailedBlock = false) : ¬ HoldsFlush c fc := by
  intro hh
  -- empty file, one buffered entry, the header write of its block fails with nothing transferred
  let mk0 : Mk := mkP 1
  have hmk : MkOk mk0 := mkP_ok 1 Nat.one_pos
  let w : WSt := { path := .main, pos := 64, nl := 0, buf := [Op.put 1 1], bufSize := 10, bs := 100 }
  let d : Disk := { main := some (fileCells 0 []), temp := none }
  have hF : (fileCells 0 []).length = 64 := by simp [fileCells, render, nmCells]
  have hinv : WInv d w (fileCells 0 []) := ⟨rfl, by simp [w, hF], fileCells_hdr 0 []⟩
  obtain ⟨f, hget, hload⟩ := hh mk0 hmk 0 [] (by simp) w d hinv rfl rfl [.err] [] [(Op.put 2 2, 10)]
  -- the failed flush: buffer emptied, file and offset unchanged
  have hfl : flushWF fc mk0 { w := w, d := d, rs := [.err] } =
      { w := { w with buf := [], bufSize := 0, szs := [] }, d := d,
        ops := [(.write .main 64 (hdrCells (mk0 [Op.put 1 1])), .err)], rs := [], failed := true } := by
    have hd : d.applyRes (.write .main 64 (hdrCells (mk0 [Op.put 1 1]))) .err = d := by
      simp only [Disk.applyRes, Res.written, List.take_zero]
      exact apply_write_nil d .main (fileCells 0 []) rfl 64 (by rw [hF]; exact Nat.le_refl _)
    simp [flushWF, flushBlocks, writeBlockF, w, FSt.issue, nextRes, Res.isOk, h1, h2, hd, Res.written, maxEnts]
  have hinv2 : WInv d { w with buf := [], bufSize := 0, szs := [] } (fileCells 0 []) := ⟨rfl, by simp [w, hF], fileCells_hdr 0 []⟩
  obtain ⟨f', hget', hload'⟩ := finish_clean c fc mk0 hmk 0 [] (by simp)
    { w := { w with buf := [], bufSize := 0, szs := [] }, d := d,
      ops := [(.write .main 64 (hdrCells (mk0 [Op.put 1 1])), .err)], rs := [], failed := true } hinv2 rfl maxEnts_pos
      [(Op.put 2 2, 10)]
  have hnil : ∀ t : FSt, addManyWF fc mk0 t [] = t := fun _ => rfl
  simp only [afterFault, hnil, hfl] at hget
  rw [hget'] at hget
  cases hget
  rw [hload'] at hload
  simp [entsOf, w] at hload

/-! ### The repaired flush: a failed block is rolled back, a failed rollback is retried before the
    next block, and no block gets more than `maxEnts` entries -/

theorem issue_eq (s : FSt) (op : FsOp) :
    s.issue op = ({ s with d := s.d.applyRes op (nextRes s.rs).1, ops := s.ops ++ [(op, (nextRes s.rs).1)],
                           rs := (nextRes s.rs).2 }, (nextRes s.rs).1) := rfl

theorem get_applyRes_write (d : Disk) (p : Path) (f : List Cell) (h : d.get p = some f) (cs : List Cell) (r : Res) :
    (d.applyRes (.write p f.length cs) r).get p = some (f ++ cs.take (r.written cs.length)) := by
  simp only [Disk.applyRes]
  rw [Disk.apply_write_get d p p f.length _ f h, splice_end]; simp

theorem get_truncate_back (d : Disk) (p : Path) (f x : List Cell) (h : d.get p = some (f ++ x)) :
    (d.applyRes (.truncate p f.length) .ok).get p = some f := by
  simp only [Disk.applyRes, Res.isOk, if_true, Disk.apply, h, Disk.get_set, if_true]
  simp

theorem get_truncate_failed (d : Disk) (p : Path) (n : Nat) (r : Res) (h : r.isOk = false) :
    d.applyRes (.truncate p n) r = d := by
  simp [Disk.applyRes, h]

theorem isOk_eq {r : Res} (h : r.isOk = true) : r = .ok := by cases r <;> simp_all [Res.isOk]

theorem nextRes_nil : nextRes [] = (Res.ok, []) := rfl

/-- writer at the logical end `F` of its file, possibly with a fragment `junk` it still has to cut off -/
structure DInv (d : Disk) (w : WSt) (F junk : List Cell) : Prop where
  file : d.get w.path = some (F ++ junk)
  atEnd : w.pos = F.length
  hdr : HdrOk F w.nl
  clean : w.dirty = false → junk = []

theorem DInv.toWInv {d : Disk} {w : WSt} {F junk : List Cell} (h : DInv d w F junk) (hd : w.dirty = false) : WInv d w F := by
  have := h.clean hd
  subst this
  exact ⟨by simpa using h.file, h.atEnd, h.hdr⟩

theorem _root_.Hv.BlockStore.WInv.toDInv {d : Disk} {w : WSt} {F : List Cell} (h : WInv d w F) : DInv d w F [] :=
  ⟨by simpa using h.file, h.atEnd, h.hdr, fun _ => rfl⟩

/-- **One block of the repaired flush under arbitrary results.**  Either the whole block is on
    disk and exactly the rest stays buffered, or the file is logically unchanged (at most a
    fragment behind its end that the writer knows about) and the buffer is intact.  No hypothesis
    on the results: a rollback truncate that fails is remembered (`dirty`). -/
theorem writeBlockF_spec (fc : FCfg) (h1 : fc.rollsBackFailedBlock = true) (h2 : fc.restoresOffsetAfterHeader = true)
    (mk : Mk) (s : FSt) (F : List Cell) (hinv : WInv s.d s.w F) (hdirty : s.w.dirty = false)
    (chunk rest : List Op) (restSzs : List Nat) (hbuf : s.w.buf = chunk ++ rest) :
    ∀ r, r = writeBlockF fc mk s chunk rest restSzs →
    r.1.w.path = s.w.path ∧ r.1.w.nl = s.w.nl ∧
    ((r.1.w.buf = rest ∧ r.1.w.dirty = false ∧ WInv r.1.d r.1.w (F ++ blockCells (mk chunk))) ∨
     (r.2 = false ∧ r.1.w.buf = chunk ++ rest ∧ ∃ junk, DInv r.1.d r.1.w F junk)) ∧
    (s.rs = [] → r.2 = true ∧ r.1.rs = [] ∧ r.1.failed = s.failed) ∧
    ((r.2 = true → r.1.failed = s.failed) ∧ (r.2 = false → r.1.failed = true)) := by
  intro r hr
  subst hr
  have hF := hinv.atEnd
  have hfile := hinv.file
  -- what the rollback leaves, whatever the truncate's result
  have roll : ∀ (d1 : Disk) (x : List Cell) (r : Res) (w' : WSt), d1.get s.w.path = some (F ++ x) →
      w'.path = s.w.path → w'.pos = s.w.pos → w'.nl = s.w.nl → w'.dirty = !r.isOk →
      ∃ junk, DInv (d1.applyRes (.truncate s.w.path s.w.pos) r) w' F junk := by
    intro d1 x r w' hd1 hp hpos hnl hdt
    by_cases hr : r.isOk = true
    · have := isOk_eq hr
      subst this
      refine ⟨[], ?_, by rw [hpos]; exact hF, by rw [hnl]; exact hinv.hdr, fun _ => rfl⟩
      rw [hp, hF, List.append_nil]; exact get_truncate_back d1 s.w.path _ x hd1
    · have hr' : r.isOk = false := by simpa using hr
      refine ⟨x, ?_, by rw [hpos]; exact hF, by rw [hnl]; exact hinv.hdr, ?_⟩
      · rw [get_truncate_failed _ _ _ _ hr', hp]; exact hd1
      · intro hcl; rw [hdt] at hcl; simp [hr'] at hcl
  unfold writeBlockF
  simp only [issue_eq, h1, h2, if_true]
  by_cases k1 : (nextRes s.rs).1.isOk = true
  · simp only [k1, Bool.not_true, Bool.false_eq_true, if_false]
    have e1 := isOk_eq k1
    have t16 : (hdrCells (mk chunk)).take (Res.ok.written (hdrCells (mk chunk)).length) = hdrCells (mk chunk) :=
      List.take_of_length_le (by simp [Res.written])
    have g1 := get_applyRes_write s.d s.w.path _ hfile (hdrCells (mk chunk)) .ok
    rw [← hF, t16] at g1
    have hl : (F ++ hdrCells (mk chunk)).length = s.w.pos + 16 := by simp [hF]
    by_cases k2 : (nextRes (nextRes s.rs).2).1.isOk = true
    · simp only [k2, Bool.not_true, Bool.false_eq_true, if_false]
      have e2 := isOk_eq k2
      have tp : (payCells (mk chunk)).take (Res.ok.written (payCells (mk chunk)).length) = payCells (mk chunk) :=
        List.take_of_length_le (by simp [Res.written])
      have g2 := get_applyRes_write _ s.w.path _ g1 (payCells (mk chunk)) .ok
      rw [hl, tp] at g2
      have g2' : ((s.d.applyRes (.write s.w.path s.w.pos (hdrCells (mk chunk))) .ok).applyRes
          (.write s.w.path (s.w.pos + 16) (payCells (mk chunk))) .ok).get s.w.path = some (F ++ blockCells (mk chunk)) := by
        rw [g2]; simp [blockCells, List.append_assoc]
      have hh : HdrOk (F ++ blockCells (mk chunk)) s.w.nl := hinv.hdr.append _
      have g3 : ∀ r : Res, (((s.d.applyRes (.write s.w.path s.w.pos (hdrCells (mk chunk))) .ok).applyRes
          (.write s.w.path (s.w.pos + 16) (payCells (mk chunk))) .ok).applyRes (.write s.w.path 0 (fhCells s.w.nl)) r).get s.w.path =
            some (F ++ blockCells (mk chunk)) := by
        intro r
        have := Disk.apply_write_get _ s.w.path s.w.path 0 ((fhCells s.w.nl).take (r.written (fhCells s.w.nl).length)) _ g2'
        rw [splice_hdr_torn hh] at this
        simpa [Disk.applyRes] using this
      have hpos : s.w.pos + 16 + (mk chunk).plen = (F ++ blockCells (mk chunk)).length := by
        simp [hF]; omega
      rw [e1, e2]
      by_cases k3 : (nextRes (nextRes (nextRes s.rs).2).2).1.isOk = true
      · simp only [k3, Bool.not_true, Bool.false_eq_true, if_false]
        refine ⟨trivial, trivial, Or.inl ⟨trivial, hdirty, ⟨g3 _, hpos, hh⟩⟩, ?_, by simp⟩
        intro hrs; simp [hrs, nextRes_nil]
      · simp only [k3, Bool.not_false, if_true]
        refine ⟨trivial, trivial, Or.inl ⟨trivial, hdirty, ⟨g3 _, hpos, hh⟩⟩, ?_, by simp⟩
        intro hrs; rw [hrs] at k3; simp [nextRes_nil, Res.isOk] at k3
    · -- the payload write failed
      simp only [k2, Bool.not_false, if_true]
      have g2 := get_applyRes_write _ s.w.path _ g1 (payCells (mk chunk)) (nextRes (nextRes s.rs).2).1
      rw [hl, List.append_assoc] at g2
      rw [e1]
      refine ⟨trivial, trivial, Or.inr ⟨trivial, hbuf, roll _ _ (nextRes (nextRes (nextRes s.rs).2).2).1 _ g2 rfl rfl rfl rfl⟩, ?_, by simp⟩
      intro hrs; rw [hrs] at k2; simp [nextRes_nil, Res.isOk] at k2
  · -- the header write failed
    simp only [k1, Bool.not_false, if_true]
    have g1 := get_applyRes_write s.d s.w.path _ hfile (hdrCells (mk chunk)) (nextRes s.rs).1
    rw [← hF] at g1
    refine ⟨trivial, trivial, Or.inr ⟨trivial, hbuf, roll _ _ (nextRes (nextRes s.rs).2).1 _ g1 rfl rfl rfl rfl⟩, ?_, by simp⟩
    intro hrs; rw [hrs] at k1; simp [nextRes_nil, Res.isOk] at k1

/-- what a step of the repaired writer guarantees, whatever the results: whole well-formed blocks
    were appended, at most a known fragment lies behind them, nothing left the buffer unwritten -/
structure FPost (s r : FSt) (F : List Cell) (nbs : List Block) (junk : List Cell) : Prop where
  wf : ∀ b ∈ nbs, b.WF
  inv : DInv r.d r.w (F ++ render nbs) junk
  path : r.w.path = s.w.path
  nl : r.w.nl = s.w.nl
  clear : s.rs = [] → r.rs = [] ∧ r.failed = s.failed

theorem render_one (b : Block) : render [b] = blockCells b := by simp [render]

theorem lt_succ_mul {a n m : Nat} (hm : 0 < m) (h : a ≤ (n + 1) * m) (hlt : m < a) : a - m ≤ n * m := by
  rw [Nat.succ_mul] at h; omega

/-- **The block loop of the repaired, splitting flush.**  Every block holds at most `maxEnts`
    entries (so the encoder's count field is exact: the blocks are well formed); what is not
    written stays buffered in order; with enough fuel the buffer ends up empty whenever no
    operation failed (in particular when no fault is left in the result stream). -/
theorem flushBlocks_spec (fc : FCfg) (h1 : fc.rollsBackFailedBlock = true) (h2 : fc.restoresOffsetAfterHeader = true)
    (h3 : fc.splitsOversizedBuffer = true) (mk : Mk) (hmk : MkOk mk) : ∀ (n : Nat) (s : FSt) (F : List Cell),
    WInv s.d s.w F → s.w.dirty = false →
    ∃ nbs junk, entsOf nbs ++ (flushBlocks fc mk n s).w.buf = s.w.buf ∧ FPost s (flushBlocks fc mk n s) F nbs junk ∧
      (s.rs = [] → s.w.buf.length ≤ n * maxEnts → (flushBlocks fc mk n s).w.buf = [] ∧ (flushBlocks fc mk n s).w.dirty = false) ∧
      ((flushBlocks fc mk n s).failed = false → s.w.buf.length ≤ n * maxEnts →
        (flushBlocks fc mk n s).w.buf = [] ∧ (flushBlocks fc mk n s).w.dirty = false) := by
  intro n
  induction n with
  | zero =>
    intro s F hinv hdirty
    have hz : s.w.buf.length ≤ 0 * maxEnts → (flushBlocks fc mk 0 s).w.buf = [] ∧ (flushBlocks fc mk 0 s).w.dirty = false := by
      intro hl
      simp only [flushBlocks]
      exact ⟨List.eq_nil_of_length_eq_zero (by omega), hdirty⟩
    exact ⟨[], [], by simp [entsOf, flushBlocks], ⟨by simp, by rw [render_nil_append]; exact hinv.toDInv, rfl, rfl,
      fun h => ⟨h, rfl⟩⟩, fun _ => hz, fun _ => hz⟩
  | succ n ih =>
    intro s F hinv hdirty
    by_cases hb : s.w.buf = []
    · have : flushBlocks fc mk (n + 1) s = s := by rw [flushBlocks]; simp [hb]
      rw [this]
      exact ⟨[], [], by simp [entsOf], ⟨by simp, by rw [render_nil_append]; exact hinv.toDInv, rfl, rfl,
        fun h => ⟨h, rfl⟩⟩, fun _ _ => ⟨hb, hdirty⟩, fun _ _ => ⟨hb, hdirty⟩⟩
    by_cases hbig : maxEnts < s.w.buf.length
    · -- more than one block's worth: the first `maxEnts` entries, then the rest
      have hstep : flushBlocks fc mk (n + 1) s =
          if (writeBlockF fc mk s (s.w.buf.take maxEnts) (s.w.buf.drop maxEnts) (s.w.szs.drop maxEnts)).2 then
            flushBlocks fc mk n (writeBlockF fc mk s (s.w.buf.take maxEnts) (s.w.buf.drop maxEnts) (s.w.szs.drop maxEnts)).1
          else (writeBlockF fc mk s (s.w.buf.take maxEnts) (s.w.buf.drop maxEnts) (s.w.szs.drop maxEnts)).1 := by
        rw [flushBlocks]
        split
        · rename_i hb'; exact absurd hb' hb
        · simp [h3, hbig]
      have hne : s.w.buf.take maxEnts ≠ [] := by
        intro h
        have h0 : (s.w.buf.take maxEnts).length = 0 := by rw [h]; rfl
        rw [List.length_take] at h0
        have := maxEnts_pos; omega
      have hlen : (s.w.buf.take maxEnts).length ≤ maxEnts := by simp [List.length_take]; omega
      obtain ⟨hwf, hents⟩ := hmk _ hne hlen
      obtain ⟨hp, hnl, hout, hclr, hgoT, hgoF⟩ := writeBlockF_spec fc h1 h2 mk s F hinv hdirty (s.w.buf.take maxEnts)
        (s.w.buf.drop maxEnts) (s.w.szs.drop maxEnts) (List.take_append_drop _ _).symm _ rfl
      rw [hstep]
      rcases hout with ⟨hbuf, hdt, hw⟩ | ⟨hgo, hbuf, junk, hj⟩
      · by_cases hgo : (writeBlockF fc mk s (s.w.buf.take maxEnts) (s.w.buf.drop maxEnts) (s.w.szs.drop maxEnts)).2 = true
        · rw [if_pos hgo]
          obtain ⟨nbs, junk, he, hpost, hfin, hfin2⟩ := ih _ _ hw hdt
          have hrest : s.w.buf.length ≤ (n + 1) * maxEnts →
              (writeBlockF fc mk s (s.w.buf.take maxEnts) (s.w.buf.drop maxEnts) (s.w.szs.drop maxEnts)).1.w.buf.length ≤ n * maxEnts := by
            intro hl
            rw [hbuf, List.length_drop]
            exact lt_succ_mul maxEnts_pos hl hbig
          refine ⟨mk (s.w.buf.take maxEnts) :: nbs, junk, ?_, ⟨?_, ?_, hpost.path.trans hp, hpost.nl.trans hnl, ?_⟩, ?_, ?_⟩
          · rw [show entsOf (mk (s.w.buf.take maxEnts) :: nbs) = (mk (s.w.buf.take maxEnts)).ents ++ entsOf nbs by simp [entsOf]]
            rw [hents, List.append_assoc, he, hbuf, List.take_append_drop]
          · intro b hb'
            rcases List.mem_cons.mp hb' with rfl | hb'
            · exact hwf
            · exact hpost.wf b hb'
          · have := hpost.inv
            rw [show render (mk (s.w.buf.take maxEnts) :: nbs) = blockCells (mk (s.w.buf.take maxEnts)) ++ render nbs by simp [render]]
            rw [← List.append_assoc]; exact this
          · intro hrs
            obtain ⟨_, hr1, hf1⟩ := hclr hrs
            obtain ⟨hr2, hf2⟩ := hpost.clear hr1
            exact ⟨hr2, hf2.trans hf1⟩
          · intro hrs hl
            obtain ⟨_, hr1, _⟩ := hclr hrs
            exact hfin hr1 (hrest hl)
          · intro hf hl
            exact hfin2 hf (hrest hl)
        · rw [if_neg hgo]
          have hfl := hgoF (by simpa using hgo)
          refine ⟨[mk (s.w.buf.take maxEnts)], [], ?_, ⟨?_, ?_, hp, hnl, ?_⟩, ?_, ?_⟩
          · simp only [entsOf, List.flatMap_cons, List.flatMap_nil, List.append_nil]
            rw [hents, hbuf, List.take_append_drop]
          · intro b hb'; simp only [List.mem_cons, List.not_mem_nil, or_false] at hb'; subst hb'; exact hwf
          · rw [render_one]; exact hw.toDInv
          · intro hrs; exact absurd (hclr hrs).1 hgo
          · intro hrs; exact absurd (hclr hrs).1 hgo
          · intro hf; rw [hfl] at hf; cases hf
      · rw [hgo]
        simp only [Bool.false_eq_true, if_false]
        have hfl := hgoF hgo
        refine ⟨[], junk, ?_, ⟨by simp, ?_, hp, hnl, ?_⟩, ?_, ?_⟩
        · simp only [entsOf, List.flatMap_nil, List.nil_append]; rw [hbuf, List.take_append_drop]
        · rw [render_nil_append]; exact hj
        · intro hrs; have := (hclr hrs).1; rw [hgo] at this; cases this
        · intro hrs; have := (hclr hrs).1; rw [hgo] at this; cases this
        · intro hf; rw [hfl] at hf; cases hf
    · -- one block
      have hstep : flushBlocks fc mk (n + 1) s = (writeBlockF fc mk s s.w.buf [] []).1 := by
        rw [flushBlocks]
        split
        · rename_i hb'; exact absurd hb' hb
        · simp [hbig]
      have hlen : s.w.buf.length ≤ maxEnts := Nat.le_of_not_lt hbig
      obtain ⟨hwf, hents⟩ := hmk _ hb hlen
      obtain ⟨hp, hnl, hout, hclr, hgoT, hgoF⟩ := writeBlockF_spec fc h1 h2 mk s F hinv hdirty s.w.buf [] [] (by simp) _ rfl
      rw [hstep]
      rcases hout with ⟨hbuf, hdt, hw⟩ | ⟨hgo, hbuf, junk, hj⟩
      · refine ⟨[mk s.w.buf], [], ?_, ⟨?_, ?_, hp, hnl, ?_⟩, ?_, ?_⟩
        · simp only [entsOf, List.flatMap_cons, List.flatMap_nil, List.append_nil]; rw [hents, hbuf, List.append_nil]
        · intro b hb'; simp only [List.mem_cons, List.not_mem_nil, or_false] at hb'; subst hb'; exact hwf
        · rw [render_one]; exact hw.toDInv
        · intro hrs; exact (hclr hrs).2
        · intro _ _; exact ⟨hbuf, hdt⟩
        · intro _ _; exact ⟨hbuf, hdt⟩
      · have hfl := hgoF hgo
        refine ⟨[], junk, ?_, ⟨by simp, ?_, hp, hnl, ?_⟩, ?_, ?_⟩
        · simp only [entsOf, List.flatMap_nil, List.nil_append]; rw [hbuf, List.append_nil]
        · rw [render_nil_append]; exact hj
        · intro hrs; have := (hclr hrs).1; rw [hgo] at this; cases this
        · intro hrs; have := (hclr hrs).1; rw [hgo] at this; cases this
        · intro hf; rw [hfl] at hf; cases hf

theorem fuel_enough (a : Nat) : a ≤ (a / maxEnts + 1) * maxEnts := by
  have := Nat.lt_div_mul_add (a := a) maxEnts_pos
  rw [Nat.succ_mul]; exact Nat.le_of_lt this

/-- **The repaired flush under arbitrary results**, from a state that may still carry a fragment -/
theorem flushWF_spec (fc : FCfg) (h1 : fc.rollsBackFailedBlock = true) (h2 : fc.restoresOffsetAfterHeader = true)
    (h3 : fc.splitsOversizedBuffer = true) (mk : Mk) (hmk : MkOk mk) (s : FSt) (F junk : List Cell)
    (hi : DInv s.d s.w F junk) :
    ∃ nbs junk', entsOf nbs ++ (flushWF fc mk s).w.buf = s.w.buf ∧ FPost s (flushWF fc mk s) F nbs junk' ∧
      (s.rs = [] → (flushWF fc mk s).w.buf = [] ∧ (flushWF fc mk s).w.dirty = false) ∧
      ((flushWF fc mk s).failed = false → (flushWF fc mk s).w.buf = [] ∧ (flushWF fc mk s).w.dirty = false) := by
  by_cases hd : s.w.dirty = false
  · have : flushWF fc mk s = flushBlocks fc mk (s.w.buf.length / maxEnts + 1) s := by
      unfold flushWF; simp [hd]
    rw [this]
    obtain ⟨nbs, j, he, hp, hfin, hfin2⟩ := flushBlocks_spec fc h1 h2 h3 mk hmk _ s F (hi.toWInv hd) hd
    exact ⟨nbs, j, he, hp, fun hrs => hfin hrs (fuel_enough _), fun hf => hfin2 hf (fuel_enough _)⟩
  · have hd' : s.w.dirty = true := by simpa using hd
    by_cases k : (nextRes s.rs).1.isOk = true
    · -- the fragment is cut off, then the blocks
      have e := isOk_eq k
      let t : FSt := { s with d := s.d.applyRes (.truncate s.w.path s.w.pos) .ok,
                              ops := s.ops ++ [(.truncate s.w.path s.w.pos, .ok)], rs := (nextRes s.rs).2,
                              w := { s.w with dirty := false } }
      have : flushWF fc mk s = flushBlocks fc mk (s.w.buf.length / maxEnts + 1) t := by
        unfold flushWF; simp [h1, hd', issue_eq, e, Res.isOk, t]
      rw [this]
      have hw : WInv t.d t.w F := by
        refine ⟨?_, hi.atEnd, hi.hdr⟩
        show (s.d.applyRes (.truncate s.w.path s.w.pos) .ok).get s.w.path = some F
        rw [hi.atEnd]; exact get_truncate_back s.d s.w.path F junk hi.file
      obtain ⟨nbs, j, he, hp, hfin, hfin2⟩ := flushBlocks_spec fc h1 h2 h3 mk hmk (s.w.buf.length / maxEnts + 1) t F hw rfl
      refine ⟨nbs, j, he, ⟨hp.wf, hp.inv, hp.path, hp.nl, ?_⟩, ?_, fun hf => hfin2 hf (fuel_enough _)⟩
      · intro hrs
        have ht : t.rs = [] := by show (nextRes s.rs).2 = []; rw [hrs]; rfl
        exact hp.clear ht
      · intro hrs
        have ht : t.rs = [] := by show (nextRes s.rs).2 = []; rw [hrs]; rfl
        exact hfin ht (fuel_enough _)
    · -- even the retry failed: nothing changes
      have k' : (nextRes s.rs).1.isOk = false := by simpa using k
      have : flushWF fc mk s = { s with d := s.d.applyRes (.truncate s.w.path s.w.pos) (nextRes s.rs).1,
                                         ops := s.ops ++ [(.truncate s.w.path s.w.pos, (nextRes s.rs).1)],
                                         rs := (nextRes s.rs).2, failed := true } := by
        unfold flushWF; simp [h1, hd', issue_eq, k']
      rw [this]
      refine ⟨[], junk, by simp [entsOf], ⟨by simp, ?_, rfl, rfl, ?_⟩, ?_, ?_⟩
      · rw [render_nil_append]
        refine ⟨?_, hi.atEnd, hi.hdr, hi.clean⟩
        show (s.d.applyRes (.truncate s.w.path s.w.pos) (nextRes s.rs).1).get s.w.path = _
        rw [get_truncate_failed _ _ _ _ k']; exact hi.file
      · intro hrs; rw [hrs] at k'; simp [nextRes_nil, Res.isOk] at k'
      · intro hrs; rw [hrs] at k'; simp [nextRes_nil, Res.isOk] at k'
      · intro hf; cases hf

/-- **No block of the repaired flush can carry a wrapped count**: every block it puts on disk,
    whatever the results and however long the buffer has grown, holds at most `maxEnts` entries
    and its `EntryCount` field is their exact number. -/
theorem flush_chunks_bounded (fc : FCfg) (h1 : fc.rollsBackFailedBlock = true) (h2 : fc.restoresOffsetAfterHeader = true)
    (h3 : fc.splitsOversizedBuffer = true) (mk : Mk) (hmk : MkOk mk) (s : FSt) (F junk : List Cell)
    (hi : DInv s.d s.w F junk) :
    ∃ nbs junk', (flushWF fc mk s).d.get s.w.path = some (F ++ render nbs ++ junk') ∧
      entsOf nbs ++ (flushWF fc mk s).w.buf = s.w.buf ∧
      ∀ b ∈ nbs, b.ents.length ≤ maxEnts ∧ b.cnt = b.ents.length := by
  obtain ⟨nbs, j, he, hp, _, _⟩ := flushWF_spec fc h1 h2 h3 mk hmk s F junk hi
  refine ⟨nbs, j, by rw [← hp.path]; exact hp.inv.file, he, ?_⟩
  intro b hb
  have hw := hp.wf b hb
  refine ⟨?_, hw.2.2.2⟩
  have : b.cnt < 65536 := by
    unfold Block.cnt
    have a1 : b.hdr.getD 8 0 % 256 < 256 := Nat.mod_lt _ (by decide)
    have a2 : b.hdr.getD 9 0 % 256 < 256 := Nat.mod_lt _ (by decide)
    omega
  rw [← hw.2.2.2]; show b.cnt ≤ 65535; omega

/-- `WriteEntry` of the repaired writer, whatever the results -/
theorem addWF_spec (fc : FCfg) (h1 : fc.rollsBackFailedBlock = true) (h2 : fc.restoresOffsetAfterHeader = true)
    (h3 : fc.splitsOversizedBuffer = true) (mk : Mk) (hmk : MkOk mk) (s : FSt) (F junk : List Cell)
    (hi : DInv s.d s.w F junk) (e : Op) (sz : Nat) :
    ∃ nbs junk', entsOf nbs ++ (addWF fc mk s e sz).w.buf = s.w.buf ++ [e] ∧ FPost s (addWF fc mk s e sz) F nbs junk' := by
  unfold addWF
  simp only
  split
  · have hi' : DInv s.d (s.w.push e sz) F junk := ⟨hi.file, hi.atEnd, hi.hdr, hi.clean⟩
    obtain ⟨nbs, j, he, hp, _, _⟩ := flushWF_spec fc h1 h2 h3 mk hmk { s with w := s.w.push e sz } F junk hi'
    cases fc.addReportsFlushError
    · exact ⟨nbs, j, he, ⟨hp.wf, hp.inv, hp.path, hp.nl, fun h => ⟨(hp.clear h).1, rfl⟩⟩⟩
    · exact ⟨nbs, j, he, ⟨hp.wf, hp.inv, hp.path, hp.nl, hp.clear⟩⟩
  · exact ⟨[], junk, by simp [entsOf, WSt.push], ⟨by simp, by
      rw [render_nil_append]; exact ⟨hi.file, hi.atEnd, hi.hdr, hi.clean⟩, rfl, rfl, fun h => ⟨h, rfl⟩⟩⟩

theorem addManyWF_spec (fc : FCfg) (h1 : fc.rollsBackFailedBlock = true) (h2 : fc.restoresOffsetAfterHeader = true)
    (h3 : fc.splitsOversizedBuffer = true) (mk : Mk) (hmk : MkOk mk)
    (items : List (Op × Nat)) : ∀ (s : FSt) (F junk : List Cell), DInv s.d s.w F junk →
    ∃ nbs junk', entsOf nbs ++ (addManyWF fc mk s items).w.buf = s.w.buf ++ items.map (·.1) ∧ (∀ b ∈ nbs, b.WF) ∧
      DInv (addManyWF fc mk s items).d (addManyWF fc mk s items).w (F ++ render nbs) junk' ∧
      (addManyWF fc mk s items).w.path = s.w.path ∧ (addManyWF fc mk s items).w.nl = s.w.nl ∧
      (s.rs = [] → (addManyWF fc mk s items).rs = []) := by
  induction items with
  | nil => intro s F junk hi; exact ⟨[], junk, by simp [entsOf, addManyWF], by simp, by
      rw [render_nil_append]; exact hi, rfl, rfl, fun h => h⟩
  | cons it rest ih =>
    intro s F junk hi
    obtain ⟨e, sz⟩ := it
    obtain ⟨a, j1, ha, pa⟩ := addWF_spec fc h1 h2 h3 mk hmk s F junk hi e sz
    obtain ⟨b, j2, hb, hwb, hib, hpb, hnb, hrb⟩ := ih { addWF fc mk s e sz with failed := false } _ j1 pa.inv
    refine ⟨a ++ b, j2, ?_, ?_, ?_, by simp only [addManyWF]; rw [hpb]; exact pa.path,
      by simp only [addManyWF]; rw [hnb]; exact pa.nl, ?_⟩
    · simp only [addManyWF, entsOf_append, List.map_cons, List.append_assoc]
      rw [hb, ← List.append_assoc, ha]; simp
    · intro x hx
      rcases List.mem_append.mp hx with hx | hx
      · exact pa.wf x hx
      · exact hwb x hx
    · simp only [addManyWF]
      rw [render_append, ← List.append_assoc]; exact hib
    · intro hrs; simp only [addManyWF]; exact hrb (pa.clear hrs).1

/-- `Sync` after the fault has cleared: the file is clean and holds everything -/
theorem syncWF_ok_spec (c : Cfg) (fc : FCfg) (h1 : fc.rollsBackFailedBlock = true) (h2 : fc.restoresOffsetAfterHeader = true)
    (h3 : fc.splitsOversizedBuffer = true) (mk : Mk) (hmk : MkOk mk) (s : FSt)
    (F junk : List Cell) (hi : DInv s.d s.w F junk) (h : s.rs = []) :
    ∃ nbs, entsOf nbs = s.w.buf ∧ (∀ b ∈ nbs, b.WF) ∧ (syncWF c fc mk s).d.get s.w.path = some (F ++ render nbs) := by
  obtain ⟨nbs, j, he, hp, hfin, _⟩ := flushWF_spec fc h1 h2 h3 mk hmk { s with failed := false } F junk
    ⟨hi.file, hi.atEnd, hi.hdr, hi.clean⟩
  obtain ⟨hbuf, hdt⟩ := hfin h
  obtain ⟨hrs, hfl⟩ := hp.clear h
  have hw := hp.inv.toWInv hdt
  refine ⟨nbs, by rw [← he, hbuf, List.append_nil], hp.wf, ?_⟩
  have hfl' : (flushWF fc mk { s with failed := false }).failed = false := hfl
  unfold syncWF
  simp only [hfl', Bool.false_eq_true, if_false, FSt.issue, hrs, nextRes, Res.isOk, Bool.not_true]
  have hno : ((flushWF fc mk { s with failed := false }).d.applyRes
      (.write (flushWF fc mk { s with failed := false }).w.path 0 (fhCells (flushWF fc mk { s with failed := false }).w.nl)) .ok) =
      (flushWF fc mk { s with failed := false }).d := by
    rw [applyRes_ok]; exact header_rewrite_noop _ _ _ hw
  rw [hno]
  have hfile := hw.file
  have hpath : (flushWF fc mk { s with failed := false }).w.path = s.w.path := hp.path
  rw [hpath] at hfile
  cases c.syncFsyncs
  · simpa using hfile
  · simp only [if_true, applyRes_ok, Disk.apply]; simpa using hfile

/-- **Repaired writer: nothing hidden, nothing dropped — for every result stream and every
    buffer length.**  With a flush that rolls a failed block back (retrying a failed rollback
    before the next block), restores the offset after a failed header rewrite and never puts more
    than `maxEnts` entries into a block, the full statement holds. -/
theorem flush_holds_of_repaired (c : Cfg) (fc : FCfg) (h1 : fc.rollsBackFailedBlock = true)
    (h2 : fc.restoresOffsetAfterHeader = true) (h3 : fc.splitsOversizedBuffer = true) : HoldsFlush c fc := by
  intro mk hmk nl bs hwf w d hinv _ hdirty rs during after
  obtain ⟨n1, j1, e1, p1, _, _⟩ := flushWF_spec fc h1 h2 h3 mk hmk { w := w, d := d, rs := rs } _ [] hinv.toDInv
  obtain ⟨n2, j2, e2, w2, i2, q2, _, _⟩ := addManyWF_spec fc h1 h2 h3 mk hmk during _ _ j1 p1.inv
  obtain ⟨n3, j3, e3, w3, i3, q3, _, r3⟩ := addManyWF_spec fc h1 h2 h3 mk hmk after
    (cleared (addManyWF fc mk (flushWF fc mk { w := w, d := d, rs := rs }) during)) _ j2
    (⟨i2.file, i2.atEnd, i2.hdr, i2.clean⟩ : DInv (cleared _).d (cleared _).w _ j2)
  obtain ⟨n4, e4, w4, hget⟩ := syncWF_ok_spec c fc h1 h2 h3 mk hmk _ _ j3 i3 (r3 rfl)
  have hpath : (addManyWF fc mk (cleared (addManyWF fc mk (flushWF fc mk { w := w, d := d, rs := rs }) during)) after).w.path = w.path := by
    rw [q3]; show (addManyWF fc mk (flushWF fc mk { w := w, d := d, rs := rs }) during).w.path = w.path
    rw [q2]; exact p1.path
  rw [hpath] at hget
  refine ⟨_, hget, ?_⟩
  have hall : ∀ b ∈ bs ++ n1 ++ n2 ++ n3 ++ n4, b.WF := by
    intro b hb
    simp only [List.mem_append] at hb
    rcases hb with (((hb | hb) | hb) | hb) | hb
    · exact hwf b hb
    · exact p1.wf b hb
    · exact w2 b hb
    · exact w3 b hb
    · exact w4 b hb
  have hfile : fileCells nl bs ++ render n1 ++ render n2 ++ render n3 ++ render n4 = fileCells nl (bs ++ n1 ++ n2 ++ n3 ++ n4) := by
    simp [fileCells, render_append, List.append_assoc]
  rw [hfile]
  simp only [loadEntries, loadFile_clean c.r nl _ hall]
  simp only [entsOf_append]
  have e3' : entsOf n3 ++ (addManyWF fc mk (cleared (addManyWF fc mk (flushWF fc mk { w := w, d := d, rs := rs }) during)) after).w.buf =
      (addManyWF fc mk (flushWF fc mk { w := w, d := d, rs := rs }) during).w.buf ++ after.map (·.1) := e3
  have e1' : entsOf n1 ++ (flushWF fc mk { w := w, d := d, rs := rs }).w.buf = w.buf := e1
  rw [e4, List.append_assoc (entsOf bs ++ entsOf n1 ++ entsOf n2), e3', ← List.append_assoc,
    List.append_assoc (entsOf bs ++ entsOf n1), e2, ← List.append_assoc, List.append_assoc (entsOf bs), e1']

/-! ### The flush that hands the whole buffer to one block -/

/-- **An oversized buffer makes the file unreadable.**  A flush that rolls back and re-buffers
    (so the buffer can grow past the 16-bit count across failed flushes) but hands the whole
    buffer to `CompressEntries` writes, once the fault has cleared, a block whose `EntryCount`
    has wrapped; the reader rejects it and with it every record of the file — those that were
    durable before the fault included.  Closed witness: 100 … no fault needed at all once the
    buffer is that long: one durable block, 65536 buffered entries, every operation succeeds. -/
theorem oversized_block_unreadable (c : Cfg) (fc : FCfg) (h3 : fc.splitsOversizedBuffer = false) : ¬ HoldsFlush c fc := by
  intro hh
  let mk0 : Mk := mkP 1
  have hmk : MkOk mk0 := mkP_ok 1 Nat.one_pos
  let b0 : Block := mk0 [Op.put 9 9]
  have hb0 : b0.WF := (hmk _ (by simp) (by decide)).1
  have hwf : ∀ b ∈ [b0], b.WF := by intro b hb; simp only [List.mem_cons, List.not_mem_nil, or_false] at hb; subst hb; exact hb0
  -- the buffer a long outage leaves behind
  obtain ⟨es, hes⟩ : ∃ es : List Op, es = List.replicate 65536 (Op.put 1 1) := ⟨_, rfl⟩
  have hlen : es.length = 65536 := by rw [hes, List.length_replicate]
  have hne : es ≠ [] := by intro h; rw [h] at hlen; simp at hlen
  let F := fileCells 0 [b0]
  let w : WSt := { path := .main, pos := F.length, nl := 0, buf := es, bufSize := 0, bs := 100 }
  let d : Disk := { main := some F, temp := none }
  have hinv : WInv d w F := ⟨rfl, rfl, fileCells_hdr 0 [b0]⟩
  obtain ⟨f, hget, hload⟩ := hh mk0 hmk 0 [b0] hwf w d hinv rfl rfl [] [] []
  -- no fault: the flush is the plain flush, one block for the whole buffer
  have hfl := flushWF_nofault fc mk0 { w := w, d := d, rs := [] } rfl rfl (Or.inl h3)
  obtain ⟨hw1, _⟩ := flushW_inv mk0 d w F hinv hne
  have hbuf1 : (flushW mk0 w).1.buf = [] := by rw [flushW_cons mk0 w hne]
  have hpath1 : (flushW mk0 w).1.path = .main := by rw [flushW_cons mk0 w hne]
  have hnil : ∀ t : FSt, addManyWF fc mk0 t [] = t := fun _ => rfl
  have hsync := syncWF_nofault_disk c fc mk0 (cleared (flushWF fc mk0 { w := w, d := d, rs := [] })) rfl
    (by show (flushWF fc mk0 { w := w, d := d, rs := [] }).w.dirty = false; rw [hfl.1, flushW_dirty])
    (Or.inl h3)
  simp only [afterFault, hnil] at hget
  rw [hsync] at hget
  have hcl : (cleared (flushWF fc mk0 { w := w, d := d, rs := [] })).d = d.applyAll (flushW mk0 w).2 := hfl.2.1
  have hcw : (cleared (flushWF fc mk0 { w := w, d := d, rs := [] })).w = (flushW mk0 w).1 := hfl.1
  rw [hcl, hcw] at hget
  have hfin := syncW_empty c mk0 _ _ _ hw1 hbuf1
  rw [hpath1] at hfin
  have hwp : w.path = .main := rfl
  rw [hwp, hfin] at hget
  cases hget
  -- the reader rejects the block, and with it the durable one in front of it
  have hbad := loadFile_badcnt c.r 0 [b0] hwf (mk0 es) rfl (by simp [le32, mk0, mkP]) Nat.one_pos
    (mkP_wraps 1 es (by rw [hlen]; decide))
  have hwb : w.buf = es := rfl
  simp only [loadEntries, F, hbad, hwb] at hload
  have := congrArg List.length hload
  simp [entsOf, hlen] at this

/-! ### Deleting after a failed flush; closing again after a failed Close -/

theorem get_hdr_rewrite (d : Disk) (p : Path) (f : List Cell) (nl : Nat) (h : d.get p = some f) (hh : HdrOk f nl) (r : Res) :
    (d.applyRes (.write p 0 (fhCells nl)) r).get p = some f := by
  have := Disk.apply_write_get d p p 0 ((fhCells nl).take (r.written (fhCells nl).length)) f h
  rw [splice_hdr_torn hh] at this
  simpa [Disk.applyRes] using this

theorem applyRes_sync (d : Disk) (p : Path) (r : Res) : d.applyRes (.sync p) r = d := by
  cases r <;> simp [Disk.applyRes, Disk.apply, Res.isOk]

/-- **`Close` of the repaired writer under arbitrary results**: whole blocks were appended, at most
    a known fragment lies behind them, what was not written is still buffered; without a fault
    everything is written. -/
theorem closeWF_spec (c : Cfg) (fc : FCfg) (h1 : fc.rollsBackFailedBlock = true) (h2 : fc.restoresOffsetAfterHeader = true)
    (h3 : fc.splitsOversizedBuffer = true) (mk : Mk) (hmk : MkOk mk) (s : FSt) (F junk : List Cell)
    (hi : DInv s.d s.w F junk) :
    ∃ nbs junk', entsOf nbs ++ (closeWF c fc mk s).w.buf = s.w.buf ∧ (∀ b ∈ nbs, b.WF) ∧
      DInv (closeWF c fc mk s).d (closeWF c fc mk s).w (F ++ render nbs) junk' ∧ (closeWF c fc mk s).w.path = s.w.path ∧
      (s.rs = [] → (closeWF c fc mk s).w.buf = [] ∧ (closeWF c fc mk s).w.dirty = false) := by
  obtain ⟨nbs, j, he, hp, hfin, hfin2⟩ := flushWF_spec fc h1 h2 h3 mk hmk { s with failed := false } F junk
    ⟨hi.file, hi.atEnd, hi.hdr, hi.clean⟩
  have hpath : (flushWF fc mk { s with failed := false }).w.path = s.w.path := hp.path
  by_cases hf : (flushWF fc mk { s with failed := false }).failed = true
  · have : closeWF c fc mk s = flushWF fc mk { s with failed := false } := by unfold closeWF; simp [hf]
    rw [this]
    refine ⟨nbs, j, he, hp.wf, hp.inv, hpath, ?_⟩
    intro hrs
    have := (hp.clear hrs).2
    rw [this] at hf; cases hf
  · have hf' : (flushWF fc mk { s with failed := false }).failed = false := by simpa using hf
    obtain ⟨hbuf, hdt⟩ := hfin2 hf'
    have hw := hp.inv.toWInv hdt
    -- the header rewrite and the fsync change nothing the writer or the loader see
    have key : ∀ t : FSt, t.w = (flushWF fc mk { s with failed := false }).w →
        t.d.get s.w.path = (flushWF fc mk { s with failed := false }).d.get s.w.path →
        ∃ nbs junk', entsOf nbs ++ t.w.buf = s.w.buf ∧ (∀ b ∈ nbs, b.WF) ∧ DInv t.d t.w (F ++ render nbs) junk' ∧
          t.w.path = s.w.path ∧ (s.rs = [] → t.w.buf = [] ∧ t.w.dirty = false) := by
      intro t htw htd
      refine ⟨nbs, [], by rw [htw]; exact he, hp.wf, ?_, by rw [htw]; exact hpath, fun _ => by rw [htw]; exact ⟨hbuf, hdt⟩⟩
      rw [htw]
      refine ⟨?_, hw.atEnd, hw.hdr, fun _ => rfl⟩
      rw [hpath, htd, ← hpath, List.append_nil]; exact hw.file
    have g1 : ∀ r : Res, ((flushWF fc mk { s with failed := false }).d.applyRes
        (.write (flushWF fc mk { s with failed := false }).w.path 0 (fhCells (flushWF fc mk { s with failed := false }).w.nl)) r).get s.w.path =
        (flushWF fc mk { s with failed := false }).d.get s.w.path := by
      intro r
      rw [← hpath, get_hdr_rewrite _ _ _ _ hw.file hw.hdr r, hw.file]
    have hcw : (closeWF c fc mk s).w = (flushWF fc mk { s with failed := false }).w := by
      unfold closeWF
      simp only [hf', Bool.false_eq_true, if_false, issue_eq]
      by_cases k2 : (nextRes (flushWF fc mk { s with failed := false }).rs).1.isOk = true
      · simp only [k2, Bool.not_true, Bool.false_eq_true, if_false]
        cases c.closeFsyncs <;> rfl
      · simp only [k2, Bool.not_false, if_true]
    have hcd : (closeWF c fc mk s).d.get s.w.path = (flushWF fc mk { s with failed := false }).d.get s.w.path := by
      unfold closeWF
      simp only [hf', Bool.false_eq_true, if_false, issue_eq]
      by_cases k2 : (nextRes (flushWF fc mk { s with failed := false }).rs).1.isOk = true
      · simp only [k2, Bool.not_true, Bool.false_eq_true, if_false]
        cases c.closeFsyncs
        · simp only [Bool.false_eq_true, if_false]; exact g1 _
        · simp only [if_true, applyRes_sync]; exact g1 _
      · simp only [k2, Bool.not_false, if_true]; exact g1 _
    exact key (closeWF c fc mk s) hcw hcd

theorem get_replay_put_del (m : Index) (a : List Op) (k v : Nat) :
    Index.get (Index.replay m (a ++ [Op.put k v] ++ [Op.del k])) k = none := by
  rw [Index.replay_append]
  simp [Index.replay, Index.apply, Index.get_del]

/-- **Repaired writer: a deleted record stays deleted**, whatever happened to the flush its insert
    triggered: `WriteEntry` reports success (the entry is queued), so the swamp has its pointer and
    the delete writes a tombstone behind it. -/
theorem delete_sticks_of_repaired (c : Cfg) (fc : FCfg) (h1 : fc.rollsBackFailedBlock = true)
    (h2 : fc.restoresOffsetAfterHeader = true) (h3 : fc.splitsOversizedBuffer = true)
    (h4 : fc.addReportsFlushError = false) : DeleteSticks c fc := by
  intro mk hmk nl bs hwf w d hinv _ hdirty rs k v sz szd _
  have hnf : (addWF fc mk { w := w, d := d, rs := rs } (.put k v) sz).failed = false := by
    unfold addWF; simp only [h4]; split <;> rfl
  rw [hnf]
  simp only [Bool.false_eq_true, if_false]
  obtain ⟨n1, j1, e1, p1⟩ := addWF_spec fc h1 h2 h3 mk hmk { w := w, d := d, rs := rs } _ [] hinv.toDInv (.put k v) sz
  obtain ⟨n2, j2, e2, w2, i2, q2, _, r2⟩ := addManyWF_spec fc h1 h2 h3 mk hmk [(Op.del k, szd)]
    (cleared (addWF fc mk { w := w, d := d, rs := rs } (.put k v) sz)) _ j1
    (⟨p1.inv.file, p1.inv.atEnd, p1.inv.hdr, p1.inv.clean⟩ : DInv (cleared _).d (cleared _).w _ j1)
  obtain ⟨n3, e3, w3, hget⟩ := syncWF_ok_spec c fc h1 h2 h3 mk hmk _ _ j2 i2 (r2 rfl)
  have hpath : (addManyWF fc mk (cleared (addWF fc mk { w := w, d := d, rs := rs } (.put k v) sz)) [(Op.del k, szd)]).w.path = w.path := by
    rw [q2]; exact p1.path
  rw [hpath] at hget
  refine ⟨_, hget, ?_⟩
  have hall : ∀ b ∈ bs ++ n1 ++ n2 ++ n3, b.WF := by
    intro b hb
    simp only [List.mem_append] at hb
    rcases hb with ((hb | hb) | hb) | hb
    · exact hwf b hb
    · exact p1.wf b hb
    · exact w2 b hb
    · exact w3 b hb
  have hfile : fileCells nl bs ++ render n1 ++ render n2 ++ render n3 = fileCells nl (bs ++ n1 ++ n2 ++ n3) := by
    simp [fileCells, render_append, List.append_assoc]
  rw [hfile]
  simp only [loadEntries, loadFile_clean c.r nl _ hall]
  simp only [entsOf_append]
  have e2' : entsOf n2 ++ (addManyWF fc mk (cleared (addWF fc mk { w := w, d := d, rs := rs } (.put k v) sz)) [(Op.del k, szd)]).w.buf =
      (addWF fc mk { w := w, d := d, rs := rs } (.put k v) sz).w.buf ++ [Op.del k] := e2
  have e1' : entsOf n1 ++ (addWF fc mk { w := w, d := d, rs := rs } (.put k v) sz).w.buf = w.buf ++ [Op.put k v] := e1
  rw [e3, List.append_assoc (entsOf bs ++ entsOf n1), e2', ← List.append_assoc, List.append_assoc (entsOf bs), e1',
    ← List.append_assoc]
  exact get_replay_put_del [] (entsOf bs ++ w.buf) k v

/-- **Repaired writer: after a failed Close the writer goes on.** -/
theorem close_retry_of_repaired (c : Cfg) (fc : FCfg) (h1 : fc.rollsBackFailedBlock = true)
    (h2 : fc.restoresOffsetAfterHeader = true) (h3 : fc.splitsOversizedBuffer = true)
    (h5 : fc.closeKeepsWriter = true) : CloseRetry c fc := by
  intro mk hmk nl bs hwf w d hinv _ hdirty rs items _
  simp only [closeAgain, h5, if_true]
  obtain ⟨n1, j1, e1, w1, i1, q1, _⟩ := closeWF_spec c fc h1 h2 h3 mk hmk { w := w, d := d, rs := rs } _ [] hinv.toDInv
  obtain ⟨n2, j2, e2, w2, i2, q2, _, r2⟩ := addManyWF_spec fc h1 h2 h3 mk hmk items
    (cleared (closeWF c fc mk { w := w, d := d, rs := rs })) _ j1
    (⟨i1.file, i1.atEnd, i1.hdr, i1.clean⟩ : DInv (cleared _).d (cleared _).w _ j1)
  obtain ⟨n3, j3, e3, w3, i3, q3, hfin⟩ := closeWF_spec c fc h1 h2 h3 mk hmk _ _ j2 i2
  obtain ⟨hbuf, hdt⟩ := hfin (r2 rfl)
  have hj : j3 = [] := i3.clean hdt
  subst hj
  have hpath : (closeWF c fc mk (addManyWF fc mk (cleared (closeWF c fc mk { w := w, d := d, rs := rs })) items)).w.path = w.path := by
    rw [q3, q2]; exact q1
  have hget := i3.file
  rw [hpath, List.append_nil] at hget
  refine ⟨_, hget, ?_⟩
  have hall : ∀ b ∈ bs ++ n1 ++ n2 ++ n3, b.WF := by
    intro b hb
    simp only [List.mem_append] at hb
    rcases hb with ((hb | hb) | hb) | hb
    · exact hwf b hb
    · exact w1 b hb
    · exact w2 b hb
    · exact w3 b hb
  have hfile : fileCells nl bs ++ render n1 ++ render n2 ++ render n3 = fileCells nl (bs ++ n1 ++ n2 ++ n3) := by
    simp [fileCells, render_append, List.append_assoc]
  rw [hfile]
  simp only [loadEntries, loadFile_clean c.r nl _ hall]
  simp only [entsOf_append]
  have e3' : entsOf n3 = (addManyWF fc mk (cleared (closeWF c fc mk { w := w, d := d, rs := rs })) items).w.buf := by
    rw [← e3, hbuf, List.append_nil]
  have e2' : entsOf n2 ++ (addManyWF fc mk (cleared (closeWF c fc mk { w := w, d := d, rs := rs })) items).w.buf =
      (closeWF c fc mk { w := w, d := d, rs := rs }).w.buf ++ items.map (·.1) := e2
  have e1' : entsOf n1 ++ (closeWF c fc mk { w := w, d := d, rs := rs }).w.buf = w.buf := e1
  rw [e3', List.append_assoc (entsOf bs ++ entsOf n1), e2', ← List.append_assoc, List.append_assoc (entsOf bs), e1']

/-- **A dead writer after a failed Close** (closed descriptor, writer kept): what is written
    afterwards never reaches the disk.  Closed witness: one buffered entry, the Close's flush fails. -/
theorem failed_close_kills_writer (c : Cfg) (fc : FCfg) (h1 : fc.rollsBackFailedBlock = true)
    (h5 : fc.closeKeepsWriter = false) : ¬ CloseRetry c fc := by
  intro hh
  let mk0 : Mk := mkP 1
  have hmk : MkOk mk0 := mkP_ok 1 Nat.one_pos
  let w : WSt := { path := .main, pos := 64, nl := 0, buf := [Op.put 1 1], bufSize := 10, bs := 100 }
  let d : Disk := { main := some (fileCells 0 []), temp := none }
  have hF : (fileCells 0 []).length = 64 := by simp [fileCells, render, nmCells]
  have hinv : WInv d w (fileCells 0 []) := ⟨rfl, by simp [w, hF], fileCells_hdr 0 []⟩
  have hd : d.applyRes (.write .main 64 (hdrCells (mk0 [Op.put 1 1]))) .err = d := by
    simp only [Disk.applyRes, Res.written, List.take_zero]
    exact apply_write_nil d .main (fileCells 0 []) rfl 64 (by rw [hF]; exact Nat.le_refl _)
  have htr : d.applyRes (.truncate .main 64) .ok = d := by
    simp only [Disk.applyRes, Res.isOk, if_true, Disk.apply, d, Disk.get, Disk.set]
    rw [List.take_of_length_le (by rw [hF]; exact Nat.le_refl _), hF]; simp
  have hcl : closeWF c fc mk0 { w := w, d := d, rs := [.err] } =
      { w := w, d := d, ops := [(.write .main 64 (hdrCells (mk0 [Op.put 1 1])), .err), (.truncate .main 64, .ok)],
        rs := [], failed := true } := by
    simp [closeWF, flushWF, flushBlocks, writeBlockF, w, FSt.issue, nextRes, Res.isOk, h1, hd, htr, Res.written, maxEnts]
  obtain ⟨f, hget, hload⟩ := hh mk0 hmk 0 [] (by simp) w d hinv rfl rfl [.err] [(Op.put 2 2, 10)] (by rw [hcl])
  simp only [closeAgain, h5, Bool.false_eq_true, if_false, hcl] at hget
  have : f = fileCells 0 [] := by
    have : d.get .main = some f := hget
    simpa [d, Disk.get] using this.symm
  subst this
  simp only [loadEntries, loadFile_clean c.r 0 [] (by simp)] at hload
  simp [entsOf, w] at hload

/-- **A deleted record comes back** when `WriteEntry` reports the error of a flush that kept the
    entry queued.  Closed witness: one record larger than the block size, the block-header write
    fails (nothing transferred), the rollback succeeds; no pointer, no tombstone; `Sync` flushes it. -/
theorem deleted_record_resurrects (c : Cfg) (fc : FCfg) (h1 : fc.rollsBackFailedBlock = true)
    (h4 : fc.addReportsFlushError = true) : ¬ DeleteSticks c fc := by
  intro hh
  let mk0 : Mk := mkP 1
  have hmk : MkOk mk0 := mkP_ok 1 Nat.one_pos
  let w : WSt := { path := .main, pos := 64, nl := 0, buf := [], bufSize := 0, bs := 100 }
  let d : Disk := { main := some (fileCells 0 []), temp := none }
  have hF : (fileCells 0 []).length = 64 := by simp [fileCells, render, nmCells]
  have hinv : WInv d w (fileCells 0 []) := ⟨rfl, by simp [w, hF], fileCells_hdr 0 []⟩
  have hd : d.applyRes (.write .main 64 (hdrCells (mk0 [Op.put 1 1]))) .err = d := by
    simp only [Disk.applyRes, Res.written, List.take_zero]
    exact apply_write_nil d .main (fileCells 0 []) rfl 64 (by rw [hF]; exact Nat.le_refl _)
  have htr : d.applyRes (.truncate .main 64) .ok = d := by
    simp only [Disk.applyRes, Res.isOk, if_true, Disk.apply, d, Disk.get, Disk.set]
    rw [List.take_of_length_le (by rw [hF]; exact Nat.le_refl _), hF]; simp
  have hadd : addWF fc mk0 { w := w, d := d, rs := [.err] } (.put 1 1) 200 =
      { w := { w with buf := [Op.put 1 1], bufSize := 200, szs := [200] }, d := d,
        ops := [(.write .main 64 (hdrCells (mk0 [Op.put 1 1])), .err), (.truncate .main 64, .ok)],
        rs := [], failed := true } := by
    simp [addWF, WSt.push, WSt.full, flushWF, flushBlocks, writeBlockF, w, FSt.issue, nextRes, Res.isOk, h1, h4, hd, htr,
      Res.written, maxEnts]
  obtain ⟨f, hget, hload⟩ := hh mk0 hmk 0 [] (by simp) w d hinv rfl rfl [.err] 1 1 200 10 (by simp [entsOf, w, Index.replay, Index.get])
  rw [hadd] at hget
  simp only [if_true] at hget
  have hinv2 : WInv d { w with buf := [Op.put 1 1], bufSize := 200, szs := [200] } (fileCells 0 []) :=
    ⟨rfl, by simp [w, hF], fileCells_hdr 0 []⟩
  obtain ⟨f', hget', hload'⟩ := finish_clean c fc mk0 hmk 0 [] (by simp)
    { w := { w with buf := [Op.put 1 1], bufSize := 200, szs := [200] }, d := d,
      ops := [(.write .main 64 (hdrCells (mk0 [Op.put 1 1])), .err), (.truncate .main 64, .ok)],
      rs := [], failed := true } hinv2 rfl (by simp [maxEnts]) []
  rw [hget'] at hget
  cases hget
  rw [hload'] at hload
  simp [entsOf, w, Index.replay, Index.apply, Index.put, Index.del, Index.get] at hload

/-- **The repaired writer meets the whole statement.** -/
theorem holds_of_repaired (c : Cfg) (fc : FCfg) (h1 : fc.rollsBackFailedBlock = true)
    (h2 : fc.restoresOffsetAfterHeader = true) (h3 : fc.splitsOversizedBuffer = true)
    (h4 : fc.addReportsFlushError = false) (h5 : fc.closeKeepsWriter = true) : Holds c fc :=
  ⟨flush_holds_of_repaired c fc h1 h2 h3, delete_sticks_of_repaired c fc h1 h2 h3 h4, close_retry_of_repaired c fc h1 h2 h3 h5⟩

/-- Non-vacuity: the hypotheses of `Holds` are met by the state after a real flush. -/
example : ∃ (w : WSt) (d : Disk), WInv d w (fileCells 0 []) ∧ w.buf ≠ [] :=
  ⟨{ path := .main, pos := 64, nl := 0, buf := [Op.put 1 1], bufSize := 10, bs := 100 },
   { main := some (fileCells 0 []), temp := none },
   ⟨rfl, by simp [fileCells, render, nmCells], fileCells_hdr 0 []⟩, by simp⟩

/-! ### Decision over the extracted facts -/

structure Facts where
  /-- `WriteBuffer.Flush` empties the buffer, and flushLocked calls it before the first write -/
  clearsBufferBeforeWrite : Tri
  /-- flushLocked cuts a failed block off again and puts its entries back into the buffer -/
  rollsBackFailedBlock : Tri
  /-- flushLocked restores the offset when the header rewrite fails -/
  restoresOffsetAfterHeader : Tri
  /-- flushLocked writes at most `math.MaxUint16` entries per block and goes on with the rest -/
  splitsOversizedBuffer : Tri
  /-- `WriteBuffer.Add` / `ShouldFlush` report full at `math.MaxUint16` entries -/
  flushesAtCountBound : Tri
  /-- readNextBlock takes a zero-filled tail for the end of the data -/
  zeroTailIsEOF : Tri
  /-- `WriteBuffer.Restore` puts the entries back in front of what is buffered (the rollback of the model restores the order) -/
  restorePrepends : Tri
  /-- `FileWriter.WriteEntry` returns the error of the flush it triggers (the entry stays queued all the same) -/
  writeEntryReportsFlushError : Tri
  /-- `FileWriter.Close` leaves the file open when it fails (the writer the chronicler keeps stays usable) -/
  closeKeepsFileOnError : Tri
  /-- chroniclerV2.Close / runCompactionLocked return a Close error without dropping the writer -/
  chronKeepsWriterOnCloseError : Tri
  /-- chronicler.Write logs a WriteEntry error and goes on with the next entry -/
  writeErrorsSkipped : Tri
  /-- fileWriterHandler only logs a Sync error -/
  syncErrorLogged : Tri
  flushOrderCanonical : Tri
  syncFsyncs : Tri
  closeFsyncs : Tri
  opensExistingForAppend : Tri
  truncatesTornTail : Tri
  shortHeaderIsEOF : Tri
  tornDataIsEOF : Tri
  /-- Compact / CompactFromIndex give up (temp removed, no rename) when closing the temp fails -/
  closeErrorAborts : Tri
  /-- the reader assumptions of the model (established by C04): a payload that is not the one
      written fails the checksum; the decoded length and the entry count are checked -/
  validatesCrc : Tri
  crcBeforeDecompress : Tri
  validatesULen : Tri
  boundsDecodedLen : Tri
  parseConsumesAll : Tri
  deriving Repr

def cfgOf (f : Facts) : Cfg :=
  { r := ⟨f.shortHeaderIsEOF.isYes, f.tornDataIsEOF.isYes, false, f.zeroTailIsEOF.isYes⟩,
    syncFsyncs := f.syncFsyncs.isYes, closeFsyncs := f.closeFsyncs.isYes,
    truncatesTornTail := f.truncatesTornTail.isYes,
    loadCleansTemp := true, rmTempLocked := true, rmTempFromIndex := true, rmTempCompactor := true }

def fcOf (f : Facts) : FCfg :=
  ⟨f.clearsBufferBeforeWrite.isYes, f.rollsBackFailedBlock.isYes, f.restoresOffsetAfterHeader.isYes,
   f.splitsOversizedBuffer.isYes, !f.writeEntryReportsFlushError.isNo, f.closeKeepsFileOnError.isYes⟩

/-- the reader of the model is the reader of the code: checksum, decoded length and entry count
    are validated (`readBlocks` rejects anything but the payload written, and a wrapped count) -/
def readerApplies (f : Facts) : Bool :=
  f.validatesCrc.isYes && f.validatesULen.isYes && f.parseConsumesAll.isYes

def modelApplies (f : Facts) : Bool :=
  f.flushOrderCanonical.isYes && f.writeErrorsSkipped.isYes && f.syncErrorLogged.isYes && f.syncFsyncs.isYes &&
  f.closeFsyncs.isYes && f.opensExistingForAppend.isYes && f.shortHeaderIsEOF != .unknown && f.tornDataIsEOF != .unknown &&
  f.truncatesTornTail != .unknown && f.clearsBufferBeforeWrite != .unknown && f.rollsBackFailedBlock != .unknown &&
  f.restoresOffsetAfterHeader != .unknown && f.splitsOversizedBuffer != .unknown && f.flushesAtCountBound.isYes &&
  f.closeErrorAborts.isYes && f.writeEntryReportsFlushError != .unknown && f.closeKeepsFileOnError != .unknown &&
  f.chronKeepsWriterOnCloseError.isYes && f.zeroTailIsEOF != .unknown && f.restorePrepends.isYes && readerApplies f

/-- the defects the current failure handling exposes (each reproduced by the correspondence run;
    `failed_write_drops_entries` is the kernel-checked witness that refutes `Holds`) -/
def currentFindings (f : Facts) : List String :=
  ["C25-failed-write-drops-entries", "C25-partial-block-strands-later-writes"] ++
  (if f.restoresOffsetAfterHeader.isYes then [] else ["C25-failed-header-rewrite-overwrites-file"]) ++
  (if f.truncatesTornTail.isYes then [] else ["C25-failed-create-bricks-swamp"])

def classify (f : Facts) : Verdict :=
  if !modelApplies f then .undetermined "a failure-handling or block-reader fact was not recognised (the model does not describe this code)"
  else if !f.splitsOversizedBuffer.isYes && f.rollsBackFailedBlock.isYes then
    .violated ["C25-restored-buffer-overflows-entry-count"]
  else if f.rollsBackFailedBlock.isYes && !f.writeEntryReportsFlushError.isNo then
    .violated ["C25-deleted-record-resurrects"]
  else if f.rollsBackFailedBlock.isYes && !f.closeKeepsFileOnError.isYes then
    .violated ["C25-failed-close-kills-writer"]
  else if f.rollsBackFailedBlock.isYes && f.restoresOffsetAfterHeader.isYes && f.splitsOversizedBuffer.isYes then .holds
  else if f.clearsBufferBeforeWrite.isYes && !f.rollsBackFailedBlock.isYes then .violated (currentFindings f)
  else .undetermined "no theorem for this combination of failure-handling facts"

/-- what is proved whatever the facts: the repaired writer is safe -/
def Partial (c : Cfg) (fc : FCfg) : Prop :=
  fc.rollsBackFailedBlock = true → fc.restoresOffsetAfterHeader = true → fc.splitsOversizedBuffer = true →
    fc.addReportsFlushError = false → fc.closeKeepsWriter = true → Holds c fc

theorem C25_partial (c : Cfg) (fc : FCfg) : Partial c fc := fun h1 h2 h3 h4 h5 => holds_of_repaired c fc h1 h2 h3 h4 h5

theorem classify_sound (f : Facts) : (classify f).Sound (Holds (cfgOf f) (fcOf f)) (Partial (cfgOf f) (fcOf f)) := by
  unfold classify
  split
  · trivial
  · split
    · rename_i h
      simp only [Bool.and_eq_true, Bool.not_eq_true'] at h
      exact ⟨fun hh => oversized_block_unreadable (cfgOf f) (fcOf f) h.1 hh.flush, C25_partial _ _⟩
    · split
      · rename_i h
        simp only [Bool.and_eq_true] at h
        exact ⟨fun hh => deleted_record_resurrects (cfgOf f) (fcOf f) h.1 h.2 hh.deleteSticks, C25_partial _ _⟩
      · split
        · rename_i h
          simp only [Bool.and_eq_true, Bool.not_eq_true'] at h
          exact ⟨fun hh => failed_close_kills_writer (cfgOf f) (fcOf f) h.1 h.2 hh.closeRetry, C25_partial _ _⟩
        · split
          · rename_i hno hke h
            simp only [Bool.and_eq_true] at h
            have h4 : (fcOf f).addReportsFlushError = false := by
              have : ¬ ((fcOf f).rollsBackFailedBlock = true ∧ (fcOf f).addReportsFlushError = true) := by
                simpa [fcOf, Bool.and_eq_true] using hno
              cases hx : (fcOf f).addReportsFlushError
              · rfl
              · exact absurd ⟨h.1.1, hx⟩ this
            have h5 : (fcOf f).closeKeepsWriter = true := by
              have : ¬ ((fcOf f).rollsBackFailedBlock = true ∧ (fcOf f).closeKeepsWriter = false) := by
                simpa [fcOf, Bool.and_eq_true] using hke
              cases hx : (fcOf f).closeKeepsWriter
              · exact absurd ⟨h.1.1, hx⟩ this
              · rfl
            exact holds_of_repaired _ _ h.1.1 h.1.2 h.2 h4 h5
          · split
            · rename_i h
              simp only [Bool.and_eq_true, Bool.not_eq_true'] at h
              exact ⟨fun hh => failed_write_drops_entries (cfgOf f) (fcOf f) h.1 h.2 hh.flush, C25_partial _ _⟩
            · trivial

end Hv.C25
