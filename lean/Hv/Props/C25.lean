/-
  C25 — Disk write failures never corrupt durable data.

  "If the disk rejects or partially performs a write (full disk, I/O error) at any point, data
   that was already durable stays readable.  Once the fault clears, later writes are again stored
   and recoverable; a failed write never leaves the file in a state that hides earlier or later
   records."

  Statement used here (one writer, one fault episode): the writer sits at the end of a cleanly
  written file with a non-empty buffer; the flush of that buffer gets an arbitrary result stream
  (`ok | err | short n` for every operation it issues); then the fault clears, more entries are
  written and `Sync` succeeds.  The file must then load to: the old blocks, the buffered entries,
  the new entries — nothing hidden, nothing dropped.

  Model: Hv/Storage/Fault.lean (`flushWF`, `addManyWF`, `syncWF` mirror flushLocked / WriteEntry /
  Sync including what they leave undone after an error).
-/
import Hv.Storage.FaultLemmas
import Hv.Basic.Verdict

namespace Hv.C25
open Hv.BlockStore

/-- the fault has cleared: every further operation succeeds -/
def cleared (s : FSt) : FSt := { s with rs := [], failed := false }

/-- a flush under the results `rs`, then (fault cleared) `items` are written and synced -/
def afterFault (c : Cfg) (fc : FCfg) (mk : Mk) (w : WSt) (d : Disk) (rs : List Res) (items : List (Op × Nat)) : FSt :=
  syncWF c fc mk (addManyWF fc mk (cleared (flushWF fc mk { w := w, d := d, rs := rs })) items)

/-- The full-strength statement. -/
def Holds (c : Cfg) (fc : FCfg) : Prop :=
  ∀ (mk : Mk), MkOk mk → ∀ (nl : Nat) (bs : List Block), (∀ b ∈ bs, b.WF) →
  ∀ (w : WSt) (d : Disk), WInv d w (fileCells nl bs) → w.nl = nl → w.dirty = false → w.buf ≠ [] →
  ∀ (rs : List Res) (items : List (Op × Nat)), items ≠ [] →
    ∃ f, (afterFault c fc mk w d rs items).d.get w.path = some f ∧
      loadEntries c.r f = entsOf bs ++ w.buf ++ items.map (·.1)

/-! ### After the fault has cleared the writer is the plain writer -/

/-- from a writer at the end of a file with an intact header: write `items`, `Sync`, load -/
theorem finish_clean (c : Cfg) (fc : FCfg) (mk : Mk) (hmk : MkOk mk) (nl : Nat) (bs1 : List Block)
    (hwf : ∀ b ∈ bs1, b.WF) (s : FSt) (hinv : WInv s.d s.w (fileCells nl bs1)) (hdirty : s.w.dirty = false)
    (items : List (Op × Nat)) :
    ∃ f, (syncWF c fc mk (addManyWF fc mk (cleared s) items)).d.get s.w.path = some f ∧
      loadEntries c.r f = entsOf bs1 ++ s.w.buf ++ items.map (·.1) := by
  have h1 := addManyWF_nofault fc mk items (cleared s) rfl hdirty
  have hd2 : (addManyWF fc mk (cleared s) items).w.dirty = false := by
    rw [h1.1, addManyW_dirty]; exact hdirty
  have h2 := syncWF_nofault_disk c fc mk (addManyWF fc mk (cleared s) items) h1.2.2 hd2
  rw [h2, h1.1, h1.2.1]
  simp only [cleared]
  obtain ⟨a, ha, pa⟩ := addManyW_spec mk hmk items s.d s.w _ hinv
  obtain ⟨nbs, hn, hnwf, hget⟩ := syncW_spec c mk hmk _ _ _ pa.inv
  rw [pa.path] at hget
  refine ⟨_, hget, ?_⟩
  have hall : ∀ b ∈ bs1 ++ a ++ nbs, b.WF := by
    intro b hb
    rcases List.mem_append.mp hb with hb | hb
    · rcases List.mem_append.mp hb with hb | hb
      · exact hwf b hb
      · exact pa.wf b hb
    · exact hnwf b hb
  have hfile : fileCells nl bs1 ++ render a ++ render nbs = fileCells nl (bs1 ++ a ++ nbs) := by
    simp [fileCells, render_append, List.append_assoc]
  rw [hfile]
  simp only [loadEntries, loadFile_clean c.r nl _ hall]
  rw [entsOf_append, entsOf_append, hn, List.append_assoc, List.append_assoc, ha]

/-! ### The code as it is -/

theorem apply_write_nil (d : Disk) (p : Path) (f : List Cell) (h : d.get p = some f) (off : Nat) (ho : off ≤ f.length) :
    d.apply (.write p off []) = d := by
  have : splice f off [] = f := by
    simp [splice, ho, List.take_append_drop]
  cases p <;> simp [Disk.apply, Disk.get, Disk.set] at h ⊢ <;> cases d <;> simp_all

/-- **A failed block write loses its entries.**  `WriteBuffer.Flush` empties the buffer before the
    block is written; when the first write fails outright the entries are gone, although the
    caller (`chronicler.Write`) only logs the error.  Later writes succeed, so the loss is silent. -/
theorem failed_write_drops_entries (c : Cfg) (fc : FCfg) (h1 : fc.clearsBufferBeforeWrite = true)
    (h2 : fc.rollsBackFailedBlock = false) : ¬ Holds c fc := by
  intro hh
  -- empty file, one buffered entry, the header write of its block fails with nothing transferred
  let mk0 : Mk := fun es => { hdr := [1, 0, 0, 0, 0, 0, 0, 0, 0, 0, 0, 0, 0, 0, 0, 0], plen := 1, ents := es }
  have hmk : MkOk mk0 := fun es _ => ⟨⟨rfl, rfl, Nat.one_pos⟩, rfl⟩
  let w : WSt := { path := .main, pos := 64, nl := 0, buf := [Op.put 1 1], bufSize := 10, bs := 100 }
  let d : Disk := { main := some (fileCells 0 []), temp := none }
  have hF : (fileCells 0 []).length = 64 := by simp [fileCells, render, nmCells]
  have hinv : WInv d w (fileCells 0 []) := ⟨rfl, by simp [w, hF], fileCells_hdr 0 []⟩
  obtain ⟨f, hget, hload⟩ := hh mk0 hmk 0 [] (by simp) w d hinv rfl rfl (by simp [w]) [.err] [(Op.put 2 2, 10)] (by simp)
  -- the failed flush: buffer emptied, file and offset unchanged
  have hfl : flushWF fc mk0 { w := w, d := d, rs := [.err] } =
      { w := { w with buf := [], bufSize := 0 }, d := d,
        ops := [(.write .main 64 (hdrCells (mk0 [Op.put 1 1])), .err)], rs := [], failed := true } := by
    have hd : d.applyRes (.write .main 64 (hdrCells (mk0 [Op.put 1 1]))) .err = d := by
      simp only [Disk.applyRes, Res.written, List.take_zero]
      exact apply_write_nil d .main (fileCells 0 []) rfl 64 (by rw [hF]; exact Nat.le_refl _)
    simp [flushWF, w, FSt.issue, nextRes, Res.isOk, h1, h2, hd, Res.written]
  have hinv2 : WInv d { w with buf := [], bufSize := 0 } (fileCells 0 []) := ⟨rfl, by simp [w, hF], fileCells_hdr 0 []⟩
  obtain ⟨f', hget', hload'⟩ := finish_clean c fc mk0 hmk 0 [] (by simp)
    { w := { w with buf := [], bufSize := 0 }, d := d,
      ops := [(.write .main 64 (hdrCells (mk0 [Op.put 1 1])), .err)], rs := [], failed := true } hinv2 rfl [(Op.put 2 2, 10)]
  simp only [afterFault, hfl] at hget
  rw [hget'] at hget
  cases hget
  rw [hload'] at hload
  simp [entsOf, w] at hload

/-! ### The repaired flush: roll a failed block back, retry a failed rollback before the next block -/

theorem issue_eq (s : FSt) (op : FsOp) :
    s.issue op = ({ s with d := s.d.applyRes op (nextRes s.rs).1, ops := s.ops ++ [(op, (nextRes s.rs).1)],
                           rs := (nextRes s.rs).2 }, (nextRes s.rs).1) := rfl

theorem get_applyRes_write (d : Disk) (p : Path) (f : List Cell) (h : d.get p = some f) (cs : List Cell) (r : Res) :
    (d.applyRes (.write p f.length cs) r).get p = some (f ++ cs.take (r.written cs.length)) := by
  simp only [Disk.applyRes]
  rw [Disk.apply_write_get d p p f.length _ f h, splice_end]; simp

theorem get_truncate_back (d : Disk) (p : Path) (f x : List Cell) (h : d.get p = some (f ++ x)) :
    (d.applyRes (.truncate p f.length) .ok).get p = some f := by
  simp only [Disk.applyRes, Res.isOk, if_true, Disk.apply, h, Disk.get_set, if_true]
  simp

theorem get_truncate_failed (d : Disk) (p : Path) (n : Nat) (r : Res) (h : r.isOk = false) :
    d.applyRes (.truncate p n) r = d := by
  simp [Disk.applyRes, h]

theorem flushWF_path (fc : FCfg) (h1 : fc.rollsBackFailedBlock = true) (h2 : fc.restoresOffsetAfterHeader = true)
    (mk : Mk) (w : WSt) (d : Disk) (hdirty : w.dirty = false) (hb : w.buf ≠ []) (rs : List Res) :
    (flushWF fc mk { w := w, d := d, rs := rs }).w.path = w.path := by
  unfold flushWF
  simp only [hdirty, Bool.and_false, Bool.false_eq_true, if_false, Bool.not_true, issue_eq, h1, h2, if_true]
  by_cases k1 : (nextRes rs).1.isOk = true
  · simp only [k1, Bool.not_true, Bool.false_eq_true, if_false]
    by_cases k2 : (nextRes (nextRes rs).2).1.isOk = true
    · simp only [k2, Bool.not_true, Bool.false_eq_true, if_false]
      by_cases k3 : (nextRes (nextRes (nextRes rs).2).2).1.isOk = true
      · simp only [k3, Bool.not_true, Bool.false_eq_true, if_false]
      · simp only [k3, Bool.not_false, if_true]
    · simp only [k2, Bool.not_false, if_true]
  · simp only [k1, Bool.not_false, if_true]

/-- writer at the logical end `F` of its file, possibly with a fragment `junk` it still has to cut off -/
structure DInv (d : Disk) (w : WSt) (F junk : List Cell) : Prop where
  file : d.get w.path = some (F ++ junk)
  atEnd : w.pos = F.length
  hdr : HdrOk F w.nl
  clean : w.dirty = false → junk = []

theorem DInv.toWInv {d : Disk} {w : WSt} {F junk : List Cell} (h : DInv d w F junk) (hd : w.dirty = false) : WInv d w F := by
  have := h.clean hd
  subst this
  exact ⟨by simpa using h.file, h.atEnd, h.hdr⟩

/-- **The repaired flush under arbitrary results.**  Either the whole block is on disk and the
    buffer is empty, or the file is logically unchanged (at most a fragment behind its end that
    the writer knows about) and the buffer is intact.  No hypothesis on the results: a rollback
    truncate that fails is remembered (`dirty`). -/
theorem repaired_flush (fc : FCfg) (h1 : fc.rollsBackFailedBlock = true) (h2 : fc.restoresOffsetAfterHeader = true)
    (mk : Mk) (nl : Nat) (bs : List Block) (w : WSt) (d : Disk)
    (hinv : WInv d w (fileCells nl bs)) (hdirty : w.dirty = false) (hb : w.buf ≠ []) (rs : List Res) :
    ((flushWF fc mk { w := w, d := d, rs := rs }).w.buf = [] ∧
      (flushWF fc mk { w := w, d := d, rs := rs }).w.dirty = false ∧
      WInv (flushWF fc mk { w := w, d := d, rs := rs }).d (flushWF fc mk { w := w, d := d, rs := rs }).w
        (fileCells nl (bs ++ [mk w.buf]))) ∨
    ((flushWF fc mk { w := w, d := d, rs := rs }).w.buf = w.buf ∧
      ∃ junk, DInv (flushWF fc mk { w := w, d := d, rs := rs }).d (flushWF fc mk { w := w, d := d, rs := rs }).w
        (fileCells nl bs) junk) := by
  have hF := hinv.atEnd
  have hfile := hinv.file
  have hblk : fileCells nl (bs ++ [mk w.buf]) = fileCells nl bs ++ blockCells (mk w.buf) := by
    simp [fileCells, render_append, render, List.append_assoc]
  -- what the rollback leaves, whatever the truncate's result
  have roll : ∀ (d1 : Disk) (x : List Cell) (r : Res), d1.get w.path = some (fileCells nl bs ++ x) →
      ∃ junk, DInv (d1.applyRes (.truncate w.path w.pos) r)
        { path := w.path, pos := w.pos, nl := w.nl, buf := w.buf, bufSize := w.bufSize, bs := w.bs, dirty := !r.isOk }
        (fileCells nl bs) junk := by
    intro d1 x r hd1
    by_cases hr : r.isOk = true
    · have : r = .ok := by cases r <;> simp_all [Res.isOk]
      subst this
      refine ⟨[], ?_, hF, hinv.hdr, fun _ => rfl⟩
      rw [hF, List.append_nil]; exact get_truncate_back d1 w.path _ x hd1
    · have hr' : r.isOk = false := by simpa using hr
      refine ⟨x, ?_, hF, hinv.hdr, ?_⟩
      · rw [get_truncate_failed _ _ _ _ hr']; exact hd1
      · intro hcl; simp [hr'] at hcl
  unfold flushWF
  simp only [hdirty, Bool.and_false, Bool.false_eq_true, if_false, Bool.not_true, issue_eq, h1, h2, if_true]
  · by_cases k1 : (nextRes rs).1.isOk = true
    · simp only [k1, Bool.not_true, Bool.false_eq_true, if_false]
      have e1 : (nextRes rs).1 = .ok := by cases h : (nextRes rs).1 <;> simp_all [Res.isOk]
      have t16 : (hdrCells (mk w.buf)).take (Res.ok.written (hdrCells (mk w.buf)).length) = hdrCells (mk w.buf) :=
        List.take_of_length_le (by simp [Res.written])
      have g1 := get_applyRes_write d w.path _ hfile (hdrCells (mk w.buf)) .ok
      rw [← hF, t16] at g1
      have hl : (fileCells nl bs ++ hdrCells (mk w.buf)).length = w.pos + 16 := by simp [hF]
      by_cases k2 : (nextRes (nextRes rs).2).1.isOk = true
      · simp only [k2, Bool.not_true, Bool.false_eq_true, if_false]
        left
        have e2 : (nextRes (nextRes rs).2).1 = .ok := by cases h : (nextRes (nextRes rs).2).1 <;> simp_all [Res.isOk]
        have tp : (payCells (mk w.buf)).take (Res.ok.written (payCells (mk w.buf)).length) = payCells (mk w.buf) :=
          List.take_of_length_le (by simp [Res.written])
        have g2 := get_applyRes_write _ w.path _ g1 (payCells (mk w.buf)) .ok
        rw [hl, tp] at g2
        have g2' : ((d.applyRes (.write w.path w.pos (hdrCells (mk w.buf))) .ok).applyRes
            (.write w.path (w.pos + 16) (payCells (mk w.buf))) .ok).get w.path = some (fileCells nl (bs ++ [mk w.buf])) := by
          rw [g2, hblk]; simp [blockCells, List.append_assoc]
        have hh : HdrOk (fileCells nl (bs ++ [mk w.buf])) w.nl := by
          rw [hblk]; exact hinv.hdr.append _
        have g3 : ∀ r : Res, (((d.applyRes (.write w.path w.pos (hdrCells (mk w.buf))) .ok).applyRes
            (.write w.path (w.pos + 16) (payCells (mk w.buf))) .ok).applyRes (.write w.path 0 (fhCells w.nl)) r).get w.path =
              some (fileCells nl (bs ++ [mk w.buf])) := by
          intro r
          have := Disk.apply_write_get _ w.path w.path 0 ((fhCells w.nl).take (r.written (fhCells w.nl).length)) _ g2'
          rw [splice_hdr_torn hh] at this
          simpa [Disk.applyRes] using this
        have hpos : w.pos + 16 + (mk w.buf).plen = (fileCells nl (bs ++ [mk w.buf])).length := by
          rw [hblk]; simp [hF]; omega
        rw [e1, e2]
        by_cases k3 : (nextRes (nextRes (nextRes rs).2).2).1.isOk = true
        · simp only [k3, Bool.not_true, Bool.false_eq_true, if_false]
          exact ⟨trivial, trivial, ⟨g3 _, hpos, hh⟩⟩
        · simp only [k3, Bool.not_false, if_true]
          exact ⟨trivial, trivial, ⟨g3 _, hpos, hh⟩⟩
      · -- the payload write failed
        simp only [k2, Bool.not_false, if_true]
        right
        have g2 := get_applyRes_write _ w.path _ g1 (payCells (mk w.buf)) (nextRes (nextRes rs).2).1
        rw [hl, List.append_assoc] at g2
        rw [e1]
        obtain ⟨junk, hj⟩ := roll _ _ (nextRes (nextRes (nextRes rs).2).2).1 g2
        exact ⟨trivial, junk, hj⟩
    · -- the header write failed
      simp only [k1, Bool.not_false, if_true]
      right
      have g1 := get_applyRes_write d w.path _ hfile (hdrCells (mk w.buf)) (nextRes rs).1
      rw [← hF] at g1
      obtain ⟨junk, hj⟩ := roll _ _ (nextRes (nextRes rs).2).1 g1
      exact ⟨trivial, junk, hj⟩

/-- fault-free flush from a state that may still carry a fragment: it is cut off first -/
def undirty (s : FSt) : FSt :=
  { s with d := s.d.applyRes (.truncate s.w.path s.w.pos) .ok, w := { s.w with dirty := false }, ops := s.ops ++ [(.truncate s.w.path s.w.pos, .ok)] }

theorem flushWF_dirty_ok (fc : FCfg) (h1 : fc.rollsBackFailedBlock = true) (mk : Mk) (s : FSt) (h : s.rs = [])
    (hd : s.w.dirty = true) : flushWF fc mk s = flushWF fc mk (undirty s) := by
  unfold undirty
  conv => lhs; unfold flushWF
  conv => rhs; unfold flushWF
  simp [h1, hd, FSt.issue, nextRes, h, Res.isOk]

/-- after the fault has cleared: a flush leaves a clean file holding the buffered entries -/
theorem flushWF_ok_spec (fc : FCfg) (h1 : fc.rollsBackFailedBlock = true) (mk : Mk) (hmk : MkOk mk) (s : FSt)
    (F junk : List Cell) (hi : DInv s.d s.w F junk) (h : s.rs = []) :
    ∃ nbs, entsOf nbs = s.w.buf ∧ (∀ b ∈ nbs, b.WF) ∧ (flushWF fc mk s).w.buf = [] ∧ (flushWF fc mk s).w.dirty = false ∧
      (flushWF fc mk s).rs = [] ∧ WInv (flushWF fc mk s).d (flushWF fc mk s).w (F ++ render nbs) ∧
      (flushWF fc mk s).w.path = s.w.path := by
  -- reduce to a clean state
  have key : ∀ t : FSt, WInv t.d t.w F → t.w.dirty = false → t.rs = [] →
      ∃ nbs, entsOf nbs = t.w.buf ∧ (∀ b ∈ nbs, b.WF) ∧ (flushWF fc mk t).w.buf = [] ∧ (flushWF fc mk t).w.dirty = false ∧
        (flushWF fc mk t).rs = [] ∧ WInv (flushWF fc mk t).d (flushWF fc mk t).w (F ++ render nbs) ∧
        (flushWF fc mk t).w.path = t.w.path := by
    intro t hw hdt ht
    obtain ⟨e1, e2, e3, _⟩ := flushWF_nofault fc mk t ht hdt
    obtain ⟨nbs, he, hbuf, hp⟩ := flushW_spec mk hmk t.d t.w F hw
    refine ⟨nbs, he, hp.wf, by rw [e1]; exact hbuf, by rw [e1, flushW_dirty]; exact hdt, e3, ?_, by rw [e1]; exact hp.path⟩
    rw [e1, e2]; exact hp.inv
  by_cases hd : s.w.dirty = false
  · exact key s (hi.toWInv hd) hd h
  · have hd' : s.w.dirty = true := by simpa using hd
    rw [flushWF_dirty_ok fc h1 mk s h hd']
    have hw : WInv (undirty s).d (undirty s).w F := by
      refine ⟨?_, hi.atEnd, hi.hdr⟩
      show (s.d.applyRes (.truncate s.w.path s.w.pos) .ok).get s.w.path = some F
      rw [hi.atEnd]; exact get_truncate_back s.d s.w.path F junk hi.file
    exact key (undirty s) hw rfl h

/-- `WriteEntry` after the fault has cleared -/
theorem addWF_ok_spec (fc : FCfg) (h1 : fc.rollsBackFailedBlock = true) (mk : Mk) (hmk : MkOk mk) (s : FSt)
    (F junk : List Cell) (hi : DInv s.d s.w F junk) (h : s.rs = []) (e : Op) (sz : Nat) :
    ∃ nbs junk', entsOf nbs ++ (addWF fc mk s e sz).w.buf = s.w.buf ++ [e] ∧ (∀ b ∈ nbs, b.WF) ∧
      (addWF fc mk s e sz).rs = [] ∧ DInv (addWF fc mk s e sz).d (addWF fc mk s e sz).w (F ++ render nbs) junk' ∧
      (addWF fc mk s e sz).w.path = s.w.path := by
  unfold addWF
  simp only
  split
  · have hi' : DInv s.d { s.w with buf := s.w.buf ++ [e], bufSize := s.w.bufSize + sz } F junk :=
      ⟨hi.file, hi.atEnd, hi.hdr, hi.clean⟩
    obtain ⟨nbs, he, hwf, hbuf, hdt, hrs, hw, hp⟩ := flushWF_ok_spec fc h1 mk hmk
      { s with w := { s.w with buf := s.w.buf ++ [e], bufSize := s.w.bufSize + sz } } F junk hi' h
    refine ⟨nbs, [], by rw [hbuf, he]; simp, hwf, hrs, ?_, hp⟩
    exact ⟨by simpa using hw.file, hw.atEnd, hw.hdr, fun _ => rfl⟩
  · exact ⟨[], junk, by simp [entsOf], by simp, h, by
      rw [render_nil_append]; exact ⟨hi.file, hi.atEnd, hi.hdr, hi.clean⟩, rfl⟩

theorem addManyWF_ok_spec (fc : FCfg) (h1 : fc.rollsBackFailedBlock = true) (mk : Mk) (hmk : MkOk mk)
    (items : List (Op × Nat)) : ∀ (s : FSt) (F junk : List Cell), DInv s.d s.w F junk → s.rs = [] →
    ∃ nbs junk', entsOf nbs ++ (addManyWF fc mk s items).w.buf = s.w.buf ++ items.map (·.1) ∧ (∀ b ∈ nbs, b.WF) ∧
      (addManyWF fc mk s items).rs = [] ∧
      DInv (addManyWF fc mk s items).d (addManyWF fc mk s items).w (F ++ render nbs) junk' ∧
      (addManyWF fc mk s items).w.path = s.w.path := by
  induction items with
  | nil => intro s F junk hi h; exact ⟨[], junk, by simp [entsOf, addManyWF], by simp, h, by
      rw [render_nil_append]; exact hi, rfl⟩
  | cons it rest ih =>
    intro s F junk hi h
    obtain ⟨e, sz⟩ := it
    obtain ⟨a, j1, ha, hwa, hra, hia, hpa⟩ := addWF_ok_spec fc h1 mk hmk s F junk hi h e sz
    obtain ⟨b, j2, hb, hwb, hrb, hib, hpb⟩ := ih { addWF fc mk s e sz with failed := false } _ j1 hia hra
    refine ⟨a ++ b, j2, ?_, ?_, hrb, ?_, by simp only [addManyWF]; rw [hpb]; exact hpa⟩
    · simp only [addManyWF, entsOf_append, List.map_cons, List.append_assoc]
      rw [hb, ← List.append_assoc, ha]; simp
    · intro x hx
      rcases List.mem_append.mp hx with hx | hx
      · exact hwa x hx
      · exact hwb x hx
    · simp only [addManyWF]
      rw [render_append, ← List.append_assoc]; exact hib

/-- `Sync` after the fault has cleared: the file is clean and holds everything -/
theorem syncWF_ok_spec (c : Cfg) (fc : FCfg) (h1 : fc.rollsBackFailedBlock = true) (mk : Mk) (hmk : MkOk mk) (s : FSt)
    (F junk : List Cell) (hi : DInv s.d s.w F junk) (h : s.rs = []) :
    ∃ nbs, entsOf nbs = s.w.buf ∧ (∀ b ∈ nbs, b.WF) ∧ (syncWF c fc mk s).d.get s.w.path = some (F ++ render nbs) := by
  obtain ⟨nbs, he, hwf, _, _, hrs, hw, hp⟩ := flushWF_ok_spec fc h1 mk hmk { s with failed := false } F junk
    ⟨hi.file, hi.atEnd, hi.hdr, hi.clean⟩ h
  refine ⟨nbs, he, hwf, ?_⟩
  have hfl : (flushWF fc mk { s with failed := false }).failed = false := by
    by_cases hd : s.w.dirty = false
    · exact (flushWF_nofault fc mk { s with failed := false } h hd).2.2.2
    · have hd' : s.w.dirty = true := by simpa using hd
      rw [flushWF_dirty_ok fc h1 mk { s with failed := false } h hd']
      exact (flushWF_nofault fc mk (undirty { s with failed := false }) h rfl).2.2.2
  unfold syncWF
  simp only [hfl, Bool.false_eq_true, if_false, FSt.issue, hrs, nextRes, Res.isOk, Bool.not_true]
  have hno : ((flushWF fc mk { s with failed := false }).d.applyRes
      (.write (flushWF fc mk { s with failed := false }).w.path 0 (fhCells (flushWF fc mk { s with failed := false }).w.nl)) .ok) =
      (flushWF fc mk { s with failed := false }).d := by
    rw [applyRes_ok]; exact header_rewrite_noop _ _ _ hw
  rw [hno]
  have hfile := hw.file
  rw [hp] at hfile
  cases c.syncFsyncs
  · simpa using hfile
  · simp only [if_true, applyRes_ok, Disk.apply]; simpa using hfile

/-- **Repaired writer: nothing hidden, nothing dropped — for every result stream.**  With a flush
    that rolls a failed block back (retrying a failed rollback before the next block) and restores
    the offset after a failed header rewrite, the full statement holds. -/
theorem holds_of_repaired (c : Cfg) (fc : FCfg) (h1 : fc.rollsBackFailedBlock = true)
    (h2 : fc.restoresOffsetAfterHeader = true) : ∀ (mk : Mk), MkOk mk → ∀ (nl : Nat) (bs : List Block), (∀ b ∈ bs, b.WF) →
    ∀ (w : WSt) (d : Disk), WInv d w (fileCells nl bs) → w.dirty = false → w.buf ≠ [] →
    ∀ (rs : List Res) (items : List (Op × Nat)),
      ∃ f, (afterFault c fc mk w d rs items).d.get w.path = some f ∧
        loadEntries c.r f = entsOf bs ++ w.buf ++ items.map (·.1) := by
  intro mk hmk nl bs hwf w d hinv hdirty hb rs items
  have fin : ∀ (s : FSt) (bs1 : List Block) (junk : List Cell), (∀ b ∈ bs1, b.WF) → DInv s.d s.w (fileCells nl bs1) junk →
      ∃ f, (syncWF c fc mk (addManyWF fc mk (cleared s) items)).d.get s.w.path = some f ∧
        loadEntries c.r f = entsOf bs1 ++ s.w.buf ++ items.map (·.1) := by
    intro s bs1 junk hw1 hi
    obtain ⟨a, j1, ha, hwa, hra, hia, hpa⟩ := addManyWF_ok_spec fc h1 mk hmk items (cleared s) _ junk
      (⟨hi.file, hi.atEnd, hi.hdr, hi.clean⟩ : DInv (cleared s).d (cleared s).w _ junk) rfl
    obtain ⟨nbs, hn, hnwf, hget⟩ := syncWF_ok_spec c fc h1 mk hmk _ _ j1 hia hra
    rw [hpa] at hget
    refine ⟨_, hget, ?_⟩
    have hall : ∀ b ∈ bs1 ++ a ++ nbs, b.WF := by
      intro b hb'
      rcases List.mem_append.mp hb' with hb' | hb'
      · rcases List.mem_append.mp hb' with hb' | hb'
        · exact hw1 b hb'
        · exact hwa b hb'
      · exact hnwf b hb'
    have hfile : fileCells nl bs1 ++ render a ++ render nbs = fileCells nl (bs1 ++ a ++ nbs) := by
      simp [fileCells, render_append, List.append_assoc]
    rw [hfile]
    simp only [loadEntries, loadFile_clean c.r nl _ hall]
    rw [entsOf_append, entsOf_append, hn, List.append_assoc, List.append_assoc, ha]
    simp [cleared]
  have hpath := flushWF_path fc h1 h2 mk w d hdirty hb rs
  rcases repaired_flush fc h1 h2 mk nl bs w d hinv hdirty hb rs with ⟨hbuf, hdt, hw⟩ | ⟨hbuf, junk, hi⟩
  · have hwf' : ∀ b ∈ bs ++ [mk w.buf], b.WF := by
      intro b hb'
      rcases List.mem_append.mp hb' with hb' | hb'
      · exact hwf b hb'
      · simp only [List.mem_cons, List.not_mem_nil, or_false] at hb'; subst hb'; exact (hmk w.buf hb).1
    obtain ⟨f, hf, hl⟩ := fin _ _ [] hwf' ⟨by simpa using hw.file, hw.atEnd, hw.hdr, fun _ => rfl⟩
    rw [hpath] at hf
    refine ⟨f, hf, ?_⟩
    rw [hl, hbuf, entsOf_append]
    simp [entsOf, (hmk w.buf hb).2]
  · obtain ⟨f, hf, hl⟩ := fin _ _ junk hwf hi
    rw [hpath] at hf
    exact ⟨f, hf, by rw [hl, hbuf]⟩

/-- Non-vacuity: the hypotheses of `Holds` are met by the state after a real flush. -/
example : ∃ (w : WSt) (d : Disk), WInv d w (fileCells 0 []) ∧ w.buf ≠ [] :=
  ⟨{ path := .main, pos := 64, nl := 0, buf := [Op.put 1 1], bufSize := 10, bs := 100 },
   { main := some (fileCells 0 []), temp := none },
   ⟨rfl, by simp [fileCells, render, nmCells], fileCells_hdr 0 []⟩, by simp⟩

/-! ### Decision over the extracted facts -/

structure Facts where
  /-- `WriteBuffer.Flush` empties the buffer, and flushLocked calls it before the first write -/
  clearsBufferBeforeWrite : Tri
  /-- flushLocked cuts a failed block off again (repair; not in the tree) -/
  rollsBackFailedBlock : Tri
  /-- flushLocked restores the offset when the header rewrite fails (repair; not in the tree) -/
  restoresOffsetAfterHeader : Tri
  /-- chronicler.Write logs a WriteEntry error and goes on with the next entry -/
  writeErrorsSkipped : Tri
  /-- fileWriterHandler only logs a Sync error -/
  syncErrorLogged : Tri
  flushOrderCanonical : Tri
  syncFsyncs : Tri
  closeFsyncs : Tri
  opensExistingForAppend : Tri
  truncatesTornTail : Tri
  shortHeaderIsEOF : Tri
  tornDataIsEOF : Tri
  deriving Repr

def cfgOf (f : Facts) : Cfg :=
  { r := ⟨f.shortHeaderIsEOF.isYes, f.tornDataIsEOF.isYes, false⟩,
    syncFsyncs := f.syncFsyncs.isYes, closeFsyncs := f.closeFsyncs.isYes,
    truncatesTornTail := f.truncatesTornTail.isYes,
    loadCleansTemp := true, rmTempLocked := true, rmTempFromIndex := true, rmTempCompactor := true }

def fcOf (f : Facts) : FCfg :=
  ⟨f.clearsBufferBeforeWrite.isYes, f.rollsBackFailedBlock.isYes, f.restoresOffsetAfterHeader.isYes⟩

def modelApplies (f : Facts) : Bool :=
  f.flushOrderCanonical.isYes && f.writeErrorsSkipped.isYes && f.syncErrorLogged.isYes && f.syncFsyncs.isYes &&
  f.closeFsyncs.isYes && f.opensExistingForAppend.isYes && f.shortHeaderIsEOF != .unknown && f.tornDataIsEOF != .unknown &&
  f.truncatesTornTail != .unknown && f.clearsBufferBeforeWrite != .unknown && f.rollsBackFailedBlock != .unknown &&
  f.restoresOffsetAfterHeader != .unknown

/-- the defects the current failure handling exposes (each reproduced by the correspondence run;
    `failed_write_drops_entries` is the kernel-checked witness that refutes `Holds`) -/
def currentFindings (f : Facts) : List String :=
  ["C25-failed-write-drops-entries", "C25-partial-block-strands-later-writes"] ++
  (if f.restoresOffsetAfterHeader.isYes then [] else ["C25-failed-header-rewrite-overwrites-file"]) ++
  (if f.truncatesTornTail.isYes then [] else ["C25-failed-create-bricks-swamp"])

def classify (f : Facts) : Verdict :=
  if !modelApplies f then .undetermined "a failure-handling fact was not recognised (the model does not describe this code)"
  else if f.rollsBackFailedBlock.isYes && f.restoresOffsetAfterHeader.isYes then .holds
  else if f.clearsBufferBeforeWrite.isYes && !f.rollsBackFailedBlock.isYes then .violated (currentFindings f)
  else .undetermined "no theorem for this combination of failure-handling facts"

/-- what is proved whatever the facts: the repaired flush is safe -/
def Partial (c : Cfg) (fc : FCfg) : Prop :=
  fc.rollsBackFailedBlock = true → fc.restoresOffsetAfterHeader = true → Holds c fc

theorem holds_repaired (c : Cfg) (fc : FCfg) (h1 : fc.rollsBackFailedBlock = true)
    (h2 : fc.restoresOffsetAfterHeader = true) : Holds c fc :=
  fun mk hmk nl bs hwf w d hinv _ hdirty hb rs items _ =>
    holds_of_repaired c fc h1 h2 mk hmk nl bs hwf w d hinv hdirty hb rs items

theorem C25_partial (c : Cfg) (fc : FCfg) : Partial c fc := fun h1 h2 => holds_repaired c fc h1 h2

theorem classify_sound (f : Facts) : (classify f).Sound (Holds (cfgOf f) (fcOf f)) (Partial (cfgOf f) (fcOf f)) := by
  unfold classify
  split
  · trivial
  · split
    · rename_i h
      simp only [Bool.and_eq_true] at h
      exact holds_repaired _ _ h.1 h.2
    · split
      · rename_i h
        simp only [Bool.and_eq_true, Bool.not_eq_true'] at h
        exact ⟨failed_write_drops_entries (cfgOf f) (fcOf f) h.1 h.2, C25_partial _ _⟩
      · trivial

end Hv.C25
