/-
  C25 — Disk write failures never corrupt durable data.

  "If the disk rejects or partially performs a write (full disk, I/O error) at any point, data
   that was already durable stays readable.  Once the fault clears, later writes are again stored
   and recoverable; a failed write never leaves the file in a state that hides earlier or later
   records."

  Statement used here (one writer, one fault episode): the writer sits at the end of a cleanly
  written file with a non-empty buffer; the flush of that buffer gets an arbitrary result stream
  (`ok | err | short n` for every operation it issues); then the fault clears, more entries are
  written and `Sync` succeeds.  The file must then load to: the old blocks, the buffered entries,
  the new entries — nothing hidden, nothing dropped.

  Model: Hv/Storage/Fault.lean (`flushWF`, `addManyWF`, `syncWF` mirror flushLocked / WriteEntry /
  Sync including what they leave undone after an error).
-/
import Hv.Storage.FaultLemmas
import Hv.Basic.Verdict

namespace Hv.C25
open Hv.BlockStore

/-- the fault has cleared: every further operation succeeds -/
def cleared (s : FSt) : FSt := { s with rs := [], failed := false }

/-- a flush under the results `rs`, then (fault cleared) `items` are written and synced -/
def afterFault (c : Cfg) (fc : FCfg) (mk : Mk) (w : WSt) (d : Disk) (rs : List Res) (items : List (Op × Nat)) : FSt :=
  syncWF c fc mk (addManyWF fc mk (cleared (flushWF fc mk { w := w, d := d, rs := rs })) items)

/-- The full-strength statement. -/
def Holds (c : Cfg) (fc : FCfg) : Prop :=
  ∀ (mk : Mk), MkOk mk → ∀ (nl : Nat) (bs : List Block), (∀ b ∈ bs, b.WF) →
  ∀ (w : WSt) (d : Disk), WInv d w (fileCells nl bs) → w.nl = nl → w.buf ≠ [] →
  ∀ (rs : List Res) (items : List (Op × Nat)), items ≠ [] →
    ∃ f, (afterFault c fc mk w d rs items).d.get w.path = some f ∧
      loadEntries c.r f = entsOf bs ++ w.buf ++ items.map (·.1)

/-! ### After the fault has cleared the writer is the plain writer -/

/-- from a writer at the end of a file with an intact header: write `items`, `Sync`, load -/
theorem finish_clean (c : Cfg) (fc : FCfg) (mk : Mk) (hmk : MkOk mk) (nl : Nat) (bs1 : List Block)
    (hwf : ∀ b ∈ bs1, b.WF) (s : FSt) (hinv : WInv s.d s.w (fileCells nl bs1)) (items : List (Op × Nat)) :
    ∃ f, (syncWF c fc mk (addManyWF fc mk (cleared s) items)).d.get s.w.path = some f ∧
      loadEntries c.r f = entsOf bs1 ++ s.w.buf ++ items.map (·.1) := by
  have h1 := addManyWF_nofault fc mk items (cleared s) rfl
  have h2 := syncWF_nofault_disk c fc mk (addManyWF fc mk (cleared s) items) h1.2.2
  rw [h2, h1.1, h1.2.1]
  simp only [cleared]
  obtain ⟨a, ha, pa⟩ := addManyW_spec mk hmk items s.d s.w _ hinv
  obtain ⟨nbs, hn, hnwf, hget⟩ := syncW_spec c mk hmk _ _ _ pa.inv
  rw [pa.path] at hget
  refine ⟨_, hget, ?_⟩
  have hall : ∀ b ∈ bs1 ++ a ++ nbs, b.WF := by
    intro b hb
    rcases List.mem_append.mp hb with hb | hb
    · rcases List.mem_append.mp hb with hb | hb
      · exact hwf b hb
      · exact pa.wf b hb
    · exact hnwf b hb
  have hfile : fileCells nl bs1 ++ render a ++ render nbs = fileCells nl (bs1 ++ a ++ nbs) := by
    simp [fileCells, render_append, List.append_assoc]
  rw [hfile]
  simp only [loadEntries, loadFile_clean c.r nl _ hall]
  rw [entsOf_append, entsOf_append, hn, List.append_assoc, List.append_assoc, ha]

/-! ### The code as it is -/

theorem apply_write_nil (d : Disk) (p : Path) (f : List Cell) (h : d.get p = some f) (off : Nat) (ho : off ≤ f.length) :
    d.apply (.write p off []) = d := by
  have : splice f off [] = f := by
    simp [splice, ho, List.take_append_drop]
  cases p <;> simp [Disk.apply, Disk.get, Disk.set] at h ⊢ <;> cases d <;> simp_all

/-- **A failed block write loses its entries.**  `WriteBuffer.Flush` empties the buffer before the
    block is written; when the first write fails outright the entries are gone, although the
    caller (`chronicler.Write`) only logs the error.  Later writes succeed, so the loss is silent. -/
theorem failed_write_drops_entries (c : Cfg) (fc : FCfg) (h1 : fc.clearsBufferBeforeWrite = true)
    (h2 : fc.rollsBackFailedBlock = false) : ¬ Holds c fc := by
  intro hh
  -- empty file, one buffered entry, the header write of its block fails with nothing transferred
  let mk0 : Mk := fun es => { hdr := [1, 0, 0, 0, 0, 0, 0, 0, 0, 0, 0, 0, 0, 0, 0, 0], plen := 1, ents := es }
  have hmk : MkOk mk0 := fun es _ => ⟨⟨rfl, rfl, Nat.one_pos⟩, rfl⟩
  let w : WSt := { path := .main, pos := 64, nl := 0, buf := [Op.put 1 1], bufSize := 10, bs := 100 }
  let d : Disk := { main := some (fileCells 0 []), temp := none }
  have hF : (fileCells 0 []).length = 64 := by simp [fileCells, render, nmCells]
  have hinv : WInv d w (fileCells 0 []) := ⟨rfl, by simp [w, hF], fileCells_hdr 0 []⟩
  obtain ⟨f, hget, hload⟩ := hh mk0 hmk 0 [] (by simp) w d hinv rfl (by simp [w]) [.err] [(Op.put 2 2, 10)] (by simp)
  -- the failed flush: buffer emptied, file and offset unchanged
  have hfl : flushWF fc mk0 { w := w, d := d, rs := [.err] } =
      { w := { w with buf := [], bufSize := 0 }, d := d,
        ops := [(.write .main 64 (hdrCells (mk0 [Op.put 1 1])), .err)], rs := [], failed := true } := by
    have hd : d.applyRes (.write .main 64 (hdrCells (mk0 [Op.put 1 1]))) .err = d := by
      simp only [Disk.applyRes, Res.written, List.take_zero]
      exact apply_write_nil d .main (fileCells 0 []) rfl 64 (by rw [hF]; exact Nat.le_refl _)
    simp [flushWF, w, FSt.issue, nextRes, Res.isOk, h1, h2, hd, Res.written]
  have hinv2 : WInv d { w with buf := [], bufSize := 0 } (fileCells 0 []) := ⟨rfl, by simp [w, hF], fileCells_hdr 0 []⟩
  obtain ⟨f', hget', hload'⟩ := finish_clean c fc mk0 hmk 0 [] (by simp)
    { w := { w with buf := [], bufSize := 0 }, d := d,
      ops := [(.write .main 64 (hdrCells (mk0 [Op.put 1 1])), .err)], rs := [], failed := true } hinv2 [(Op.put 2 2, 10)]
  simp only [afterFault, hfl] at hget
  rw [hget'] at hget
  cases hget
  rw [hload'] at hload
  simp [entsOf, w] at hload

/-! ### A writer that rolls a failed block back -/

/-- the result handed to the rollback `truncate`, if the flush issues one -/
def rollbackRes (rs : List Res) : Res :=
  if !(nextRes rs).1.isOk then (nextRes (nextRes rs).2).1
  else if !(nextRes (nextRes rs).2).1.isOk then (nextRes (nextRes (nextRes rs).2).2).1
  else .ok

theorem issue_eq (s : FSt) (op : FsOp) :
    s.issue op = ({ s with d := s.d.applyRes op (nextRes s.rs).1, ops := s.ops ++ [(op, (nextRes s.rs).1)],
                           rs := (nextRes s.rs).2 }, (nextRes s.rs).1) := rfl

theorem get_applyRes_write (d : Disk) (p : Path) (f : List Cell) (h : d.get p = some f) (cs : List Cell) (r : Res) :
    (d.applyRes (.write p f.length cs) r).get p = some (f ++ cs.take (r.written cs.length)) := by
  simp only [Disk.applyRes]
  rw [Disk.apply_write_get d p p f.length _ f h, splice_end]; simp

theorem get_truncate_back (d : Disk) (p : Path) (f x : List Cell) (h : d.get p = some (f ++ x)) :
    (d.applyRes (.truncate p f.length) .ok).get p = some f := by
  simp only [Disk.applyRes, Res.isOk, if_true, Disk.apply, h, Disk.get_set, if_true]
  simp

/-- **The repaired flush keeps the file clean** (`_partial`: the rollback truncate itself is
    assumed to succeed — a failing rollback, i.e. a second fault exactly there, is not covered).
    Whatever results the three writes get, afterwards the file is the old clean file and the
    buffer is intact, or the file is the old file plus the whole new block and the buffer is
    empty; the descriptor is at the end in both cases. -/
theorem repaired_flush_partial (fc : FCfg) (h1 : fc.rollsBackFailedBlock = true) (h2 : fc.restoresOffsetAfterHeader = true)
    (mk : Mk) (hmk : MkOk mk) (nl : Nat) (bs : List Block) (w : WSt) (d : Disk)
    (hinv : WInv d w (fileCells nl bs)) (hb : w.buf ≠ []) (rs : List Res) (hrb : rollbackRes rs = .ok) :
    (WInv (flushWF fc mk { w := w, d := d, rs := rs }).d (flushWF fc mk { w := w, d := d, rs := rs }).w (fileCells nl bs) ∧
      (flushWF fc mk { w := w, d := d, rs := rs }).w.buf = w.buf) ∨
    (WInv (flushWF fc mk { w := w, d := d, rs := rs }).d (flushWF fc mk { w := w, d := d, rs := rs }).w
        (fileCells nl (bs ++ [mk w.buf])) ∧
      (flushWF fc mk { w := w, d := d, rs := rs }).w.buf = []) := by
  have hF := hinv.atEnd
  have hfile := hinv.file
  have hblk : fileCells nl (bs ++ [mk w.buf]) = fileCells nl bs ++ blockCells (mk w.buf) := by
    simp [fileCells, render_append, render, List.append_assoc]
  unfold flushWF
  split
  · rename_i hnil; exact absurd hnil hb
  · simp only [issue_eq, h1, h2, if_true]
    by_cases k1 : (nextRes rs).1.isOk = true
    · simp only [k1, Bool.not_true, Bool.false_eq_true, if_false]
      by_cases k2 : (nextRes (nextRes rs).2).1.isOk = true
      · simp only [k2, Bool.not_true, Bool.false_eq_true, if_false]
        -- both block writes went through: the block is on disk whatever happens to the header rewrite
        right
        have e1 : (nextRes rs).1 = .ok := by cases h : (nextRes rs).1 <;> simp_all [Res.isOk]
        have e2 : (nextRes (nextRes rs).2).1 = .ok := by cases h : (nextRes (nextRes rs).2).1 <;> simp_all [Res.isOk]
        have t16 : (hdrCells (mk w.buf)).take (Res.ok.written (hdrCells (mk w.buf)).length) = hdrCells (mk w.buf) :=
          List.take_of_length_le (by simp [Res.written])
        have tp : (payCells (mk w.buf)).take (Res.ok.written (payCells (mk w.buf)).length) = payCells (mk w.buf) :=
          List.take_of_length_le (by simp [Res.written])
        have g1 := get_applyRes_write d w.path _ hfile (hdrCells (mk w.buf)) .ok
        rw [← hF, t16] at g1
        have g2 := get_applyRes_write _ w.path _ g1 (payCells (mk w.buf)) .ok
        have hl : (fileCells nl bs ++ hdrCells (mk w.buf)).length = w.pos + 16 := by simp [hF]
        rw [hl, tp] at g2
        have g2' : ((d.applyRes (.write w.path w.pos (hdrCells (mk w.buf))) .ok).applyRes
            (.write w.path (w.pos + 16) (payCells (mk w.buf))) .ok).get w.path = some (fileCells nl (bs ++ [mk w.buf])) := by
          rw [g2, hblk]; simp [blockCells, List.append_assoc]
        have hh : HdrOk (fileCells nl (bs ++ [mk w.buf])) w.nl := by
          rw [hblk]; exact hinv.hdr.append _
        -- the header rewrite, whole or torn, changes nothing
        have g3 : ∀ r : Res, (((d.applyRes (.write w.path w.pos (hdrCells (mk w.buf))) .ok).applyRes
            (.write w.path (w.pos + 16) (payCells (mk w.buf))) .ok).applyRes (.write w.path 0 (fhCells w.nl)) r).get w.path =
              some (fileCells nl (bs ++ [mk w.buf])) := by
          intro r
          have := Disk.apply_write_get _ w.path w.path 0 ((fhCells w.nl).take (r.written (fhCells w.nl).length)) _ g2'
          rw [splice_hdr_torn hh] at this
          simpa [Disk.applyRes] using this
        have hpos : w.pos + 16 + (mk w.buf).plen = (fileCells nl (bs ++ [mk w.buf])).length := by
          rw [hblk]; simp [hF]; omega
        rw [e1, e2]
        by_cases k3 : (nextRes (nextRes (nextRes rs).2).2).1.isOk = true
        · simp only [k3, Bool.not_true, Bool.false_eq_true, if_false]
          exact ⟨⟨g3 _, hpos, hh⟩, trivial⟩
        · simp only [k3, Bool.not_false, if_true]
          exact ⟨⟨g3 _, hpos, hh⟩, trivial⟩
      · -- the payload write failed: cut the fragment off again
        simp only [k2, Bool.not_false, if_true]
        left
        have e1 : (nextRes rs).1 = .ok := by cases h : (nextRes rs).1 <;> simp_all [Res.isOk]
        have ht : (nextRes (nextRes (nextRes rs).2).2).1 = .ok := by
          simpa [rollbackRes, k1, k2] using hrb
        have g1 := get_applyRes_write d w.path _ hfile (hdrCells (mk w.buf)) .ok
        rw [← hF] at g1
        have g2 := get_applyRes_write _ w.path _ g1 (payCells (mk w.buf)) (nextRes (nextRes rs).2).1
        have hl : (fileCells nl bs ++ (hdrCells (mk w.buf)).take (Res.ok.written (hdrCells (mk w.buf)).length)).length = w.pos + 16 := by
          simp [hF, Res.written]
        rw [hl, List.append_assoc] at g2
        have g3 := get_truncate_back _ w.path _ _ g2
        rw [← hF] at g3
        rw [e1, ht]
        exact ⟨⟨g3, hF, hinv.hdr⟩, trivial⟩
    · -- the header write failed: cut the fragment off again
      simp only [k1, Bool.not_false, if_true]
      left
      have ht : (nextRes (nextRes rs).2).1 = .ok := by
        have : (nextRes rs).1.isOk = false := by simpa using k1
        simpa [rollbackRes, this] using hrb
      have g1 := get_applyRes_write d w.path _ hfile (hdrCells (mk w.buf)) (nextRes rs).1
      rw [← hF] at g1
      have g3 := get_truncate_back _ w.path _ _ g1
      rw [← hF] at g3
      rw [ht]
      exact ⟨⟨g3, hF, hinv.hdr⟩, trivial⟩

/-- **Repaired writer (partial).**  With a flush that rolls a failed block back and restores the
    offset after a failed header rewrite, nothing is hidden and nothing is dropped — for every
    result stream whose rollback truncate succeeds.  Missing for the full statement: a fault that
    hits the rollback truncate itself. -/
theorem repaired_writer_safe_partial (c : Cfg) (fc : FCfg) (h1 : fc.rollsBackFailedBlock = true)
    (h2 : fc.restoresOffsetAfterHeader = true) (mk : Mk) (hmk : MkOk mk) (nl : Nat) (bs : List Block)
    (hwf : ∀ b ∈ bs, b.WF) (w : WSt) (d : Disk) (hinv : WInv d w (fileCells nl bs)) (hb : w.buf ≠ [])
    (rs : List Res) (hrb : rollbackRes rs = .ok) (items : List (Op × Nat)) :
    ∃ f, (afterFault c fc mk w d rs items).d.get (flushWF fc mk { w := w, d := d, rs := rs }).w.path = some f ∧
      loadEntries c.r f = entsOf bs ++ w.buf ++ items.map (·.1) := by
  rcases repaired_flush_partial fc h1 h2 mk hmk nl bs w d hinv hb rs hrb with ⟨hi, hbuf⟩ | ⟨hi, hbuf⟩
  · obtain ⟨f, hf, hl⟩ := finish_clean c fc mk hmk nl bs hwf _ hi items
    exact ⟨f, hf, by rw [hl, hbuf]⟩
  · have hwf' : ∀ b ∈ bs ++ [mk w.buf], b.WF := by
      intro b hb'
      rcases List.mem_append.mp hb' with hb' | hb'
      · exact hwf b hb'
      · simp only [List.mem_cons, List.not_mem_nil, or_false] at hb'; subst hb'; exact (hmk w.buf hb).1
    obtain ⟨f, hf, hl⟩ := finish_clean c fc mk hmk nl _ hwf' _ hi items
    refine ⟨f, hf, ?_⟩
    rw [hl, hbuf, entsOf_append]
    simp [entsOf, (hmk w.buf hb).2]

/-- Non-vacuity: the hypotheses of `Holds` are met by the state after a real flush. -/
example : ∃ (w : WSt) (d : Disk), WInv d w (fileCells 0 []) ∧ w.buf ≠ [] :=
  ⟨{ path := .main, pos := 64, nl := 0, buf := [Op.put 1 1], bufSize := 10, bs := 100 },
   { main := some (fileCells 0 []), temp := none },
   ⟨rfl, by simp [fileCells, render, nmCells], fileCells_hdr 0 []⟩, by simp⟩

/-! ### Decision over the extracted facts -/

structure Facts where
  /-- `WriteBuffer.Flush` empties the buffer, and flushLocked calls it before the first write -/
  clearsBufferBeforeWrite : Tri
  /-- flushLocked cuts a failed block off again (repair; not in the tree) -/
  rollsBackFailedBlock : Tri
  /-- flushLocked restores the offset when the header rewrite fails (repair; not in the tree) -/
  restoresOffsetAfterHeader : Tri
  /-- chronicler.Write logs a WriteEntry error and goes on with the next entry -/
  writeErrorsSkipped : Tri
  /-- fileWriterHandler only logs a Sync error -/
  syncErrorLogged : Tri
  flushOrderCanonical : Tri
  syncFsyncs : Tri
  closeFsyncs : Tri
  opensExistingForAppend : Tri
  truncatesTornTail : Tri
  shortHeaderIsEOF : Tri
  tornDataIsEOF : Tri
  deriving Repr

def cfgOf (f : Facts) : Cfg :=
  { r := ⟨f.shortHeaderIsEOF.isYes, f.tornDataIsEOF.isYes, false⟩,
    syncFsyncs := f.syncFsyncs.isYes, closeFsyncs := f.closeFsyncs.isYes,
    truncatesTornTail := f.truncatesTornTail.isYes,
    loadCleansTemp := true, rmTempLocked := true, rmTempFromIndex := true, rmTempCompactor := true }

def fcOf (f : Facts) : FCfg :=
  ⟨f.clearsBufferBeforeWrite.isYes, f.rollsBackFailedBlock.isYes, f.restoresOffsetAfterHeader.isYes⟩

def modelApplies (f : Facts) : Bool :=
  f.flushOrderCanonical.isYes && f.writeErrorsSkipped.isYes && f.syncErrorLogged.isYes && f.syncFsyncs.isYes &&
  f.closeFsyncs.isYes && f.opensExistingForAppend.isYes && f.shortHeaderIsEOF != .unknown && f.tornDataIsEOF != .unknown &&
  f.truncatesTornTail != .unknown && f.clearsBufferBeforeWrite != .unknown && f.rollsBackFailedBlock != .unknown &&
  f.restoresOffsetAfterHeader != .unknown

/-- the defects the current failure handling exposes (each reproduced by the correspondence run;
    `failed_write_drops_entries` is the kernel-checked witness that refutes `Holds`) -/
def currentFindings : List String :=
  ["C25-failed-write-drops-entries", "C25-partial-block-strands-later-writes",
   "C25-failed-header-rewrite-overwrites-file", "C25-failed-create-bricks-swamp"]

def classify (f : Facts) : Verdict :=
  if !modelApplies f then .undetermined "a failure-handling fact was not recognised (the model does not describe this code)"
  else if f.clearsBufferBeforeWrite.isYes && !f.rollsBackFailedBlock.isYes then .violated currentFindings
  else .undetermined "no full theorem for this failure handling (repaired writer: only repaired_writer_safe_partial)"

/-- what is proved for a repaired writer -/
def Partial (c : Cfg) (fc : FCfg) : Prop :=
  fc.rollsBackFailedBlock = true → fc.restoresOffsetAfterHeader = true →
  ∀ (mk : Mk), MkOk mk → ∀ (nl : Nat) (bs : List Block), (∀ b ∈ bs, b.WF) →
  ∀ (w : WSt) (d : Disk), WInv d w (fileCells nl bs) → w.buf ≠ [] →
  ∀ (rs : List Res), rollbackRes rs = .ok → ∀ (items : List (Op × Nat)),
    ∃ f, (afterFault c fc mk w d rs items).d.get (flushWF fc mk { w := w, d := d, rs := rs }).w.path = some f ∧
      loadEntries c.r f = entsOf bs ++ w.buf ++ items.map (·.1)

theorem C25_partial (c : Cfg) (fc : FCfg) : Partial c fc :=
  fun h1 h2 mk hmk nl bs hwf w d hinv hb rs hrb items =>
    repaired_writer_safe_partial c fc h1 h2 mk hmk nl bs hwf w d hinv hb rs hrb items

theorem classify_sound (f : Facts) : (classify f).Sound (Holds (cfgOf f) (fcOf f)) (Partial (cfgOf f) (fcOf f)) := by
  unfold classify
  split
  · trivial
  · split
    · rename_i h
      simp only [Bool.and_eq_true, Bool.not_eq_true'] at h
      exact ⟨failed_write_drops_entries (cfgOf f) (fcOf f) h.1 h.2, C25_partial _ _⟩
    · trivial

end Hv.C25
