/-
  Shared plumbing of the line-protocol driver (core-only: no Mathlib reachable from here).
-/
namespace Driver

/-- `k=v` command-line arguments → association list. -/
def parseArgs (args : List String) : List (String × String) :=
  args.filterMap fun a =>
    match a.splitOn "=" with
    | k :: v :: rest => some (k, "=".intercalate (v :: rest))
    | _ => none

def arg (kv : List (String × String)) (k : String) : String :=
  (kv.lookup k).getD "unknown"

/-- Feed every stdin line to `step`, printing its reply and flushing at the end. -/
partial def lineLoop {σ : Type} (step : σ → String → σ × String) (s : σ) : IO Unit := do
  let stdin ← IO.getStdin
  let stdout ← IO.getStdout
  let rec go (s : σ) : IO Unit := do
    let line ← stdin.getLine
    if line.isEmpty then return ()
    -- strip the line terminator only: trailing spaces are significant (empty hex fields)
    let line := if line.endsWith "\n" then (line.dropEnd 1).toString else line
    let line := if line.endsWith "\r" then (line.dropEnd 1).toString else line
    let (s', out) := step s line
    stdout.putStrLn out
    go s'
  go s
  stdout.flush

def words (s : String) : List String := (s.splitOn " ").filter (· ≠ "")

def showNatList (l : List Nat) : String := "[" ++ ",".intercalate (l.map toString) ++ "]"

end Driver
