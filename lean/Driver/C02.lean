import Driver.Util

/-! Placeholder: the line-protocol driver of domain C02 is not written yet. -/
namespace Driver.C02

def run (_args : List String) : IO UInt32 := do
  IO.eprintln "drv: domain C02 has no driver yet"
  return 2

end Driver.C02
