import Driver.Stor

/-! Driver for domain C02 (crash images of write histories): see `Driver/Stor.lean`. -/
namespace Driver.C02
open Hv.BlockStore Driver.BStor

/-- Spec check on the model's own prediction for a crash image: the recovered entries are a
    prefix of what was written and contain everything that was durable; the append after the
    recovery is readable. -/
def flagImg (s : DS) (ev : Eval) (i _j _k : Nat) : String :=
  -- state-based (a compaction rewrites the file with the live entries: the entry lists are no prefixes any
  -- more, the states still are): the recovered state is that of some prefix of what was written, and that
  -- prefix is no shorter than the shortest one that gives the state loadable at the last completed fsync
  let dState := Index.replay [] (s.syncedAt i)
  let ms := List.range (s.wr.length + 1)
  let stOf := fun m => Index.replay [] (s.wr.take m)
  let mD := (ms.find? fun m => sameIndex (stOf m) dState).getD 0
  let okC := ev.lText != "err-load" && ms.any fun m => m ≥ mD && sameIndex (stOf m) ev.cState
  let f1 := if okC then "" else
    (if ev.lText == "err-load" then "\t#F:C02-torn-payload-load-error" else "\t#F:C02-crash-loses-synced-data")
  let okA := sameIndex ev.aState (Index.put ev.cState 9000 77)
  let f2 := if okA then "" else
    (if ev.lText == "err-open" then "\t#F:C02-torn-create-bricks-swamp" else "\t#F:C02-append-after-torn-tail-strands")
  f1 ++ f2

def hooks : Hooks where
  expectAt := fun s _ _ => s.spec
  flagImg := flagImg
  flagLoad := fun _ _ => ""

def cfgOfArgs (kv : List (String × String)) : Cfg :=
  { r := ⟨boolArg kv "shortHeaderIsEOF", boolArg kv "tornDataIsEOF", false, boolArg kv "zeroTailIsEOF"⟩,
    syncFsyncs := boolArg kv "syncFsyncs", closeFsyncs := boolArg kv "closeFsyncs",
    truncatesTornTail := boolArg kv "truncatesTornTail",
    loadCleansTemp := true, rmTempLocked := true, rmTempFromIndex := true, rmTempCompactor := true,
    restartsZeroHeader := boolArg kv "openCutsZeroTail", sparesMidFileDamage := boolArg kv "openSparesMidFileDamage" }

def run (args : List String) : IO UInt32 := do
  let kv := parseArgs args
  let ticks := boolArg kv "syncFsyncs" && boolArg kv "handlerSyncsAfterWrite" && boolArg kv "chronSyncForwards"
  lineLoop (step hooks) { cfg := cfgOfArgs kv, tickSyncs := ticks }
  return 0

end Driver.C02
