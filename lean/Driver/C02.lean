import Driver.Stor

/-! Driver for domain C02 (crash images of write histories): see `Driver/Stor.lean`. -/
namespace Driver.C02
open Hv.BlockStore Driver.BStor

/-- Spec check on the model's own prediction for a crash image: the recovered entries are a
    prefix of what was written and contain everything that was durable; the append after the
    recovery is readable. -/
def flagImg (s : DS) (ev : Eval) (i _j _k : Nat) : String :=
  let syn := s.syncedAt i
  let okC := isPrefixOf syn ev.cEnts && isPrefixOf ev.cEnts s.wr
  let f1 := if okC then "" else
    (if ev.lText == "err-load" then "\t#F:C02-torn-payload-load-error" else "\t#F:C02-crash-loses-synced-data")
  let okA := sameIndex ev.aState (Index.put ev.cState 9000 77)
  let f2 := if okA then "" else
    (if ev.lText == "err-open" then "\t#F:C02-torn-create-bricks-swamp" else "\t#F:C02-append-after-torn-tail-strands")
  f1 ++ f2

def hooks : Hooks where
  expectAt := fun s _ _ => s.spec
  flagImg := flagImg
  flagLoad := fun _ _ => ""

def cfgOfArgs (kv : List (String × String)) : Cfg :=
  { r := ⟨boolArg kv "shortHeaderIsEOF", boolArg kv "tornDataIsEOF", false, boolArg kv "zeroTailIsEOF"⟩,
    syncFsyncs := boolArg kv "syncFsyncs", closeFsyncs := boolArg kv "closeFsyncs",
    truncatesTornTail := boolArg kv "truncatesTornTail",
    loadCleansTemp := true, rmTempLocked := true, rmTempFromIndex := true, rmTempCompactor := true,
    restartsZeroHeader := boolArg kv "openCutsZeroTail", sparesMidFileDamage := boolArg kv "openSparesMidFileDamage" }

def run (args : List String) : IO UInt32 := do
  let kv := parseArgs args
  let ticks := boolArg kv "syncFsyncs" && boolArg kv "handlerSyncsAfterWrite" && boolArg kv "chronSyncForwards"
  lineLoop (step hooks) { cfg := cfgOfArgs kv, tickSyncs := ticks }
  return 0

end Driver.C02
