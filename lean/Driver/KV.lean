import Driver.Util
import Hv.Data.KV

/-! Shared line-protocol front end of the kv domains (C06, C05, C30): parses the op lines of
    `harness/c06.go`, steps `Hv.Data.Model`, renders the canonical reply and flags replies where
    the model deviates from `Hv.Data.Spec` (one-step comparison from the abstraction of the
    current model state). -/
namespace Driver.KV
open Hv.Data

/-- fictitious base time of a case (the harness uses the wall clock at case start) -/
def B0 : Int := 2000000000000000000

def boolOf (s : String) : Bool := s == "yes" || s == "true"

def cfgOfArgs (kv : List (String × String)) : Cfg :=
  { resetsFlags := boolOf (arg kv "resetsFlags"),
    metaCompare := boolOf (arg kv "metaCompare"),
    tsPositive := boolOf (arg kv "tsPositive"),
    voidClears := boolOf (arg kv "voidClears"),
    pushChecksType := boolOf (arg kv "pushChecksType"),
    setSliceReplaces := boolOf (arg kv "setSliceReplaces"),
    u32delReleases := boolOf (arg kv "u32delReleases"),
    u32delChecksType := boolOf (arg kv "u32delChecksType"),
    incFailClean := boolOf (arg kv "incFailClean"),
    noEmptyLive := boolOf (arg kv "noEmptyLive"),
    arekAllFalse := boolOf (arg kv "arekAllFalse"),
    countMissingOk := boolOf (arg kv "countMissingOk"),
    setErrSingle := boolOf (arg kv "setErrSingle"),
    fltCondDirect := boolOf (arg kv "fltCondDirect"),
    keyChecked := boolOf (arg kv "keyChecked"),
    recreateKeepsPointer := boolOf (arg kv "recreateKeepsPointer"),
    patchAsksFirst := boolOf (arg kv "patchAsksFirst"),
    saveReleasesImmediate := boolOf (arg kv "saveReleasesImmediate"),
    encoding := if arg kv "encoding" == "typeTagged" then .typeTagged else .gobOmitZero }

def ieeeWith (expNe0 : Bool) : Arith where
  expNe0 := expNe0
  fadd t a b :=
    match t with
    | .f64 => (Float.ofBits a.toUInt64 + Float.ofBits b.toUInt64).toBits.toNat
    | .f32 => (Float32.ofBits a.toUInt32 + Float32.ofBits b.toUInt32).toBits.toNat
  flt t a b :=
    match t with
    | .f64 => Float.ofBits a.toUInt64 < Float.ofBits b.toUInt64
    | .f32 => Float32.ofBits a.toUInt32 < Float32.ofBits b.toUInt32
  feq t a b :=
    match t with
    | .f64 => Float.ofBits a.toUInt64 == Float.ofBits b.toUInt64
    | .f32 => Float32.ofBits a.toUInt32 == Float32.ofBits b.toUInt32

def ieee : Arith := ieeeWith false

/-! ### parsing -/

def hexVal (c : Char) : Nat :=
  if '0' ≤ c ∧ c ≤ '9' then c.toNat - '0'.toNat
  else if 'a' ≤ c ∧ c ≤ 'f' then c.toNat - 'a'.toNat + 10
  else if 'A' ≤ c ∧ c ≤ 'F' then c.toNat - 'A'.toNat + 10 else 0

def parseHex (s : String) : Nat := s.foldl (fun n c => n * 16 + hexVal c) 0

def hexPad (width n : Nat) : String :=
  let d := String.ofList (Nat.toDigits 16 n)
  String.ofList (List.replicate (width - d.length) '0') ++ d

def parseTime (s : String) : Int :=
  if s.isEmpty then 0
  else
    let n := ((s.drop 1).toString.toInt?).getD 0
    if s.startsWith "b" then B0 + n else n

def intTy? : String → Option IntTy
  | "i8" => some .i8 | "i16" => some .i16 | "i32" => some .i32 | "i64" => some .i64
  | "u8" => some .u8 | "u16" => some .u16 | "u32" => some .u32 | "u64" => some .u64
  | _ => none

def numTy? (s : String) : Option NumTy :=
  match intTy? s with
  | some t => some (.int t)
  | none => if s == "f32" then some (.flt .f32) else if s == "f64" then some (.flt .f64) else none

def parseU32s (s : String) : List Nat :=
  if s.isEmpty then [] else (s.splitOn ",").map fun p => p.toNat?.getD 0

def parseVal (s : String) : Option Val :=
  match s.splitOn ":" with
  | ["void"] => some .none
  | ["none"] => some .none
  | [ty, v] =>
    match intTy? ty with
    | some t => (v.toInt?).map (Val.int t)
    | none =>
      if ty == "f32" then some (.flt .f32 (parseHex v))
      else if ty == "f64" then some (.flt .f64 (parseHex v))
      else if ty == "str" then some (.str v)
      else if ty == "bool" then some (.bool (v == "1"))
      else if ty == "bytes" then some (.bytes v)
      else if ty == "u32s" then some (.u32s (parseU32s v))
      else none
  | _ => none

def parseItem (s : String) : Option Item :=
  match s.splitOn "|" with
  | [k, v, ca, cb, ua, ub, ea] =>
    (parseVal v).map fun val => { key := k, val := val, ca := parseTime ca, cb := cb, ua := parseTime ua, ub := ub, exp := parseTime ea }
  | _ => none

def parseIncMeta (s : String) : Option (Option IncMeta) :=
  if s == "-" then some none
  else match s.splitOn "|" with
    | [ca, cb, ua, ub, ea] =>
      some (some { ca := ca == "1", cb := cb, ua := ua == "1", ub := ub, exp := if ea.isEmpty then none else some (parseTime ea) })
    | _ => none

def relOp? : String → Option RelOp
  | "eq" => some .eq | "ne" => some .ne | "gt" => some .gt | "ge" => some .ge | "lt" => some .lt | "le" => some .le
  | _ => none

def parseNum (ty : NumTy) (s : String) : Option Int :=
  match ty with
  | .int _ => s.toInt?
  | .flt _ => some (Int.ofNat (parseHex s))

def parseCond (ty : NumTy) (s : String) : Option (Option (RelOp × Int)) :=
  if s == "-" then some none
  else match s.splitOn ":" with
    | [op, v] => match relOp? op, parseNum ty v with
      | some o, some n => some (some (o, n))
      | _, _ => none
    | _ => none

def parsePair (s : String) : Option (Key × List Nat) :=
  match s.splitOn ":" with
  | [k, vs] => some (k, parseU32s vs)
  | _ => none

def allSome {α : Type} : List (Option α) → Option (List α)
  | [] => some []
  | none :: _ => none
  | some a :: t => (allSome t).map (a :: ·)

def parseReq (f : List String) : Option Req :=
  match f with
  | "set" :: co :: items =>
    if co.length ≠ 2 then none
    else (allSome (items.map parseItem)).map fun its => .set (co.startsWith "1") (co.endsWith "1") its
  | "get" :: keys => some (.get keys)
  | ["getall"] => some .getAll
  | "gbk" :: keys => some (.getByKeys keys)
  | "shift" :: keys => some (.shift keys)
  | "del" :: keys => some (.del keys)
  | ["count"] => some .count
  | ["iske", k] => some (.isKey k)
  | "arek" :: keys => some (.areKeys keys)
  | ["issw"] => some .isSwamp
  | ["inc", ty, k, by_, cond, ine, ie] =>
    match numTy? ty with
    | none => none
    | some t =>
      match parseNum t by_, parseCond t cond, parseIncMeta ine, parseIncMeta ie with
      | some b, some c, some m1, some m2 => some (.inc t k b c m1 m2)
      | _, _, _, _ => none
  | "push" :: pairs => (allSome (pairs.map parsePair)).map .push
  | "u32del" :: pairs => (allSome (pairs.map parsePair)).map .u32del
  | ["size", k] => some (.size k)
  | ["hasval", k, v] => v.toNat?.map (.hasVal k)
  | _ => none

/-! ### rendering -/

structure Clock where
  now : Int := B0
  nows : List Int := []     -- server times handed to the model so far

def showTime (ck : Clock) (t : Int) : String :=
  if t == 0 then ""
  -- a server stamp names the request that took it (`now` of request j is the waited time + j)
  else if ck.nows.contains t then s!"T{(t - B0) % 1000000}"
  else
    let d := t - B0
    if decide (d > -1000000000000000) && decide (d < 1000000000000000) then s!"b{d}" else s!"a{t}"

def showIntTy : IntTy → String
  | .i8 => "i8" | .i16 => "i16" | .i32 => "i32" | .i64 => "i64"
  | .u8 => "u8" | .u16 => "u16" | .u32 => "u32" | .u64 => "u64"

def showVal : Val → String
  | .none => "void"
  | .int t n => s!"{showIntTy t}:{n}"
  -- every NaN is shown as the canonical quiet NaN (which NaN an operation yields is the processor's choice)
  | .flt .f32 b => "f32:" ++ hexPad 8 (if (b / 0x800000) % 0x100 == 0xff && b % 0x800000 != 0 then 0x7fc00000 else b)
  | .flt .f64 b => "f64:" ++ hexPad 16 (if (b / 0x10000000000000) % 0x800 == 0x7ff && b % 0x10000000000000 != 0 then 0x7ff8000000000000 else b)
  | .str h => "str:" ++ h
  | .bool b => if b then "bool:1" else "bool:0"
  | .bytes h => "bytes:" ++ h
  | .u32s l => "u32s:" ++ ",".intercalate (l.map toString)

def showMeta (ck : Clock) (m : Meta) : String :=
  "|".intercalate [showTime ck m.ca, m.cb, showTime ck m.ua, m.ub, showTime ck m.exp]

def showRec (ck : Clock) (r : Rec) : String := showVal r.val ++ "|" ++ showMeta ck r.m

def showSt : St → String
  | .nf => "NF" | .new => "NEW" | .upd => "UPD" | .del => "DEL" | .same => "SAME"

def join (hd : String) (l : List String) : String := " ".intercalate (hd :: l)

def showResp (ck : Clock) (verb : String) : Resp → String
  | .err c => "err:" ++ c
  | .setErr e dup => "set ERR:" ++ e ++ (if dup then " +" else "")
  | .sts l => join verb (l.map showSt)
  | .recs l => join verb (l.map fun o => match o with | none => "-" | some r => showRec ck r)
  | .kvs l => join verb (l.map fun p => p.1 ++ "=" ++ showRec ck p.2)
  | .delErr => "del ERR:SwampDoesNotExist"
  | .count none => "count -"
  | .count (some n) => s!"count {n}"
  | .flag b => verb ++ (if b then " 1" else " 0")
  | .flags l => join verb (l.map fun p => p.1 ++ (if p.2 then "=1" else "=0"))
  | .inc v ok m => s!"inc {showVal v} {if ok then "1" else "0"} " ++ (match m with | none => "-" | some m => showMeta ck m)
  | .ok => if verb == "closeidle" || verb == "restart" || verb == "wait" || verb == "close" then "ok" else verb ++ " ok"
  | .size n => s!"size {n}"
  | .hang => "hang"
  | .skip => "skip"

def tagId : Tag → String
  | .stickyFlags => "sticky-changed-flags"
  | .nanCond => "nan-condition-passes"
  | .unstorableKey => "unstorable-key-acknowledged"
  | .patchGhost => "patch-summons-missing-swamp"
  | .metaNoCompare => "meta-always-changed"
  | .tsSubSecond => "preepoch-subsecond-accepted"
  | .voidNoClear => "set-void-keeps-value"
  | .hiddenSlice => "hidden-uint32-slice"
  | .sliceMerge => "set-slice-merges"
  | .u32delDeadlock => "u32del-self-deadlock"
  | .u32delNonSlice => "u32del-deletes-non-slice"
  | .incFailTrace => "failed-increment-leaves-trace"
  | .inflightReuse => "failed-increment-leaves-trace"
  | .emptyLive => "empty-swamp-materialised"
  | .arekPrecondition => "arekeysexist-missing-swamp-error"
  | .countPrecondition => "count-missing-swamp-error"
  | .setErrDup => "set-error-entry-duplicated"
  | .zeroLikeDropped => "zero-like-reloads-void"
  | .resurrected => "deleted-key-resurrected"

/-- attribution of a visible deviation: the most specific mechanism exercised in the step -/
def tagPrio : Tag → Nat
  | .u32delDeadlock => 0 | .u32delNonSlice => 1 | .hiddenSlice => 2 | .voidNoClear => 3 | .sliceMerge => 4
  | .incFailTrace => 5 | .inflightReuse => 6 | .tsSubSecond => 7 | .metaNoCompare => 8 | .setErrDup => 9
  | .arekPrecondition => 10 | .countPrecondition => 11 | .zeroLikeDropped => 12 | .emptyLive => 13 | .resurrected => 0
  | .stickyFlags => 14 | .nanCond => 4 | .unstorableKey => 0 | .patchGhost => 0

def pickTag (tags : List Tag) : Option Tag :=
  tags.foldl (fun best t => match best with
    | none => some t
    | some b => if tagPrio t < tagPrio b then some t else some b) none

/-! ### stepping -/

/-- which deviations a domain reports -/
inductive Policy where
  | c06    -- every deviation of a data request from the Spec
  | c05    -- only what a close/reload changes
  | c30    -- only expiry-path disagreements (handled in Driver.C30)
  deriving DecidableEq

structure DState where
  ar : Arith := ieee
  cfg : Cfg
  pol : Policy
  pid : String
  s : State := {}
  ck : Clock := {}
  lastTag : Option Tag := none
  opNo : Nat := 0
  inCase : Bool := false
  ticker : Bool := false      -- kind p1t: the 1 s write ticker is running
  /-- how a data request is answered (Driver.C30 plugs in the model that also keeps the expiry index) -/
  stepF : Cfg → Arith → Int → State → Req → Model.Out := Model.step
  /-- the float setters decide "same value" on the bit pattern (false: with the float comparison) -/
  fltBitwise : Bool := true
  byKey : Bool := false       -- case attribute sorted=1: claim replies are listed by key
  longSeen : Bool := false    -- a long key (`x@N`) occurred in this case: replies are compressed again

/-- the write ticker has run: every treasure waiting for the writer is written (its object gets a
    file pointer), exactly what close does to the disk image, without closing -/
def tick (cfg : Cfg) (s : State) : State :=
  match s.live with
  | none => s
  | some i =>
    { s with live := some { i with
        disk := Model.flushDisk cfg.encoding i.recs i.waiting i.disk,
        filed := i.filed ++ (i.waiting.filter fun k => (AL.find k i.recs).isSome && !i.filed.contains k),
        waiting := [] } }

/-- keys the file format can hold -/
def storable (k : Key) : Bool := validKey k

/-- long keys are written `x@N` in the protocol: N times the letter x -/
def expandLong (s : String) : String :=
  match s.splitOn "x@" with
  | [] => s
  | first :: rest =>
    rest.foldl (fun acc p =>
      let ds := p.takeWhile Char.isDigit
      if ds.isEmpty then acc ++ "x@" ++ p
      else acc ++ String.mk (List.replicate ds.toNat! 'x') ++ p.drop ds.length) first

def compressLong (s : String) : String :=
  let flush (acc : String) (run : Nat) : String :=
    if run ≥ 1000 then acc ++ s!"x@{run}" else acc ++ String.mk (List.replicate run 'x')
  let r := s.foldl (fun (st : String × Nat) c =>
    if c == 'x' then (st.1, st.2 + 1) else ((flush st.1 st.2).push c, 0)) ("", 0)
  flush r.1 r.2

def kindOf (s : String) : Kind := if s.startsWith "mem" then .mem else if s.startsWith "p0" then .p0 else .p1

/-- what a float setter that compares with `==` makes of a Set: a value equal to the stored one keeps
    the stored bits (−0.0 over +0.0 changes nothing), a NaN never equals the stored NaN (the model is
    handed a NaN with another payload: every NaN is shown alike) -/
def fltByValue (ar : Arith) (s : State) : Req → Req
  | .set c o items => .set c o (items.map fun it =>
      match it.val, (AL.find it.key (Model.summon s).recs).map (·.c.vis) with
      | .flt t b, some (.flt t0 b0) =>
        if t != t0 then it
        else if ar.feq t b0 b then { it with val := .flt t b0 }
        else if b0 == b then { it with val := .flt t (if b % 2 == 0 then b + 1 else b - 1) }
        else it
      | _, _ => it)
  | r => r

def stepReq (d : DState) (f : List String) : DState × String :=
  match parseReq f with
  | none => (d, "bad-op")
  | some req0 =>
    -- the model answers the request as the setters see it; the Spec answers the request as sent
    let req := if d.fltBitwise then req0 else fltByValue d.ar d.s req0
    let byValue := !d.fltBitwise && (reprStr req != reprStr req0)
    let opNo := d.opNo + 1
    let now := d.ck.now + opNo
    let ck : Clock := { d.ck with nows := now :: d.ck.nows }
    let verb := f.headD ""
    let o0 := d.stepF d.cfg d.ar now d.s req
    -- the same comparison in the Increment path: a NaN result never equals the stored NaN, so the float
    -- setter replaces the whole content (a uint32 slice hidden behind the number goes with it)
    let o : Model.Out := match req, d.fltBitwise, o0.r, o0.s.live with
      | .inc (.flt _) k _ _ _ _, false, .inc (.flt t b) true _, some i =>
        if (ieee.feq t b b) then o0
        else { o0 with s := { o0.s with live := some { i with recs := i.recs.map fun p =>
                 if p.1 == k then (p.1, { p.2 with c := { p.2.c with slice := none } }) else p } } }
      | _, _, _, _ => o0
    let before := Model.abs d.s
    let sp := Spec.step d.ar now before req0
    let after := Model.abs o.s
    let devAny : Bool := !d.s.dead && (decide (sp.2 ≠ o.r) || decide (sp.1 ≠ after))
    let dev : Bool := devAny && d.pol == .c06
    -- (an empty swamp that PatchTreasures left behind explains what the data requests then answer about it)
    let tag := if d.lastTag == some Tag.patchGhost && (Model.abs d.s).isEmpty then d.lastTag else pickTag o.tags <|> d.lastTag
    -- (the one mechanism known to move an expiry past the index stays the explanation for the rest of the case)
    let lastTag := if d.pol == .c30 && (d.lastTag == some Tag.incFailTrace || o.tags.contains Tag.incFailTrace)
                   then some Tag.incFailTrace
                   else if d.lastTag == some Tag.patchGhost && (Model.abs o.s).isEmpty && Model.exists_ o.s then d.lastTag
                   else match pickTag o.tags with | some t => some t | none => d.lastTag
    -- a deviation from the data-request Spec that this domain does not report is still marked
    -- (`#D:`), so that the independent reference knows the line is accounted for elsewhere (C06)
    let name := if byValue then "float-set-compares-by-value" else (match tag with | some t => tagId t | none => "unattributed")
    let flag := if dev then "\t#F:" ++ d.pid ++ "-" ++ name
                else if devAny then "\t#D:" ++ name else ""
    ({ d with s := o.s, ck := ck, lastTag := lastTag, opNo := opNo }, showResp ck verb o.r ++ flag)


def stepLineRaw (d : DState) (line : String) : DState × String :=
  let f := line.splitOn " "
  match f with
  | "case" :: _ :: rest =>
    let kind := (rest.filterMap fun a => match a.splitOn "=" with | ["kind", v] => some (kindOf v) | _ => none).headD .mem
    ({ d with s := { kind := kind }, ck := {}, lastTag := none, opNo := 0, inCase := true, ticker := rest.contains "kind=p1t", longSeen := false, byKey := rest.contains "sorted=1" }, line)
  | _ =>
    if !d.inCase then (d, "no-case")
    else match f with
    | ["within", _] => if d.s.dead then (d, "skip") else (d, "ok")
    | ["wait", ms] =>
      if d.s.dead then (d, "skip")
      else
        let n := ms.toInt?.getD 0
        let s := if d.ticker && n ≥ 2500 then tick d.cfg d.s else d.s
        ({ d with s := s, ck := { d.ck with now := d.ck.now + n * 1000000 } }, "ok")
    | ["mcount"] =>
      -- one Count over (this swamp, a swamp never created, this swamp): answers in request order
      let (d1, r) := stepReq d ["count"]
      let parts := r.splitOn "\t"
      let body := parts.headD ""
      let flags := String.join ((parts.drop 1).map fun p => "\t" ++ p)
      if body.startsWith "count " then (d1, s!"mcount {body.drop 6} / - / {body.drop 6}" ++ flags) else (d1, r)
    | "mdel" :: keys =>
      -- one Delete over (a swamp never created, this swamp): the missing swamp is an entry of its own
      let (d1, r) := stepReq d ("del" :: keys)
      let parts := r.splitOn "\t"
      let body := parts.headD ""
      let flags := String.join ((parts.drop 1).map fun p => "\t" ++ p)
      if body.startsWith "del " then (d1, s!"mdel ERR:SwampDoesNotExist / {body.drop 4}" ++ flags) else (d1, r)
    | "mset" :: rest =>
      -- one Set naming this swamp twice with the same items (one request: one request number)
      let (d1, r1) := stepReq d ("set" :: rest)
      let p1 := r1.splitOn "\t"
      let b1 := p1.headD ""
      if !b1.startsWith "set " then (d1, r1)
      else
        let (d2, r2) := stepReq d1 ("set" :: rest)
        let p2 := r2.splitOn "\t"
        let b2 := p2.headD ""
        let flags := String.join (((p1.drop 1) ++ (p2.drop 1)).eraseDups.map fun p => "\t" ++ p)
        ({ d2 with opNo := d1.opNo }, s!"mset {b1.drop 4} / {if b2.startsWith "set " then b2.drop 4 else b2}" ++ flags)
    | "mget" :: keys =>
      -- one Get over three swamp entries (this swamp, a swamp that was never created, this swamp):
      -- a batch answers per swamp, so a missing swamp is an entry, not an error
      let (d1, r) := stepReq d ("get" :: keys)
      let parts := r.splitOn "\t"
      let body := parts.headD ""
      let flags := String.join ((parts.drop 1).map fun p => "\t" ++ p)
      if body == "err:FailedPrecondition" then (d1, "mget noswamp / noswamp / noswamp" ++ flags)
      else if body.startsWith "get " then (d1, s!"mget {body.drop 4} / noswamp / {body.drop 4}" ++ flags)
      else (d1, r)
    | [verb] =>
      if verb == "closeidle" || verb == "restart" || verb == "close" then
        if d.s.dead then (d, "skip")
        else
          let before := Model.abs d.s
          let (s1, tags) := Model.closeStep d.cfg d.s
          -- the writer refuses entries whose key the format cannot hold (logged, not reported to the
          -- client): they are not in the file.  Outside the Lean model, whose theorems are about
          -- storable keys; reported as its own finding.
          let lost := d.s.kind != .mem && ((s1.file.getD []).any fun p => !storable p.1)
          let s' := if lost then { s1 with file := s1.file.map (·.filter fun p => storable p.1) } else s1
          let after := Model.abs s'
          let dev := d.pol == .c05 && decide (Spec.close d.s.kind before ≠ after)
          let tag := tags.head? <|> d.lastTag
          let flag := if dev then "\t#F:" ++ d.pid ++ "-" ++
                        (if lost then "unstorable-key-acknowledged"
                         else match tag with | some t => tagId t | none => "unattributed") else ""
          ({ d with s := s', lastTag := (tags.head? <|> d.lastTag) }, "ok" ++ flag)
      else if verb == "compact" then
        -- CompactSwamp: refuses a swamp that does not exist, otherwise summons it and rewrites its
        -- file; no record, stamp or pending write changes
        if d.s.dead then (d, "skip")
        else if Model.exists_ d.s then
          -- a swamp that "exists" without holding a record (left behind by another mechanism) is a
          -- deviation from the documented answer: reported under the mechanism that created it
          let ghost := (Model.abs d.s).isEmpty
          let tag := match d.lastTag with | some t => tagId t | none => "unattributed"
          let flag := if !ghost then "" else if d.pol == .c06 then "\t#F:" ++ d.pid ++ "-" ++ tag else "\t#D:" ++ tag
          ({ d with s := Model.withLive d.s (Model.summon d.s) }, "compact ok" ++ flag)
        else (d, "err:FailedPrecondition")
      else stepReq d f
    | _ => stepReq d f

def stepLine (d : DState) (line0 : String) : DState × String :=
  -- `V~v`: a typed value sent together with VoidVal = true; the typed value is what counts
  let line := line0.replace "~v|" "|"
  if (line.splitOn "x@").length > 1 || d.longSeen then
    let (d', out) := stepLineRaw { d with longSeen := true } (expandLong line)
    (d', compressLong out)
  else stepLineRaw d line

def run (pid : String) (pol : Policy) (args : List String) : IO UInt32 := do
  let kv := parseArgs args
  lineLoop stepLine { cfg := cfgOfArgs kv, pol := pol, pid := pid, fltBitwise := boolOf (arg kv "fltSetBitwise"), ar := ieeeWith (boolOf (arg kv "wireExpNe0")) }
  return 0

end Driver.KV
