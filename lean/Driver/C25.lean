import Driver.Util

/-! Placeholder: the line-protocol driver of domain C25 is not written yet. -/
namespace Driver.C25

def run (_args : List String) : IO UInt32 := do
  IO.eprintln "drv: domain C25 has no driver yet"
  return 2

end Driver.C25
