import Driver.Stor

/-! Driver for domain C25 (disk write failures): the fault-aware writer model of
    `Hv/Storage/Fault.lean` is fed the results the real syscalls got (`res` lines) and must
    predict the same operations; at the end the file is loaded and compared with the Spec. -/
namespace Driver.C25
open Hv.BlockStore Driver.BStor

def parseRes (s : String) : Res :=
  if s == "ok" then .ok else if s == "err" then .err
  else if s.startsWith "short:" then .short (nat (s.drop 6).toString) else .ok

def showRes : Res → String
  | .ok => "ok"
  | .err => "err"
  | .short n => s!"short:{n}"

/-- which defect a first failed operation exposes -/
def faultClass (d : Disk) (op : FsOp) (r : Res) : String :=
  match op with
  | .write _ off cs =>
    (match cs.head? with
     | some (.fh _ _) =>
       if (d.main.map List.length).getD 0 ≤ 64 then "C25-failed-create-drops-batch"
       else "C25-failed-header-rewrite-overwrites-file"
     | some (.nm _) => "C25-failed-create-drops-batch"
     | some (.bh _ _) => if r == .err then "C25-failed-write-drops-entries" else "C25-partial-block-strands-later-writes"
     | _ => if off == 0 then "C25-failed-header-rewrite-overwrites-file" else "C25-partial-block-strands-later-writes")
  | .sync _ => "C25-fsync-error"
  | _ => "C25-metadata-error"

def pushR (s : DS) (ops : List (FsOp × Res)) : DS :=
  ops.foldl (fun (s : DS) (o : FsOp × Res) =>
    let ff := match s.firstFault with
      | some f => some f
      | none => if o.2.isOk then none else some (faultClass s.mdisk o.1 o.2)
    { s with mops := s.mops ++ [o.1], mres := s.mres ++ [showRes o.2], mdisk := s.mdisk.applyRes o.1 o.2, firstFault := ff }) s

/-- a block whose count field is not the number of its entries (a wrapped `EntryCount`) starts in `f` -/
def hasWrappedBlock (f : List Cell) : Bool :=
  f.any fun c => match c with
    | .bh b 0 => b.hdr.length == 16 && maxEnts < b.ents.length && b.cnt != b.ents.length
    | _ => false

/-- name the defect by what the file looks like at the end, not only by the first fault -/
def lossClass (s : DS) : String :=
  match s.mdisk.main with
  | none => "C25-failed-create-bricks-swamp"
  | some f =>
    if hasWrappedBlock f then "C25-restored-buffer-overflows-entry-count" else
    match headerOf f with
    | none => if f.length < 64 then "C25-failed-create-bricks-swamp" else "C25-failed-header-rewrite-overwrites-file"
    | some nl =>
      if f.length < 64 + nl then "C25-failed-create-bricks-swamp"
      else match validLen f with
        | some keep => if keep < f.length then "C25-partial-block-strands-later-writes"
                       else s.firstFault.getD "C25-unexplained-loss"   -- a clean file that lacks records
        | none => "C25-failed-create-bricks-swamp"

def flagLoad (s : DS) (st : Index) : String :=
  if sameIndex st s.spec then "" else "\t#F:" ++ lossClass s

def hooks : Hooks where
  expectAt := fun s _ _ => s.spec
  flagImg := fun _ _ _ _ _ => ""
  flagLoad := flagLoad

def step (s0 : DS) (line : String) : DS × String :=
  let s := if line.startsWith "act " then s0.checkpoint else s0
  match (line.splitOn " ").filter (· ≠ "") with
  | ["res", rs] => ({ s with rs := (rs.splitOn ",").map parseRes, phantom := [] }, "ok")
  | ["phantom", h] => ({ s with phantom := hexBytes h }, "ok")
  -- a real swamp (pointer events on): the model is the key/value Spec itself
  | ["sw", "new"] => ({ s with spec := [] }, "ok")
  | ["sw", "save", k, v] => ({ s with spec := Index.put s.spec (nat k) (nat v) }, "ok")
  | ["sw", "del", k] => ({ s with spec := Index.del s.spec (nat k) }, "ok")
  | ["sw", "load", _] => (s, "ok " ++ showIndex s.spec)
  | "sw" :: _ => (s, "ok")
  -- what a reader sees right now, the writer staying open
  | ["act", "probe", _] =>
    let st := recover s.cfg s.mdisk
    -- Spec: a flush boundary that holds everything acknowledged so far
    let ok := (List.range (s.wr.length + 1 - s.dur)).any fun d => sameIndex (Index.replay [] (s.wr.take (s.dur + d))) st
    (s, "ok " ++ showIndex st ++ (if ok then "" else "\t#F:" ++ s.firstFault.getD "C25-unexplained-loss"))
  | ["act", "w", items] =>
    let its := parseItems items
    let out := cWriteF s.cfg s.fc s.mk' ⟨s.cs, s.mdisk, s.rs⟩ its
    let s1 := pushR s out.ops
    ({ s1 with cs := out.st.cs, rs := [], spec := Index.replay s.spec (its.map (·.1)), wr := s.wr ++ its.map (·.1) }, "ok")
  | ["act", "sync", _] =>
    let out := cSyncF s.cfg s.fc s.mk' ⟨s.cs, s.mdisk, s.rs⟩
    let s1 := pushR s out.ops
    ({ s1 with cs := out.st.cs, rs := [], dur := if out.failed then s.dur else s.wr.length }, if out.failed then "ok err" else "ok ok")
  | ["act", "close", _] =>
    let out := cCloseF s.cfg s.fc s.mk' ⟨s.cs, s.mdisk, s.rs⟩
    let s1 := pushR s out.ops
    ({ s1 with cs := out.st.cs, rs := [], dur := if out.failed then s.dur else s.wr.length }, if out.failed then "ok err" else "ok ok")
  | ["act", "compact", ep, order] =>
    let e := epOf ep
    let out := cCompactF s.cfg s.fc s.mk' ⟨s.cs, s.mdisk, s.rs⟩ e (parseOrder order) (order == "skip")
    let s1 := pushR s out.ops
    ({ s1 with cs := out.st.cs, rs := [] }, "ok")
  | _ => Driver.BStor.step hooks s0 line

def cfgOfArgs (kv : List (String × String)) : Cfg :=
  { r := ⟨boolArg kv "shortHeaderIsEOF", boolArg kv "tornDataIsEOF", false, boolArg kv "zeroTailIsEOF"⟩,
    syncFsyncs := boolArg kv "syncFsyncs", closeFsyncs := boolArg kv "closeFsyncs",
    truncatesTornTail := boolArg kv "truncatesTornTail",
    loadCleansTemp := true, rmTempLocked := true, rmTempFromIndex := true, rmTempCompactor := true }

def run (args : List String) : IO UInt32 := do
  let kv := parseArgs args
  let fc : FCfg := ⟨boolArg kv "clearsBufferBeforeWrite", boolArg kv "rollsBackFailedBlock", boolArg kv "restoresOffsetAfterHeader",
    boolArg kv "splitsOversizedBuffer", !(kv.lookup "writeEntryReportsFlushError" == some "no"),
    boolArg kv "closeKeepsFileOnError"⟩
  lineLoop step { cfg := cfgOfArgs kv, fc := fc, probe := false }
  return 0

end Driver.C25
