import Driver.Util
import Hv.Conc.Cap

/-! Line-protocol driver for the Cap batch model (domain C12). Same ops and reply format as
    `/verif/harness/c12.go`: `step B` performs the batch's next LTS action; a lock action that is
    not enabled is reported `blocked` and performed as soon as the holder unlocks.  A reply carries
    `#F:C12-count-before-capmu` when the model state has more matching records than the cap. -/
namespace Driver.C12
open Hv.Cap

structure DSt where
  cfg : Cfg
  s : St := init [] 0
  started : Bool := false
  npatch : Nat → Nat := fun _ => 0
  results : Nat → List String := fun _ => []
  blocked : Nat → Bool := fun _ => false
  fin : Nat → Bool := fun _ => false
  /-- record still carries its expiry in the past (PatchExpired candidates) -/
  expiredRec : List Bool := []
  /-- PatchExpired batches: howMany of a batch that is blocked before its lock; selected count / capReached once selected -/
  xwant : Nat → Option Nat := fun _ => none
  xsel : Nat → Nat := fun _ => 0
  xreached : Nat → Bool := fun _ => false
  isX : Nat → Bool := fun _ => false
  /-- ShiftMatching batches: howMany of one that waits for capMu -/
  swant : Nat → Option (Nat × List Nat) := fun _ => none
  shiftReeval : Bool := true

def upd {α : Type} (f : Nat → α) (b : Nat) (v : α) : Nat → α := fun x => if x = b then v else f x

def tail (d : DSt) : String :=
  let mu := if d.s.capMu.isSome then "held" else "free"
  let fid := if !d.cfg.countAfterLock then "C12-count-before-capmu"
    else if !d.cfg.createPreFalse then "C12-create-counts-as-prematched"
    else if !d.cfg.expiredCountsAll then "C12-patchexpired-counts-expiring-records-only"
    else "C12-patchexpired-releases-capmu-early"
  s!"m={matching d.s} mu={mu}" ++ (if matching d.s > d.s.max then "\t#F:" ++ fid else "")

def act (d : DSt) (a : Act) : Option DSt :=
  (step d.cfg d.s a).map fun s' => { d with s := s' }

/-- the stop a batch is at after its lock/count statements: `mid` after the first, `patch` after the second -/
def stopName (d : DSt) (b : Nat) : String :=
  match (d.s.batch b).pc with
  | .half => "mid"
  | .run => "patch"
  | _ => "?"

/-- candidates of a PatchExpired: present, expired, not already claimed, oldest (lowest index) first -/
def candidates (d : DSt) : List Nat :=
  (List.range d.s.recs.length).filter fun k => d.s.present.getD k false && d.expiredRec.getD k false

/-- PatchExpired's lock + count + select (mirrors SelectExpiredForPatchWithCap) -/
def xSelect (d : DSt) (b want : Nat) : Option (DSt × String) :=
  let cands := candidates d
  match act d (.submitExpired b cands) with
  | none => none
  | some d1 =>
    match act d1 (.first b) with
    | none => none   -- capMu is held by the other batch
    | some d2 =>
      let budget := d2.s.max - (if d2.cfg.expiredCountsAll then matching d2.s else matchingExp d2.s)
      match act d2 (.second b) with
      | none => none
      | some d3 =>
        let eff0 := if want == 0 then cands.length else want
        let eff := if budget < eff0 then budget else eff0
        -- the LTS keeps at most `budget` candidates; HowMany narrows further
        let keep := cands.take (min eff cands.length)
        let x := d3.s.batch b
        let d3 := { d3 with s := { d3.s with batch := fun y => if y = b then { x with todo := keep.map (·, true) } else d3.s.batch y } }
        -- (HowMany 0 means MaxInt in the code, so any finite budget `tightens` it: capReached)
        let reached := budget == 0 || want == 0 || budget < want || cands.length > keep.length
        -- claimed records leave the expiry index at once
        let d3 := { d3 with expiredRec := (List.range d3.expiredRec.length).map (fun k => d3.expiredRec.getD k false && !keep.contains k),
                            xsel := upd d3.xsel b keep.length, xreached := upd d3.xreached b reached, isX := upd d3.isX b true }
        let d3 := if d3.cfg.expiredHoldsCapMu then d3 else (act d3 (.unlockEarly b)).getD d3
        if budget == 0 || keep.isEmpty then
          -- nothing selected: the call returns at once
          let d4 := (act d3 (.unlock b)).getD d3
          some ({ d4 with fin := upd d4.fin b true }, s!"done patched=0 reached={reached}")
        else some (d3, s!"selected={keep.length}")

/-- ShiftMatching{idle records, HowMany n} with the cap: one atomic step under capMu and the beacon lock
    (mirrors beacon.ShiftMatching: budget = cap − matching bounds the number shifted) -/
def idleNow (d : DSt) : List Nat :=
  (List.range d.s.recs.length).filter fun k => d.s.present.getD k false && !(d.s.recs.getD k false)

/-- `cands`: the gateway collects the records matching the call's filter (bucket candidates) when the RPC
    arrives — BEFORE capMu is taken — and the selection under the locks only checks membership in that
    set: a candidate that has stopped matching the filter meanwhile is shifted all the same. -/
def doShift (d : DSt) (n : Nat) (cands : List Nat) : DSt × String :=
  -- (with the whole filter re-evaluated at selection a candidate that is no longer idle is passed over)
  let idle := cands.filter fun k => d.s.present.getD k false && (!d.shiftReeval || !(d.s.recs.getD k false))
  let budget := d.s.max - matching d.s
  if n == 0 then (d, "shifted=0 reached=false") else
  if budget == 0 then (d, "shifted=0 reached=true") else
  let eff := if budget < n then budget else n
  let take := idle.take eff
  let reached := budget < n || idle.length > take.length
  let d := take.foldl (fun d k => (act d (.delete k)).getD d) d
  (d, s!"shifted={take.length} reached={reached}")

/-- let a blocked batch in after the holder has left -/
def unblock (d : DSt) (o : Nat) : DSt × String :=
  if !d.blocked o then (d, "") else
  match d.swant o with
  | some (n, cands) =>
    let (d', msg) := doShift d n cands
    ({ d' with blocked := upd d'.blocked o false, swant := upd d'.swant o none, fin := upd d'.fin o true }, s!" unblocked={o}@done {msg}")
  | none =>
  match d.xwant o with
  | some want =>
    match xSelect { d with s := { d.s with batch := fun y => if y = o then Batch.empty else d.s.batch y } } o want with
    | some (d', msg) => ({ d' with blocked := upd d'.blocked o false, xwant := upd d'.xwant o none }, s!" unblocked={o}@{msg}")
    | none => (d, " unblocked-timeout")
  | none =>
    let a := if (d.s.batch o).pc == .ready then Act.first o else Act.second o
    match act d a with
    | some d' =>
      let d' := { d' with blocked := upd d'.blocked o false }
      (d', s!" unblocked={o}@{stopName d' o}")
    | none => (d, " unblocked-timeout")

/-- capMu is free: the batches that wait for it get it one after the other — in the observed order
    where the model allows it, else lowest number first — until one of them stops while holding it -/
def unblockAll (d : DSt) (obs : List Nat) : Nat → DSt × String
  | 0 => (d, "")
  | fuel + 1 =>
    if d.s.capMu.isSome then (d, "") else
    let waiting := [1, 2, 3].filter (fun o => d.blocked o)
    match (match obs with | o :: _ => if waiting.contains o then some o else waiting.head? | [] => waiting.head?) with
    | none => (d, "")
    | some o =>
      let (d1, m1) := unblock d o
      if d1.blocked o then (d1, m1) else
      let (d2, m2) := unblockAll d1 (obs.drop 1) fuel
      (d2, m1 ++ m2)

/-- perform the last patch's successor: the deferred unlock, and let a blocked batch in -/
def finish (d : DSt) (b : Nat) (obs : List Nat := []) : DSt × String :=
  let d := (act d (.unlock b)).getD d
  let d := { d with fin := upd d.fin b true }
  let msg := if d.isX b then s!"done patched={d.xsel b} reached={d.xreached b}"
    else
      let rs := ",".intercalate (d.results b)
      s!"done r=[{rs}] reached={(d.results b).contains "X"}"
  let (d, u) := unblockAll d obs 4
  (d, msg ++ u)

def stepBatch (d : DSt) (b : Nat) (obs : List Nat := []) : DSt × String :=
  let x := d.s.batch b
  match x.pc with
  | .ready =>
    match act d (.first b) with
    | some d' => (d', "mid")
    | none => ({ d with blocked := upd d.blocked b true }, "blocked")
  | .half =>
    match act d (.second b) with
    | some d' => (d', "patch")
    | none => ({ d with blocked := upd d.blocked b true }, "blocked")
  | .run =>
    if d.isX b then
      -- the per-record patches of a PatchExpired run to the end of the call
      let d := x.todo.foldl (fun d _ => (act d (.patch b)).getD d) d
      finish d b obs
    else
    let before := x.rejected
    let nfBefore := x.notFound
    let wasThere := match x.todo with | (k, _) :: _ => d.s.present.getD k false | [] => true
    match act d (.patch b) with
    | some d' =>
      let r := if (d'.s.batch b).rejected > before then "X"
        else if (d'.s.batch b).notFound > nfBefore then "N"
        else if wasThere then "P" else "C"
      let d' := { d' with results := upd d'.results b (d'.results b ++ [r]) }
      if (d'.s.batch b).todo.isEmpty then finish d' b obs else (d', "patch")
    | none => (d, "skip")
  | _ => (d, "skip")

def parsePatch (s : String) : Option (Nat × Bool) :=
  match s.splitOn ":" with
  | [k, v] => k.toNat?.map (fun k => (k, v == "1"))
  | _ => none

def stepLine (d : DSt) (line : String) : DSt × String :=
  match words line with
  | "case" :: _ => ({ cfg := d.cfg, shiftReeval := d.shiftReeval }, line)
  | "init" :: m :: recs =>
    match m.toNat? with
    | none => (d, "bad-op")
    | some mx =>
      -- (every record the harness creates at `init` carries an expiry; records created later do not)
      let d := { d with s := initE (recs.map (· == "1")) (recs.map (· != "-")) (recs.map (· != "-")) mx, started := true,
                        expiredRec := recs.map (· != "-") }
      (d, s!"init {tail d}")
  | "submit" :: bs :: ps =>
    match bs.toNat? with
    | none => (d, "skip")
    | some b =>
      if !d.started || ps.isEmpty || b < 1 || b > 3 || (d.s.batch b).pc != .idle || d.isX b || (d.xwant b).isSome || (d.swant b).isSome || d.fin b then (d, "skip") else
      let patches := ps.filterMap parsePatch
      let a := if ps.contains "c=a" then Act.submitCreate b patches true
               else if ps.contains "c=i" then Act.submitCreate b patches false
               else Act.submit b patches
      match act d a with
      | some d' => ({ d' with npatch := upd d'.npatch b patches.length }, s!"submit {b} pre {tail d'}")
      | none => (d, "skip")
  | ["xsubmit", bs, ns] =>
    match bs.toNat?, ns.toNat? with
    | some b, some want =>
      if !d.started || b < 1 || b > 3 || (d.s.batch b).pc != .idle || d.isX b || (d.xwant b).isSome || (d.swant b).isSome || d.fin b then (d, "skip") else
      match xSelect d b want with
      | some (d', msg) => (d', s!"xsubmit {b} {msg} {tail d'}")
      | none =>
        let d := { d with blocked := upd d.blocked b true, xwant := upd d.xwant b (some want) }
        (d, s!"xsubmit {b} blocked {tail d}")
    | _, _ => (d, "skip")
  | ["shift", ns] =>
    match ns.toNat? with
    | none => (d, "skip")
    | some n =>
      if !d.started then (d, "skip") else
      if d.s.capMu.isSome then (d, "busy") else
      let (d, msg) := doShift d n (idleNow d)
      (d, s!"shift {n} {msg} {tail d}")
  | ["ssubmit", bs, ns] =>
    match bs.toNat?, ns.toNat? with
    | some b, some n =>
      if !d.started || b < 1 || b > 3 || (d.s.batch b).pc != .idle || d.isX b || (d.xwant b).isSome || (d.swant b).isSome || d.fin b then (d, "skip") else
      if d.s.capMu.isSome then
        let d := { d with blocked := upd d.blocked b true, swant := upd d.swant b (some (n, idleNow d)) }
        (d, s!"ssubmit {b} blocked {tail d}")
      else
        let (d, msg) := doShift d n (idleNow d)
        let d := { d with fin := upd d.fin b true }
        (d, s!"ssubmit {b} done {msg} {tail d}")
    | _, _ => (d, "skip")
  | "step" :: bs :: obs =>
    match bs.toNat? with
    | none => (d, "skip")
    | some b =>
      if d.fin b || d.blocked b || (d.s.batch b).pc == .idle || (d.s.batch b).pc == .done then (d, "skip") else
      -- `u=2,3`: the order in which the waiting batches were observed to get capMu
      let order := match obs with
        | [u] => if u.startsWith "u=" then ((u.drop 2).toString.splitOn ",").filterMap (·.toNat?) else []
        | _ => []
      let (d', msg) := stepBatch d b order
      if msg == "skip" then (d', "skip") else (d', s!"step {b} {msg} {tail d'}")
  | _ => (d, "bad-op")

/-! ### Trace inclusion (domain C12s): replay a log of genuinely concurrent Cap-bearing RPCs.
    Batch lines are logged by the RPC's goroutine while it holds capMu.  A `Delete` takes no cap
    lock: it is bracketed by `dpre` / `dpost`, and a count in between may or may not have seen it —
    the model takes its `delete` step at `dpost` at the latest, earlier when a count proves it. -/

structure T12 where
  cfg : Cfg
  s : St := init [] 0
  /-- Deletes in flight whose `delete` step the model has not taken yet -/
  openDel : List Nat := []
  /-- Deletes in flight taken early (the key, and that the record matched) -/
  early : List Nat := []
  /-- the PatchExpired call that holds capMu and has not reported its selection yet -/
  xheld : Option Nat := none
  xdone : List Nat := []
  /-- a batch has taken capMu and has not reported its count yet: the count is read somewhere in
      between, so a Delete that returns in this window may or may not have been seen -/
  counting : Bool := false
  /-- Deletes that returned inside the window (still listed in `openDel` until the count is known) -/
  finished : List Nat := []

def tfire (t : T12) (a : Act) : Option T12 := (step t.cfg t.s a).map (fun s' => { t with s := s' })
def tfireAll (t : T12) (as : List Act) : Option T12 := as.foldlM tfire t

def parsePatches (ws : List String) : Option (List (Nat × Bool)) :=
  ws.mapM fun w => match w.splitOn ":" with
    | [k, v] => k.toNat?.map (fun k => (k, v == "1"))
    | _ => none

/-- take `d` of the deletes in flight (matching records) now -/
def takeEarly (t : T12) : Nat → Option T12
  | 0 => some t
  | d + 1 =>
    match t.openDel.find? (fun k => t.s.recs.getD k false) with
    | none => none
    | some k =>
      match tfire t (.delete k) with
      | some t' => takeEarly { t' with openDel := t'.openDel.erase k, early := k :: t'.early } d
      | none => none

/-- the Delete of `k` has returned -/
def applyDpost (t : T12) (k : Nat) : T12 :=
  if t.early.contains k then { t with early := t.early.erase k } else
  let t0 := { t with openDel := t.openDel.erase k }
  -- a count saw one delete in flight and the model guessed another key: swap the guess
  let t0 := match t0.early with
    | k' :: rest =>
      if t0.s.recs.getD k false then
        { t0 with early := rest, openDel := k' :: t0.openDel,
                  s := { t0.s with recs := t0.s.recs.set k' true, present := t0.s.present.set k' true } }
      else t0
    | [] => t0
  (tfire t0 (.delete k)).getD t0

/-- the count is known: the Deletes that returned while it was being taken are final now -/
def closeWindow (t : T12) : T12 :=
  let t' := t.finished.foldl applyDpost t
  { t' with finished := [], counting := false }

def expectResult (t : T12) (x : Batch) (k : Nat) (post : Bool) : String :=
  let here := t.s.present.getD k false
  if !here && !x.create then "N" else
  let pre := if here then t.s.recs.getD k false else (if t.cfg.createPreFalse then false else x.seedMatches)
  if !pre && post && x.budget == 0 then "X" else if here then "P" else "C"

def tstep (t : T12) (line : String) : T12 × String :=
  match words line with
  | ["case", _] => ({ cfg := t.cfg }, line)
  | "init" :: ms :: toks =>
    match ms.toNat? with
    | some m =>
      -- (the stress harness gives r0..r5 an expiry, r6.. none)
      let exp := (List.range toks.length).map (fun i => decide (i < 6) && toks.getD i "-" != "-")
      ({ cfg := t.cfg, s := initE (toks.map (· == "1")) (toks.map (· != "-")) exp m }, "ok")
    | none => (t, "bad-op")
  | "submit" :: bs :: rest =>
    match bs.toNat? with
    | none => (t, "bad-op")
    | some b =>
      let (cr, ps) := match rest with
        | "c=a" :: ps => (some true, ps)
        | "c=i" :: ps => (some false, ps)
        | ps => (none, ps)
      match parsePatches ps with
      | none => (t, "bad-op")
      | some ps =>
        match tfire t (match cr with | some sm => .submitCreate b ps sm | none => .submit b ps) with
        | some t' => (t', "ok")
        | none => (t, "bad submit")
  | ["lock", bs] =>
    match bs.toNat? with
    | none => (t, "bad-op")
    | some b =>
      if t.xheld.isSome then (t, s!"bad lock: batch {b} holds capMu while PatchExpired call {t.xheld.getD 0} holds it") else
      -- (count-then-lock shape: the lock is the batch's second statement)
      match tfire t (if t.cfg.countAfterLock then .first b else .second b) with
      | some t' => if t'.s.capMu == some b then ({ t' with counting := t.cfg.countAfterLock }, "ok") else (t', s!"bad lock: not the model's lock step")
      | none => (t, s!"bad lock: batch {b} holds capMu while batch {(t.s.capMu.getD 0)} holds it in the model")
  | ["count", bs, cs] =>
    match bs.toNat?, cs.toNat? with
    | some b, some c =>
      let m := matching t.s
      if c > m then (t, s!"bad count: {c} records counted, the model has {m} matching") else
      match takeEarly t (m - c) with
      | none => (t, s!"bad count: {c} records counted, the model has {m} matching and only {(t.openDel.filter (fun k => t.s.recs.getD k false)).length} of them are being deleted")
      | some t1 =>
        match tfire t1 (if t.cfg.countAfterLock then .second b else .first b) with
        | some t2 => if (t2.s.batch b).counted == c then (closeWindow t2, "ok") else (closeWindow t2, "bad count")
        | none => (t, "bad count: not a step")
    | _, _ => (t, "bad-op")
  | ["patched", bs, ks, r] =>
    match bs.toNat?, ks.toNat? with
    | some b, some k =>
      let x := t.s.batch b
      match x.todo with
      | (k', post) :: _ =>
        if k' != k then (t, s!"bad patched: batch {b} patches r{k}, the model's next key is r{k'}") else
        let want := expectResult t x k post
        match tfire t (.patch b) with
        | some t' => if want == r then (t', "ok") else (t', s!"bad patched: r{k} → {r}, the model's four-cell rule gives {want} (budget {x.budget})")
        | none => (t, "bad patched: not a step (the batch does not hold capMu / has not counted)")
      | [] => (t, s!"bad patched: batch {b} has no patch left in the model")
    | _, _ => (t, "bad-op")
  | ["unlock", bs] =>
    match bs.toNat?.bind (fun b => tfire t (.unlock b)) with
    | some t' => (t', "ok")
    | none => (t, "bad unlock: the batch has patches left / never locked")
  | ["xsubmit", _, _] => (t, "ok")
  | ["xlock", bs] =>
    match bs.toNat? with
    | none => (t, "bad-op")
    | some b =>
      if t.s.capMu.isSome || t.xheld.isSome then (t, s!"bad xlock: PatchExpired call {b} holds capMu while another batch holds it")
      else ({ t with xheld := some b, counting := true }, "ok")
  | "xkeys" :: bs :: ks =>
    match bs.toNat?, ks.mapM (·.toNat?) with
    | some b, some ks =>
      if t.xheld != some b then (t, "bad xkeys: the call does not hold capMu") else
      -- a Delete in flight that the call's count has already seen enlarges its budget
      let short := ks.length - (t.s.max - (if t.cfg.expiredCountsAll then matching t.s else matchingExp t.s))
      let t := (takeEarly t short).getD t
      match tfireAll { t with xheld := none } [.submitExpired b ks, .first b, .second b] with
      | none => (t, "bad xkeys: not a step")
      | some t1 =>
        let kept := (t1.s.batch b).todo.map (·.1)
        if kept != ks then
          (closeWindow t1, s!"bad xkeys: {ks.length} records selected, the budget allows {(t1.s.batch b).budget} (max {t1.s.max}, matching {matching t.s})")
        else
          -- the per-record patches run before capMu is released; nothing else can interleave
          match tfireAll t1 (List.replicate ks.length (.patch b)) with
          | some t2 => (closeWindow { t2 with xdone := b :: t2.xdone }, "ok")
          | none => (t1, "bad xkeys: patches")
    | _, _ => (t, "bad-op")
  | ["xunlock", bs] =>
    match bs.toNat? with
    | none => (t, "bad-op")
    | some b =>
      if t.xdone.contains b then
        match tfire t (.unlock b) with
        | some t' => ({ t' with xdone := t'.xdone.erase b }, "ok")
        | none => (t, "bad xunlock")
      else if t.xheld == some b then (closeWindow { t with xheld := none }, "ok")   -- nothing was selected
      else (t, "bad xunlock: the call does not hold capMu")
  | ["dpre", ks] =>
    match ks.toNat? with
    | some k => ({ t with openDel := k :: t.openDel }, "ok")
    | none => (t, "bad-op")
  | ["dpost", ks] =>
    match ks.toNat? with
    | none => (t, "bad-op")
    | some k =>
      if t.counting && !t.early.contains k then ({ t with finished := k :: t.finished }, "ok")
      else (applyDpost t k, "ok")
  | "shift" :: ks =>
    match ks.mapM (·.toNat?) with
    | some ks =>
      match tfireAll t (ks.map .delete) with
      | some t' => (t', "ok")
      | none => (t, "bad shift")
    | none => (t, "bad-op")
  | ["quiet", ms] =>
    let fid := if !t.cfg.countAfterLock then "C12-count-before-capmu"
      else if !t.cfg.createPreFalse then "C12-create-counts-as-prematched"
      else if !t.cfg.expiredCountsAll then "C12-patchexpired-counts-expiring-records-only"
      else "C12-patchexpired-releases-capmu-early"
    if some (matching t.s) == ms.toNat? then (t, "ok" ++ (if matching t.s > t.s.max then "\t#F:" ++ fid else ""))
    else (t, s!"bad quiet: {ms} records match, model {matching t.s}")
  | ["hang"] => (t, "bad hang: an RPC never returned")
  | _ => (t, "bad-op")

def run (args : List String) : IO UInt32 := do
  let kv := parseArgs args
  if arg kv "mode" == "trace" then
    lineLoop tstep { cfg := { countAfterLock := arg kv "countAfterLock" == "yes", createPreFalse := arg kv "createPreFalse" != "no",
                              expiredHoldsCapMu := arg kv "expiredHoldsCapMu" != "no", expiredCountsAll := arg kv "expiredCountsAll" == "yes" } }
    return 0
  lineLoop stepLine { cfg := { countAfterLock := arg kv "countAfterLock" == "yes", createPreFalse := arg kv "createPreFalse" != "no",
                                expiredHoldsCapMu := arg kv "expiredHoldsCapMu" != "no", expiredCountsAll := arg kv "expiredCountsAll" == "yes" },
                      shiftReeval := arg kv "shiftReevaluatesFilter" != "no" }
  return 0

end Driver.C12
