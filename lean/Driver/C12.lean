import Driver.Util
import Hv.Conc.Cap

/-! Line-protocol driver for the Cap batch model (domain C12). Same ops and reply format as
    `/verif/harness/c12.go`: `step B` performs the batch's next LTS action; a lock action that is
    not enabled is reported `blocked` and performed as soon as the holder unlocks.  A reply carries
    `#F:C12-count-before-capmu` when the model state has more matching records than the cap. -/
namespace Driver.C12
open Hv.Cap

structure DSt where
  cfg : Cfg
  s : St := init [] 0
  started : Bool := false
  npatch : Nat → Nat := fun _ => 0
  results : Nat → List String := fun _ => []
  blocked : Nat → Bool := fun _ => false
  fin : Nat → Bool := fun _ => false
  /-- record still carries its expiry in the past (PatchExpired candidates) -/
  expiredRec : List Bool := []
  /-- PatchExpired batches: howMany of a batch that is blocked before its lock; selected count / capReached once selected -/
  xwant : Nat → Option Nat := fun _ => none
  xsel : Nat → Nat := fun _ => 0
  xreached : Nat → Bool := fun _ => false
  isX : Nat → Bool := fun _ => false

def upd {α : Type} (f : Nat → α) (b : Nat) (v : α) : Nat → α := fun x => if x = b then v else f x

def tail (d : DSt) : String :=
  let mu := if d.s.capMu.isSome then "held" else "free"
  let fid := if !d.cfg.countAfterLock then "C12-count-before-capmu"
    else if !d.cfg.createPreFalse then "C12-create-counts-as-prematched"
    else "C12-patchexpired-releases-capmu-early"
  s!"m={matching d.s} mu={mu}" ++ (if matching d.s > d.s.max then "\t#F:" ++ fid else "")

def act (d : DSt) (a : Act) : Option DSt :=
  (step d.cfg d.s a).map fun s' => { d with s := s' }

/-- the stop a batch is at after its lock/count statements: `mid` after the first, `patch` after the second -/
def stopName (d : DSt) (b : Nat) : String :=
  match (d.s.batch b).pc with
  | .half => "mid"
  | .run => "patch"
  | _ => "?"

/-- candidates of a PatchExpired: present, expired, not already claimed, oldest (lowest index) first -/
def candidates (d : DSt) : List Nat :=
  (List.range d.s.recs.length).filter fun k => d.s.present.getD k false && d.expiredRec.getD k false

/-- PatchExpired's lock + count + select (mirrors SelectExpiredForPatchWithCap) -/
def xSelect (d : DSt) (b want : Nat) : Option (DSt × String) :=
  let cands := candidates d
  match act d (.submitExpired b cands) with
  | none => none
  | some d1 =>
    match act d1 (.first b) with
    | none => none   -- capMu is held by the other batch
    | some d2 =>
      let budget := d2.s.max - matching d2.s
      match act d2 (.second b) with
      | none => none
      | some d3 =>
        let eff0 := if want == 0 then cands.length else want
        let eff := if budget < eff0 then budget else eff0
        -- the LTS keeps at most `budget` candidates; HowMany narrows further
        let keep := cands.take (min eff cands.length)
        let x := d3.s.batch b
        let d3 := { d3 with s := { d3.s with batch := fun y => if y = b then { x with todo := keep.map (·, true) } else d3.s.batch y } }
        -- (HowMany 0 means MaxInt in the code, so any finite budget `tightens` it: capReached)
        let reached := budget == 0 || want == 0 || budget < want || cands.length > keep.length
        -- claimed records leave the expiry index at once
        let d3 := { d3 with expiredRec := (List.range d3.expiredRec.length).map (fun k => d3.expiredRec.getD k false && !keep.contains k),
                            xsel := upd d3.xsel b keep.length, xreached := upd d3.xreached b reached, isX := upd d3.isX b true }
        let d3 := if d3.cfg.expiredHoldsCapMu then d3 else (act d3 (.unlockEarly b)).getD d3
        if budget == 0 || keep.isEmpty then
          -- nothing selected: the call returns at once
          let d4 := (act d3 (.unlock b)).getD d3
          some ({ d4 with fin := upd d4.fin b true }, s!"done patched=0 reached={reached}")
        else some (d3, s!"selected={keep.length}")

/-- let a blocked batch in after the holder has left -/
def unblock (d : DSt) (o : Nat) : DSt × String :=
  if !d.blocked o then (d, "") else
  match d.xwant o with
  | some want =>
    match xSelect { d with s := { d.s with batch := fun y => if y = o then Batch.empty else d.s.batch y } } o want with
    | some (d', msg) => ({ d' with blocked := upd d'.blocked o false, xwant := upd d'.xwant o none }, s!" unblocked={o}@{msg}")
    | none => (d, " unblocked-timeout")
  | none =>
    let a := if (d.s.batch o).pc == .ready then Act.first o else Act.second o
    match act d a with
    | some d' =>
      let d' := { d' with blocked := upd d'.blocked o false }
      (d', s!" unblocked={o}@{stopName d' o}")
    | none => (d, " unblocked-timeout")

/-- perform the last patch's successor: the deferred unlock, and let a blocked batch in -/
def finish (d : DSt) (b : Nat) : DSt × String :=
  let d := (act d (.unlock b)).getD d
  let d := { d with fin := upd d.fin b true }
  let msg := if d.isX b then s!"done patched={d.xsel b} reached={d.xreached b}"
    else
      let rs := ",".intercalate (d.results b)
      s!"done r=[{rs}] reached={(d.results b).contains "X"}"
  let (d, u) := unblock d (3 - b)
  (d, msg ++ u)

def stepBatch (d : DSt) (b : Nat) : DSt × String :=
  let x := d.s.batch b
  match x.pc with
  | .ready =>
    match act d (.first b) with
    | some d' => (d', "mid")
    | none => ({ d with blocked := upd d.blocked b true }, "blocked")
  | .half =>
    match act d (.second b) with
    | some d' => (d', "patch")
    | none => ({ d with blocked := upd d.blocked b true }, "blocked")
  | .run =>
    if d.isX b then
      -- the per-record patches of a PatchExpired run to the end of the call
      let d := x.todo.foldl (fun d _ => (act d (.patch b)).getD d) d
      finish d b
    else
    let before := x.rejected
    let nfBefore := x.notFound
    let wasThere := match x.todo with | (k, _) :: _ => d.s.present.getD k false | [] => true
    match act d (.patch b) with
    | some d' =>
      let r := if (d'.s.batch b).rejected > before then "X"
        else if (d'.s.batch b).notFound > nfBefore then "N"
        else if wasThere then "P" else "C"
      let d' := { d' with results := upd d'.results b (d'.results b ++ [r]) }
      if (d'.s.batch b).todo.isEmpty then finish d' b else (d', "patch")
    | none => (d, "skip")
  | _ => (d, "skip")

def parsePatch (s : String) : Option (Nat × Bool) :=
  match s.splitOn ":" with
  | [k, v] => k.toNat?.map (fun k => (k, v == "1"))
  | _ => none

def stepLine (d : DSt) (line : String) : DSt × String :=
  match words line with
  | "case" :: _ => ({ cfg := d.cfg }, line)
  | "init" :: m :: recs =>
    match m.toNat? with
    | none => (d, "bad-op")
    | some mx =>
      let d := { d with s := initP (recs.map (· == "1")) (recs.map (· != "-")) mx, started := true,
                        expiredRec := recs.map (· != "-") }
      (d, s!"init {tail d}")
  | "submit" :: bs :: ps =>
    match bs.toNat? with
    | none => (d, "skip")
    | some b =>
      if !d.started || ps.isEmpty || b < 1 || b > 2 || (d.s.batch b).pc != .idle || d.isX b || (d.xwant b).isSome then (d, "skip") else
      let patches := ps.filterMap parsePatch
      let a := if ps.contains "c=a" then Act.submitCreate b patches true
               else if ps.contains "c=i" then Act.submitCreate b patches false
               else Act.submit b patches
      match act d a with
      | some d' => ({ d' with npatch := upd d'.npatch b patches.length }, s!"submit {b} pre {tail d'}")
      | none => (d, "skip")
  | ["xsubmit", bs, ns] =>
    match bs.toNat?, ns.toNat? with
    | some b, some want =>
      if !d.started || b < 1 || b > 2 || (d.s.batch b).pc != .idle || d.isX b || (d.xwant b).isSome then (d, "skip") else
      match xSelect d b want with
      | some (d', msg) => (d', s!"xsubmit {b} {msg} {tail d'}")
      | none =>
        let d := { d with blocked := upd d.blocked b true, xwant := upd d.xwant b (some want) }
        (d, s!"xsubmit {b} blocked {tail d}")
    | _, _ => (d, "skip")
  | ["shift", ns] =>
    match ns.toNat? with
    | none => (d, "skip")
    | some n =>
      if !d.started then (d, "skip") else
      if d.s.capMu.isSome then (d, "busy") else
      -- mirrors beacon.ShiftMatching: budget = cap − matching bounds the number shifted
      let idle := (List.range d.s.recs.length).filter fun k => d.s.present.getD k false && !(d.s.recs.getD k false)
      let budget := d.s.max - matching d.s
      if n == 0 then (d, s!"shift {n} shifted=0 reached=false {tail d}") else
      if budget == 0 then (d, s!"shift {n} shifted=0 reached=true {tail d}") else
      let eff := if budget < n then budget else n
      let take := idle.take eff
      let reached := budget < n || idle.length > take.length
      let d := take.foldl (fun d k => (act d (.delete k)).getD d) d
      (d, s!"shift {n} shifted={take.length} reached={reached} {tail d}")
  | ["step", bs] =>
    match bs.toNat? with
    | none => (d, "skip")
    | some b =>
      if d.fin b || d.blocked b || (d.s.batch b).pc == .idle || (d.s.batch b).pc == .done then (d, "skip") else
      let (d', msg) := stepBatch d b
      if msg == "skip" then (d', "skip") else (d', s!"step {b} {msg} {tail d'}")
  | _ => (d, "bad-op")

def run (args : List String) : IO UInt32 := do
  let kv := parseArgs args
  lineLoop stepLine { cfg := { countAfterLock := arg kv "countAfterLock" == "yes", createPreFalse := arg kv "createPreFalse" != "no",
                                expiredHoldsCapMu := arg kv "expiredHoldsCapMu" != "no" } }
  return 0

end Driver.C12
