import Driver.Util
import Hv.Conc.Cap

/-! Line-protocol driver for the Cap batch model (domain C12). Same ops and reply format as
    `/verif/harness/c12.go`: `step B` performs the batch's next LTS action; a lock action that is
    not enabled is reported `blocked` and performed as soon as the holder unlocks.  A reply carries
    `#F:C12-count-before-capmu` when the model state has more matching records than the cap. -/
namespace Driver.C12
open Hv.Cap

structure DSt where
  cfg : Cfg
  s : St := init [] 0
  started : Bool := false
  npatch : Nat → Nat := fun _ => 0
  results : Nat → List String := fun _ => []
  blocked : Nat → Bool := fun _ => false
  fin : Nat → Bool := fun _ => false

def upd {α : Type} (f : Nat → α) (b : Nat) (v : α) : Nat → α := fun x => if x = b then v else f x

def tail (d : DSt) : String :=
  let mu := if d.s.capMu.isSome then "held" else "free"
  s!"m={matching d.s} mu={mu}" ++ (if matching d.s > d.s.max then "\t#F:C12-count-before-capmu" else "")

def act (d : DSt) (a : Act) : Option DSt :=
  (step d.cfg d.s a).map fun s' => { d with s := s' }

/-- the stop a batch is at after its lock/count statements: `mid` after the first, `patch` after the second -/
def stopName (d : DSt) (b : Nat) : String :=
  match (d.s.batch b).pc with
  | .half => "mid"
  | .run => "patch"
  | _ => "?"

/-- perform the last patch's successor: the deferred unlock, and let a blocked batch in -/
def finish (d : DSt) (b : Nat) : DSt × String :=
  let d := (act d (.unlock b)).getD d
  let d := { d with fin := upd d.fin b true }
  let rs := ",".intercalate (d.results b)
  let reached := (d.results b).contains "X"
  let msg := s!"done r=[{rs}] reached={reached}"
  let o := 3 - b
  if d.blocked o then
    let a := if (d.s.batch o).pc == .ready then Act.first o else Act.second o
    match act d a with
    | some d' =>
      let d' := { d' with blocked := upd d'.blocked o false }
      (d', msg ++ s!" unblocked={o}@{stopName d' o}")
    | none => (d, msg ++ " unblocked-timeout")
  else (d, msg)

def stepBatch (d : DSt) (b : Nat) : DSt × String :=
  let x := d.s.batch b
  match x.pc with
  | .ready =>
    match act d (.first b) with
    | some d' => (d', "mid")
    | none => ({ d with blocked := upd d.blocked b true }, "blocked")
  | .half =>
    match act d (.second b) with
    | some d' => (d', "patch")
    | none => ({ d with blocked := upd d.blocked b true }, "blocked")
  | .run =>
    let before := x.rejected
    match act d (.patch b) with
    | some d' =>
      let r := if (d'.s.batch b).rejected > before then "X" else "P"
      let d' := { d' with results := upd d'.results b (d'.results b ++ [r]) }
      if (d'.s.batch b).todo.isEmpty then finish d' b else (d', "patch")
    | none => (d, "skip")
  | _ => (d, "skip")

def parsePatch (s : String) : Option (Nat × Bool) :=
  match s.splitOn ":" with
  | [k, v] => k.toNat?.map (fun k => (k, v == "1"))
  | _ => none

def stepLine (d : DSt) (line : String) : DSt × String :=
  match words line with
  | "case" :: _ => ({ cfg := d.cfg }, line)
  | "init" :: m :: recs =>
    match m.toNat? with
    | none => (d, "bad-op")
    | some mx =>
      let d := { d with s := init (recs.map (· == "1")) mx, started := true }
      (d, s!"init {tail d}")
  | "submit" :: bs :: ps =>
    match bs.toNat? with
    | none => (d, "skip")
    | some b =>
      if !d.started || ps.isEmpty || b < 1 || b > 2 || (d.s.batch b).pc != .idle then (d, "skip") else
      let patches := ps.filterMap parsePatch
      match act d (.submit b patches) with
      | some d' => ({ d' with npatch := upd d'.npatch b patches.length }, s!"submit {b} pre {tail d'}")
      | none => (d, "skip")
  | ["step", bs] =>
    match bs.toNat? with
    | none => (d, "skip")
    | some b =>
      if d.fin b || d.blocked b || (d.s.batch b).pc == .idle || (d.s.batch b).pc == .done then (d, "skip") else
      let (d', msg) := stepBatch d b
      if msg == "skip" then (d', "skip") else (d', s!"step {b} {msg} {tail d'}")
  | _ => (d, "bad-op")

def run (args : List String) : IO UInt32 := do
  let kv := parseArgs args
  lineLoop stepLine { cfg := { countAfterLock := arg kv "countAfterLock" == "yes" } }
  return 0

end Driver.C12
