import Driver.Util

/-! Placeholder: the line-protocol driver of domain C12 is not written yet. -/
namespace Driver.C12

def run (_args : List String) : IO UInt32 := do
  IO.eprintln "drv: domain C12 has no driver yet"
  return 2

end Driver.C12
