import Driver.Util

/-! Placeholder: the line-protocol driver of domain C11 is not written yet. -/
namespace Driver.C11

def run (_args : List String) : IO UInt32 := do
  IO.eprintln "drv: domain C11 has no driver yet"
  return 2

end Driver.C11
