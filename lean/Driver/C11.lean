import Driver.Util
import Hv.Conc.Claim

/-! Line-protocol driver of domain C11 (same ops and reply format as `/verif/harness/c11.go`). -/
namespace Driver.C11
open Hv.Claim

structure Th where
  name : String
  id : Nat
  kind : String
  how : Nat
  filt : Option Nat
  off : Int
  newStatus : Nat
  key : Nat
  stage : String       -- cand | selected | beforeReindex | delheld | shiftsel | guard | stuck | done
  result : String
  /-- shift claims: what the selection pass took (key, rendering of the copy taken there) -/
  taken : List (Nat × String) := []

structure DSt where
  cfg : Cfg
  /-- lock-order facts: the selection pass takes record guards under the beacon lock; deleteHandler
      updates the beacons while holding the record guard -/
  guardUnderBeaconLock : Bool
  beaconUnderGuard : Bool
  mode : String
  sp : St × Bool
  ths : List Th

def statusCode (s : String) : Nat :=
  match s with | "pending" => 1 | "done" => 2 | "keep" => 3 | "leased" => 4 | "again" => 5 | _ => 9

def statusName (n : Nat) : String :=
  match n with | 1 => "pending" | 2 => "done" | 3 => "keep" | 4 => "leased" | 5 => "again" | _ => "?"

def keyNum (k : String) : Option Nat := if k.startsWith "k" then (k.drop 1).toString.toNat? else none
def keyName (n : Nat) : String := s!"k{n}"

def tid (n : String) : Nat :=
  match n with | "A" => 1 | "B" => 2 | "P" => 3 | "D" => 4 | "S" => 5 | _ => 6

def showKeys (s : St) (ks : List Nat) : String :=
  "[" ++ ",".intercalate (ks.map (fun k => s!"{keyName k}:{if (s.recs k).void then "void" else statusName (s.recs k).status}")) ++ "]"

def sortNat (l : List Nat) : List Nat := (l.toArray.qsort (· < ·)).toList

/-- records with the same expiration time have no specified order among themselves: each run of equal times is
    printed sorted by key -/
def canonIdx (s : St) (l : List Nat) : List Nat :=
  let (done, cur) := l.foldl (fun (acc : List Nat × List Nat) k =>
    match acc.2 with
    | [] => (acc.1, [k])
    | c :: _ => if (s.recs c).exp == (s.recs k).exp then (acc.1, acc.2 ++ [k]) else (acc.1 ++ sortNat acc.2, [k])) ([], [])
  done ++ sortNat cur

def stateLine (s : St) : String :=
  let present := sortNat (s.born.filter (fun k => (s.recs k).present))
  s!"idx=[{",".intercalate ((canonIdx s s.index).map keyName)}] keys={showKeys s present}"

def doStep (d : DSt) (a : Act) : Option (St × Bool) := step d.cfg d.sp a

/-- a delete thread parked inside deleteHandler holds the guard of this key -/
def heldKeys (d : DSt) : List Nat := (d.ths.filter (·.stage == "delheld")).map (·.key)

def setTh (d : DSt) (t : Th) : DSt := { d with ths := d.ths.map (fun u => if u.name == t.name then t else u) }

def showRec (s : St) (k : Nat) : String := s!"{keyName k}:{if (s.recs k).void then "void" else statusName (s.recs k).status}"

/-- the selection pass of a shift claim: what it took, with the copies made there -/
def selectShift (d : DSt) (c n : Nat) (want : Option Nat) (hide : List Nat := []) : Option (DSt × List (Nat × String)) :=
  -- a pass that only tries the guards skips the records whose guard is held; they stay indexed
  -- (`hide`: the records outside the time window of the request, which the predicate rejects)
  let held := (if d.guardUnderBeaconLock then [] else heldKeys d) ++ hide
  let idx0 := d.sp.1.index
  let d := if held.isEmpty then d else { d with sp := ({ d.sp.1 with index := idx0.filter (fun k => !held.contains k) }, d.sp.2) }
  match doStep d (.shift c n want) with
  | none => none
  | some sp0 =>
    let sp' := if held.isEmpty then sp0 else
      ({ sp0.1 with index := idx0.filter (fun k => held.contains k || sp0.1.index.contains k) }, sp0.2)
    some ({ d with sp := sp' }, (sp'.1.shsel c).map (fun e => (e.1, showRec d.sp.1 e.1)))

/-- the per-record delete steps; the reply lists what is handed out.  A claim the Spec rejects is flagged by cause. -/
def deleteShift (d : DSt) (c : Nat) (taken : List (Nat × String)) : DSt × String :=
  let want := d.sp.1.shwant c
  let emptyCand := want.isSome && candEmpty d.sp.1 c
  let (d', out, flags) := taken.foldl (fun (acc : DSt × List String × List String) e =>
    let d0 := acc.1
    let s0 := d0.sp.1
    let r := s0.recs e.1
    let selVer := ((s0.shsel c).find? (fun x => x.1 == e.1)).map (·.2)
    match doStep d0 (.shiftDel c e.1) with
    | none => (d0, acc.2.1 ++ [s!"{keyName e.1}:ERR"], acc.2.2)
    | some sp' =>
      let news := sp'.1.claimed.drop s0.claimed.length
      let shown := if d0.cfg.deleteRevalidates then showRec s0 e.1 else e.2
      let out' := if news.isEmpty then acc.2.1 else acc.2.1 ++ [shown]
      let fl := if news.any (fun cl => !cl.ok) then
          (if !d0.cfg.deleteRevalidates && (!r.present || selVer != some r.ver) then ["C11-shift-delete-not-revalidated"]
           else if emptyCand then ["C11-empty-candidate-set-matches-all"]
           else if want.isSome && r.present then ["C11-stale-candidate-set"]
           else ["C11-claim-returns-deleted-record"])
        else []
      ({ d0 with sp := sp' }, out', acc.2.2 ++ fl.filter (fun f => !acc.2.2.contains f))) (d, [], [])
  (d', "keys=[" ++ ",".intercalate out ++ "]" ++ String.join (flags.map (fun f => "\t#F:" ++ f)))

/-- a synchronous shift claim -/
def doShift (d : DSt) (c n : Nat) (want : Option Nat) (hide : List Nat := []) : DSt × String :=
  match selectShift d c n want hide with
  | none => (d, "ERR")
  | some (d1, taken) => deleteShift d1 c taken

def patchAll (d : DSt) (t : Th) : DSt × String :=
  let sel := d.sp.1.sel t.id
  let (d', out, bad) := sel.foldl (fun (acc : DSt × List String × Bool) k =>
    let d0 := acc.1
    let r := d0.sp.1.recs k
    let code := if r.void || (d0.cfg.patchChecksExists && !r.present) then "KEY_NOT_FOUND" else "PATCHED"
    let resurrect := code == "PATCHED" && !r.present
    match doStep d0 (.ppatch t.id k t.newStatus t.off) with
    | some sp' => ({ d0 with sp := sp' }, acc.2.1 ++ [s!"{keyName k}:{code}"], acc.2.2 || resurrect)
    | none => (d0, acc.2.1 ++ [s!"{keyName k}:ERR"], acc.2.2)) (d, [], false)
  (d', "patched=[" ++ ",".intercalate out ++ "]" ++ (if bad then "\t#F:C11-patch-resurrects-deleted" else ""))

def advance (d : DSt) (t : Th) : DSt × String :=
  match t.kind, t.stage with
  | "shiftm", "cand" =>
    match selectShift d t.id t.how t.filt with
    | none => (d, "ERR")
    | some (d', taken) => (setTh d' { t with stage := "shiftsel", taken := taken }, s!"{t.name}@shift.selected")
  | "shiftm", "shiftsel" =>
    let (d', r) := deleteShift d t.id t.taken
    (setTh d' { t with stage := "done" }, s!"{t.name} done {r}")
  | "shiftexp", "shiftsel" =>
    let (d', r) := deleteShift d t.id t.taken
    (setTh d' { t with stage := "done" }, s!"{t.name} done {r}")
  | "shiftexp", "guard" => (d, s!"{t.name} stuck")
  | "pexp", "cand" =>
    match doStep d (.pselect t.id t.how true) with
    | none => (d, "ERR")
    | some sp' =>
      let bad := (sp'.1.pclaimed.drop d.sp.1.pclaimed.length).any (fun cl => !cl.ok)
      let flag := if bad then "\t#F:C11-stale-candidate-set" else ""
      if (sp'.1.sel t.id).isEmpty then (setTh { d with sp := sp' } { t with stage := "done" }, s!"{t.name} done patched=[]" ++ flag)
      else (setTh { d with sp := sp' } { t with stage := "selected" }, s!"{t.name}@pexp.selected" ++ flag)
  | "pexp", "selected" =>
    let (d', r) := patchAll d t
    (setTh d' { t with stage := "beforeReindex", result := r }, s!"{t.name}@pexp.beforeReindex" ++
      (if (r.splitOn "\t").length > 1 then "\t" ++ "\t".intercalate ((r.splitOn "\t").drop 1) else ""))
  | "pexp", "beforeReindex" =>
    match doStep d (.preindex t.id) with
    | none => (d, "ERR")
    | some sp' =>
      let dead := sp'.1.index.any (fun k => !(sp'.1.recs k).present)
      (setTh { d with sp := sp' } { t with stage := "done" },
       s!"{t.name} done {(t.result.splitOn "\t").headD ""}" ++ (if dead then "\t#F:C11-reindex-resurrects-deleted" else ""))
  | "del", "delheld" =>
    -- is a claimer queued on this record's guard while holding the beacon lock?
    if d.ths.any (fun u => u.stage == "guard") && d.beaconUnderGuard then
      (setTh d { t with stage := "stuck" }, s!"{t.name} stuck\t#F:C11-claim-delete-deadlock")
    else
      match doStep d (.delete t.key) with
      | some sp' => (setTh { d with sp := sp' } { t with stage := "done" }, s!"{t.name} done DELETED")
      | none => (setTh d { t with stage := "done" }, s!"{t.name} done NOT_FOUND")
  | _, _ => (d, "bad-op")

def spawn (d : DSt) (ws : List String) : DSt × String :=
  match ws with
  | ["spawn", n, "shiftm", how, st] =>
    match how.toNat?, doStep d (.snapshot (tid n) (statusCode st)) with
    | some h, some sp' =>
      let t : Th := { name := n, id := tid n, kind := "shiftm", how := h, filt := some (statusCode st), off := 0, newStatus := 0,
                      key := 0, stage := "cand", result := "" }
      ({ d with sp := sp', ths := d.ths ++ [t] }, s!"{n}@claim.candidates")
    | _, _ => (d, "bad-op")
  | ["spawn", n, "shiftexp", how] =>
    match how.toNat? with
    | some h =>
      let t : Th := { name := n, id := tid n, kind := "shiftexp", how := h, filt := none, off := 0, newStatus := 0, key := 0,
                      stage := "shiftsel", result := "" }
      -- the pass takes the guard of every indexed record in turn
      if d.guardUnderBeaconLock && d.sp.1.index.any (fun k => (heldKeys d).contains k) then
        ({ d with ths := d.ths ++ [{ t with stage := "guard" }] }, s!"{n}@guard")
      else
        match selectShift d (tid n) h none with
        | none => (d, "ERR")
        | some (d', taken) => ({ d' with ths := d'.ths ++ [{ t with taken := taken }] }, s!"{n}@shift.selected")
    | none => (d, "bad-op")
  | ["spawn", n, "pexp", how, f, off, ns] =>
    match how.toNat?, off.toInt? with
    | some h, some o =>
      let t : Th := { name := n, id := tid n, kind := "pexp", how := h, filt := if f == "-" then none else some (statusCode f),
                      off := o, newStatus := statusCode ns, key := 0, stage := "cand", result := "" }
      if f == "-" then
        match doStep d (.pselect (tid n) h false) with
        | none => (d, "ERR")
        | some sp' =>
          if (sp'.1.sel (tid n)).isEmpty then ({ d with sp := sp', ths := d.ths ++ [{ t with stage := "done" }] }, s!"{n} done patched=[]")
          else ({ d with sp := sp', ths := d.ths ++ [{ t with stage := "selected" }] }, s!"{n}@pexp.selected")
      else
        match doStep d (.snapshot (tid n) (statusCode f)) with
        | some sp' => ({ d with sp := sp', ths := d.ths ++ [t] }, s!"{n}@claim.candidates")
        | none => (d, "ERR")
    | _, _ => (d, "bad-op")
  | ["spawn", n, "del", k] =>
    match keyNum k with
    | some kn =>
      let t : Th := { name := n, id := tid n, kind := "del", how := 0, filt := none, off := 0, newStatus := 0, key := kn,
                      stage := "delheld", result := "" }
      if (d.sp.1.recs kn).present then ({ d with ths := d.ths ++ [t] }, s!"{n}@del.acquired")
      else ({ d with ths := d.ths ++ [{ t with stage := "done" }] }, s!"{n} done NOT_FOUND")
    | none => (d, "bad-op")
  | _ => (d, "bad-op")

def step (d : DSt) (line : String) : DSt × String :=
  match words line with
  | ["case", _, mode, kind] => ({ d with mode := mode, sp := init (kind == "p0"), ths := [] }, line)
  | ws =>
    if d.mode == "forced" then
      match ws with
      | ["seed", k, st, off] =>
        match keyNum k, off.toInt? with
        | some kn, some o =>
          match doStep d (.seed kn (statusCode st) o) with
          | some sp' => ({ d with sp := sp' }, "CREATED")
          | none => (d, "ERR")
        | _, _ => (d, "bad-op")
      | "spawn" :: n :: _ => if d.ths.any (·.name == n) then (d, "bad-op") else spawn d ws
      | ["go", n] =>
        match d.ths.find? (·.name == n) with
        | some t => if t.stage == "done" then (d, "bad-op") else advance d t
        | none => (d, "bad-op")
      | ["poll", n] =>
        match d.ths.find? (·.name == n) with
        | some t => if t.stage == "guard" || t.stage == "stuck" then (d, s!"{n} stuck") else (d, "bad-op")
        | none => (d, "bad-op")
      | ["patch", k, st] =>
        match keyNum k with
        | some kn =>
          match doStep d (.setStatus kn (statusCode st)) with
          | some sp' =>
            -- the record's expirationTimeChanged flag is sticky: every save refreshes the expiration index
            match Hv.Claim.step d.cfg sp' (.expIndex kn) with
            | some sp2 => ({ d with sp := sp2 }, "PATCHED")
            | none => ({ d with sp := sp' }, "PATCHED")
          | none => (d, "KEY_NOT_FOUND")
        | none => (d, "bad-op")
      | ["del", k] =>
        match keyNum k with
        | some kn =>
          match doStep d (.delete kn) with
          | some sp' => ({ d with sp := sp' }, "DELETED")
          | none => (d, "NOT_FOUND")
        | none => (d, "bad-op")
      | ["shiftexp", how] =>
        match how.toNat? with
        | some h => doShift d 7 h none
        | none => (d, "bad-op")
      | ["shiftm", how, st] =>
        match how.toNat?, doStep d (.snapshot 8 (statusCode st)) with
        | some h, some sp' => doShift { d with sp := sp' } 8 h (some (statusCode st))
        | _, _ => (d, "bad-op")
      | ["shiftmm", how, mx, st] =>
        -- MaxResults bounds HowMany
        match how.toNat?, mx.toNat?, doStep d (.snapshot 8 (statusCode st)) with
        | some h, some m, some sp' => doShift { d with sp := sp' } 8 (if m > 0 && m < h then m else h) (some (statusCode st))
        | _, _, _ => (d, "bad-op")
      | ["shiftw", how, lo, hi, st] =>
        -- FromTime / ToTime on the expiration time: the half-open window [lo, hi)
        match how.toNat?, lo.toInt?, hi.toInt?, doStep d (.snapshot 8 (statusCode st)) with
        | some h, some l, some u, some sp' =>
          let outside := sp'.1.index.filter (fun k => !(l ≤ (sp'.1.recs k).exp && (sp'.1.recs k).exp < u))
          doShift { d with sp := sp' } 8 h (some (statusCode st)) outside
        | _, _, _, _ => (d, "bad-op")
      | ["state"] => (d, stateLine d.sp.1)
      | _ => (d, "bad-op")
    else if d.mode == "stress" then
      match ws with
      | ["stress", _, r, _] =>
        match r.toNat? with
        | some n => (d, s!"ok claimed={n} dup=0 overmax=0 disorder=0 left=0")
        | none => (d, "bad-op")
      | _ => (d, "bad-op")
    else (d, "bad-op")

def run (args : List String) : IO UInt32 := do
  let kv := parseArgs args
  let yes := fun (k : String) => arg kv k == "yes"
  let cfg : Cfg := { selectAtomic := yes "selectUnderLock", counterLe := arg kv "counterCmp" == "le",
                     checksExpNonZero := yes "checksExpNonZero", rechecksIndexedLeg := yes "rechecksIndexedLeg",
                     reindexChecksExists := yes "reindexChecksExists", patchChecksExists := yes "patchChecksExists",
                     emptyCandMeansAll := yes "emptyCandMeansAll", deleteRevalidates := yes "shiftDeleteRevalidates" }
  lineLoop step { cfg := cfg, guardUnderBeaconLock := arg kv "guardUnderBeaconLock" != "no",
                  beaconUnderGuard := arg kv "beaconUnderGuard" != "no", mode := "", sp := init false, ths := [] }
  return 0

end Driver.C11
