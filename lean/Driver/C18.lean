import Driver.Util
import Hv.Conc.Summon

/-! Line-protocol driver for the summon wait-slot model (domain C18). Same ops and reply format
    as `/verif/harness/c18.go`: `go T` performs the LTS actions of summoner `T` up to the place
    where the harness stops the real goroutine next.  A reply carries
    `#F:C18-slot-dropped-while-in-use` when the model state has two live instances. -/
namespace Driver.C18
open Hv.Summon

structure DSt where
  cfg : Cfg
  s : St := init
  cancelled : Nat → Bool := fun _ => false
  destroyed : List Nat := []
  /-- reference-counted variant: outcome of the atomic decrement+delete, reported at the thread's last step -/
  delFlag : Nat → Option Bool := fun _ => none
  /-- a stale callback has removed a live instance's map entry in this case -/
  staleUsed : Bool := false
  /-- the instance a thread left the body with -/
  got : Nat → Option Nat := fun _ => none
  /-- fact exitRechecksClosing -/
  exitRechecks : Bool := true

def act (d : DSt) (a : Act) : DSt :=
  match step d.cfg d.s a with
  | some s' => { d with s := s' }
  | none => d

def threads : List Nat := [1, 2, 3, 4, 5, 6]

def acts18 (d : DSt) (as : List Act) : DSt := as.foldl act d

def render (d : DSt) : String :=
  let s := d.s
  -- two live instances that sit on different wait slots come from the dropped slot; otherwise
  -- from a close callback that unmapped a live instance
  let finding := if d.staleUsed then "C18-stale-callback-unmaps-live-instance" else "C18-slot-dropped-while-in-use"
  let cur := match s.slotMap with | some k => toString k | none => "-"
  let slots := (List.range s.nextSlot).map fun k =>
    let sl := s.slots k
    s!"{k}:{if sl.owner.isSome then 1 else 0}:{sl.count}"
  s!"live={s.live.length} made={s.nextInst} mapped={if s.swampMap.isSome then 1 else 0} cur={cur} slots=[{" ".intercalate slots}]" ++
    (if s.live.length > 1 then "\t#F:" ++ finding else "")

def wokenOn (d : DSt) (σ : Nat) : List Nat :=
  threads.filter fun t => (d.s.thr t).pc == .woken && (d.s.thr t).slot == σ

/-- After a Broadcast on slot `σ`: every woken thread re-evaluates its loop once.  If the slot is
    free one of them enters — which one is the runtime's choice: the observed thread `obs` when
    the model enables it, else the lowest.  The others find `ready` set: a cancelled one gives up
    (its Broadcast wakes the sleepers again), the rest go back to sleep. -/
def settleSlot (d : DSt) (σ : Nat) (obs : Option Nat) : DSt × String :=
  let ws := wokenOn d σ
  let (d, entered) :=
    if (d.s.slots σ).owner.isNone then
      match (match obs with | some e => if ws.contains e then some e else ws.head? | none => ws.head?) with
      | some e => (act d (.enter e), some e)
      | none => (d, none)
    else (d, none)
  let rec loop (d : DSt) (gave : List Nat) : Nat → DSt × List Nat
    | 0 => (d, gave)
    | fuel + 1 =>
      match (wokenOn d σ).head? with
      | none => (d, gave)
      | some y =>
        if (d.s.slots σ).owner.isSome && d.cancelled y then
          let d := act d (.giveUp y)
          let d := if d.cfg.refCounted then act d (.leaveDec y) else d
          loop d (gave ++ [y]) fuel
        else loop (act d (.enter y)) gave fuel
  let (d, gave) := loop d [] 40
  let gave := gave.mergeSort (· ≤ ·)
  (d, (match entered with | some e => s!" woke={e}" | none => "") ++
      (if gave.isEmpty then "" else " gaveup=[" ++ ",".intercalate (gave.map toString) ++ "]"))

/-- `ready = false; Broadcast()` by `t`, then the woken threads settle -/
def unready (d : DSt) (t : Nat) (obs : Option Nat) : DSt × String :=
  let σ := (d.s.thr t).slot
  settleSlot (act d (.leaveUnready t)) σ obs

def goThread (d : DSt) (t : Nat) (obs : Option Nat := none) : DSt × String :=
  let x := d.s.thr t
  match x.pc with
  | .idle =>
    let d := act d (.lookup t)
    (d, s!"lookup slot={(d.s.thr t).slot}")
  | .looked =>
    let sl := d.s.slots x.slot
    if sl.owner.isSome && d.cancelled t then
      -- its Broadcast wakes the slot's sleepers, which find `ready` still set
      let d := act d (.giveUp t)
      -- (reference-counted variant: giving up releases the count at once)
      let d := if d.cfg.refCounted then act d (.leaveDec t) else d
      let (d, w) := settleSlot d x.slot obs
      (d, "gaveup" ++ w)
    else
      let d := act d (.enter t)
      (d, if (d.s.thr t).pc == .inCS then "inside" else "waiting")
  | .inCS =>
    if d.cancelled t then
      let (d, w) := unready (act d (.bodyCtxDone t)) t obs
      (d, "cancelled" ++ w)
    else
      let d := act d (.bodyGet t)
      if (d.s.thr t).pc == .creating then (d, "creating")
      else
        let d := { d with got := fun y => if y = t then d.s.swampMap else d.got y }
        let (d, w) := unready d t obs
        (d, "found" ++ w)
  | .creating =>
    let d := act (act d (.bodyCreate t)) (.bodyStore t)
    let d := { d with got := fun y => if y = t then d.s.swampMap else d.got y }
    let (d, w) := unready d t obs
    (d, "created" ++ w)
  | .left1 =>
    -- after `giveUp` in the reference-counted variant the thread is at `left1` too, but the
    -- harness has no stop there (the current code returns at once)
    if d.cfg.refCounted then
      let before := d.s.slotMap
      let d := act d (.leaveDec t)
      let deleted := before.isSome && d.s.slotMap.isNone
      ({ d with delFlag := fun y => if y = t then some deleted else d.delFlag y }, "dec")
    else (act d (.leaveDec t), "dec")
  | .left2 =>
    let zero := (d.s.slots x.slot).count == 0
    (act d (.leaveDel t), if zero then "deleted" else "kept")
  | .done =>
    match d.delFlag t with
    | some b =>
      -- the end of the deferred exit: a closed instance is not handed out, the call summons again — an ordinary
      -- entrant (thread id t+100) that runs to its end; the harness refuses the step while another call is under way
      let again := d.exitRechecks && !d.cancelled t && (match d.got t with | some i => !d.s.live.contains i | none => false)
      let busy := threads.any fun y => y != t && !((d.s.thr y).pc == .idle || (d.s.thr y).pc == .done)
      if again && busy then (d, "busy") else
      let d := { d with delFlag := fun y => if y = t then none else d.delFlag y }
      let msg := if b then "deleted" else "kept"
      let closedGot := !d.cancelled t && (match d.got t with | some i => !d.s.live.contains i | none => false)
      if !again then (d, msg ++ (if closedGot then " handed-closed" else "")) else
      let u := t + 100
      let d := acts18 d [.lookup u, .enter u, .bodyGet u]
      let d := if (d.s.thr u).pc == .creating then acts18 d [.bodyCreate u, .bodyStore u] else d
      let d := acts18 d ([.leaveUnready u, .leaveDec u] ++ (if d.cfg.refCounted then [] else [.leaveDel u]))
      -- (the id is free again for a later re-summon of the same call number)
      let d := { d with s := { d.s with thr := fun y => if y = u then ⟨.idle, 0⟩ else d.s.thr y } }
      (d, msg ++ " resummoned")
    | none => (d, "skip")
  | _ => (d, "skip")

def stepLine (d : DSt) (line : String) : DSt × String :=
  match words line with
  | "case" :: _ => ({ cfg := d.cfg, exitRechecks := d.exitRechecks }, line)
  | "go" :: ts :: obs =>
    match ts.toNat? with
    | none => (d, "bad-op")
    | some t =>
      if t < 1 || t > 6 then (d, "bad-op") else
      let (d', msg) := goThread d t (obs.head?.bind (·.toNat?))
      let fl := if (msg.splitOn "handed-closed").length > 1 then "\t#F:C18-hands-out-closed-instance" else ""
      if msg == "skip" || msg == "busy" then (d', msg) else (d', s!"go {t} {msg} {render d'}" ++ fl)
  | ["burst", ns] =>
    match ns.toNat? with
    | none => (d, "skip")
    | some n =>
      if n < 2 || n > 64 || d.s.nextSlot != 0 || d.s.nextInst != 0 then (d, "skip") else
      -- whatever the interleaving, `summon_mutex` leaves one instance; one sequential schedule for the state
      let d := (List.range n).foldl (fun d i =>
        let t := 1 + i % 6
        let d := { d with s := { d.s with thr := fun y => if y = t then ⟨.idle, 0⟩ else d.s.thr y } }
        let d := acts18 d [.lookup t, .enter t, .bodyGet t, .bodyCreate t, .bodyStore t, .leaveUnready t, .leaveDec t, .leaveDel t]
        d) d
      let slotleft := if d.cfg.refCounted then d.s.slotMap.isSome else true
      (d, s!"burst {n} ok errors=0 made={d.s.nextInst} mapped={d.s.swampMap.isSome} slotleft={slotleft}" ++
          (if d.s.live.length > 1 then "\t#F:C18-slot-dropped-while-in-use" else ""))
  | ["cancel", ts] =>
    match ts.toNat? with
    | none => (d, "skip")
    | some t =>
      let pc := (d.s.thr t).pc
      if pc == .idle || (pc == .done && (d.delFlag t).isNone) || d.cancelled t then (d, "skip") else
      let d := { d with cancelled := fun x => if x = t then true else d.cancelled x }
      (d, s!"cancel {t} {render d}")
  | ["close"] =>
    match d.s.swampMap with
    | some i =>
      let d := act d (.closeInst i)
      (d, s!"close ok {render d}")
    | none => (d, s!"close none {render d}")
  | ["closeold", ks] =>
    match ks.toNat? with
    | none => (d, "skip")
    | some k =>
      if !(d.s.published.contains k) then (d, "skip") else
      if d.s.live.contains k then
        let d := act d (.closeInst k)
        (d, s!"closeold {k} ok {render d}")
      else (d, s!"closeold {k} noop {render d}")
  | ["destroyold", ks] =>
    match ks.toNat? with
    | none => (d, "skip")
    | some k =>
      if !(d.s.published.contains k) then (d, "skip") else
      if d.destroyed.contains k then (d, s!"destroyold {k} noop {render d}") else
      let d := { d with destroyed := k :: d.destroyed }
      -- Destroy on a live instance closes it; on a dead one only its close callback runs again
      let mappedOther := d.s.swampMap.isSome && d.s.swampMap != some k
      let d := if d.s.live.contains k then act d (.closeInst k) else act d (.staleCallback k)
      let d := if mappedOther && d.s.swampMap.isNone then { d with staleUsed := true } else d
      (d, s!"destroyold {k} ok {render d}")
  | _ => (d, "bad-op")

/-! ### Trace inclusion (domain C18s): replay a log of genuinely concurrent SummonSwamp calls.
    `count` / `uncount` are logged under summonMu, `wait` / `ready` / `giveup` / `unready` under the
    slot's own mutex, body events by the (single) owner of the slot.  The close callback takes no
    lock: its line is logged before the `CompareAndDelete`. -/

structure T18 where
  cfg : Cfg
  s : St := init
  /-- log slot number ↦ model slot -/
  smap : List (Nat × Nat) := []
  /-- log instance number ↦ model instance -/
  imap : List (Nat × Nat) := []
  seq : Nat := 0
  /-- thread ↦ line at which it entered the body -/
  readyAt : List (Nat × Nat) := []
  /-- model instance ↦ line at which a callback took it out of the map -/
  unmapAt : List (Nat × Nat) := []

def fire (t : T18) (a : Act) : Option T18 := (step t.cfg t.s a).map (fun s' => { t with s := s' })

def showMap (t : T18) : String :=
  match t.s.slotMap with
  | none => "-"
  | some σ => match t.smap.find? (·.2 == σ) with
    | some p => toString p.1
    | none => "?"

def tline (t : T18) (line : String) : T18 × String :=
  match words line with
  | ["case", _] => ({ cfg := t.cfg }, line)
  | ["count", ts, ss, cs, ms] =>
    match ts.toNat?, ss.toNat?, cs.toInt? with
    | some th, some sl, some c =>
      match fire t (.lookup th) with
      | none => (t, "bad count: not a step (call number reused)")
      | some t1 =>
        let σ := (t1.s.thr th).slot
        let fresh := t.s.slotMap.isNone
        match t.smap.lookup sl with
        | some σ' =>
          if σ' != σ || fresh then (t1, s!"bad count: call {th} counted itself on slot object {sl}, which is not the slot mapped for the name (a slot dropped while in use)")
          else check t1 σ c ms
        | none =>
          if !fresh then (t1, s!"bad count: call {th} got a new slot object {sl} while slot {showMap t} is mapped")
          else check { t1 with smap := (sl, σ) :: t1.smap } σ c ms
    | _, _, _ => (t, "bad-op")
  | ["uncount", ts, _, cs, ms] =>
    match ts.toNat?, cs.toInt? with
    | some th, some c =>
      match fire t (.leaveDec th) with
      | none => (t, s!"bad uncount: call {th} is not at its decrement in the model")
      | some t1 => check t1 (t1.s.thr th).slot c ms
    | _, _ => (t, "bad-op")
  | ["wait", ts, _] =>
    match ts.toNat?.bind (fun th => (fire t (.enter th)).map (fun t1 => (th, t1))) with
    | some (th, t1) => if (t1.s.thr th).pc == .waiting then (t1, "ok") else (t1, s!"bad wait: call {th} goes to sleep, in the model the slot is free")
    | none => (t, "bad wait: the call re-evaluates its loop without a broadcast")
  | ["ready", ts, _] =>
    match ts.toNat?.bind (fun th => (fire t (.enter th)).map (fun t1 => (th, t1))) with
    | some (th, t1) =>
      if (t1.s.thr th).pc == .inCS then ({ t1 with readyAt := (th, t1.seq) :: t1.readyAt }, "ok")
      else (t1, s!"bad ready: call {th} enters the body while another call owns the slot: two calls in the body")
    | none => (t, "bad ready: the call re-evaluates its loop without a broadcast")
  | ["giveup", ts, _] =>
    match ts.toNat?.bind (fun th => fire t (.giveUp th)) with
    | some t1 => (t1, "ok")
    | none => (t, "bad giveup: not a step (the slot is free in the model)")
  | ["create", ts] =>
    match ts.toNat? with
    | none => (t, "bad-op")
    | some th =>
      match fire t (.bodyGet th) with
      | none => (t, s!"bad create: call {th} is not in the body")
      | some t1 =>
        if (t1.s.thr th).pc != .creating then (t, s!"bad create: call {th} constructs an instance while one is mapped") else
        match fire t1 (.bodyCreate th) with
        | some t2 =>
          if t2.s.live.length > 1 then (t2, s!"bad create: {t2.s.live.length} live instances of one swamp\t#F:C18-slot-dropped-while-in-use")
          else (t2, "ok")
        | none => (t, "bad create")
  | ["stored", ts, is] =>
    match ts.toNat?, is.toNat? with
    | some th, some i =>
      match (t.s.thr th).pc with
      | .created mi =>
        match fire t (.bodyStore th) with
        | some t1 => ({ t1 with imap := (i, mi) :: t1.imap }, "ok")
        | none => (t, "bad stored")
      | _ => (t, s!"bad stored: call {th} has not constructed an instance")
    | _, _ => (t, "bad-op")
  | ["found", ts, is] =>
    match ts.toNat?, is.toNat? with
    | some th, some i =>
      match t.imap.lookup i with
      | none => (t, s!"bad found: call {th} was handed an instance that was never stored")
      | some mi =>
        if (t.s.thr th).pc != .inCS then (t, s!"bad found: call {th} is not in the body") else
        if t.s.swampMap == some mi then
          match fire t (.bodyGet th) with
          | some t1 => (t1, "ok")
          | none => (t, "bad found")
        else
          -- the instance was unmapped after this call entered the body: its `bodyGet` (which only
          -- moves the call itself) commutes to before that callback
          let entered := (t.readyAt.lookup th).getD 0
          match t.unmapAt.lookup mi with
          | some at_ =>
            if at_ > entered then
              ({ t with s := { t.s with thr := setThr t.s th ⟨.leaving, (t.s.thr th).slot⟩ } }, "ok")
            else (t, s!"bad found: call {th} was handed instance {i}, which had left the map before the call entered the body")
          | none => (t, s!"bad found: call {th} was handed instance {i}, which is not the mapped one")
    | _, _ => (t, "bad-op")
  | ["unready", ts, _] =>
    match ts.toNat? with
    | none => (t, "bad-op")
    | some th =>
      let t0 := if (t.s.thr th).pc == .inCS then (fire t (.bodyCtxDone th)).getD t else t
      match fire t0 (.leaveUnready th) with
      | some t1 => (t1, "ok")
      | none => (t, s!"bad unready: call {th} is not leaving the body in the model")
  | ["callback", is] =>
    match is.toNat?.bind (fun i => t.imap.lookup i) with
    | none => (t, "bad callback: an instance that was never stored")
    | some mi =>
      let a := if mi ∈ t.s.live then Act.closeInst mi else Act.staleCallback mi
      match fire t a with
      | some t1 =>
        let t1 := if t.s.swampMap == some mi && t1.s.swampMap.isNone then { t1 with unmapAt := (mi, t1.seq) :: t1.unmapAt } else t1
        if t.s.swampMap.isSome && t.s.swampMap != some mi && t1.s.swampMap.isNone then
          (t1, "ok\t#F:C18-stale-callback-unmaps-live-instance")
        else (t1, "ok")
      | none => (t, "bad callback: not a step")
  | ["hang"] => (t, "bad hang: a SummonSwamp call never returned")
  | _ => (t, "bad-op")
where
  check (t : T18) (σ : Nat) (c : Int) (ms : String) : T18 × String :=
    if (t.s.slots σ).count != c then (t, s!"bad: slot count is {c}, model {(t.s.slots σ).count}")
    else if showMap t != ms then (t, s!"bad: the name is mapped to slot {ms}, model {showMap t}")
    else (t, "ok")

def tstep (t : T18) (line : String) : T18 × String :=
  let r := tline { t with seq := t.seq + 1 } line
  r

def run (args : List String) : IO UInt32 := do
  let kv := parseArgs args
  if arg kv "mode" == "trace" then
    lineLoop tstep { cfg := { refCounted := arg kv "refCounted" == "yes", callbackCompares := arg kv "callbackCompares" == "yes" } }
    return 0
  lineLoop stepLine { cfg := { refCounted := arg kv "refCounted" == "yes", callbackCompares := arg kv "callbackCompares" == "yes" },
                      exitRechecks := arg kv "exitRechecksClosing" != "no" }
  return 0

end Driver.C18
