import Driver.Util
import Hv.Conc.Summon

/-! Line-protocol driver for the summon wait-slot model (domain C18). Same ops and reply format
    as `/verif/harness/c18.go`: `go T` performs the LTS actions of summoner `T` up to the place
    where the harness stops the real goroutine next.  A reply carries
    `#F:C18-slot-dropped-while-in-use` when the model state has two live instances. -/
namespace Driver.C18
open Hv.Summon

structure DSt where
  cfg : Cfg
  s : St := init
  cancelled : Nat → Bool := fun _ => false

def act (d : DSt) (a : Act) : DSt :=
  match step d.cfg d.s a with
  | some s' => { d with s := s' }
  | none => d

def threads : List Nat := [1, 2, 3, 4, 5, 6]

def render (d : DSt) : String :=
  let s := d.s
  let cur := match s.slotMap with | some k => toString k | none => "-"
  let slots := (List.range s.nextSlot).map fun k =>
    let sl := s.slots k
    s!"{k}:{if sl.owner.isSome then 1 else 0}:{sl.count}"
  s!"live={s.live.length} mapped={if s.swampMap.isSome then 1 else 0} cur={cur} slots=[{" ".intercalate slots}]" ++
    (if s.live.length > 1 then "\t#F:C18-slot-dropped-while-in-use" else "")

/-- the waiter of slot `σ`, if any -/
def waiterOf (d : DSt) (σ : Nat) : Option Nat :=
  threads.find? fun t => (d.s.thr t).pc == .waiting && (d.s.thr t).slot == σ

/-- `ready = false; Broadcast()` by `t`, then the woken waiter (if any) enters -/
def unready (d : DSt) (t : Nat) : DSt × String :=
  let σ := (d.s.thr t).slot
  let w := waiterOf d σ
  let d := act d (.leaveUnready t)
  match w with
  | some x => (act d (.enter x), s!" woke={x}")
  | none => (d, "")

def goThread (d : DSt) (t : Nat) : DSt × String :=
  let x := d.s.thr t
  match x.pc with
  | .idle =>
    let d := act d (.lookup t)
    (d, s!"lookup slot={(d.s.thr t).slot}")
  | .looked =>
    let sl := d.s.slots x.slot
    if sl.owner.isSome && (waiterOf d x.slot).isSome && !d.cancelled t then (d, "busy")
    else if sl.owner.isSome && d.cancelled t then
      -- its Broadcast wakes the slot's waiter, which counts itself again and waits again
      let d := act d (.giveUp t)
      let d := threads.foldl (fun d y =>
        if (d.s.thr y).pc == .woken && (d.s.thr y).slot == x.slot then
          (if d.cancelled y then act d (.giveUp y) else act d (.enter y))
        else d) d
      (d, "gaveup")
    else
      let d := act d (.enter t)
      (d, if (d.s.thr t).pc == .inCS then "inside" else "waiting")
  | .inCS =>
    if d.cancelled t then
      let (d, w) := unready (act d (.bodyCtxDone t)) t
      (d, "cancelled" ++ w)
    else
      let d := act d (.bodyGet t)
      if (d.s.thr t).pc == .creating then (d, "creating")
      else
        let (d, w) := unready d t
        (d, "found" ++ w)
  | .creating =>
    let d := act (act d (.bodyCreate t)) (.bodyStore t)
    let (d, w) := unready d t
    (d, "created" ++ w)
  | .left1 =>
    -- after `giveUp` in the reference-counted variant the thread is at `left1` too, but the
    -- harness has no stop there (the current code returns at once)
    (act d (.leaveDec t), "dec")
  | .left2 =>
    let zero := (d.s.slots x.slot).count == 0
    (act d (.leaveDel t), if zero then "deleted" else "kept")
  | _ => (d, "skip")

def stepLine (d : DSt) (line : String) : DSt × String :=
  match words line with
  | "case" :: _ => ({ cfg := d.cfg }, line)
  | ["go", ts] =>
    match ts.toNat? with
    | none => (d, "bad-op")
    | some t =>
      if t < 1 || t > 6 then (d, "bad-op") else
      let (d', msg) := goThread d t
      if msg == "skip" || msg == "busy" then (d', msg) else (d', s!"go {t} {msg} {render d'}")
  | ["cancel", ts] =>
    match ts.toNat? with
    | none => (d, "skip")
    | some t =>
      let pc := (d.s.thr t).pc
      if pc == .idle || pc == .done || d.cancelled t then (d, "skip") else
      let d := { d with cancelled := fun x => if x = t then true else d.cancelled x }
      (d, s!"cancel {t} {render d}")
  | ["close"] =>
    if d.s.swampMap.isSome then
      let d := act d .closeCallback
      (d, s!"close ok {render d}")
    else (d, s!"close none {render d}")
  | _ => (d, "bad-op")

def run (args : List String) : IO UInt32 := do
  let kv := parseArgs args
  lineLoop stepLine { cfg := { refCounted := arg kv "refCounted" == "yes" } }
  return 0

end Driver.C18
