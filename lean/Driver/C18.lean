import Driver.Util

/-! Placeholder: the line-protocol driver of domain C18 is not written yet. -/
namespace Driver.C18

def run (_args : List String) : IO UInt32 := do
  IO.eprintln "drv: domain C18 has no driver yet"
  return 2

end Driver.C18
