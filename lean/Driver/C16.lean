import Driver.Util

/-! Placeholder: the line-protocol driver of domain C16 is not written yet. -/
namespace Driver.C16

def run (_args : List String) : IO UInt32 := do
  IO.eprintln "drv: domain C16 has no driver yet"
  return 2

end Driver.C16
