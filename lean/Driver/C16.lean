import Driver.Util
import Hv.Conc.Lifecycle

/-! Line-protocol driver of domain C16 (same ops and reply format as `/verif/harness/c16.go`).
    The model tracks key sets; the driver carries the values and the per-record changed flag
    (needed for NEW / UPDATED / SAME) beside it. -/
namespace Driver.C16
open Hv.Life

structure RecV where
  key : String
  val : String
  dirty : Bool
  /-- the object has a file pointer (loaded from the file or written by a flush) -/
  persisted : Bool

structure Th where
  name : String
  id : Nat
  kind : String
  key : String
  val : String
  stage : String     -- summoned | vigil | draining | done
  gen : Nat
  /-- a Delete request with a second key, handled after the first one (which may have ended the instance) -/
  key2 : String := ""

structure DSt where
  cfg : Cfg
  s : St
  /-- values per instance generation, and in the file -/
  gens : List (Nat × List RecV)
  fileV : List RecV
  ths : List Th
  next : Nat
  /-- the model state already violated `Durable` (flag only once per case) -/
  flagged : Bool
  /-- fact: SaveFunction drops a queued delete marker when the key is re-created, and deleteHandler queues a
      marker only for an object that has a file pointer -/
  recreateDropsMarker : Bool
  /-- delete markers queued in the write buffer of the mapped instance -/
  markers : List String
  /-- keys whose delete was acknowledged and that were not set again -/
  ackDel : List String
  /-- a stale close callback removed a fresh instance from the map -/
  orphaned : Bool := false
  /-- cause of a loss that the next `reopen` will show -/
  pendingCause : String := ""
  /-- fact: DeleteTreasure refuses to work on an instance that has been closed / destroyed and the gateway deletes the
      remaining keys of the request on the instance that is mapped then -/
  delChecksClosed : Bool := true
  /-- a delete was acknowledged on a closed instance (nothing reached the file) -/
  deadDelete : Bool := false
  /-- mode stop: GracefulStop has returned (the data directory was copied at that instant) -/
  stopped : Option Nat := none

def keyNum (k : String) : Nat := match k with | "a" => 1 | "b" => 2 | "c" => 3 | _ => 9

def memOf (d : DSt) (g : Nat) : List RecV := (d.gens.lookup g).getD []
def setMem (d : DSt) (g : Nat) (m : List RecV) : DSt := { d with gens := (g, m) :: d.gens.filter (·.1 != g) }

def durableB (s : St) : Bool :=
  if s.live && s.stage < 2 then s.acked.all (fun k => s.mem.contains k) else s.acked.all (fun k => s.file.contains k)

def act (d : DSt) (a : Act) : Option DSt :=
  match step d.cfg d.s a with
  | none => none
  | some s' =>
    -- mirror the value-level effects of instance creation and flushes
    let d1 := { d with s := s' }
    let d2 := if s'.gen != d.s.gen then
        { setMem d1 s'.gen (d.fileV.map (fun r => { r with dirty := false, persisted := true })) with markers := [] } else d1
    let flush := fun (x : DSt) =>
      let m := memOf x s'.gen
      let kept := x.fileV.filter (fun r => !m.any (·.key == r.key) && !x.markers.contains r.key)
      { setMem x s'.gen (m.map (fun r => { r with persisted := true })) with fileV := m ++ kept, markers := [] }
    let d3 := match a with
      | .closeFlush => flush d2
      | .flushTick => flush d2
      | .destroyFinish _ => if s'.live then d2 else { d2 with fileV := [], markers := [] }
      | _ => d2
    some d3

def acts (d : DSt) (as : List Act) : Option DSt := as.foldlM act d

/-- the end of an auto-destroy: with the re-check a swamp that is not empty any more is closed (flushed) instead -/
def destroyFin (d : DSt) (t : Nat) : Option DSt :=
  match act d (.destroyFinish t) with
  | none => none
  | some d1 => if d1.s.live && d1.s.stage == 1 then acts d1 [.closeFlush, .closeDone] else some d1

/-- a step after which an acknowledged write is in no place a re-open would find it.  The flag is attached to the next
    `reopen` line — the line whose reply observes the loss — not to the step itself. -/
def flag (d0 d : DSt) (cause : String) : DSt × String :=
  if !d.flagged && durableB d0.s && !durableB d.s then ({ d with flagged := true, pendingCause := cause }, "") else (d, "")

/-- Set on the instance of generation `g` (value level) -/
def writeV (d : DSt) (g : Nat) (k v : String) : DSt × String :=
  let m := memOf d g
  match m.find? (·.key == k) with
  | none =>
    -- the re-created record replaces the queued delete marker; in the repaired form it inherits the marker's file pointer
    let had := g == d.s.gen && d.markers.contains k
    let d' := if g == d.s.gen then { d with markers := d.markers.filter (· != k) } else d
    ({ setMem d' g (m ++ [{ key := k, val := v, dirty := true, persisted := had && !d.recreateDropsMarker }]) with ackDel := d.ackDel.filter (· != k) }, "NEW")
  | some r =>
    if r.dirty || r.val != v then
      (setMem d g (m.map (fun x => if x.key == k then { x with val := v, dirty := true } else x)), "UPDATED")
    else (d, "SAME")

def delV (d : DSt) (g : Nat) (k : String) : DSt × String :=
  let m := memOf d g
  match m.find? (·.key == k) with
  | some r =>
    let d' := if r.persisted && g == d.s.gen && !d.markers.contains k then { d with markers := d.markers ++ [k] } else d
    ({ setMem d' g (m.filter (·.key != k)) with ackDel := d.ackDel ++ [k] }, "DELETED")
  | none => (d, "NOT_FOUND")

def summonActs (d : DSt) (t : Nat) : List Act := if d.cfg.atomicSummon then [.summon t] else [.summon t, .begin t]

def showKeys (m : List RecV) : String :=
  let ks := (m.map (fun r => s!"{r.key}:{r.val}")).toArray.qsort (· < ·) |>.toList
  "keys=[" ++ ",".intercalate ks ++ "]"

def idOf (n : String) : Nat := match n with | "A" => 1 | "B" => 2 | "C" => 3 | "D" => 4 | "E" => 5 | "W" => 6 | _ => 7

/-- a synchronous Delete of one key on whatever instance is mapped (summon, delete, auto-destroy when it was the last) -/
def delSync (d : DSt) (k : String) : DSt × String :=
  if !d.s.live && d.fileV.isEmpty then (d, "NOT_FOUND") else
  let t := d.next
  match acts d (summonActs d t) with
  | none => (d, "hang")
  | some d1 =>
    let g := (d1.s.th t).gen
    let (d2, st) := delV d1 g k
    match act d2 (.del t (keyNum k)) with
    | none => (d, "ERR")
    | some d3 =>
      match (if (d3.s.th t).pc == 4 then destroyFin d3 t else act d3 (.cease t)) with
      | some d4 => ({ d4 with next := t + 1 }, st)
      | none => (d, "hang")

/-- the second key of a two-key Delete request whose first key ended the instance the request holds -/
def delSecond (d : DSt) (t : Th) : DSt × String :=
  if t.key2 == "" then (d, "") else
  if d.delChecksClosed then
    let (d1, st) := delSync d t.key2
    (d1, "," ++ st)
  else
    -- it keeps deleting on the instance it holds: acknowledged there, nothing reaches the file
    let m := memOf d t.gen
    if m.any (·.key == t.key2) then
      ({ setMem d t.gen (m.filter (·.key != t.key2)) with ackDel := d.ackDel ++ [t.key2], deadDelete := true }, ",DELETED")
    else (d, ",NOT_FOUND")

def step (d : DSt) (line : String) : DSt × String :=
  match words line with
  | ["case", _, _, _] =>
    ({ d with s := init [], gens := [], fileV := [], ths := [], next := 10, flagged := false, markers := [], ackDel := [], orphaned := false, stopped := none, deadDelete := false, pendingCause := "" }, line)
  | ["set", k, v] =>
    let t := d.next
    match acts d (summonActs d t) with
    | none => (d, "hang")
    | some d1 =>
      let g := (d1.s.th t).gen
      let (d2, st) := writeV d1 g k v
      match acts d2 [.write t (keyNum k), .cease t] with
      | some d3 => ({ d3 with next := t + 1 }, st)
      | none => (d, "ERR")
  | ["del", k] =>
    if !d.s.live && d.fileV.isEmpty then (d, "NOT_FOUND") else
    let t := d.next
    match acts d (summonActs d t) with
    | none => (d, "hang")
    | some d1 =>
      let g := (d1.s.th t).gen
      let (d2, st) := delV d1 g k
      match act d2 (.del t (keyNum k)) with
      | none => (d, "ERR")
      | some d3 =>
        match (if (d3.s.th t).pc == 4 then destroyFin d3 t else act d3 (.cease t)) with
        | some d4 =>
          let (d5, fl) := flag d d4 "C16-auto-destroy-loses-acked-write"
          ({ d5 with next := t + 1 }, st ++ fl)
        | none => (d, "hang")
  | ["spawn", n, "close"] =>
    if d.ths.any (·.name == n) then (d, "bad-op") else
    if !d.s.live || d.s.closing then
      ({ d with ths := d.ths ++ [{ name := n, id := idOf n, kind := "close", key := "", val := "", stage := "done", gen := d.s.gen }] }, s!"{n} done closed")
    else
      -- Close(): flip, flush, cancel; parked before the callback that removes the map entry
      match act { d with s := { d.s with closing := true, stage := 1 } } .closeFlush with
      | some d1 => ({ d1 with ths := d1.ths ++ [{ name := n, id := idOf n, kind := "close", key := "", val := "", stage := "flushed", gen := d.s.gen }] }, s!"{n}@swamp.closed")
      | none => (d, "ERR")
  | ["spawnw", n, "set", k, v] =>
    if d.ths.any (·.name == n) then (d, "bad-op") else
    match act d (.summon (idOf n)) with
    | none =>
      let t : Th := { name := n, id := idOf n, kind := "set", key := k, val := v, stage := "waiting", gen := 0 }
      ({ d with ths := d.ths ++ [t] }, s!"{n} wait-timeout")
    | some d1 =>
      let t : Th := { name := n, id := idOf n, kind := "set", key := k, val := v, stage := "summoned", gen := (d1.s.th (idOf n)).gen }
      ({ d1 with ths := d1.ths ++ [t] }, s!"{n}@gw.set.summoned")
  | ["poll", n] =>
    match d.ths.find? (·.name == n) with
    | none => (d, "bad-op")
    | some t =>
      let upd := fun (d' : DSt) (stage : String) (g : Nat) => { d' with ths := d'.ths.map (fun u => if u.name == n then { u with stage := stage, gen := g } else u) }
      match t.kind, t.stage with
      | "set", "waiting" =>
        match act d (.summon t.id) with
        | none => (d, s!"{n} wait-timeout")
        | some d1 => (upd d1 "summoned" (d1.s.th t.id).gen, s!"{n}@gw.set.summoned")
      | "set", "summoned" => (d, s!"{n}@gw.set.summoned")
      | "set", "vigil" => (d, s!"{n}@gw.set.vigil")
      | "del", "draining" =>
        match destroyFin d t.id with
        | some d1 =>
          let (d2, fl) := flag d d1 (if d.cfg.ceasesOnce then "C16-auto-destroy-loses-acked-write" else "C16-double-cease-unblocks-drain")
          ({ d2 with ths := d2.ths.map (fun u => if u.name == n then { u with stage := "done" } else u) }, s!"{n} done {t.val}" ++ fl)
        | none => (d, s!"{n} wait-timeout")
      | _, _ => (d, "bad-op")
  | ["spawn", n, "set", k, v] =>
    if d.ths.any (·.name == n) then (d, "bad-op") else
    match act d (.summon (idOf n)) with
    | none => (d, s!"{n} stuck")
    | some d1 =>
      let t : Th := { name := n, id := idOf n, kind := "set", key := k, val := v, stage := "summoned", gen := (d1.s.th (idOf n)).gen }
      ({ d1 with ths := d1.ths ++ [t] }, s!"{n}@gw.set.summoned")
  | ["spawn", n, "delm", k, k2] =>
    -- one Delete request with two keys; the first one is the last record (the corpus makes sure of that)
    if d.ths.any (·.name == n) then (d, "bad-op") else
    let tid := idOf n
    match acts d (summonActs d tid) with
    | none => (d, s!"{n} stuck")
    | some d1 =>
      let g := (d1.s.th tid).gen
      let (d2, st) := delV d1 g k
      match act d2 (.del tid (keyNum k)) with
      | none => (d, "ERR")
      | some d3 =>
        if (d3.s.th tid).pc == 4 && !d3.s.holders.isEmpty then
          let t : Th := { name := n, id := tid, kind := "del", key := k, val := st, stage := "draining", gen := g, key2 := k2 }
          ({ d3 with ths := d3.ths ++ [t] }, s!"{n}@destroy.draining")
        else (d, "bad-op")
  | ["spawn", n, "del", k] =>
    if d.ths.any (·.name == n) then (d, "bad-op") else
    if !d.s.live && d.fileV.isEmpty then (d, s!"{n} done NOT_FOUND") else
    let tid := idOf n
    match acts d (summonActs d tid) with
    | none => (d, s!"{n} stuck")
    | some d1 =>
      let g := (d1.s.th tid).gen
      let (d2, st) := delV d1 g k
      match act d2 (.del tid (keyNum k)) with
      | none => (d, "ERR")
      | some d3 =>
        if (d3.s.th tid).pc == 4 then
          let t : Th := { name := n, id := tid, kind := "del", key := k, val := st, stage := "draining", gen := g }
          -- with nobody else holding a vigil the drain is immediate
          if d3.s.holders.isEmpty then
            match destroyFin d3 tid with
            | some d4 =>
              let (d5, fl) := flag d d4 "C16-auto-destroy-loses-acked-write"
              ({ d5 with ths := d5.ths ++ [{ t with stage := "done" }] }, s!"{n} done {st}" ++ fl)
            | none => (d, "ERR")
          else ({ d3 with ths := d3.ths ++ [t] }, s!"{n}@destroy.draining")
        else
          match act d3 (.cease tid) with
          | some d4 => ({ d4 with ths := d4.ths ++ [{ name := n, id := tid, kind := "del", key := k, val := st, stage := "done", gen := g }] }, s!"{n} done {st}")
          | none => (d, "ERR")
  | ["spawnv", n, "del", k] =>
    if d.ths.any (·.name == n) then (d, "bad-op") else
    if !d.s.live && d.fileV.isEmpty then (d, s!"{n} done NOT_FOUND") else
    let tid := idOf n
    match acts d (summonActs d tid) with
    | none => (d, s!"{n} stuck")
    | some d1 =>
      let t : Th := { name := n, id := tid, kind := "del", key := k, val := "", stage := "delvigil", gen := (d1.s.th tid).gen }
      ({ d1 with ths := d1.ths ++ [t] }, s!"{n}@gw.del.vigil")
  | ["gow", n] =>
    match d.ths.find? (·.name == n) with
    | some t =>
      if t.kind == "del" && t.stage == "draining" then
        match destroyFin d t.id with
        | some d1 =>
          let (d2, fl) := flag d d1 (if d.cfg.ceasesOnce then "C16-auto-destroy-loses-acked-write" else "C16-double-cease-unblocks-drain")
          ({ d2 with ths := d2.ths.map (fun u => if u.name == n then { u with stage := "done" } else u) }, s!"{n} done {t.val}" ++ fl)
        | none => (d, s!"{n} wait-timeout")
      else (d, "bad-op")
    | none => (d, "bad-op")
  | ["go", n] =>
    match d.ths.find? (·.name == n) with
    | none => (d, "bad-op")
    | some t =>
      let upd := fun (d' : DSt) (stage : String) => { d' with ths := d'.ths.map (fun u => if u.name == n then { u with stage := stage } else u) }
      match t.kind, t.stage with
      | "del", "delvigil" =>
        let (d2, st) := delV d t.gen t.key
        match act d2 (.del t.id (keyNum t.key)) with
        | none => (d, "ERR")
        | some d3 =>
          let setv := fun (d' : DSt) (stage : String) => { d' with ths := d'.ths.map (fun u => if u.name == n then { u with stage := stage, val := st } else u) }
          if (d3.s.th t.id).pc == 4 then (setv d3 "draining", s!"{n}@destroy.draining")
          else if (d3.s.th t.id).pc == 3 then (setv d3 "done", s!"{n} done {st}")
          else match act d3 (.cease t.id) with
            | some d4 => (setv d4 "done", s!"{n} done {st}")
            | none => (d, "ERR")
      | "set", "summoned" =>
        if d.cfg.atomicSummon then (upd d "vigil", s!"{n}@gw.set.vigil") else
        match act d (.begin t.id) with
        | some d1 => (upd d1 "vigil", s!"{n}@gw.set.vigil")
        | none => (d, "ERR")
      | "set", "vigil" =>
        let (d1, st) := writeV d t.gen t.key t.val
        match acts d1 [.write t.id (keyNum t.key), .cease t.id] with
        | some d2 =>
          let (d3, fl) := flag d d2 (if d.orphaned then "C16-summon-replaces-closing-instance" else if d.s.debt > 0 then "C16-double-cease-unblocks-drain"
                                     else "C16-idle-close-loses-acked-write")
          (upd d3 "done", s!"{n} done {st}" ++ fl)
        | none => (d, "ERR")
      | "close", "flushed" =>
        -- the close callback removes whatever is mapped under the name
        if d.s.unmapPending then
          match act d .staleUnmap with
          | some d1 => (upd { d1 with orphaned := true } "done", s!"{n} done closed")
          | none => (d, "ERR")
        else
          match act d .closeDone with
          | some d1 => (upd d1 "done", s!"{n} done closed")
          | none => (d, "ERR")
      | "del", "draining" =>
        match destroyFin d t.id with
        | some d1 =>
          let (d2, fl) := flag d d1 "C16-auto-destroy-loses-acked-write"
          let (d3, st2) := delSecond d2 t
          (upd d3 "done", s!"{n} done {t.val}{st2}" ++ fl)
        | none => (d, s!"{n} stuck")
      | _, _ => (d, "bad-op")
  | ["tick", "arm"] =>
    match act d .tickRead with
    | some d1 => if d1.s.live then (d1, "tick parked") else (d1, "tick timeout")
    | none => (d, "ERR")
  | ["tick", "go"] =>
    match act d .tickDecide with
    | none => (d, "tick timeout")
    | some d1 =>
      if d1.s.stage == 1 then
        match acts d1 [.closeFlush, .closeDone] with
        | some d2 => (d2, "tick closed")
        | none => (d1, "ERR")
      else (d1, "tick timeout-noclose")
  | ["stop"] =>
    if d.stopped.isSome then (d, "bad-op") else
    if d.cfg.stopWaitsUntilClosed then
      -- Close() on every mapped instance (nothing is in flight), then wait until none is mapped
      let d1 := if d.s.live && !d.s.closing then
          (acts { d with s := { d.s with closing := true, stage := 1 } } [.closeFlush, .closeDone]).getD d else d
      match act d1 .exit with
      | some d2 => ({ d2 with stopped := some 0 }, "stopped open=0")
      | none => (d, "hang")
    else
      -- it returns while the close is still to come
      let n := if d.s.live then 1 else 0
      match act d .exit with
      | some d2 =>
        let (d3, _) := flag d d2 "C16-stop-returns-before-swamps-closed"
        ({ d3 with stopped := some n, pendingCause := "" }, s!"stopped open={n}" ++ (if n > 0 then "\t#F:C16-stop-returns-before-swamps-closed" else ""))
      | none => (d, "hang")
  | ["close"] =>
    if !d.s.live then (d, "closed") else
    -- Close() itself checks nothing: flip, flush, callback
    if d.s.closing then (d, "closed") else
    let s1 := { d.s with closing := true, stage := 1 }
    match acts { d with s := s1 } [.closeFlush, .closeDone] with
    | some d2 => (d2, "closed")
    | none => (d, "ERR")
  | ["reopen"] =>
    if d.stopped.isSome && d.stopped != some 0 then (d, "keys=?") else
    let back := fun (x : DSt) => if (memOf x x.s.gen).any (fun r => x.ackDel.contains r.key) then
        (if x.deadDelete then "\t#F:C16-delete-continues-on-closed-instance" else "\t#F:C16-delete-after-recreate-resurrects") else ""
    let lost := fun (x : DSt) => if x.pendingCause != "" then s!"\t#F:{x.pendingCause}" else ""
    if d.s.live then ({ d with pendingCause := "" }, showKeys (memOf d d.s.gen) ++ back d ++ lost d)
    else if d.fileV.isEmpty then ({ d with pendingCause := "" }, "keys=[]" ++ lost d)
    else
      let t := d.next
      -- the value-level file may hold keys the key-set model has dropped (lost delete markers)
      let d0 := { d with s := { d.s with file := d.fileV.map (fun r => keyNum r.key) } }
      match acts d0 (summonActs d0 t ++ [.cease t]) with
      | some d1 => ({ d1 with next := t + 1, pendingCause := "" }, showKeys (memOf d1 d1.s.gen) ++ back d1 ++ lost d)
      | none => (d, "hang")
  | _ => (d, "bad-op")

def run (args : List String) : IO UInt32 := do
  let kv := parseArgs args
  let yes := fun (k : String) => arg kv k == "yes"
  let cfg : Cfg := { destroyRechecks := yes "destroyRechecksAfterDrain",
                     atomicSummon := yes "listenerReadsTouchUnderLock" && yes "summonTakesVigil",
                     summonWaitsForUnmap := arg kv "summonWaitsForUnmap" != "no",
                     stopWaitsUntilClosed := arg kv "stopWaitsUntilClosed" != "no",
                     ceasesOnce := arg kv "ceasesVigilOnce" != "no" }
  let dcc := arg kv "deleteRefusesClosedInstance" != "no"
  lineLoop step { cfg := cfg, delChecksClosed := dcc, s := init [], gens := [], fileV := [], ths := [], next := 10, flagged := false,
                  recreateDropsMarker := arg kv "recreateDropsDeleteMarker" != "no", markers := [], ackDel := [] }
  return 0

end Driver.C16
