import Driver.Util

/-! Placeholder: the line-protocol driver of domain C09 is not written yet. -/
namespace Driver.C09

def run (_args : List String) : IO UInt32 := do
  IO.eprintln "drv: domain C09 has no driver yet"
  return 2

end Driver.C09
