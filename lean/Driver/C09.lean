import Driver.Util
import Hv.Conc.Linearize
import Hv.Conc.Stale

/-! Line-protocol driver of domain C09 (same ops and reply format as `/verif/harness/c09.go`).
    Threads are the calls of `Hv.Lin`; in immediate-write mode the chronicler's two guard sessions
    inside `Save` (encode, then `FilePointerCallbackFunction`) are environment sessions of the model.
    Object identity (which treasure object is stored under the key, who works on an orphan) is `Hv.Stale`, executed
    next to `Hv.Lin`: every `fetch` / `del` / `step` also performs the corresponding `Hv.Stale.step`s, and "absent",
    "works on a replaced object" and the stale-object flag are read off that state. -/
namespace Driver.C09
open Hv.Lin Hv.Guard

structure Th where
  name : String
  tid : Nat
  fetchedOnly : Bool
  /-- environment session this call's save is waiting for (0 = none) and sessions still to open -/
  wsid : Nat
  wleft : Nat
  /-- the file writer of this call has collected the write list -/
  wstarted : Bool := false

structure DSt where
  resets : Bool
  relWhenImm : Bool
  mode : String
  kind : String
  s : Hv.Lin.St
  ths : List Th
  deleted : Bool        -- the object was removed from the key beacon (stale-object scenario)
  resurrected : Bool
  cleared : Bool        -- its content was cleared by the delete (persisted record)
  /-- fact: the body re-checks its object under the guard and starts over on a fresh one -/
  recheck : Bool
  fresh : Bool          -- a re-checking call replaced the deleted object by a new one
  /-- immediate-write mode: calls whose file writer is pending, in the order of their in-save release; the writers
      run one after the other (the harness starts a writer only when no earlier one is pending) -/
  wq : List Nat := []
  /-- the object-identity model, run next to `s`; deletes are calls 20, 21, … -/
  st : Hv.Stale.St := Hv.Stale.init 5
  ndel : Nat := 0
  /-- the record is in the swamp's list of treasures waiting for the file writer -/
  dirtyW : Bool := false
  /-- who stamped the record's UpdatedBy last (every call does, between taking the guard and reading the value);
      what each finished call found there when it built its response; fact: the response metadata is read after Save -/
  lastBy : String := ""
  byOf : List (Nat × String) := []
  respAfterSave : Bool := false
  /-- mode setx: fact (gateway Set repeats its existence tests under the record guard), the operation table
      (call id, kind, argument), parked calls and the next id for synchronous calls -/
  setUnderGuard : Bool := true
  sops : List (Nat × String × Int) := []
  sparked : List (String × Nat) := []
  snext : Nat := 10
  /-- key "p" (field patches): its own register; fact: PatchFields decides from nothing it read before the guard -/
  sp : Hv.Lin.St := Hv.Lin.init 0
  patchGuarded : Bool := true
  /-- calls whose decision was taken before the guard (they run with the defective body shape) -/
  searly : List Nat := []
  /-- queued calls (spawnq) that run by themselves once they are granted; finished ones with their answer -/
  squeued : List (String × Nat) := []
  sdone : List (String × String) := []
  /-- completed operations on "x" in completion order, for the sequential Spec: (kind, argument, answer, who) -/
  shist : List (String × Int × String × String) := []
  /-- facts: ShiftByKeys copies and deletes in one guard session; DeleteTreasure believes deleteHandler's result -/
  shiftOneSession : Bool := true
  delTrustsHandler : Bool := true
  /-- a Set was queued behind a delete and, without the re-check, wrote on the removed object of a persisted key -/
  orphanWrite : Bool := false
  pendingFlag : String := ""
  /-- fact: the gateway's Set / Uint32Slice* bodies take object and guard from the re-checking helper -/
  setRecheck : Bool := true

def tidOf (n : String) : Option Nat :=
  match n with | "A" => some 1 | "B" => some 2 | "C" => some 3 | "D" => some 4 | _ => none

def incOf (t : Nat) : Int := match t with | 1 => 1 | 2 => 10 | 3 => 100 | _ => 1000

def op : Nat → Int → Int := fun t v => v + incOf t

/-! object identity: `Hv.Stale` -/

def skinds : Nat → Hv.Stale.Kind := fun t => if t ≥ 20 then .del else .inc (incOf t)

def scfgOf (d : DSt) : Hv.Stale.Cfg := { recheck := d.recheck }

def sstep1 (d : DSt) (t : Nat) : Option Hv.Stale.St := Hv.Stale.step (scfgOf d) (d.kind == "p0") skinds d.st t

/-- perform `Hv.Stale` steps of call `t` until its pc is `goal` (or it cannot move) -/
def suntil (fuel : Nat) (d : DSt) (t goal : Nat) : DSt :=
  match fuel with
  | 0 => d
  | fuel + 1 =>
    if (d.st.th t).pc == goal then d else
    match sstep1 d t with
    | some st' => suntil fuel { d with st := st' } t goal
    | none => d

def sabsent (d : DSt) : Bool := (Hv.Stale.final d.st).isNone

/-- the completed operations cannot be put into a serial order that explains them and the final state
    (checked in completion order and in the reverse one: at most two operations are involved here) -/
def sbroken (d : DSt) : Bool :=
  let ok := fun (l : List Hv.Stale.Entry) => Hv.Stale.specReplay skinds (some 5) l == some (Hv.Stale.final d.st)
  !(ok d.st.log || ok d.st.log.reverse)

def cfgOf (d : DSt) : Hv.Lin.Cfg :=
  { guard := { resetsIdOnEmpty := d.resets }, releaseInSave := d.kind == "p0" && d.relWhenImm, shape := .guarded }

def stepL (d : DSt) (a : Hv.Lin.Act) : Option Hv.Lin.St := Hv.Lin.step (cfgOf d) op d.s a

/-- let the chronicler sessions that are at the head of the queue run -/
def settle (fuel : Nat) (d : DSt) : DSt :=
  match fuel with
  | 0 => d
  | fuel + 1 =>
    match d.wq with
    | [] => d
    | w :: rest =>
      match d.ths.find? (·.tid == w) with
      | none => settle fuel { d with wq := rest }
      | some u =>
        if !u.wstarted then
          -- fileWriterHandler collects (and empties) the list of waiting treasures; nothing waiting: nothing to do
          let n := if d.dirtyW then 2 else 0
          let ths := d.ths.map (fun x => if x.tid == u.tid then { x with wstarted := true, wleft := n } else x)
          settle fuel { d with ths := ths, dirtyW := false }
        else
        if u.wleft == 0 then settle fuel { d with wq := rest } else
        if u.wsid == 0 then
          -- the writer opens its next guard session
          match stepL d .envStart with
          | some s' =>
            let ths := d.ths.map (fun x => if x.tid == u.tid then { x with wsid := s'.g.nextSid } else x)
            settle fuel { d with s := s', ths := ths }
          | none => d
        else if headSid d.s.g == some u.wsid then
          match stepL d (.envRelease u.wsid) with
          | some s' =>
            let ths := d.ths.map (fun x => if x.tid == u.tid then { x with wsid := 0, wleft := x.wleft - 1 } else x)
            settle fuel { d with s := s', ths := ths }
          | none => d
        else d

def showState (d : DSt) (u : Th) : String :=
  let ts := d.s.th u.tid
  if u.fetchedOnly then "F" else
  match ts.pc with
  | 1 => if d.s.g.grants.contains ts.sid then "1g" else "1w"
  | 2 => "2"
  | 3 => "3"
  | 4 => if u.wleft > 0 then "3w" else "4"
  | 5 => match d.s.log.find? (·.tid == u.tid) with
    | some e => s!"5 r={e.resp} by={((d.byOf.find? (·.1 == u.tid)).map (·.2)).getD u.name}"
    | none => "5 r=?"
  | _ => "?"

def showVal (d : DSt) : String :=
  if sabsent d then "absent" else toString d.s.val

def render (d : DSt) (name : String) (state : String) : String :=
  s!"{name}:{state} q={Driver.showNatList (d.s.g.queue.map (·.1))} c={d.s.g.counter} v={showVal d}"

/-- Spec check on the model state: the value is the preset plus every committed increment -/
def lostFlag (d : DSt) : String :=
  let want : Int := (if d.cleared then 0 else 5) + (d.s.log.map (fun e => incOf e.tid)).foldl (· + ·) 0
  if d.s.val != want then "\t#F:C09-lost-update-guard-id-reuse" else ""

def stepThread (d : DSt) (name : String) (fetch : Bool) : DSt × String :=
  match tidOf name with
  | none => (d, "bad-op")
  | some t =>
    let known := d.ths.find? (·.tid == t)
    match known, fetch with
    | none, true =>
      let u : Th := { name := name, tid := t, fetchedOnly := true, wsid := 0, wleft := 0 }
      let d' := suntil 1 { d with ths := d.ths ++ [u] } t 1
      (d', render d' name "F")
    | some _, true => (d, "bad-op")
    | _, false =>
      let u : Th := known.getD { name := name, tid := t, fetchedOnly := false, wsid := 0, wleft := 0 }
      let d := if known.isNone then { d with ths := d.ths ++ [u] } else d
      let ts := d.s.th t
      if ts.pc ≥ 5 || (ts.pc == 4 && u.wleft > 0) then (d, render d name "blocked") else
      -- repaired body: the fetched object is gone → one aborted session on the orphan's guard, then a new
      -- object (CreateTreasure takes and releases its guard once) whose guard is observed from now on
      -- object identity: fetch (if not done) and take the object's guard, re-checking as the code does
      let objBefore := (d.st.th t).obj
      let d := if ts.pc == 0 then suntil 6 d t 2 else d
      -- repaired body: the fetched object was gone → one aborted session on the orphan's guard, then a new
      -- object (CreateTreasure takes and releases its guard once) whose guard is observed from now on
      let replaced := ts.pc == 0 && u.fetchedOnly && (d.st.th t).pc == 2 && (d.st.th t).obj != objBefore
      let d := if replaced then
          let s0 := { d.s with g := Hv.Guard.init, val := 0 }
          match Hv.Lin.step (cfgOf d) op s0 .envStart with
          | some s1 => match Hv.Lin.step (cfgOf d) op s1 (.envRelease s1.g.nextSid) with
            | some s2 => { d with s := s2, fresh := true, cleared := true }
            | none => d
          | none => d
        else d
      match stepL d (.th t) with
      | none => (d, render d name "blocked")
      | some s' =>
        -- immediate-write mode: the save just released the guard; the chronicler now takes it twice,
        -- unless another call's file write is still in progress (then this one is skipped)
        let imm := (cfgOf d).releaseInSave && ts.pc == 3
        let ths := d.ths.map (fun x => if x.tid == t then
          { x with fetchedOnly := false, wleft := if imm then 2 else x.wleft } else x)
        -- the same step in the object-identity model (its write and save are one step, at the save)
        let d := match ts.pc with
          | 1 => suntil 6 d t 3
          | 3 => suntil 3 d t (if (cfgOf d).releaseInSave then 5 else 4)   -- the in-save release lets the next call in
          | 4 => suntil 2 d t 5
          | _ => d
        let res := d.resurrected || (d.deleted && ts.pc == 3)
        -- metadata: stamped at the step that follows the grant; read back when the response is built — which is
        -- behind Save, i.e. in immediate-write mode after the guard was released
        let lastBy := if ts.pc == 1 then name else d.lastBy
        let late := d.respAfterSave && (cfgOf d).releaseInSave
        let byOf := if ts.pc == 4 then d.byOf ++ [(t, if late then lastBy else name)] else d.byOf
        let d1 := settle 32 { d with s := s', ths := ths, resurrected := res, wq := if imm then d.wq ++ [t] else d.wq,
                                     dirtyW := d.dirtyW || imm, lastBy := lastBy, byOf := byOf }
        let u1 := (d1.ths.find? (·.tid == t)).getD u
        let stale := (d1.s.th t).pc == 5 && sbroken d1
        let lateBy := ts.pc == 4 && late && lastBy != name
        (d1, render d1 name (showState d1 u1) ++ lostFlag d1 ++
          (if stale then "\t#F:C09-delete-increment-stale-object" else "") ++
          (if lateBy then "\t#F:C09-response-read-after-save" else ""))

/-! ### mode setx: conditional Sets as calls of `Hv.Lin` (value 0 = the key is absent) -/

def sop (d : DSt) : Nat → Int → Int := fun t v =>
  match d.sops.find? (fun e => e.1 == t) with
  | some (_, "seta", a) => if v == 0 then a else v
  | some (_, "setx", a) => if v == 0 then 0 else a
  | some (_, "del", _) => 0
  | some (_, "set", a) => a
  | some (_, "inc", _) => v + 1
  | some (_, "inchold", _) => v + 1
  | some (_, "shift", _) => 0
  | some (_, "shiftread", _) => v
  | some (_, "pdel", _) => 0
  | some (_, "pinc", _) => v + 1
  | _ => v

def isP (kind : String) : Bool := kind == "pinc" || kind == "pdel"

def scfg (d : DSt) (t : Nat) : Hv.Lin.Cfg :=
  { guard := { resetsIdOnEmpty := d.resets }, releaseInSave := false,
    shape := if d.searly.contains t then .readBeforeAcquire else .guarded }

def kindOf (d : DSt) (t : Nat) : String := ((d.sops.find? (fun e => e.1 == t)).map (fun e => e.2.1)).getD ""

def reg (d : DSt) (t : Nat) : Hv.Lin.St := if isP (kindOf d t) then d.sp else d.s
def setReg (d : DSt) (t : Nat) (s' : Hv.Lin.St) : DSt := if isP (kindOf d t) then { d with sp := s' } else { d with s := s' }

def srun (fuel : Nat) (d : DSt) (t : Nat) : DSt :=
  match fuel with
  | 0 => d
  | fuel + 1 =>
    if ((reg d t).th t).pc ≥ 5 then d else
    match Hv.Lin.step (scfg d t) (sop d) (reg d t) (.th t) with
    | some s' => srun fuel (setReg d t s') t
    | none => d

def sstatus (d : DSt) (kind : String) (t : Nat) : String :=
  let loc := ((reg d t).th t).loc
  match kind with
  | "seta" => if loc == 0 then "WROTE" else "UNCHANGED"
  | "setx" => if loc == 0 then "NOT_FOUND" else "WROTE"
  | "pinc" => if loc == 0 then "CREATED" else "PATCHED"
  | "set" => "WROTE"
  | "inc" => s!"inc={loc + 1}"
  | "inchold" => s!"inc={loc + 1}"
  | "shift" => if loc == 0 then "shifted=none" else s!"shifted={loc}"
  | "shiftread" => if loc == 0 then "shifted=none" else s!"shifted={loc}"
  | _ => if loc == 0 then "NOT_FOUND" else "DELETED"

/-- the log no longer replays as a sequential history: some response is not what the Spec returns there -/
def sflag (d : DSt) : String :=
  if (Hv.Lin.replay (sop d) 0 d.s.log).isNone || (Hv.Lin.replay (sop d) 0 d.sp.log).isNone then "\t#F:C09-read-outside-guard" else ""

/-- sequential Spec of key "x" (0 = absent): the answer an operation must give in state `v`, and the next state -/
def xspec (kind : String) (a : Int) (v : Int) : String × Int :=
  match kind with
  | "seta" => if v == 0 then ("WROTE", a) else ("UNCHANGED", v)
  | "setx" => if v == 0 then ("NOT_FOUND", v) else ("WROTE", a)
  | "set" => ("WROTE", a)
  | "inc" => (s!"inc={v + 1}", v + 1)
  | "shift" => (if v == 0 then "shifted=none" else s!"shifted={v}", 0)
  | _ => (if v == 0 then "NOT_FOUND" else "DELETED", 0)

/-- who gave an answer that a sequential execution in completion order does not give -/
def xbad (d : DSt) : List String :=
  (d.shist.foldl (fun (acc : Int × List String) e =>
    let r := xspec e.1 e.2.1 acc.1
    (r.2, if r.1 == e.2.2.1 then acc.2 else acc.2 ++ [e.2.2.2])) (0, [])).2

def xflagFor (d : DSt) (who : String) : String := if (xbad d).contains who then "\t#F:C09-read-outside-guard" else ""

def specKind (k : String) : String := if k == "inchold" then "inc" else if k == "shiftread" then "shift" else k

/-- record a finished call on "x" -/
def xrecord (d : DSt) (t : Nat) : DSt :=
  let kind := kindOf d t
  if isP kind || kind == "shiftread" then d else
  let a := ((d.sops.find? (fun e => e.1 == t)).map (fun e => e.2.2)).getD 0
  { d with shist := d.shist ++ [(specKind kind, a, sstatus d kind t, s!"#{t}")] }

/-- queued calls run by themselves as soon as the guard is theirs -/
def spump (fuel : Nat) (d : DSt) : DSt :=
  match fuel with
  | 0 => d
  | fuel + 1 =>
    match d.squeued.find? (fun (e : String × Nat) => ((reg d e.2).th e.2).pc < 5 && ((reg (srun 8 d e.2) e.2).th e.2).pc == 5) with
    | none => d
    | some (n, t) =>
      let d1 := srun 8 d t
      let kind := kindOf d1 t
      if kind == "shiftread" then
        -- the defective ShiftByKeys: its copy is taken, the delete is a second guard session at the end of the queue
        let t2 := t + 100
        let d2 := srun 1 { d1 with sops := d1.sops ++ [(t2, "shift", 0)], squeued := d1.squeued.map (fun e => if e.1 == n then (n, t2) else e) } t2
        -- what it will answer is the copy it has now
        spump fuel { d2 with sdone := d2.sdone ++ [(n ++ "#", sstatus d1 "shiftread" t)] }
      else
        let st := if kind == "shift" && t ≥ 100 then ((d1.sdone.find? (fun e => e.1 == n ++ "#")).map (·.2)).getD (sstatus d1 kind t) else sstatus d1 kind t
        let d2 := { d1 with squeued := d1.squeued.filter (fun e => e.1 != n), sdone := d1.sdone ++ [(n, st)] }
        let a := ((d2.sops.find? (fun e => e.1 == t)).map (fun e => e.2.2)).getD 0
        spump fuel { d2 with shist := d2.shist ++ [(specKind kind, a, st, n)] }

def ssync (d : DSt) (kind : String) (a : Int) : DSt × String :=
  let t := d.snext
  let d1 := xrecord (srun 8 { d with sops := d.sops ++ [(t, kind, a)], snext := t + 1 } t) t
  (d1, s!"{kind} {sstatus d1 kind t}" ++ sflag d1)

def sstep (d : DSt) (ws : List String) : DSt × String :=
  match ws with
  | ["reload"] =>
    -- close + re-summon: a write that landed on a removed object of a persisted key was flushed as a delete
    if d.orphanWrite && d.kind != "m" then
      ({ d with s := { d.s with val := 0 }, orphanWrite := false, pendingFlag := "\t#F:C09-delete-increment-stale-object" }, "reload")
    else if d.kind == "m" then ({ d with s := { d.s with val := 0 } }, "reload")
    else (d, "reload")
  | ["poll", n] =>
    match d.sdone.find? (fun e => e.1 == n) with
    | some (_, st) => ({ d with sdone := d.sdone.filter (fun e => e.1 != n) }, s!"{n} done {st}" ++ sflag d ++ xflagFor d n)
    | none => if d.squeued.any (fun e => e.1 == n) then (d, s!"{n} wait-timeout") else (d, "bad-op")
  | ["spawn", n, kind] =>
    if kind != "del" && kind != "inchold" && kind != "pinc" then (d, "bad-op") else
    if kind == "pinc" then
      match tidOf n with
      | some t =>
        if d.sops.any (fun e => e.1 == t) then (d, "bad-op") else
        let d0 := { d with sops := d.sops ++ [(t, "pinc", 0)] }
        -- parked after the fetch: with the defective shape a call that found no record has already decided "new"
        let d1 := if !d.patchGuarded && d.sp.val == 0 then srun 1 { d0 with searly := d0.searly ++ [t] } t else d0
        ({ d1 with sparked := d1.sparked ++ [(n, t)] }, s!"{n}@fetched")
      | none => (d, "bad-op")
    else
    match tidOf n with
    | some t =>
      if d.sops.any (fun e => e.1 == t) then (d, "bad-op") else
      -- takes the guard and parks holding it
      let d1 := srun 2 { d with sops := d.sops ++ [(t, kind, 0)] } t
      if ((reg d1 t).th t).pc == 2 then ({ d1 with sparked := d1.sparked ++ [(n, t)] }, s!"{n}@holds") else (d, "bad-op")
    | none => (d, "bad-op")
  | "spawnq" :: n :: kind :: rest =>
    match tidOf n with
    | some t =>
      if d.sops.any (fun e => e.1 == t) then (d, "bad-op") else
      let a : Int := (rest.head?.bind (·.toInt?)).getD 0
      let holderIsDel := d.sparked.any (fun e => kindOf d e.2 == "del")
      let k := if kind == "shift" && !d.shiftOneSession then "shiftread" else kind
      let early := kind == "del" && !d.delTrustsHandler
      let d0 := { d with sops := d.sops ++ [(t, k, a)], searly := if early then d.searly ++ [t] else d.searly,
                         orphanWrite := d.orphanWrite || (kind == "set" && !d.setRecheck && holderIsDel) }
      -- enqueue (the defective delete has looked at the key first)
      let d1 := srun (if early then 2 else 1) d0 t
      let d2 := spump 8 { d1 with squeued := d1.squeued ++ [(n, t)] }
      match d2.sdone.find? (fun e => e.1 == n) with
      | some (_, st) => ({ d2 with sdone := d2.sdone.filter (fun e => e.1 != n) }, s!"{n} done {st}" ++ sflag d2 ++ xflagFor d2 n)
      | none => (d2, s!"{n} wait-timeout")
    | none => (d, "bad-op")
  | ["go", n] =>
    match d.sparked.find? (fun e => e.1 == n) with
    | none => (d, "bad-op")
    | some (_, t) =>
      let d1 := xrecord (srun 8 { d with sparked := d.sparked.filter (fun e => e.1 != n) } t) t
      let d2 := spump 8 d1
      (d2, s!"{n} done {sstatus d1 (kindOf d t) t}" ++ sflag d1 ++ xflagFor d1 s!"#{t}")
  | ["del"] => ssync d "del" 0
  | ["pdel"] => ssync d "pdel" 0
  | ["pinc"] => ssync d "pinc" 0
  | ["get"] => ({ d with pendingFlag := "" }, (if d.s.val == 0 then "get v=absent" else s!"get v={d.s.val}") ++ d.pendingFlag)
  | ["pget"] => (d, if d.sp.val == 0 then "pget n=absent" else s!"pget n={d.sp.val}")
  | [kind, v] =>
    if kind != "seta" && kind != "setx" then (d, "bad-op") else
    match v.toInt? with
    | none => (d, "bad-op")
    | some a => ssync d kind a
  | ["spawn", n, kind, v] =>
    match tidOf n, v.toInt? with
    | some t, some a =>
      if (kind != "seta" && kind != "setx") || d.sops.any (fun e => e.1 == t) then (d, "bad-op") else
      let d0 := { d with sops := d.sops ++ [(t, kind, a)] }
      -- the unguarded tests: an outcome that needs no write is answered right away
      let early := (kind == "seta" && d.s.val != 0) || (kind == "setx" && d.s.val == 0)
      if early then
        let d1 := srun 8 d0 t
        (d1, s!"{n} done {sstatus d1 kind t}" ++ sflag d1)
      else
        -- otherwise the call parks after the tests; with the defective shape its decision is already taken
        let d1 := if d.setUnderGuard then d0 else srun 1 { d0 with searly := d0.searly ++ [t] } t
        ({ d1 with sparked := d1.sparked ++ [(n, t)] }, s!"{n}@tested")
    | _, _ => (d, "bad-op")
  | _ => (d, "bad-op")

def step (d : DSt) (line : String) : DSt × String :=
  match words line with
  | ["case", _, mode, kind] =>
    ({ d with mode := mode, kind := kind, wq := [], dirtyW := false, lastBy := "", byOf := [], st := Hv.Stale.init 5, ndel := 0, s := Hv.Lin.init (if mode == "setx" then 0 else 5), ths := [], deleted := false,
              resurrected := false, cleared := false, fresh := false, sops := [], sparked := [], snext := 10, squeued := [], sdone := [], shist := [], orphanWrite := false, pendingFlag := "",
              sp := Hv.Lin.init 0, searly := [] }, line)
  | ws =>
    if d.mode == "setx" then sstep d ws else
    if d.mode == "sched" then
      match ws with
      | ["step", n] => stepThread d n false
      | ["fetch", n] => stepThread d n true
      | ["del"] =>
        if d.deleted || !d.s.g.queue.isEmpty then (d, "bad-op") else
        -- deleteHandler: one guard session, remove from the key beacon; a record with a file pointer is cleared
        match stepL d .envStart with
        | none => (d, "bad-op")
        | some s1 =>
          match Hv.Lin.step (cfgOf d) op s1 (.envRelease s1.g.nextSid) with
          | none => (d, "bad-op")
          | some s2 =>
            let cleared := d.kind == "p0"
            let dt := 20 + d.ndel
            let d' := suntil 6 { d with s := { s2 with val := if cleared then 0 else s2.val }, deleted := true, cleared := cleared,
                                        ndel := d.ndel + 1 } dt 5
            (d', s!"del DELETED v={showVal d'}")
      | ["reload"] =>
        if d.kind == "m" then (d, "reload v=absent")
        else if d.kind == "p0" && d.deleted && d.resurrected && !d.fresh then
          -- the orphan still carries DeletedAt: the chronicler wrote a delete entry for the acknowledged increment
          (d, "reload v=absent\t#F:C09-delete-increment-stale-object")
        else (d, s!"reload v={showVal d}")
      | _ => (d, "bad-op")
    else if d.mode == "stress" then
      match ws with
      | ["stress", a, _, c] =>
        match a.toNat?, c.toNat? with
        | some w, some n => (d, s!"ok acked={w * n} lost=0 dup=0 errors=0")
        | _, _ => (d, "bad-op")
      | _ => (d, "bad-op")
    else if d.mode == "mixed" then
      match ws with
      | ["mixed", a, b, _] =>
        match a.toNat?, b.toNat? with
        | some w, some n => (d, s!"ok ops={w * n} linearizable")
        | _, _ => (d, "bad-op")
      | _ => (d, "bad-op")
    else (d, "bad-op")

def run (args : List String) : IO UInt32 := do
  let kv := parseArgs args
  lineLoop step { resets := arg kv "resetsIdOnEmpty" == "yes", relWhenImm := arg kv "releasesGuardWhenImmediate" != "no",
                  mode := "", kind := "", s := Hv.Lin.init 5, ths := [], deleted := false, resurrected := false,
                  cleared := false, recheck := arg kv "rechecksObjectUnderGuard" == "yes", fresh := false,
                  setUnderGuard := arg kv "setTestsExistenceUnderGuard" != "no",
                  patchGuarded := arg kv "bodyShape" != "readBeforeAcquire",
                  respAfterSave := arg kv "bodyShape" == "respAfterSave",
                  shiftOneSession := arg kv "shiftByKeysOneSession" != "no",
                  setRecheck := arg kv "gatewayWritesRecheckObject" != "no",
                  delTrustsHandler := arg kv "deleteTrustsHandlerResult" != "no" }
  return 0

end Driver.C09
