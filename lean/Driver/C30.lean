import Driver.Util

/-! Placeholder: the line-protocol driver of domain C30 is not written yet. -/
namespace Driver.C30

def run (_args : List String) : IO UInt32 := do
  IO.eprintln "drv: domain C30 has no driver yet"
  return 2

end Driver.C30
