import Driver.KV
import Hv.Data.Expiry

/-! Domain C30: the expiry-aware requests answered from `Hv.Data.Model30` (the data requests
    from `Hv.Data.Model` as in C06).  A reply is flagged when it disagrees with the expiry
    definition applied to the stored records: a record with a pre-epoch expiry is shown without
    ExpiredAt, or an index-driven path (ShiftExpired, PatchExpired, GetByIndex) returns other keys
    than `expired` / `exp ≠ 0` select from the store. -/
namespace Driver.C30
open Hv.Data Driver.KV

def siteOf (kv : List (String × String)) (name : String) : Site :=
  ⟨boolOf (arg kv (name ++ "Guard0")), boolOf (arg kv (name ++ "Strict"))⟩

def expCfgOfArgs (kv : List (String × String)) : ExpCfg :=
  { isExpired := siteOf kv "isExpired", shift := siteOf kv "shift",
    selectCap := siteOf kv "selectCap", coldBuildNe0 := boolOf (arg kv "coldBuildNe0"),
    addBeaconsNe0 := boolOf (arg kv "addBeaconsNe0"), saveBranchNe0 := boolOf (arg kv "saveBranchNe0"),
    reindexNe0 := boolOf (arg kv "reindexNe0"), patchReaddNe0 := boolOf (arg kv "patchReaddNe0"),
    filterGuard0 := boolOf (arg kv "filterGuard0"), isEmptyEq0 := boolOf (arg kv "isEmptyEq0"),
    setZeroNone := boolOf (arg kv "setZeroNone"), clearWins := boolOf (arg kv "clearWins"),
    wireGet := if arg kv "wireGet" == "ne0" then .ne0 else .gt0 }

def parsePatchMeta (s : String) : Option (Option PatchMeta) :=
  if s == "-" then some none
  else match s.splitOn "|" with
    | [ua, ub, ca, cb, se, cl] =>
      some (some { setUa := ua == "1", ub := ub, setCa := ca == "1", cb := cb,
                   setExp := if se.isEmpty then none else some (parseTime se), clearExp := cl == "1" })
    | _ => none

def fop? : String → Option FOp
  | "lt" => some .lt | "le" => some .le | "gt" => some .gt | "ge" => some .ge | "eq" => some .eq | "ne" => some .ne
  | "empty" => some .empty | "notempty" => some .notEmpty | _ => none

def parse30 (now : Int) (f : List String) : Option Req30 :=
  match f with
  | ["shiftexp", n] => n.toNat?.map .shiftExp
  | ["patch", c, k, m] => (parsePatchMeta m).map fun pm => .patch (c == "1") k pm
  | ["patchexp", n, m] =>
    match n.toNat?, parsePatchMeta m with
    | some n, some (some pm) => some (.patchExp n pm)
    | _, _ => none
  | ["getidx", ord, frm, lim] =>
    match frm.toNat?, lim.toNat? with
    | some a, some b => some (.getIdx (ord == "desc") a b)
    | _, _ => none
  | ["fexp", op] => (fop? op).map fun o => .filterExp o 0
  | ["fexp", op, ts] => (fop? op).map fun o => .filterExp o (if ts == "now" then now else parseTime ts)
  | _ => (parseReq f).map .kv

def showPStatus : PStatus → String
  | .patched => "PATCHED" | .created => "CREATED" | .keyNotFound => "KEY_NOT_FOUND"
  | .typeMismatch => "TYPE_MISMATCH" | .encodingNotSupported => "ENCODING_NOT_SUPPORTED"

/-- expiry as `expirationTimeAsTime` + `timestamppb` show it: everything but 0 -/
def showExpRaw (ck : Clock) (t : Int) : String := showTime ck t

def showResp30 (ck : Clock) (verb : String) : Resp30 → String
  | .kv r => showResp ck verb r
  | .recs l => join verb (l.map fun p => p.1 ++ "=" ++ showRec ck p.2)
  | .keys l => join verb l
  | .pstat s => verb ++ " " ++ showPStatus s
  | .pexp l => join verb (l.map fun p => p.1 ++ "=" ++ showPStatus p.2.1 ++ "|" ++ showExpRaw ck p.2.2)
  | .err c => "err:" ++ c
  | .skip => "skip"

structure D30 where
  k : DState          -- everything the data-request driver keeps (state, clock, request number, policy)
  e : ExpCfg

/-- keys of the records a reply shows -/
def shownKeys : Resp30 → List Key
  | .recs l => l.map (·.1)
  | .kv (.kvs l) => l.map (·.1)
  | _ => []

def storedExp (s : State) (k : Key) : Int :=
  match AL.find k (Model.summon s).recs with
  | some t => t.m.exp
  | none => 0

/-- reference selection over the stored records (by the definition, from the store alone) -/
def refSorted (st : Spec.Store) : List (Key × Rec) :=
  st.foldl (fun acc p =>
    let rec ins : List (Key × Rec) → List (Key × Rec)
      | [] => [p]
      | q :: t => if p.2.m.exp < q.2.m.exp then p :: q :: t else q :: ins t
    ins acc) []

def refKeys (now : Int) (st : Spec.Store) : Req30 → Option (List Key)
  | .shiftExp n =>
    let l := (refSorted st).filter fun p => expired p.2.m.exp now
    some ((if n = 0 then l else l.take n).map (·.1))
  | .patchExp n _ =>
    let l := (refSorted st).filter fun p => expired p.2.m.exp now
    some ((if n = 0 then l else l.take n).map (·.1))
  | .getIdx desc frm lim =>
    let l := (refSorted st).filter fun p => decide (p.2.m.exp ≠ 0)
    let l := (if desc then l.reverse else l).drop frm
    some ((if lim = 0 then l else l.take lim).map (·.1))
  | .filterExp op ref => some ((st.filter fun p => Model30.fopEval true true op p.2.m.exp ref).map (·.1))
  | _ => none

def replyKeys : Resp30 → List Key
  | .recs l => l.map (·.1)
  | .keys l => l
  | .pexp l => l.map (·.1)
  | _ => []

def verbs30 : List String := ["shiftexp", "patch", "patchexp", "getidx", "fexp"]

/-- `busyshift K N`: ShiftExpiredTreasures(N) while an Increment of K holds K's record guard: the
    claim walk skips the busy record (it stays in the index, at its place after the next sort),
    then the Increment completes.  One request number for the pair. -/
def busyShift (d : D30) (key : Key) (n : Nat) : D30 × String :=
  let k := d.k
  if k.s.dead then (d, "skip")
  else
    let opNo := k.opNo + 1
    let now := k.ck.now + opNo
    let ck : Clock := { k.ck with nows := now :: k.ck.nows }
    -- the walk over the index without the busy key
    let i := Model30.idxBuild d.e (Model.summon k.s)
    let idx := i.expIdx.getD []
    let hidden : Inst := { i with expIdx := some (idx.filter (· != key)) }
    let o := Model30.step k.cfg d.e k.ar now (if Model.exists_ k.s then Model.withLive k.s hidden else k.s) (.shiftExp n)
    let s1 : State := match o.s.live with
      | some j => if idx.contains key
                  then { o.s with live := some { j with expIdx := some (Model30.sortByExp j.recs ((j.expIdx.getD []) ++ [key])) } }
                  else o.s
      | none => o.s
    let body := (showResp30 ck "shiftexp" o.r).drop 8
    let (k2, r2) := Driver.KV.stepReq { k with s := s1, ck := ck, opNo := opNo } ["inc", "i64", key, "1", "-", "-", "-"]
    ({ d with k := { k2 with opNo := opNo } }, s!"busyshift{body} ; {r2}")

/-- the expiry-aware requests are answered here from `Model30`; every other line (data requests,
    close / restart / wait / compact / multi-swamp verbs …) goes to the data-request driver, whose
    data step is `Model30`'s (it keeps the expiry index) -/
def stepLine30 (d : D30) (line : String) : D30 × String :=
  let f := line.splitOn " "
  let verb := f.headD ""
  if verb == "busyshift" && d.k.inCase then
    match f with
    | [_, key, n] => busyShift d key (n.toNat?.getD 0)
    | _ => (d, "bad-op")
  else if !(verbs30.contains verb) || !d.k.inCase then
    let (k', out) := Driver.KV.stepLine d.k line
    ({ d with k := k' }, out)
  else
    let k := d.k
    let opNo := k.opNo + 1
    let now := k.ck.now + opNo
    match parse30 now f with
    | none => (d, "bad-op")
    | some req =>
      let ck : Clock := { k.ck with nows := now :: k.ck.nows }
      let o := Model30.step k.cfg d.e k.ar now k.s req
      let before := Model.abs k.s
      -- (1) a shown record whose stored expiry is pre-epoch
      let pre := !k.s.dead && !k.ar.expNe0 && (shownKeys o.r).any fun key => decide (storedExp k.s key < 0)
      -- (2) an expiry-driven selection that differs from the definition applied to the store
      -- equal expiries on different keys leave the index order open (unstable sort): no verdict then
      let exps := (before.map fun p => p.2.m.exp).filter (· != 0)
      let ties := decide (exps.eraseDups.length ≠ exps.length)
      let stale := !k.s.dead && !ties && (match refKeys now before req with
        | some ks => (match o.r with | .err _ => false | _ => decide (ks ≠ replyKeys o.r))
        | none => false)
      -- in the domains that do not report expiry-path disagreements the line is only marked (`#D:`)
      let mark := if k.pol == .c30 then "\t#F:C30-" else "\t#D:"
      let flag :=
        if pre then mark ++ "preepoch-expiry-invisible"
        else if stale then mark ++
          (if !d.e.good then "expiry-site-deviates"
           else match k.lastTag with | some t => tagId t | none => "expiry-paths-disagree")
        else ""
      let shown : Resp30 := if !k.byKey then o.r else match o.r with
        | .recs l => .recs (l.mergeSort fun a b => a.1 ≤ b.1)
        | .pexp l => .pexp (l.mergeSort fun a b => a.1 ≤ b.1)
        | r => r
      -- PatchTreasures summoned a swamp that does not exist and stored nothing
      let ghost := !Model.exists_ k.s && Model.exists_ o.s && (Model.abs o.s).isEmpty
      let flag := if ghost && k.pol == .c06 then "\t#F:C06-patch-summons-missing-swamp" else flag
      ({ d with k := { k with s := o.s, ck := ck, opNo := opNo, lastTag := if ghost then some Tag.patchGhost else k.lastTag } },
       showResp30 ck verb shown ++ flag)

/-- the data step of `Model30` (index kept in order) with the tags of the plain model -/
def stepF30 (e : ExpCfg) (cfg : Cfg) (ar : Arith) (now : Int) (s : State) (r : Req) : Model.Out :=
  let o := Model30.step cfg e ar now s (.kv r)
  ⟨o.s, (match o.r with | .kv x => x | _ => .skip), (Model.step cfg ar now s r).tags⟩

def goodSites (ne0 : Bool) : ExpCfg :=
  { isExpired := ⟨true, true⟩, shift := ⟨true, true⟩, selectCap := ⟨true, true⟩,
    coldBuildNe0 := true, addBeaconsNe0 := true, saveBranchNe0 := true, reindexNe0 := true, patchReaddNe0 := true,
    filterGuard0 := true, isEmptyEq0 := true, setZeroNone := true, clearWins := true,
    wireGet := if ne0 then .ne0 else .gt0 }

def run (args : List String) : IO UInt32 := do
  let kv := parseArgs args
  let e := expCfgOfArgs kv
  lineLoop stepLine30 { k := { cfg := cfgOfArgs kv, pol := .c30, pid := "C30", fltBitwise := boolOf (arg kv "fltSetBitwise"), ar := ieeeWith (arg kv "wireGet" == "ne0"),
                               stepF := stepF30 e }, e := e }
  return 0

/-- C06's histories contain PatchTreasures requests (they can summon a swamp) -/
def runC06 (args : List String) : IO UInt32 := do
  let kv := parseArgs args
  let ne0 := boolOf (arg kv "wireExpNe0")
  let e := goodSites ne0
  lineLoop stepLine30 { k := { cfg := cfgOfArgs kv, pol := .c06, pid := "C06", fltBitwise := boolOf (arg kv "fltSetBitwise"), ar := ieeeWith ne0, stepF := stepF30 e }, e := e }
  return 0

/-- C05's histories mix the expiry-aware requests in: same stepping, close/reload policy of C05, the
    expiry sites taken as documented (their facts belong to C30) -/
def runC05 (args : List String) : IO UInt32 := do
  let kv := parseArgs args
  let ne0 := boolOf (arg kv "wireExpNe0")
  let e := goodSites ne0
  lineLoop stepLine30 { k := { cfg := cfgOfArgs kv, pol := .c05, pid := "C05", fltBitwise := boolOf (arg kv "fltSetBitwise"), ar := ieeeWith ne0, stepF := stepF30 e }, e := e }
  return 0

end Driver.C30
