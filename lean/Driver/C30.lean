import Driver.KV
import Hv.Data.Expiry

/-! Domain C30: the expiry-aware requests answered from `Hv.Data.Model30` (the data requests
    from `Hv.Data.Model` as in C06).  A reply is flagged when it disagrees with the expiry
    definition applied to the stored records: a record with a pre-epoch expiry is shown without
    ExpiredAt, or an index-driven path (ShiftExpired, PatchExpired, GetByIndex) returns other keys
    than `expired` / `exp ≠ 0` select from the store. -/
namespace Driver.C30
open Hv.Data Driver.KV

def siteOf (kv : List (String × String)) (name : String) : Site :=
  ⟨boolOf (arg kv (name ++ "Guard0")), boolOf (arg kv (name ++ "Strict"))⟩

def expCfgOfArgs (kv : List (String × String)) : ExpCfg :=
  { isExpired := siteOf kv "isExpired", shift := siteOf kv "shift", select := siteOf kv "select",
    selectCap := siteOf kv "selectCap", coldBuildNe0 := boolOf (arg kv "coldBuildNe0"),
    addBeaconsNe0 := boolOf (arg kv "addBeaconsNe0"), saveBranchNe0 := boolOf (arg kv "saveBranchNe0"),
    reindexNe0 := boolOf (arg kv "reindexNe0"), patchReaddNe0 := boolOf (arg kv "patchReaddNe0"),
    filterGuard0 := boolOf (arg kv "filterGuard0"), isEmptyEq0 := boolOf (arg kv "isEmptyEq0"),
    setZeroNone := boolOf (arg kv "setZeroNone"), clearWins := boolOf (arg kv "clearWins"),
    wireGet := if arg kv "wireGet" == "ne0" then .ne0 else .gt0 }

def parsePatchMeta (s : String) : Option (Option PatchMeta) :=
  if s == "-" then some none
  else match s.splitOn "|" with
    | [ua, ub, ca, cb, se, cl] =>
      some (some { setUa := ua == "1", ub := ub, setCa := ca == "1", cb := cb,
                   setExp := if se.isEmpty then none else some (parseTime se), clearExp := cl == "1" })
    | _ => none

def fop? : String → Option FOp
  | "lt" => some .lt | "le" => some .le | "gt" => some .gt | "ge" => some .ge | "eq" => some .eq | "ne" => some .ne
  | "empty" => some .empty | "notempty" => some .notEmpty | _ => none

def parse30 (now : Int) (f : List String) : Option Req30 :=
  match f with
  | ["shiftexp", n] => n.toNat?.map .shiftExp
  | ["patch", c, k, m] => (parsePatchMeta m).map fun pm => .patch (c == "1") k pm
  | ["patchexp", n, m] =>
    match n.toNat?, parsePatchMeta m with
    | some n, some (some pm) => some (.patchExp n pm)
    | _, _ => none
  | ["getidx", ord, frm, lim] =>
    match frm.toNat?, lim.toNat? with
    | some a, some b => some (.getIdx (ord == "desc") a b)
    | _, _ => none
  | ["fexp", op] => (fop? op).map fun o => .filterExp o 0
  | ["fexp", op, ts] => (fop? op).map fun o => .filterExp o (if ts == "now" then now else parseTime ts)
  | _ => (parseReq f).map .kv

def showPStatus : PStatus → String
  | .patched => "PATCHED" | .created => "CREATED" | .keyNotFound => "KEY_NOT_FOUND"
  | .typeMismatch => "TYPE_MISMATCH" | .encodingNotSupported => "ENCODING_NOT_SUPPORTED"

/-- expiry as `expirationTimeAsTime` + `timestamppb` show it: everything but 0 -/
def showExpRaw (ck : Clock) (t : Int) : String := showTime ck t

def showResp30 (ck : Clock) (verb : String) : Resp30 → String
  | .kv r => showResp ck verb r
  | .recs l => join verb (l.map fun p => p.1 ++ "=" ++ showRec ck p.2)
  | .keys l => join verb l
  | .pstat s => verb ++ " " ++ showPStatus s
  | .pexp l => join verb (l.map fun p => p.1 ++ "=" ++ showPStatus p.2.1 ++ "|" ++ showExpRaw ck p.2.2)
  | .err c => "err:" ++ c
  | .skip => "skip"

structure D30 where
  ar : Arith := ieee
  cfg : Cfg
  e : ExpCfg
  s : State := {}
  ck : Clock := {}
  opNo : Nat := 0
  inCase : Bool := false
  lastTag : Option Tag := none

/-- keys of the records a reply shows -/
def shownKeys : Resp30 → List Key
  | .recs l => l.map (·.1)
  | .kv (.kvs l) => l.map (·.1)
  | _ => []

def storedExp (s : State) (k : Key) : Int :=
  match AL.find k (Model.summon s).recs with
  | some t => t.m.exp
  | none => 0

/-- reference selection over the stored records (by the definition, from the store alone) -/
def refSorted (st : Spec.Store) : List (Key × Rec) :=
  st.foldl (fun acc p =>
    let rec ins : List (Key × Rec) → List (Key × Rec)
      | [] => [p]
      | q :: t => if p.2.m.exp < q.2.m.exp then p :: q :: t else q :: ins t
    ins acc) []

def refKeys (now : Int) (st : Spec.Store) : Req30 → Option (List Key)
  | .shiftExp n =>
    let l := (refSorted st).filter fun p => expired p.2.m.exp now
    some ((if n = 0 then l else l.take n).map (·.1))
  | .patchExp n _ =>
    let l := (refSorted st).filter fun p => expired p.2.m.exp now
    some ((if n = 0 then l else l.take n).map (·.1))
  | .getIdx desc frm lim =>
    let l := (refSorted st).filter fun p => decide (p.2.m.exp ≠ 0)
    let l := (if desc then l.reverse else l).drop frm
    some ((if lim = 0 then l else l.take lim).map (·.1))
  | .filterExp op ref => some ((st.filter fun p => Model30.fopEval true true op p.2.m.exp ref).map (·.1))
  | _ => none

def replyKeys : Resp30 → List Key
  | .recs l => l.map (·.1)
  | .keys l => l
  | .pexp l => l.map (·.1)
  | _ => []

def stepLine30 (d : D30) (line : String) : D30 × String :=
  let f := line.splitOn " "
  match f with
  | "case" :: _ :: rest =>
    let kind := (rest.filterMap fun a => match a.splitOn "=" with | ["kind", v] => some (kindOf v) | _ => none).headD .mem
    ({ d with s := { kind := kind }, ck := {}, opNo := 0, inCase := true, lastTag := none }, line)
  | _ =>
    if !d.inCase then (d, "no-case")
    else match f with
    | ["within", _] => if d.s.dead then (d, "skip") else (d, "ok")
    | ["wait", ms] =>
      if d.s.dead then (d, "skip")
      else ({ d with ck := { d.ck with now := d.ck.now + (ms.toInt?.getD 0) * 1000000 } }, "ok")
    | _ =>
      let verb := f.headD ""
      if verb == "closeidle" || verb == "restart" || verb == "close" then
        if d.s.dead then (d, "skip") else ({ d with s := (Model.closeStep d.cfg d.s).1 }, "ok")
      else
        let opNo := d.opNo + 1
        let now := d.ck.now + opNo
        match parse30 now f with
        | none => (d, "bad-op")
        | some req =>
          let ck : Clock := { d.ck with nows := now :: d.ck.nows }
          let o := Model30.step d.cfg d.e d.ar now d.s req
          let before := Model.abs d.s
          -- (1) a shown record whose stored expiry is pre-epoch
          let pre := !d.s.dead && !d.ar.expNe0 && (shownKeys o.r).any fun k => decide (storedExp d.s k < 0)
          -- (2) an expiry-driven selection that differs from the definition applied to the store
          -- equal expiries on different keys leave the index order open (unstable sort): no verdict then
          let exps := (before.map fun p => p.2.m.exp).filter (· != 0)
          let ties := decide (exps.eraseDups.length ≠ exps.length)
          let stale := !d.s.dead && !ties && (match refKeys now before req with
            | some ks => (match o.r with | .err _ => false | _ => decide (ks ≠ replyKeys o.r))
            | none => false)
          let tags := match req with | .kv r => (Model.step d.cfg d.ar now d.s r).tags | _ => []
          -- the one mechanism known to move an expiry past the index stays the explanation of a stale
          -- index for the rest of the case, whatever else happens afterwards
          let lastTag := if d.lastTag == some Tag.incFailTrace || tags.contains Tag.incFailTrace then some Tag.incFailTrace
                         else match pickTag tags with | some t => some t | none => d.lastTag
          let flag :=
            if pre then "\t#F:C30-preepoch-expiry-invisible"
            else if stale then "\t#F:C30-" ++
              (if !d.e.good then "expiry-site-deviates"
               else match lastTag with | some t => tagId t | none => "expiry-paths-disagree")
            else ""
          ({ d with s := o.s, ck := ck, opNo := opNo, lastTag := lastTag }, showResp30 ck verb o.r ++ flag)

def run (args : List String) : IO UInt32 := do
  let kv := parseArgs args
  lineLoop stepLine30 { cfg := cfgOfArgs kv, e := expCfgOfArgs kv, ar := ieeeWith (arg kv "wireGet" == "ne0") }
  return 0

end Driver.C30
