import Driver.C01
import Driver.C02
import Driver.C03
import Driver.C04
import Driver.C05
import Driver.C06
import Driver.C07
import Driver.C08
import Driver.C09
import Driver.C10
import Driver.C11
import Driver.C12
import Driver.C13
import Driver.C14
import Driver.C15
import Driver.C16
import Driver.C17
import Driver.C18
import Driver.C19
import Driver.C20
import Driver.C21
import Driver.C22
import Driver.C23
import Driver.C24
import Driver.C25
import Driver.C26
import Driver.C27
import Driver.C28
import Driver.C29
import Driver.C30

/-- `drv <domain> [fact=value …] < ops` — one reply line per op line. -/
def main (args : List String) : IO UInt32 := do
  match args with
  | "C01" :: rest => Driver.C01.run rest
  | "C02" :: rest => Driver.C02.run rest
  | "C03" :: rest => Driver.C03.run rest
  | "C04" :: rest => Driver.C04.run rest
  | "C05" :: rest => Driver.C05.run rest
  | "C06" :: rest => Driver.C06.run rest
  | "C07" :: rest => Driver.C07.run rest
  | "C08" :: rest => Driver.C08.run rest
  | "C09" :: rest => Driver.C09.run rest
  | "C10" :: rest => Driver.C10.run rest
  | "C11" :: rest => Driver.C11.run rest
  | "C12" :: rest => Driver.C12.run rest
  | "C13" :: rest => Driver.C13.run rest
  | "C14" :: rest => Driver.C14.run rest
  | "C15" :: rest => Driver.C15.run rest
  | "C16" :: rest => Driver.C16.run rest
  | "C17" :: rest => Driver.C17.run rest
  | "C18" :: rest => Driver.C18.run rest
  | "C19" :: rest => Driver.C19.run rest
  | "C20" :: rest => Driver.C20.run rest
  | "C21" :: rest => Driver.C21.run rest
  | "C22" :: rest => Driver.C22.run rest
  | "C23" :: rest => Driver.C23.run rest
  | "C24" :: rest => Driver.C24.run rest
  | "C25" :: rest => Driver.C25.run rest
  | "C26" :: rest => Driver.C26.run rest
  | "C27" :: rest => Driver.C27.run rest
  | "C28" :: rest => Driver.C28.run rest
  | "C29" :: rest => Driver.C29.run rest
  | "C30" :: rest => Driver.C30.run rest
  | _ =>
    IO.eprintln s!"drv: unknown domain {args}"
    return 2
