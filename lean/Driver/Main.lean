import Driver.C15

def main (args : List String) : IO UInt32 := do
  match args with
  | "C15" :: rest => Driver.C15.run rest
  | _ =>
    IO.eprintln s!"drv: unknown domain {args}"
    return 2
