import Driver.Util
import Hv.Misc.Compressor

/-! Driver for domain C24.  The library's verdict arrives on the op line (the libraries are
    parameters of the model); the driver answers what the *wrapper model* returns for it and
    flags a reply that violates the Spec ("an error, or the original data"). -/
namespace Driver.C24
open Hv.Compressor

def siteOf (s : String) : Site :=
  if s == "propagates" then .propagates else if s == "swallows" then .swallows else .unknown

def algOf : String → Option Alg
  | "gzip" => some .gzip | "lz4" => some .lz4 | "snappy" => some .snappy | "zstd" => some .zstd
  | _ => none

/-- A library that behaves as the op line says, for the one input of this op. -/
def libOf (v : String) : Option Lib :=
  if v == "H" then some ⟨fun _ => false, fun _ => .err, fun _ => .err, fun _ => .err, fun _ => .err⟩
  else if v == "E" then some ⟨fun _ => true, fun _ => .err, fun _ => .err, fun _ => .err, fun _ => .err⟩
  else if v.startsWith "O:" then
    -- decoded payloads are compared as hex text; the model carries them opaquely
    none
  else none

def step (cfg : Cfg) (_ : Unit) (line : String) : Unit × String :=
  match line.splitOn " " with
  | ["case", _] => ((), line)
  | ["rt", a, _] =>
    -- assumption (recorded in the trusted base): each library round-trips its own output
    match algOf a with
    | some _ => ((), "ok")
    | none => ((), "bad-op")
  | ["dec", a, orig, _, v] =>
    match algOf a with
    | none => ((), "bad-op")
    | some alg =>
      if v.startsWith "O:" then
        let d := (v.drop 2).toString
        -- wrapper model on a successful library result: `liftRes _ (.ok d) = .ok d`
        let fl := if d != orig then s!"\t#F:C24-{a}-lib-undetected-corruption" else ""
        ((), s!"ok {d}{fl}")
      else
        match libOf v with
        | none => ((), "bad-op")
        | some lib =>
          match decompress cfg lib alg [] with
          | .err => ((), "err")
          | .ok _ => ((), s!"ok \t#F:C24-{a}-swallows-error")
  | _ => ((), "bad-op")

def run (args : List String) : IO UInt32 := do
  let kv := parseArgs args
  let cfg : Cfg := ⟨siteOf (arg kv "gzipNewReader"), siteOf (arg kv "gzipRead"), siteOf (arg kv "lz4Read"),
                    siteOf (arg kv "snappyDecode"), siteOf (arg kv "zstdDecode")⟩
  lineLoop (step cfg) ()
  return 0

end Driver.C24
