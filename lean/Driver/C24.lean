import Driver.Util
import Hv.Misc.Compressor

/-! Driver for domain C24.  The library's verdict arrives on the op line (the libraries are
    parameters of the model); the driver answers what the *wrapper model* returns for it and
    flags a reply that violates the Spec ("an error, or the original data"). -/
namespace Driver.C24
open Hv.Compressor

def siteOf (s : String) : Site :=
  if s == "propagates" then .propagates else if s == "swallows" then .swallows else .unknown

def algOf : String → Option Alg
  | "gzip" => some .gzip | "lz4" => some .lz4 | "snappy" => some .snappy | "zstd" => some .zstd
  | _ => none

/-- A library that behaves as the op line says, for the one input of this op. -/
def libOf (v : String) : Option Lib :=
  if v == "H" then some ⟨fun _ => false, fun _ => .err, fun _ => .err, fun _ => .err, fun _ => .err⟩
  else if v == "E" then some ⟨fun _ => true, fun _ => .err, fun _ => .err, fun _ => .err, fun _ => .err⟩
  else if v.startsWith "O:" then
    -- decoded payloads are compared as hex text; the model carries them opaquely
    none
  else none

def step (cfg : Cfg) (_ : Unit) (line : String) : Unit × String :=
  match line.splitOn " " with
  | ["case", _] => ((), line)
  | ["rt", a, _] =>
    -- assumption (recorded in the trusted base): each library round-trips its own output
    match algOf a with
    | some _ => ((), "ok")
    | none => ((), "bad-op")
  | "rtc" :: a :: _ =>
    -- same assumption, under concurrent use of one compressor object (the wrapper keeps no state)
    match algOf a with
    | some _ => ((), "ok")
    | none => ((), "bad-op")
  | "rtb" :: a :: _ =>
    -- same assumption, for several values compressed before any is decompressed
    match algOf a with
    | some _ => ((), "ok")
    | none => ((), "bad-op")
  | ["dec", a, orig, dmg, v] =>
    match algOf a with
    | none => ((), "bad-op")
    | some alg =>
      if v.startsWith "O:" then
        let d := (v.drop 2).toString
        -- wrapper model on a successful library result: `liftRes _ (.ok d) = .ok d`
        -- the finding id encodes the input class, so that only the recorded classes are "known":
        --   snappy: raw blocks have no checksum at all;
        --   lz4: frame cut at or before the first block-size field (≤ 11 bytes) reads as a clean EOF;
        --   zstd: an empty input is accepted as an empty stream
        let dl := dmg.length / 2
        let cls :=
          if a == "snappy" then "C24-snappy-no-checksum"
          else if a == "lz4" && d == "" && dl ≤ 11 then "C24-lz4-truncated-frame-header"
          -- lz4: a block-size field enlarged so that end mark and checksum are swallowed as data and the
          -- stream then simply ends: the reader accepts the missing end mark (original is a strict prefix)
          else if a == "lz4" && d.startsWith orig && d.length > orig.length then "C24-lz4-missing-endmark-accepted"
          else if a == "zstd" && d == "" && dl == 0 then "C24-zstd-empty-input"
          else s!"C24-{a}-lib-undetected-corruption"
        let fl := if d != orig then s!"\t#F:{cls}" else ""
        ((), s!"ok {d}{fl}")
      else
        match libOf v with
        | none => ((), "bad-op")
        | some lib =>
          match decompress cfg lib alg [] with
          | .err => ((), "err")
          | .ok _ => ((), s!"ok \t#F:C24-{a}-swallows-error")
  | _ => ((), "bad-op")

def run (args : List String) : IO UInt32 := do
  let kv := parseArgs args
  let cfg : Cfg := ⟨siteOf (arg kv "gzipNewReader"), siteOf (arg kv "gzipRead"), siteOf (arg kv "lz4Read"),
                    siteOf (arg kv "snappyDecode"), siteOf (arg kv "zstdDecode")⟩
  lineLoop (step cfg) ()
  return 0

end Driver.C24
