import Driver.Util

/-! Placeholder: the line-protocol driver of domain C22 is not written yet. -/
namespace Driver.C22

def run (_args : List String) : IO UInt32 := do
  IO.eprintln "drv: domain C22 has no driver yet"
  return 2

end Driver.C22
