import Driver.Util
import Hv.Misc.SdkTags

/-! Line-protocol driver for the SDK tag model (domain C22).  Same ops and reply format as
    `/verif/harness/c22.go`.  From the three classifiers of the model it predicts what each probe
    of the harness observes on the real conversion functions, and whether an end-to-end
    save/read returns the model unchanged.  A reply is flagged when the classifiers disagree on
    a tag: `C22-substring-tag-match` (a slot fires although the tag head is not its name) or
    `C22-whole-tag-equality` (the head is a reserved name but the slot does not fire). -/
namespace Driver.C22
open Hv.SdkTags

def predOf (s : String) : Pred :=
  if s == "eq" then .eq else if s == "contains" then .contains else if s == "headEq" then .headEq else .unknown

def hexVal (c : Char) : Option Nat :=
  if '0' ≤ c ∧ c ≤ '9' then some (c.toNat - '0'.toNat)
  else if 'a' ≤ c ∧ c ≤ 'f' then some (c.toNat - 'a'.toNat + 10)
  else none

def unhexBytes : List Char → Option (List UInt8)
  | [] => some []
  | [_] => none
  | a :: b :: rest =>
    match hexVal a, hexVal b, unhexBytes rest with
    | some x, some y, some bs => some (UInt8.ofNat (x * 16 + y) :: bs)
    | _, _, _ => none

/-- tags travel as hex of their UTF-8 bytes; the model works on characters -/
def tagOf (s : String) : Option Tag :=
  if s == "-" then some []
  else match unhexBytes s.toList with
    | some bs => (String.fromUTF8? (ByteArray.mk bs.toArray)).map (·.toList)
    | none => none

def digitChar (d : Nat) : Char := if d < 10 then Char.ofNat (48 + d) else Char.ofNat (87 + d)
def hexOfTag (t : Tag) : String :=
  String.ofList ((String.ofList t).toUTF8.toList.flatMap fun c => [digitChar (c.toNat / 16), digitChar (c.toNat % 16)])

def isTimeSlot : Slot → Bool
  | .expireAt | .createdAt | .updatedAt => true
  | _ => false

def slotCode : Slot → String
  | .key => "K" | .value => "V" | .expireAt => "EA" | .createdBy => "CB" | .createdAt => "CA"
  | .updatedBy => "UB" | .updatedAt => "UA"

def slotStr (s : Slot) : String := String.ofList (slotName s)

/-- what the encoder leaves in the KeyValuePair for the probe {K:"kk", X:<"xv" | time>} -/
def encObs (cfg : Cfg) (t : Tag) (timeProbe : Bool) : String :=
  let l := encSlots cfg t
  -- the first slot whose branch rejects the probe's Go type
  let bad := l.find? (fun s => if timeProbe then (s == .key || s == .createdBy || s == .updatedBy) else isTimeSlot s)
  match bad with
  | some s => "err:" ++ slotStr s
  | none =>
    let k := if l.contains .key then "xv" else "kk"
    let marks := [Slot.value, .expireAt, .createdBy, .createdAt, .updatedBy, .updatedAt].filter l.contains
    let parts := ["K=" ++ k] ++ marks.map slotCode ++ (if isBody t then ["B"] else [])
    ",".intercalate parts

/-- what the decoder leaves in X from a treasure with every slot filled -/
def decObs (cfg : Cfg) (t : Tag) (timeProbe : Bool) : String :=
  match (decSlots cfg t).head? with
  | none =>
    if timeProbe then (if isBody t then "1672531204" else "zero")
    else "s:" ++ (if isBody t then "tb" else "")
  | some s =>
    if timeProbe then
      match s with
      | .value => "1900000000" | .expireAt => "2240611201" | .createdAt => "1609459202" | .updatedAt => "1640995203"
      | _ => "panic"
    else
      match s with
      | .key => "s:tk" | .value => "s:tv" | .createdBy => "s:tcb" | .updatedBy => "s:tub"
      | _ => "panic"

def shapeObs (t : Tag) : String :=
  match headSlot t with
  | some .value => "shape=1 body="
  | some _ => "shape=0 body="
  | none => if head t == [] then "shape=0 body=" else "shape=2 body=" ++ hexOfTag (head t)

def flagOf (cfg : Cfg) (t : Tag) : String :=
  if decide (Agree cfg t) then ""
  else
    let hs := (headSlot t).toList
    let extra := (encSlots cfg t ++ decSlots cfg t).any (fun s => !hs.contains s)
    if extra then "\t#F:C22-substring-tag-match" else "\t#F:C22-whole-tag-equality"

def kindOK (t : Tag) (kind : String) : Bool :=
  match headSlot t with
  | some .key | some .createdBy | some .updatedBy => kind == "s"
  | some .expireAt | some .createdAt | some .updatedAt => kind == "t"
  | _ => head t != ['Z', 'z']

/-- tags of the end-to-end model built by the harness -/
def rtTags (t : Tag) (extra : String) : List Tag :=
  let hs := headSlot t
  (if hs == some .key then [] else [slotName .key]) ++
  (if extra == "meta" then (metaSlots.filter (fun s => hs != some s)).map slotName else []) ++
  [t] ++ (if hs == some .value then [] else [['Z', 'z']])

def step (cfg : Cfg) (_ : Unit) (line : String) : Unit × String :=
  match line.splitOn " " with
  | ["case", _] => ((), line)
  | ["tag", h] =>
    match tagOf h with
    | none => ((), "bad-op")
    | some t =>
      ((), s!"{shapeObs t} es={encObs cfg t false} et={encObs cfg t true} ds={decObs cfg t false} dt={decObs cfg t true}{flagOf cfg t}")
  | ["rt", h, kind, extra] =>
    match tagOf h with
    | none => ((), "bad-op")
    | some t =>
      if !kindOK t kind || (kind != "s" && kind != "t") || (extra != "none" && extra != "meta") then ((), "bad-op")
      else
        let tags := rtTags t extra
        if tags.all (fun x => decide (Agree cfg x)) then ((), "ok") else ((), "bad" ++ flagOf cfg t)
  | _ => ((), "bad-op")

def run (args : List String) : IO UInt32 := do
  let kv := parseArgs args
  let p (k : String) : Pred := predOf (arg kv k)
  let cfg : Cfg :=
    ⟨⟨p "encKey", p "encValue", p "encExpireAt", p "encCreatedBy", p "encCreatedAt", p "encUpdatedBy", p "encUpdatedAt"⟩,
     ⟨p "decKey", p "decValue", p "decExpireAt", p "decCreatedBy", p "decCreatedAt", p "decUpdatedBy", p "decUpdatedAt"⟩⟩
  lineLoop (step cfg) ()
  return 0

end Driver.C22
