import Driver.Util
import Hv.Misc.SdkTags
import Hv.Misc.SdkValues

/-! Line-protocol driver for the SDK tag model (domain C22).  Same ops and reply format as
    `/verif/harness/c22.go`.  From the three classifiers of the model it predicts what each probe
    of the harness observes on the real conversion functions, and whether an end-to-end
    save/read returns the model unchanged.  A reply is flagged when the classifiers disagree on
    a tag: `C22-substring-tag-match` (a slot fires although the tag head is not its name) or
    `C22-whole-tag-equality` (the head is a reserved name but the slot does not fire). -/
namespace Driver.C22
open Hv.SdkTags

def predOf (s : String) : Pred :=
  if s == "eq" then .eq else if s == "contains" then .contains else if s == "headEq" then .headEq else .unknown

def hexVal (c : Char) : Option Nat :=
  if '0' ≤ c ∧ c ≤ '9' then some (c.toNat - '0'.toNat)
  else if 'a' ≤ c ∧ c ≤ 'f' then some (c.toNat - 'a'.toNat + 10)
  else none

def unhexBytes : List Char → Option (List UInt8)
  | [] => some []
  | [_] => none
  | a :: b :: rest =>
    match hexVal a, hexVal b, unhexBytes rest with
    | some x, some y, some bs => some (UInt8.ofNat (x * 16 + y) :: bs)
    | _, _, _ => none

/-- tags travel as hex of their UTF-8 bytes; the model works on characters -/
def tagOf (s : String) : Option Tag :=
  if s == "-" then some []
  else match unhexBytes s.toList with
    | some bs => (String.fromUTF8? (ByteArray.mk bs.toArray)).map (·.toList)
    | none => none

def digitChar (d : Nat) : Char := if d < 10 then Char.ofNat (48 + d) else Char.ofNat (87 + d)
def hexOfTag (t : Tag) : String :=
  String.ofList ((String.ofList t).toUTF8.toList.flatMap fun c => [digitChar (c.toNat / 16), digitChar (c.toNat % 16)])

/-- body field, given whether `hydraide:"-"` is a skip marker -/
def isBodyD (dash : Bool) (t : Tag) : Bool := isBody t && !(dash && head t == ['-'])

def isTimeSlot : Slot → Bool
  | .expireAt | .createdAt | .updatedAt => true
  | _ => false

def slotCode : Slot → String
  | .key => "K" | .value => "V" | .expireAt => "EA" | .createdBy => "CB" | .createdAt => "CA"
  | .updatedBy => "UB" | .updatedAt => "UA"

def slotStr (s : Slot) : String := String.ofList (slotName s)

/-- what the encoder leaves in the KeyValuePair for the probe {K:"kk", X:<"xv" | time>} -/
def encObs (dash : Bool) (cfg : Cfg) (t : Tag) (timeProbe : Bool) : String :=
  let l := encSlots cfg t
  -- the first slot whose branch rejects the probe's Go type
  let bad := l.find? (fun s => if timeProbe then (s == .key || s == .createdBy || s == .updatedBy) else isTimeSlot s)
  match bad with
  | some s => "err:" ++ slotStr s
  | none =>
    let k := if l.contains .key then "xv" else "kk"
    let marks := [Slot.value, .expireAt, .createdBy, .createdAt, .updatedBy, .updatedAt].filter l.contains
    let parts := ["K=" ++ k] ++ marks.map slotCode ++ (if isBodyD dash t then ["B"] else [])
    ",".intercalate parts

/-- what the decoder leaves in X from a treasure with every slot filled -/
def decObs (dash : Bool) (cfg : Cfg) (t : Tag) (timeProbe : Bool) : String :=
  match (decSlots cfg t).head? with
  | none =>
    if timeProbe then (if isBodyD dash t then "1672531204" else "zero")
    else "s:" ++ (if isBodyD dash t then "tb" else "")
  | some s =>
    if timeProbe then
      match s with
      | .value => "1900000000" | .expireAt => "2240611201" | .createdAt => "1609459202" | .updatedAt => "1640995203"
      | _ => "panic"
    else
      match s with
      | .key => "s:tk" | .value => "s:tv" | .createdBy => "s:tcb" | .updatedBy => "s:tub"
      | _ => "panic"

def shapeObs (dash : Bool) (t : Tag) : String :=
  match headSlot t with
  | some .value => "shape=1 body="
  | some _ => "shape=0 body="
  | none => if !isBodyD dash t then "shape=0 body=" else "shape=2 body=" ++ hexOfTag (head t)

def flagOf (cfg : Cfg) (t : Tag) : String :=
  if decide (Agree cfg t) then ""
  else
    let hs := (headSlot t).toList
    let extra := (encSlots cfg t ++ decSlots cfg t).any (fun s => !hs.contains s)
    if extra then "\t#F:C22-substring-tag-match" else "\t#F:C22-whole-tag-equality"

def kindOK (t : Tag) (kind : String) : Bool :=
  match headSlot t with
  | some .key | some .createdBy | some .updatedBy => kind == "s"
  | some .expireAt | some .createdAt | some .updatedAt => kind == "t"
  | _ => head t != ['Z', 'z']

/-- tags of the end-to-end model built by the harness -/
def rtTags (t : Tag) (extra : String) : List Tag :=
  let hs := headSlot t
  (if hs == some .key then [] else [slotName .key]) ++
  (if extra == "meta" then (metaSlots.filter (fun s => hs != some s)).map slotName else []) ++
  [t] ++ (if hs == some .value then [] else [['Z', 'z']])

/-! ### value round trips (`val` ops) -/

namespace V
open Hv.SdkValues

def kindOf (s : String) : Option Kind :=
  match s with
  | "str" => some .str | "bool" => some .bool | "u8" => some .u8 | "u16" => some .u16 | "u32" => some .u32
  | "u64" => some .u64 | "uint" => some .uint | "i8" => some .i8 | "i16" => some .i16 | "i32" => some .i32
  | "nstr" => some .str | "ni32" => some .i32 | "nbytes" => some .bytes
  | "i64" => some .i64 | "int" => some .int | "f32" => some .f32 | "f64" => some .f64 | "bytes" => some .bytes
  | "strs" | "i64s" | "u32s" => some .slice | "map" => some .map
  | "pstr" | "pint" | "pstruct" => some .ptr | "time" => some .time | "struct" => some .struct | "arr" => some .array
  | _ => none

def fieldOf (s : String) : Option Field :=
  match s with
  | "stringVal" => some .stringVal | "boolVal" => some .boolVal | "uint8Val" => some .uint8Val | "uint16Val" => some .uint16Val
  | "uint32Val" => some .uint32Val | "uint64Val" => some .uint64Val | "int8Val" => some .int8Val | "int16Val" => some .int16Val
  | "int32Val" => some .int32Val | "int64Val" => some .int64Val | "float32Val" => some .float32Val
  | "float64Val" => some .float64Val | "bytesVal" => some .bytesVal | _ => none

def contentOf (s : String) : Option Content :=
  match s with
  | "cString" => some .cString | "cBool" => some .cBool | "cUint8" => some .cUint8 | "cUint16" => some .cUint16
  | "cUint32" => some .cUint32 | "cUint64" => some .cUint64 | "cInt8" => some .cInt8 | "cInt16" => some .cInt16
  | "cInt32" => some .cInt32 | "cInt64" => some .cInt64 | "cFloat32" => some .cFloat32 | "cFloat64" => some .cFloat64
  | "cBytes" => some .cBytes | _ => none

/-- model kinds as the extractor names them (the harness has several Go types per container kind) -/
def factKind (s : String) : Option Kind :=
  match s with
  | "slice" => some .slice | "ptr" => some .ptr | "array" => some .array
  | _ => kindOf s

def pairs {α β : Type} (fa : String → Option α) (fb : String → Option β) (s : String) : List (α × β) :=
  (s.splitOn ",").filterMap fun p =>
    match p.splitOn ">" with
    | [a, b] => match fa a, fb b with
      | some x, some y => some (x, y)
      | _, _ => none
    | _ => none

def decTable (s : String) : List (Field × List Kind) :=
  (s.splitOn ",").filterMap fun p =>
    match p.splitOn ">" with
    | [a, b] => (fieldOf a).map fun f => (f, (b.splitOn "+").filterMap factKind)
    | _ => none

def bytesOfHex (s : String) : Option (List Nat) :=
  if s == "-" then some [] else (unhexBytes s.toList).map (·.map (·.toNat))

def valOf (k : Kind) (desc : String) : Option Val :=
  match desc.splitOn ":" with
  | ["s", h] => (bytesOfHex h).map fun b =>
      .str (String.fromUTF8? (ByteArray.mk (b.map UInt8.ofNat).toArray)).isSome b
  | ["b", x] => some (.bool (x == "1"))
  | ["n", x] => x.toInt?.map .num
  | ["f", x] => x.toNat?.map .flt
  | ["y", x] => if x == "nil" then some (.bytes none) else (bytesOfHex x).map fun b => .bytes (some b)
  | ["c", x] => if x == "nil" then some (.cont none) else x.toNat?.map fun n => .cont (some ((List.range n).map (· + 1)))
  | ["p", x] => if x == "nil" then some (.cont none) else if x == "z" then some (.cont (some [1])) else some (.cont (some [2]))
  | ["t", "zero"] => some (zero .time)
  | ["t", s, n, _] => match s.toInt?, n.toNat? with
    | some s, some n => some (.time s n)
    | _, _ => none
  | ["r", x] => if k == .struct || k == .array then some (.stru (if x == "0" then 0 else 1)) else none
  | _ => none

def isNilOrEmpty : Val → Bool
  | .bytes b => b.isNone || b == some []
  | .cont c => c.isNone || c == some []
  | _ => false

/-- reply and finding for one `val` op -/
def answer (cfg : Hv.SdkValues.Cfg) (lib : Lib) (slot : String) (k : Kind) (om : Bool) (v : Val) (first : Option Val := none) : String :=
  -- a profile field goes through the same typed conversions as the catalog value
  let r := if slot == "b" then bodyRT cfg k om v
    else match first with
      | some v1 => valueUpdRT cfg lib k om v1 v
      | none => valueRT cfg lib k om v
  let stale := slot != "b" && first.isSome && r != valueRT cfg lib k om v
  match r with
  | .err =>
    let refused := k == .array || (match v with | .str false _ => true | _ => false)
    if refused then "err" else "err\t#F:C22-nil-body-field-unreadable"
  | .ok w =>
    if w == v then "same"
    else
      let cls := if isNilOrEmpty v && isNilOrEmpty w then "nilempty"
        else if stale && first == some w then "stale" else "diff"
      let fid :=
        if stale then "C22-void-overwrite-keeps-old-value"
        else if om && isEmpty cfg k v then "C22-omitempty-normalises"
        else match v with
          | .time _ _ => "C22-value-time-truncated"
          | .stru _ => "C22-struct-value-dropped"
          | .cont _ => "C22-gob-nil-empty"
          | _ => "C22-value-conversion"
      cls ++ "\t#F:" ++ fid

end V

structure ShapeFacts where
  bodySkipsUnexported : Bool
  profileSkipsUnexported : Bool
  dashIsSkip : Bool

/-- `mval` / `mupd` / `mpupd`: the same op on a swamp registered with EncodingMsgPack -/
def libOf (line : String) : Hv.SdkValues.Lib × String :=
  if line.startsWith "mval " || line.startsWith "mupd " || line.startsWith "mpupd " then (Hv.SdkValues.msgpackLib, (line.drop 1).toString)
  else (Hv.SdkValues.gobLib, line)

def step (cfg : Cfg) (vcfg : Hv.SdkValues.Cfg) (sh : ShapeFacts) (_ : Unit) (line0 : String) : Unit × String :=
  let (lib, line) := libOf line0
  match line.splitOn " " with
  | ["case", _] => ((), line)
  | ["tag", h] =>
    match tagOf h with
    | none => ((), "bad-op")
    | some t =>
      ((), s!"{shapeObs sh.dashIsSkip t} es={encObs sh.dashIsSkip cfg t false} et={encObs sh.dashIsSkip cfg t true} ds={decObs sh.dashIsSkip cfg t false} dt={decObs sh.dashIsSkip cfg t true}{flagOf cfg t}")
  | ["rt", h, kind, extra] =>
    match tagOf h with
    | none => ((), "bad-op")
    | some t =>
      if !kindOK t kind || (kind != "s" && kind != "t") || (extra != "none" && extra != "meta") then ((), "bad-op")
      else
        let tags := rtTags t extra
        if tags.all (fun x => decide (Agree cfg x)) then ((), "ok") else ((), "bad" ++ flagOf cfg t)
  | ["val", slot, kind, om, desc] =>
    match V.kindOf kind with
    | none => ((), "bad-op")
    | some k =>
      match V.valOf k desc with
      | none => ((), "bad-op")
      | some v =>
        if (slot != "v" && slot != "b" && slot != "p") || (om != "0" && om != "1") then ((), "bad-op")
        else ((), V.answer vcfg lib slot k (om == "1") v)
  | ["upd", slot, kind, om, d1, d2] =>
    match V.kindOf kind with
    | none => ((), "bad-op")
    | some k =>
      match V.valOf k d1, V.valOf k d2 with
      | some v1, some v2 =>
        if (slot != "v" && slot != "b" && slot != "p") || (om != "0" && om != "1") then ((), "bad-op")
        -- the second save replaces the first one entirely: what comes back is the round trip of the LAST value
        else ((), V.answer vcfg lib slot k (om == "1") v2 (some v1))
      | _, _ => ((), "bad-op")
  | ["pupd", kind, mode, d1, d2] =>
    match V.kindOf kind with
    | none => ((), "bad-op")
    | some k =>
      match V.valOf k d1, V.valOf k d2 with
      | some v1, some v2 =>
        if !(["n", "o", "d", "x"].contains mode) then ((), "bad-op") else
        let om := mode == "o" || mode == "d"
        let del := mode == "d" || mode == "x"
        match Hv.SdkValues.profileUpdRT vcfg lib k om del v1 v2 with
        | .err => ((), "err")
        | .ok w =>
          if w == v2 then ((), "same")
          else if V.isNilOrEmpty v2 && V.isNilOrEmpty w then ((), "nilempty\t#F:C22-gob-nil-empty")
          else if w == v1
          then ((), "stale" ++ (if mode == "o" then "" else "\t#F:C22-void-overwrite-keeps-old-value"))
          else if mode == "o" && some w == (match Hv.SdkValues.valueRT vcfg lib k false v1 with | .ok x => some x | .err => none)
          then ((), "diff")     -- the stale value, itself changed by its own round trip (a truncated time)
          else ((), "diff\t#F:C22-value-conversion")
      | _, _ => ((), "bad-op")
  | ["many", v] =>
    -- the read loops hand every record to the iterator as it was saved (structural: outside the Lean model)
    ((), if v == "value" || v == "body" then "rm=ok rb=ok rs=ok" else if v == "profile" then "pb=ok" else "bad-op")
  | ["shape", nm] =>
    -- structural shapes are outside the Lean model: expected outcomes keyed by the extracted facts
    let r : String :=
      match nm with
      | "nested" | "ptrs" | "unexported-plain" | "prof-nested" => "same"
      | "ptrs-nil" => if vcfg.bodySkipsNil then "same" else "err-read"
      | "embedded" | "embedded-pub" | "prof-embedded" => "diff\t#F:C22-embedded-fields-dropped"
      | "unexported-tagged" => if sh.bodySkipsUnexported then "same" else "panic-save\t#F:C22-unexported-field-panics"
      | "prof-unexported" => if sh.profileSkipsUnexported then "same" else "panic-read\t#F:C22-unexported-field-panics"
      | "dash" => if sh.dashIsSkip then "same" else "diff\t#F:C22-dash-tag-not-skipped"
      | "dash-value" => if sh.dashIsSkip then "same" else "err-save\t#F:C22-dash-tag-not-skipped"
      | _ => "bad-op"
    ((), r)
  | _ => ((), "bad-op")

def run (args : List String) : IO UInt32 := do
  let kv := parseArgs args
  let p (k : String) : Pred := predOf (arg kv k)
  let cfg : Cfg :=
    ⟨⟨p "encKey", p "encValue", p "encExpireAt", p "encCreatedBy", p "encCreatedAt", p "encUpdatedBy", p "encUpdatedAt"⟩,
     ⟨p "decKey", p "decValue", p "decExpireAt", p "decCreatedBy", p "decCreatedAt", p "decUpdatedBy", p "decUpdatedAt"⟩⟩
  let yes (k : String) : Bool := arg kv k == "yes"
  let vcfg : Hv.SdkValues.Cfg :=
    ⟨V.pairs V.factKind V.fieldOf (arg kv "valEnc"), V.pairs V.fieldOf V.contentOf (arg kv "valStore"),
     V.pairs V.contentOf V.fieldOf (arg kv "valRead"), V.decTable (arg kv "valDec"),
     yes "timeAsUnixSeconds", yes "structValueEncoded", yes "bodySkipsNil", yes "emptyLenZero", yes "emptyNegZero", yes "voidClearsContent"⟩
  let sh : ShapeFacts := ⟨yes "bodySkipsUnexported", yes "profileSkipsUnexported", yes "dashIsSkip"⟩
  lineLoop (step cfg vcfg sh) ()
  return 0

end Driver.C22
