import Driver.C30

/-! Domain C05: the data requests and the expiry-aware requests are answered as in C06 / C30; a
    `close` / `closeidle` / `restart` line is flagged when the persisted-and-reloaded view of the
    swamp differs from the view before. -/
namespace Driver.C05

def run (args : List String) : IO UInt32 := Driver.C30.runC05 args

end Driver.C05
