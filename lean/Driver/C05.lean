import Driver.KV

/-! Domain C05: the same model as C06 answers every line; a `closeidle` / `restart` line is
    flagged when the persisted-and-reloaded view of the swamp differs from the view before. -/
namespace Driver.C05

def run (args : List String) : IO UInt32 := Driver.KV.run "C05" .c05 args

end Driver.C05
