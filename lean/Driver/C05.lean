import Driver.Util

/-! Placeholder: the line-protocol driver of domain C05 is not written yet. -/
namespace Driver.C05

def run (_args : List String) : IO UInt32 := do
  IO.eprintln "drv: domain C05 has no driver yet"
  return 2

end Driver.C05
