import Driver.Util

/-! Placeholder: the line-protocol driver of domain C21 is not written yet. -/
namespace Driver.C21

def run (_args : List String) : IO UInt32 := do
  IO.eprintln "drv: domain C21 has no driver yet"
  return 2

end Driver.C21
