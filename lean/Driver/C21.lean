import Driver.Util
import Hv.Misc.Settings

/-! Line-protocol driver for the settings model (domain C21).  Same ops and reply format as
    `/verif/harness/c21.go`.  For `get` the model answers every result SOME iteration order of
    the map can produce (`Hv.Settings.possible`); the harness answers the distinct results seen
    in 300 lookups.  A reply carries `#F:C21-map-order-lookup` when two possible results differ
    in their settings, and `#F:C21-restart-loses-field` when the possible results differ from
    those of the registry as it was before the last restart. -/
namespace Driver.C21
open Hv.Name Hv.Settings

structure DSt where
  cfg : Cfg
  reg : List Entry
  pre : Option (List Entry)   -- registry before the last restart, while no reg/dereg followed
  spec : List Entry           -- Spec registry: every key holds its last registration
  disk : List Entry           -- what settings.json holds (differs from `reg` after a torn save)
  torn : Option Name          -- pattern whose save was torn since the last successful save
  dirty : Bool                -- the model's `unsaved` flag
  lost : Bool                 -- the last restart dropped an ACKNOWLEDGED registration (file behind the runtime map)
  files : List (Name × Nat)   -- swamps on disk: how many treasures each persisted (op `live`)

def lookupOf (s : String) : Lookup :=
  if s == "iteratesMap" then .iteratesMap else if s == "ranked" then .ranked else .unknown
def cmpOf (s : String) : Cmp :=
  if s == "gt" then .gt else if s == "ge" then .ge else if s == "lt" then .lt else if s == "le" then .le else .unknown
def yes (s : String) : Bool := s == "yes"

def bytesOf (s : String) : Bytes := s.toUTF8.toList
def strOf (b : Bytes) : String := String.ofList (b.map (fun c => Char.ofNat c.toNat))

def render (e : Entry) : String :=
  s!"{strOf e.pat.s}/{strOf e.pat.r}/{strOf e.pat.w}|{if e.f.inMem then "M" else "P"}|{e.f.idle}|{e.f.wi}|{e.f.size}"

def sortStrings (l : List String) : List String := (l.toArray.qsort (· < ·)).toList

def results (cfg : Cfg) (reg : List Entry) (n : Name) : List String :=
  sortStrings ((possible cfg reg n).map render).eraseDups

def step (d : DSt) (line : String) : DSt × String :=
  match line.splitOn " " with
  | ["case", _] => ({ d with reg := [], pre := none, spec := [], disk := [], torn := none, dirty := false, lost := false, files := [] }, line)
  | ["reg", s, r, w, m, idle, wi, size] =>
    match idle.toInt?, wi.toInt?, size.toInt? with
    | some i, some v, some z =>
      if m != "M" && m != "P" then (d, "bad-op") else
      let p : Name := ⟨bytesOf s, bytesOf r, bytesOf w⟩
      let rd := stepRD d.cfg ⟨d.reg, d.disk, d.dirty⟩ (.reg p (m == "M") i v z)
      let reg' := rd.rt
      -- an acknowledged registration: from now on the Spec expects it after a restart, torn history or not
      ({ d with reg := reg', pre := none, disk := rd.disk, dirty := rd.dirty, torn := none,
                spec := d.spec.filter (fun e => !hasKey (canon p) e) ++ [entryOf p (m == "M") i v z] }, "ok")
    | _, _, _ => (d, "bad-op")
  | ["regtorn", s, r, w, m, idle, wi, size] =>
    match idle.toInt?, wi.toInt?, size.toInt? with
    | some i, some v, some z =>
      if m != "M" && m != "P" then (d, "bad-op") else
      let p : Name := ⟨bytesOf s, bytesOf r, bytesOf w⟩
      let early := earlyRD d.cfg ⟨d.reg, d.disk, d.dirty⟩ p (m == "M") i v z
      let rd := stepRD d.cfg ⟨d.reg, d.disk, d.dirty⟩ (.torn p (m == "M") i v z)
      let reg' := rd.rt
      -- the runtime map has the pattern; the file keeps its old content (atomic replace) or is truncated (in place)
      ({ d with reg := reg', pre := none, disk := rd.disk, dirty := rd.dirty,
                torn := if early then d.torn else some p,
                spec := d.spec.filter (fun e => !hasKey (canon p) e) ++ [entryOf p (m == "M") i v z] }, "ok")
    | _, _, _ => (d, "bad-op")
  | ["dereg", s, r, w] =>
    let reg' := deregister d.reg ⟨bytesOf s, bytesOf r, bytesOf w⟩
    ({ d with reg := reg', pre := none, disk := reg', dirty := false, torn := none,
              spec := deregister d.spec ⟨bytesOf s, bytesOf r, bytesOf w⟩ }, "ok")
  | ["get", s, r, w] =>
    let n : Name := ⟨bytesOf s, bytesOf r, bytesOf w⟩
    let ps := possible d.cfg d.reg n
    let rs := results d.cfg d.reg n
    let f1 := if (ps.map (·.f)).eraseDups.length > 1 then "\t#F:C21-map-order-lookup" else ""
    let f2 := match d.pre with
      | some old => if results d.cfg old n != rs then
          (if !d.cfg.saveAtomic then "\t#F:C21-settings-save-not-atomic"
           else if d.lost then "\t#F:C21-acknowledged-registration-lost" else "\t#F:C21-restart-loses-field") else ""
      | none => ""
    -- the winning entry is not what was last registered for its pattern
    -- the Spec registry (last acknowledged registration of every key) resolves the name differently
    let f4 := if results d.cfg d.spec n != rs then "\t#F:C21-acknowledged-registration-lost" else ""
    let f3 := if ps.any (fun e => e != defaultEntry n && !(d.spec.contains e)) then (if d.cfg.unchangedChecksType then "\t#F:C21-acknowledged-registration-lost" else "\t#F:C21-reregistration-ignored") else ""
    (d, "res " ++ " ".intercalate rs ++ f1 ++ f2 ++ f3 ++ (if f1 == "" && f2 == "" && f3 == "" then f4 else ""))
  | ["live", s, r, w] =>
    -- a swamp is created with the settings GetBySwampName resolves at that moment: an in-memory swamp starts empty and
    -- leaves nothing on disk, a persistent one loads what is there and persists the new treasure on close
    let n : Name := ⟨bytesOf s, bytesOf r, bytesOf w⟩
    let eff := ((possible d.cfg d.reg n).head?).getD (defaultEntry n)
    let prev := ((d.files.find? fun e => e.1 == n).map (·.2)).getD 0
    if eff.f.inMem then (d, s!"live count=1 disk={decide (prev > 0)}")
    else ({ d with files := (n, prev + 1) :: d.files.filter (fun e => e.1 != n) }, s!"live count={prev + 1} disk=true")
  | ["restart"] =>
    let old := match d.pre with | some o => o | none => d.reg
    let reg' := reload d.cfg d.disk
    -- after a torn save the Spec keeps what was durably saved before it; the torn pattern itself may be absent
    -- the torn pattern itself is whatever the file durably holds for it (its older registration, or nothing)
    let durable (p : Name) : List Entry := reg'.filter (hasKey (canon p))
    let spec' := match d.torn with
      | some p => deregister d.spec p ++ durable p
      | none => d.spec
    let old' := match d.torn with | some p => deregister old p ++ durable p | none => old
    -- did the file lag behind the runtime map for a key other than the torn one?
    let rtKept := match d.torn with | some p => deregister d.reg p | none => d.reg
    let dkKept := match d.torn with | some p => deregister reg' p | none => reg'
    let lost := !(rtKept.all dkKept.contains && dkKept.all rtKept.contains) && d.cfg.persistsAll
    ({ d with reg := reg', pre := some old', spec := spec', disk := reg', dirty := false, torn := none, lost := lost }, "ok")
  | _ => (d, "bad-op")

def run (args : List String) : IO UInt32 := do
  let kv := parseArgs args
  let cfg : Cfg :=
    ⟨lookupOf (arg kv "lookup"), cmpOf (arg kv "cmp"),
     ((arg kv "wRealm").toInt?).getD 0, ((arg kv "wSwamp").toInt?).getD 0,
     yes (arg kv "persistsInMem"), yes (arg kv "persistsIdle"), yes (arg kv "persistsWi"), yes (arg kv "persistsSize"), yes (arg kv "unchangedChecksType"), yes (arg kv "saveAtomic"), yes (arg kv "unchangedChecksDisk")⟩
  lineLoop step ⟨cfg, [], none, [], [], none, false, false, []⟩
  return 0

end Driver.C21
