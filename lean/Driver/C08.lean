import Driver.Util

/-! Placeholder: the line-protocol driver of domain C08 is not written yet. -/
namespace Driver.C08

def run (_args : List String) : IO UInt32 := do
  IO.eprintln "drv: domain C08 has no driver yet"
  return 2

end Driver.C08
