import Driver.Util
import Hv.Query.Routes
import Hv.Query.Bucket

/-! Line-protocol driver of domain C08 (same ops as `/verif/harness/c08.go`): the model's
    accelerated route and full-scan route for every query.

    reply for `q`: `b=<items> s=<items>`; an `<items>` is `nd` when the order inside a tie class
    decides the result (paging / MaxResults cutting through records with equal sort values).
    `\t#F:<finding>` is appended when the model's two routes disagree; the finding names each
    currently-false fact whose repair (alone) restores agreement or changes the outcome. -/
namespace Driver.C08
open Hv.Query

/-! ### parsing -/

def isIdent (c : Char) : Bool := c.isAlphanum || c == '_'

/-- number prefix of a char list -/
def takeNum (cs : List Char) : String × List Char :=
  let neg := cs.head? == some '-'
  let cs' := if neg then cs.drop 1 else cs
  let ds := cs'.takeWhile Char.isDigit
  ((if neg then "-" else "") ++ String.ofList ds, cs'.drop ds.length)

partial def parseValue (cs : List Char) : Option (Value × List Char) :=
  match cs with
  | 'n' :: r => some (.nil, r)
  | 'T' :: r => some (.bool true, r)
  | 'F' :: r => some (.bool false, r)
  | 'i' :: r => let (n, r') := takeNum r; n.toInt?.map (fun i => (.int i, r'))
  | 'u' :: r => let (n, r') := takeNum r; n.toNat?.map (fun i => (.uint i, r'))
  | 'f' :: 'N' :: 'a' :: 'N' :: r => some (.fspec 0, r)
  | 'f' :: '+' :: 'I' :: 'n' :: 'f' :: r => some (.fspec 1, r)
  | 'f' :: '-' :: 'I' :: 'n' :: 'f' :: r => some (.fspec 2, r)
  | 'f' :: r => let (n, r') := takeNum r; n.toInt?.map (fun i => (.flt i, r'))
  | 't' :: r => let (n, r') := takeNum r; n.toInt?.map (fun i => (.time i, r'))
  | '\'' :: r =>
    let s := r.takeWhile (· != '\'')
    some (.str (String.ofList s), (r.drop s.length).drop 1)
  | '[' :: r =>
    let rec elems (cs : List Char) (acc : List Value) : Option (List Value × List Char) :=
      match cs with
      | ']' :: r => some (acc.reverse, r)
      | ',' :: r => elems r acc
      | _ => match parseValue cs with
        | some (v, r) => elems r (v :: acc)
        | none => none
    (elems r []).map (fun (l, r') => (.arr l, r'))
  | '{' :: r =>
    let rec fields (cs : List Char) (acc : List (String × Value)) : Option (List (String × Value) × List Char) :=
      match cs with
      | '}' :: r => some (acc.reverse, r)
      | ',' :: r => fields r acc
      | _ =>
        let k := cs.takeWhile (· != ':')
        match parseValue ((cs.drop k.length).drop 1) with
        | some (v, r) => fields r ((String.ofList k, v) :: acc)
        | none => none
    (fields r []).map (fun (l, r') => (.map l, r'))
  | _ => none

def parseSeg (s : String) : Seg :=
  if s == "#len" then .len
  else if s.endsWith "[*]" then .wild (s.dropEnd 3).toString
  else .field s

def parsePath (s : String) : Path := if s == "" then [] else (s.splitOn ".").map parseSeg

def opOf : String → Option Op
  | "eq" => some .eq | "ne" => some .ne | "gt" => some .gt | "ge" => some .ge | "lt" => some .lt | "le" => some .le
  | "sin" => some .strIn | "i32in" => some .i32In | "i64in" => some .i64In
  | "empty" => some .isEmpty | "nempty" => some .isNotEmpty
  | _ => none

def opName : Op → String
  | .eq => "eq" | .ne => "ne" | .gt => "gt" | .ge => "ge" | .lt => "lt" | .le => "le"
  | .strIn => "sin" | .i32In => "i32in" | .i64In => "i64in" | .isEmpty => "empty" | .isNotEmpty => "nempty"

def parseLeaf (s : String) : Option Leaf :=
  -- `@geo`: a geo-distance leg, true exactly when the body carries the coordinates — a leg without a hint
  if s == "@geo" then
    some { path := [.field "gla"], op := .isNotEmpty, cv := .none, strVals := [], intVals := [], label := "" } else
  match s.splitOn "~" with
  | [path, op, cv, label] =>
    match opOf op with
    | none => none
    | some o =>
      let base : Leaf := { path := parsePath path, op := o, cv := .none, strVals := [], intVals := [], label := label }
      if cv == "-" then some base else
      match cv.splitOn ":" with
      | t :: rest =>
        let v := ":".intercalate rest
        match o with
        | .strIn => some { base with strVals := v.splitOn ";" }
        | .i32In | .i64In =>
          let ns := (v.splitOn ";").filterMap String.toInt?
          if ns.length == (v.splitOn ";").length then some { base with intVals := ns } else none
        | _ =>
          if t == "s" then some { base with cv := .str v }
          else if t == "b" then some { base with cv := .bool (v == "T") }
          else match v.toInt? with
            | none => none
            | some n =>
              (match t with
               | "i8" => some (CV.i8 n) | "i16" => some (CV.i16 n) | "i32" => some (CV.i32 n) | "i64" => some (CV.i64 n)
               | "u8" => some (CV.u8 n.toNat) | "u16" => some (CV.u16 n.toNat) | "u32" => some (CV.u32 n.toNat)
               | "u64" => some (CV.u64 n.toNat)
               | "f32" => some (CV.f32 n) | "f64" => some (CV.f64 n)
               | _ => none).map (fun c => { base with cv := c })
      | [] => none
  | _ => none

/-- split on top-level commas -/
def splitTop (cs : List Char) : List (List Char) :=
  let rec go (cs : List Char) (depth : Nat) (cur : List Char) (acc : List (List Char)) : List (List Char) :=
    match cs with
    | [] => (cur.reverse :: acc).reverse
    | '(' :: r => go r (depth + 1) ('(' :: cur) acc
    | ')' :: r => go r (depth - 1) (')' :: cur) acc
    | ',' :: r => if depth == 0 then go r depth [] (cur.reverse :: acc) else go r depth (',' :: cur) acc
    | c :: r => go r depth (c :: cur) acc
  go cs 0 [] []

partial def parseGroup (s : String) : Option Group :=
  let cs := s.toList
  match cs with
  | c :: '(' :: rest =>
    if (c != '&' && c != '|') || rest.getLast? != some ')' then none else
    let inner := rest.dropLast
    let items := (splitTop inner).filter (fun i => !i.isEmpty)
    let step (acc : Option (List Leaf × List Group)) (it : List Char) : Option (List Leaf × List Group) :=
      match acc with
      | none => none
      | some (ls, gs) =>
        if it.head? == some '&' || it.head? == some '|' then
          (parseGroup (String.ofList it)).map (fun g => (ls, gs ++ [g]))
        else (parseLeaf (String.ofList it)).map (fun l => (ls ++ [l], gs))
    (items.foldl step (some ([], []))).map (fun (ls, gs) => Group.mk (c == '|') ls gs)
  | _ => none

/-! ### state -/

/-- the swamp: its records and its field buckets as the code keeps them (`Hv/Query/Bucket.lean`) -/
structure DSt where
  cfg : Cfg
  st : BSt
  /-- a first query held inside `GetOrBuildBucket` (op `bq`): the path it is building, the query -/
  held : Option (Path × Query) := none

def DSt.store (d : DSt) : List Rec := d.st.store

/-- the record a Set leaves behind (absent time fields keep their value) -/
def merged (store : List Rec) (k : String) (body : Option Value) (c u e : Int) : Rec :=
  match store.find? (·.key == k) with
  | none => { key := k, body := body, created := c, updated := u, expire := e }
  | some o =>
    { o with body := body, created := if c != 0 then c else o.created,
             updated := if u != 0 then u else o.updated, expire := if e != 0 then e else o.expire }

def upsert (cfg : Cfg) (st : BSt) (k : String) (body : Option Value) (c u e : Int) : BSt :=
  stepPut cfg st (merged st.store k body c u e)

/-- the tracking facts that are false, as findings -/
def trackFlags (cfg : Cfg) : List String :=
  (if !cfg.bucketNotifyInsert then ["C08-bucket-misses-insert"] else []) ++
  (if !cfg.bucketNotifyUpdate then ["C08-bucket-misses-update"] else []) ++
  (if !cfg.bucketNotifyDelete then ["C08-bucket-misses-delete"] else []) ++
  (if !cfg.bucketPendingReplayed then ["C08-bucket-build-drops-pending"] else []) ++
  (if !cfg.readerDrainsInFlight then ["C08-bucket-served-before-drain"] else [])

/-- the field paths the accelerated route looks up for this query, in order -/
def hintPaths (cfg : Cfg) (q : Query) : List Path :=
  match q.filter with
  | none => []
  | some g =>
    if cfg.pagedQueriesBypass && (q.from_ != 0 || q.limit != 0) then [] else
    match planFilter cfg g with
    | .and hs _ => hs.map (·.path)
    | .orUnion hs => hs.map (·.path)
    | _ => []

/-- walk the lookups of a query until one has to build its bucket: the state then, and that path -/
def untilBuild (cfg : Cfg) : BSt → List Path → BSt × Option Path
  | st, [] => (st, none)
  | st, p :: rest =>
    if st.buckets.any (fun b => decide (b.path = p) && b.init) then untilBuild cfg (ensureBuilt cfg st p) rest
    else (st, some p)

def renderItems (l : List Item) : String :=
  ",".intercalate (l.map (fun it => if it.2.isEmpty then it.1 else it.1 ++ "[" ++ "+".intercalate it.2 ++ "]"))

/-- are there two rows with the same sort value (time indexes)? -/
def hasTies (s : Slot) (rows : List Rec) : Bool :=
  s != .key && (rows.zip (rows.drop 1)).any (fun p => ts s p.1 == ts s p.2)

/-- the rows a route pages over (before offset/limit), to decide determinacy -/
def scanRows (q : Query) (store : List Rec) : List Rec := indexRead q store

def bucketRows (cfg : Cfg) (q : Query) (store : List Rec) : Option (List Rec) :=
  match q.filter with
  | none => none
  | some g =>
    if cfg.pagedQueriesBypass && (q.from_ != 0 || q.limit != 0) then none else
    let go (hints : List Hint) : List Rec :=
      let c0 := candidates cfg store hints
      let c1 := if cfg.bucketChecksAttr then c0.filter (carries q.slot) else c0
      let c2 := if hasWindow q && (!cfg.bucketWindowTimeOnly || q.slot != .key) then c1.filter (inWindow q) else c1
      sortRecs q.slot q.asc c2
    match planFilter cfg g with
    | .bypass => none
    | .and hints _ => some (go hints)
    | .orUnion hints => some (go hints)

def cuts (q : Query) : Bool := q.from_ != 0 || q.limit != 0 || q.maxResults != 0

def good (cfg : Cfg) : Cfg := { cfg with
  indexableOps := [.eq, .strIn, .i32In, .i64In], excludesSpecialPaths := true, planOrBypassOnSubGroups := true,
  scanEqCanonical := true, bucketPagingAfterFilter := true, scanPagingAfterFilter := true, labelReattach := true,
  pagedQueriesBypass := true, bucketChecksAttr := true, lookupInDedupes := true, unionDedupes := true, bucketWindowTimeOnly := true }

/-- single-fact repairs, with the finding each one stands for -/
def repairs (cfg : Cfg) : List (String × (Cfg → Cfg)) :=
  (if !cfg.scanEqCanonical then [("C08-scan-equality-not-canonical", fun c => { c with scanEqCanonical := true })] else []) ++
  (if !cfg.excludesSpecialPaths then [("C08-special-path-hinted", fun c => { c with excludesSpecialPaths := true })] else []) ++
  (if !(cfg.bucketPagingAfterFilter && cfg.scanPagingAfterFilter) && !cfg.pagedQueriesBypass then
    [("C08-paging-before-residual", fun c => { c with pagedQueriesBypass := true })] else []) ++
  (if !cfg.labelReattach then [("C08-indexed-leg-label-dropped", fun c => { c with labelReattach := true })] else []) ++
  (if !cfg.bucketChecksAttr then [("C08-bucket-route-ignores-index-attribute", fun c => { c with bucketChecksAttr := true })] else []) ++
  (if !cfg.bucketWindowTimeOnly then [("C08-window-on-key-index", fun c => { c with bucketWindowTimeOnly := true })] else []) ++
  (if !cfg.planOrBypassOnSubGroups then [("C08-or-union-with-subgroups", fun c => { c with planOrBypassOnSubGroups := true })] else []) ++
  (if cfg.indexableOps != [.eq, .strIn, .i32In, .i64In] then
    [("C08-non-equality-operator-hinted", fun c => { c with indexableOps := [.eq, .strIn, .i32In, .i64In] })] else []) ++
  (if !(cfg.lookupInDedupes && cfg.unionDedupes) then
    [("C08-duplicate-candidates", fun c => { c with lookupInDedupes := true, unionDedupes := true })] else [])

/-- all sublists of a list, smallest first within each size class is not needed: we sort by length -/
def sublists {α : Type} : List α → List (List α)
  | [] => [[]]
  | x :: xs => let r := sublists xs; r ++ r.map (x :: ·)

/-- the findings that explain a disagreement: the members of the smallest sets of single-fact
    repairs after which the model's two routes agree on this query -/
def explain (cfg : Cfg) (store : List Rec) (q : Query) : List String :=
  let rs := repairs cfg
  let fixes := (sublists rs).filter (fun sub =>
    let c := sub.foldl (fun c r => r.2 c) cfg
    !sub.isEmpty && bucketRoute c store q == scanRoute c store q)
  match fixes.map List.length |>.min? with
  | none => ["C08-unexplained"]
  | some m => ((fixes.filter (·.length == m)).flatMap (·.map (·.1))).eraseDups

def slotOf : String → Option Slot
  | "key" => some .key | "created" => some .created | "updated" => some .updated | "expire" => some .expire
  | _ => none

def optT : String → Option (Option Int)
  | "-" => some none
  | s => s.toInt?.map some

def parseQ (idx ord fr lim ft tt mx filt : String) : Option Query :=
  match slotOf idx, fr.toNat?, lim.toNat?, optT ft, optT tt, mx.toNat? with
  | some sl, some fr, some lim, some ft, some tt, some mx =>
    let g? : Option (Option Group) := if filt == "-" then some none else (parseGroup filt).map some
    g?.map (fun g => { slot := sl, asc := ord == "asc", from_ := fr, limit := lim, fromT := ft, toT := tt,
                       maxResults := mx, filter := g })
  | _, _, _, _, _, _ => none

/-- a query down both routes (through GetByIndexStream, or — tenth token `m` — GetByIndexStreamFromMany:
    the same model) -/
def qStep (d : DSt) (idx ord fr lim ft tt mx filt : String) : DSt × String :=
    match slotOf idx, fr.toNat?, lim.toNat?, optT ft, optT tt, mx.toNat? with
    | some sl, some fr, some lim, some ft, some tt, some mx =>
      let g? : Option (Option Group) := if filt == "-" then some none else (parseGroup filt).map some
      match g? with
      | none => (d, "bad-op")
      | some g =>
        if d.store.isEmpty then (d, "b=err:noswamp s=err:noswamp") else
        let q : Query := { slot := sl, asc := ord == "asc", from_ := fr, limit := lim, fromT := ft, toT := tt,
                           maxResults := mx, filter := g }
        -- the accelerated route on the buckets as the history left them; the query's own builds stay
        let b := bucketRouteS d.cfg d.st q
        let bSpec := bucketRoute d.cfg d.store q
        let s := scanRoute d.cfg d.store q
        let d' := { d with st := afterQuery d.cfg d.st q }
        let sNd := cuts q && hasTies q.slot (scanRows q d.store)
        let bNd := match bucketRows d.cfg q d.store with
          | some rows => cuts q && hasTies q.slot rows
          | none => sNd
        let fs := (if b != bSpec then trackFlags d.cfg else []) ++ (if bSpec != s then explain d.cfg d.store q else [])
        let fl := if bNd || sNd || b == s then "" else String.join ((if fs.isEmpty then ["C08-unexplained"] else fs).map (fun f => "\t#F:" ++ f))
        (d', "b=" ++ (if bNd then "nd" else renderItems b) ++ " s=" ++ (if sNd then "nd" else renderItems s) ++ fl)
    | _, _, _, _, _, _ => (d, "bad-op")

def step (d : DSt) (line : String) : DSt × String :=
  match line.splitOn " " with
  | ["case", _] => ({ d with st := BSt.init, held := none }, line)
  | ["bq", point, idx, ord, fr, lim, ft, tt, mx, filt] =>
    -- a first query that is held inside GetOrBuildBucket: after its snapshot (`snap`) or after
    -- BuildEquality and before DrainPending (`built`); `release` lets it finish
    match parseQ idx ord fr lim ft tt mx filt with
    | none => (d, "bad-op")
    | some q =>
      if (point != "snap" && point != "built") || d.held.isSome then (d, "bad-op") else
      if d.store.isEmpty then (d, "done") else
      match untilBuild d.cfg d.st (hintPaths d.cfg q) with
      | (_, none) => ({ d with st := afterQuery d.cfg d.st q }, "done")
      | (st0, some p) =>
        let steps := [MOp.beginBuild p, .snapshot p] ++ (if point == "built" then [MOp.build p] else [])
        ({ d with st := steps.foldl (stepB d.cfg) st0, held := some (p, q) }, "held")
  | ["release"] =>
    match d.held with
    | none => (d, "ok")
    | some (p, q) =>
      let st1 := [MOp.build p, .drain p].foldl (stepB d.cfg) d.st
      ({ d with st := afterQuery d.cfg st1 q, held := none }, "ok")
  | ["body", k, c, u, e, _hex, text] =>
    match c.toInt?, u.toInt?, e.toInt?, parseValue text.toList with
    | some c, some u, some e, some (v, []) => ({ d with st := upsert d.cfg d.st k (some v) c u e }, "ok")
    | _, _, _, _ => (d, "bad-op")
  | ["plain", k, c, u, e] =>
    match c.toInt?, u.toInt?, e.toInt? with
    | some c, some u, some e => ({ d with st := upsert d.cfg d.st k none c u e }, "ok")
    | _, _, _ => (d, "bad-op")
  | ["del", k] => ({ d with st := stepDel d.cfg d.st k }, "ok")
  | ["reload"] => ({ d with st := stepB d.cfg d.st .reload }, "ok")
  | ["q", idx, ord, fr, lim, ft, tt, mx, filt, "m"] => qStep d idx ord fr lim ft tt mx filt
  | ["q", idx, ord, fr, lim, ft, tt, mx, filt] => qStep d idx ord fr lim ft tt mx filt
  | _ => (d, "bad-op")

def yes (kv : List (String × String)) (k : String) : Bool := arg kv k == "yes"

def run (args : List String) : IO UInt32 := do
  let kv := parseArgs args
  let ops := ((arg kv "indexableOps").splitOn ",").filterMap opOf
  let cfg : Cfg := {
    indexableOps := ops, excludesSpecialPaths := yes kv "excludesSpecialPaths",
    planOrBypassOnSubGroups := yes kv "planOrBypassOnSubGroups", scanEqCanonical := yes kv "scanEqCanonical",
    bucketPagingAfterFilter := yes kv "bucketPagingAfterFilter", scanPagingAfterFilter := yes kv "scanPagingAfterFilter",
    labelReattach := yes kv "labelReattach", pagedQueriesBypass := yes kv "pagedQueriesBypass",
    bucketChecksAttr := yes kv "bucketChecksAttr",
    lookupInDedupes := yes kv "lookupInDedupes", unionDedupes := yes kv "unionDedupes",
    bucketWindowTimeOnly := yes kv "bucketWindowTimeOnly",
    bucketNotifyInsert := yes kv "bucketNotifyInsert", bucketNotifyUpdate := yes kv "bucketNotifyUpdate",
    bucketNotifyDelete := yes kv "bucketNotifyDelete", bucketPendingReplayed := yes kv "bucketPendingReplayed",
    readerDrainsInFlight := yes kv "readerDrainsInFlight", bucketNotifyAfterAdd := yes kv "bucketNotifyAfterAdd" }
  lineLoop step { cfg := cfg, st := BSt.init }
  return 0

end Driver.C08
