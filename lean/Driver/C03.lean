import Driver.Util

/-! Placeholder: the line-protocol driver of domain C03 is not written yet. -/
namespace Driver.C03

def run (_args : List String) : IO UInt32 := do
  IO.eprintln "drv: domain C03 has no driver yet"
  return 2

end Driver.C03
