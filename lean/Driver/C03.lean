import Driver.Stor

/-! Driver for domain C03 (compaction): see `Driver/Stor.lean`.  Facts arrive as `name=yes|no`. -/
namespace Driver.C03
open Hv.BlockStore Driver.BStor

def findingId (s : DS) : String :=
  match s.staleEp with
  | some ep => s!"C03-{ep}-stale-temp"
  | none => if s.cfg.closeFsyncs then "C03-crash-not-atomic" else "C03-rename-without-fsync"

def hooks : Hooks where
  -- crash points are taken inside compactions only: everything written so far is durable
  expectAt := fun s _ _ => s.spec
  flagImg := fun s ev _ _ _ => if ev.cOk && ev.aOk then "" else "\t#F:" ++ findingId s
  flagLoad := fun s st => if sameIndex st s.spec then "" else "\t#F:" ++ findingId s

def cfgOfArgs (kv : List (String × String)) : Cfg :=
  { r := ⟨boolArg kv "shortHeaderIsEOF", boolArg kv "tornDataIsEOF", false, boolArg kv "zeroTailIsEOF"⟩,
    syncFsyncs := true, closeFsyncs := boolArg kv "closeFsyncs", truncatesTornTail := boolArg kv "truncatesTornTail",
    loadCleansTemp := boolArg kv "loadCleansTemp", rmTempLocked := boolArg kv "rmTempLocked",
    rmTempFromIndex := boolArg kv "rmTempFromIndex", rmTempCompactor := boolArg kv "rmTempCompactor" }

def run (args : List String) : IO UInt32 := do
  let kv := parseArgs args
  lineLoop (step hooks) { cfg := cfgOfArgs kv }
  return 0

end Driver.C03
