import Driver.Util

/-! Placeholder: the line-protocol driver of domain C04 is not written yet. -/
namespace Driver.C04

def run (_args : List String) : IO UInt32 := do
  IO.eprintln "drv: domain C04 has no driver yet"
  return 2

end Driver.C04
