import Driver.Util
import Driver.StorageCodec
import Driver.C01

/-! Driver for domain C04: the model reader (executable snappy decoder, CRC-32) on the same
    hostile bytes as the real reader.  Flags:
      * `#F:C04-unbounded-…-alloc`  the model's allocation estimate exceeds the proved bound
        `321·len + 3.3 MB` (and which unguarded site is responsible);
      * `#F:C04-entry-count-unprotected`  the file loads without error to a state that is not the
        Spec state of any prefix of what was written to its base file, and the only damage is the
        block header's EntryCount;
      * `#F:C04-misread`  same, any other damage.
    The model's estimate is appended as `#A:<bytes>` for the check's allocation oracle. -/
namespace Driver.C04
open Hv.Storage Driver.Stor Driver.C01

structure DS where
  cfg : Cfg
  legit : List (String × List String) := []

def allocBound (len : Nat) : Nat := 321 * len + 3300000

def describe (cfg : Cfg) (file : Bytes) : String × Option String :=
  let load := loadIndex cfg snappyDecoder crc32 file
  let loadS := match load with
    | .error e => s!"err {e.name}"
    | .ok (m, n) => s!"idx {indexDigest m} name={hex n}"
  let scanS := match scanBlockHeaders file with
    | .error e => s!"err {e.name}"
    | .ok (bc, ec, us) => s!"bc={bc} ec={ec} us={us}"
  let nameS := match readSwampName cfg snappyDecoder crc32 file with
    | .error e => s!"err {e.name}"
    | .ok n => hex n
  let dig := match load with
    | .ok (m, _) => some (indexDigest m)
    | .error _ => none
  (s!"load {loadS} ; scan {scanS} ; name {nameS}", dig)

def step (d : DS) (line : String) : DS × String :=
  match line.splitOn " " with
  | ["case", _] => (d, line)
  | ["base", id, ds] => ({ d with legit := (id, ds.splitOn ",") :: d.legit }, "ok")
  | ["file", h, id, kind] =>
    match unhex h with
    | none => (d, "bad-op")
    | some file =>
      let (line, dig) := describe d.cfg file
      let a := loadAlloc d.cfg snappyDecoder crc32 file
      let aC := loadAlloc { d.cfg with boundsCompressedSize := true } snappyDecoder crc32 file
      let allocFlag :=
        if a ≤ allocBound file.length then ""
        else if aC ≤ allocBound file.length then "\t#F:C04-unbounded-compressed-size-alloc"
        else "\t#F:C04-unbounded-decoded-length-alloc"
      let legit := (d.legit.lookup id).getD []
      let readFlag := match dig with
        | none => ""
        | some g =>
          if legit.contains g || kind == "payload" then ""   -- CRC-valid crafted payloads *are* their content
          else if !d.cfg.validatesCrc then "\t#F:C04-checksum-not-validated"
          else if !d.cfg.validatesULen then "\t#F:C04-decoded-length-not-validated"
          else if kind == "count" then "\t#F:C04-entry-count-unprotected"
          else "\t#F:C04-misread"
      (d, s!"{line}{allocFlag}{readFlag}\t#A:{a}")
  | _ => (d, "bad-op")

def run (args : List String) : IO UInt32 := do
  let kv := parseArgs args
  lineLoop step { cfg := cfgOfArgs kv }
  return 0

end Driver.C04
