import Driver.Util
import Hv.Storage.Migrate

/-! Driver for domain C23.  The op line describes the legacy folder as found on disk (chunk files in
    directory order, each segment as `hex(key)=hash`), the options and the injected failure; the driver
    runs the migrator model with the extracted facts and the trivial V2 codec and prints what must be
    observable afterwards.  A reply that violates the Spec carries `#F:<finding>`. -/
namespace Driver.C23
open Hv.Migrate

def triYes (s : String) : Bool := s == "yes"

def parseFolder (s : String) : Folder :=
  ((s.splitOn ";").filter (· ≠ "")).map fun f =>
    match f.splitOn ":" with
    | [nm, segs] =>
      (nm, ((segs.splitOn ",").filter (· ≠ "")).map fun kv =>
        match kv.splitOn "=" with
        | [k, h] => ({ key := k, data := h } : Seg)
        | _ => { key := kv, data := "" })
    | _ => (f, [])

def parseFault (s : String) : Fault :=
  if s == "load" then .load
  else if s == "verify" then .verify
  else if s.startsWith "write:" then
    -- write 1 and 2 (header, swamp name) happen while the file is created
    let k := ((s.drop 6).toString.toNat?).getD 3
    .write (if k ≤ 2 then 0 else 1)
  else if s.startsWith "unlink:" then .unlink (((s.drop 7).toString.toNat?).getD 0)
  else .none

/-- per key: the last value of each chunk that holds it -/
def candidates (fo : Folder) (k : String) : List String :=
  fo.filterMap fun f => lastOf f.2 k

def keysOf (fo : Folder) : List String := ((allSegs fo).map (·.key)).eraseDups

def uniqueKeys (fo : Folder) : Bool := ((allSegs fo).map (·.key)).eraseDups.length == (allSegs fo).length

def step (cfg : MCfg) (_ : Unit) (line : String) : Unit × String :=
  match line.splitOn " | " with
  | [head, nmPart, foPart] =>
    match head.splitOn " " with
    | ["mig", _, v, d, r, ft] =>
      let o : Opts := ⟨v == "v=1", d == "d=1", r == "r=1"⟩
      let nm := (nmPart.drop 5).toString
      -- an empty key is written as the empty hex string
      let fo := parseFolder (foPart.drop 7).toString
      let fault := parseFault (ft.drop 6).toString
      let d0 : Disk (String × List Entry) := { v1 := fo, v1Folder := true, hyd := none }
      let (res, d1) := migrate cfg idV2 o fault nm d0
      let resTxt := match res with
        | .success => "success" | .skippedEmpty => "skipped" | .failed ph => "failed:" ++ ph
      let failed := match res with
        | .failed _ => true
        | _ => false
      let v1Txt := if !d1.v1Folder then "gone" else if d1.v1.length == fo.length then "same" else s!"left:{d1.v1.length}"
      let (hydTxt, loadTxt, nameTxt, loadBad) := match d1.hyd with
        | none => ("0", "none", "na", false)
        | some f =>
          if failed then ("1", "partial", "partial", true)
          else
            let ks := keysOf fo
            let uniq := uniqueKeys fo
            let okAll := ks.all fun k =>
              match idV2.loadMap f k with
              | some x => if uniq then loadV1In fo k == some x else (candidates fo k).contains x
              | none => false
            let extra := f.2.any fun e => !ks.contains e.1
            let bad := !okAll || extra
            ("1", if bad then "DIFF" else if uniq then "match" else "dup-ok",
             if idV2.nameOf f == nm then "ok" else "BAD", bad)
      -- Spec: a failure leaves everything as it was; V1 files go only after a success
      let flag :=
        if failed && d1.hyd.isSome then
          (match fault with
           | .write 0 => "\t#F:C23-hyd-left-after-failed-create"
           | .write _ => "\t#F:C23-hyd-left-after-failed-write"
           | _ => "\t#F:C23-hyd-left-after-failed-verify")
        else if failed && v1Txt != "same" then
          (if !cfg.verifyBeforeDelete || !cfg.writeBeforeDelete then "\t#F:C23-delete-before-verify" else "\t#F:C23-v1-files-lost-on-failure")
        else if loadBad then (if !cfg.dedupeLast then "\t#F:C23-dedupe-keeps-first" else "\t#F:C23-migrated-data-differs")
        else ""
      ((), s!"res={resTxt} v1={v1Txt} hyd={hydTxt} load={loadTxt} name={nameTxt}{flag}")
    | _ => ((), "bad-op")
  | _ =>
    if line.startsWith "case " then ((), line) else ((), "bad-op")

def run (args : List String) : IO UInt32 := do
  let kv := parseArgs args
  let y := fun k => triYes (arg kv k)
  let cfg : MCfg := ⟨y "dedupeLast", y "verifyBeforeDelete", y "writeBeforeDelete", y "removeOnVerifyFail",
                     y "removeOnWriteFail", y "removeOnOpenFail", y "emptyKeyIsError", y "verifyValues"⟩
  lineLoop (step cfg) ()
  return 0

end Driver.C23
