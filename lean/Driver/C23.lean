import Driver.Util

/-! Placeholder: the line-protocol driver of domain C23 is not written yet. -/
namespace Driver.C23

def run (_args : List String) : IO UInt32 := do
  IO.eprintln "drv: domain C23 has no driver yet"
  return 2

end Driver.C23
