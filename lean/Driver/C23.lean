import Driver.Util
import Hv.Storage.Migrate

/-! Driver for domain C23.  The op line describes the legacy folder as found on disk (chunk files in
    directory order, each segment as `hex(key)=hash`), the options and the injected failure; the driver
    runs the migrator model with the extracted facts and the trivial V2 codec and prints what must be
    observable afterwards.  A reply that violates the Spec carries `#F:<finding>`. -/
namespace Driver.C23
open Hv.Migrate

def triYes (s : String) : Bool := s == "yes"

def parseFolder (s : String) : Folder String :=
  ((s.splitOn ";").filter (· ≠ "")).map fun f =>
    match f.splitOn ":" with
    | [nm, segs] =>
      (nm, ((segs.splitOn ",").filter (· ≠ "")).map fun kv =>
        match kv.splitOn "=" with
        | [k, h] => ({ key := k, data := h } : Seg String)
        | _ => { key := kv, data := "" })
    | _ => (f, [])

def parseFault (s : String) : Fault :=
  if s == "load" || s.startsWith "load:" || s.startsWith "read:" then .load
  else if s == "meta" then .metaRead
  else if s == "rmdir" then .rmdir
  else if s == "verify" || s == "dropkey" then .verify
  else if s == "fsync" then .write 2              -- `FileWriter.Close` fails at its fsync
  else if s.startsWith "write:" then
    -- write 1 and 2 (header, swamp name) happen while the file is created
    let k := ((s.drop 6).toString.toNat?).getD 3
    .write (if k ≤ 2 then 0 else 1)
  else if s.startsWith "unlink:" then .unlink (((s.drop 7).toString.toNat?).getD 0)
  else .none

/-- per key: the last value of each chunk that holds it -/
def candidates (fo : Folder String) (k : String) : List String :=
  fo.filterMap fun f => lastOf f.2 k

def keysOf (fo : Folder String) : List String := ((allSegs fo).map (·.key)).eraseDups

def uniqueKeys (fo : Folder String) : Bool := ((allSegs fo).map (·.key)).eraseDups.length == (allSegs fo).length

/-- byte length of a key / name token: `L<n>x<hash>` for long ones, hex for keys, plain text for names -/
def longLen? (tok : String) : Option Nat :=
  if tok.startsWith "L" then
    match (tok.drop 1).toString.splitOn "x" with
    | n :: _ :: _ => n.toNat?
    | _ => none
  else none

def keyLen (k : String) : Nat := (longLen? k).getD (k.length / 2)
def nameLen (nm : String) : Nat := (longLen? nm).getD nm.utf8ByteSize

def junkName : String := "\x00junk"

/-- the trivial codec with the V2 writer's limits: keys of 1..65535 bytes, names up to 65535 bytes; a junk file cannot be opened -/
def drvV2 : V2 String (String × List (Entry String)) :=
  { (idV2 : V2 String _) with
    accepts := fun e => 0 < keyLen e.1 && keyLen e.1 ≤ 65535
    acceptsName := fun nm => nameLen nm ≤ 65535
    append := fun f es => if f.1 == junkName then none else (idV2 : V2 String _).append f es }

/-- what the harness plants at the target path -/
def preFile (kind nm : String) (fo : Folder String) : Option (String × List (Entry String)) :=
  if kind == "valid" then
    let first := (allSegs fo).head?.map (·.key)
    let zz : Entry String := ("7a7a2d6f6e6c792d696e2d7632", "pre")          -- hex "zz-only-in-v2"
    some ("other/swamp/name", match first with
      | some k => if k != "" && (longLen? k).isNone then [zz, (k, "pre")] else [zz]
      | none => [zz])
  else if kind == "newer" then
    match dedupe good (allSegs fo) with
    | (k, _) :: rest => some (nm, (k, "rewritten") :: rest)
    | [] => none
  else if kind == "stub" then some (if nameLen nm ≤ 65535 then nm else "truncated", [])
  else if kind == "junk" then some (junkName, [])
  else none

def step (cfg : MCfg) (_ : Unit) (line : String) : Unit × String :=
  match line.splitOn " | " with
  | [head, nmPart, foPart] =>
    match head.splitOn " " with
    | ["mig", _, v, d, r, ft, pre] =>
      let o : Opts := ⟨v == "v=1", d == "d=1", r == "r=1"⟩
      let nm := (nmPart.drop 5).toString
      -- an empty key is written as the empty hex string
      let fo := parseFolder (foPart.drop 7).toString
      let fault := parseFault (ft.drop 6).toString
      let hyd0 := preFile (pre.drop 4).toString nm fo
      let dStart : Disk String (String × List (Entry String)) := { v1 := fo, v1Folder := true, hyd := hyd0 }
      -- fault=rerun: an earlier run of the same swamp without DeleteOld came first
      let rerun := (ft.drop 6).toString == "rerun"
      let r0 := migrate cfg drvV2 ⟨o.verify, false, false⟩ .none nm dStart
      let firstOk := match r0.1 with
        | .success => true
        | _ => false
      let d0 := if rerun then r0.2 else dStart
      let (res, d1) := migrate cfg drvV2 o fault nm d0
      let resTxt := match res with
        | .success => "success" | .skippedEmpty => "skipped" | .failed ph => "failed:" ++ ph
      let failed := match res with
        | .failed _ => true
        | _ => false
      let v1Txt := if !d1.v1Folder then "gone" else if d1.v1.length == fo.length then "same" else s!"left:{d1.v1.length}"
      let kept := hyd0.isSome && d1.hyd == hyd0
      let unsynced := d1.hyd.isSome && !d1.hydSynced && d1.v1.length != fo.length
      let (hydTxt, loadTxt, nameTxt, loadBad) := match d1.hyd with
        | none => ("0", "none", "na", false)
        | some f =>
          if kept then ("kept", "none", "na", false)
          else if failed then ("1", "partial", "partial", true)
          else
            let ks := keysOf fo
            let uniq := uniqueKeys fo
            let okAll := ks.all fun k =>
              match drvV2.loadMap f k with
              | some x => if uniq then loadV1In fo k == some x else (candidates fo k).contains x
              | none => false
            let extra := f.2.any fun e => !ks.contains e.1
            let bad := !okAll || extra
            (if unsynced then "unsynced" else "1", if bad then "DIFF" else if uniq then "match" else "dup-ok",
             if drvV2.nameOf f == nm then "ok" else "BAD", bad)
      -- Spec: a failure leaves everything as it was; V1 files go only after a success; a file that was there stays
      let flag :=
        if unsynced then "\t#F:C23-delete-before-fsync"
        else if rerun && failed && firstOk && hyd0.isNone then "\t#F:C23-rerun-never-completes"
        else if hyd0.isSome && !kept then "\t#F:C23-existing-hyd-appended"
        else if !failed && nameTxt == "BAD" then "\t#F:C23-name-lost-when-meta-unreadable"
        else if failed && d1.hyd.isSome && !kept then
          (match fault with
           | .write 0 => "\t#F:C23-hyd-left-after-failed-create"
           | .write _ => "\t#F:C23-hyd-left-after-failed-write"
           | _ => "\t#F:C23-hyd-left-after-failed-verify")
        else if failed && v1Txt != "same" then
          (if !cfg.verifyBeforeDelete || !cfg.writeBeforeDelete then "\t#F:C23-delete-before-verify" else "\t#F:C23-v1-files-lost-on-failure")
        else if loadBad then (if !cfg.dedupeLast then "\t#F:C23-dedupe-keeps-first" else "\t#F:C23-migrated-data-differs")
        else ""
      let firstTxt := if rerun then (match r0.1 with
        | .success => " first=success" | .skippedEmpty => " first=skipped" | .failed _ => " first=failed") else ""
      ((), s!"res={resTxt} v1={v1Txt} hyd={hydTxt} load={loadTxt} name={nameTxt}{firstTxt}{flag}")
    | _ => ((), "bad-op")
  | _ =>
    if line.startsWith "case " then ((), line)
    else if line.startsWith "multi " then
      -- several swamps in one run: each must end as it does alone (the single runs are the `mig` lines)
      let n := ((line.splitOn " ").find? (·.startsWith "n=")).getD "n=0"
      ((), s!"multi {n} diff=0")
    else ((), "bad-op")

def run (args : List String) : IO UInt32 := do
  let kv := parseArgs args
  let y := fun k => triYes (arg kv k)
  let cfg : MCfg := ⟨y "dedupeLast", y "verifyBeforeDelete", y "writeBeforeDelete", y "removeOnVerifyFail",
                     y "removeOnWriteFail", y "removeOnOpenFail", y "emptyKeyIsError", y "metaErrorAborts", y "verifyValues",
                     y "refusesExisting", y "acceptsEqualTarget", y "syncsBeforeDelete"⟩
  lineLoop (step cfg) ()
  return 0

end Driver.C23
