import Driver.Util
import Hv.Storage.Fault
import Hv.Storage.DiskLemmas

/-! Shared driver for the storage domains C02 / C03 / C25: replays an ops file produced from the
    strace log of the real writer (`harness/c02.go`) against the model of `Hv/Storage`.

    * `act …`   — a call made on the real chronicler; the model computes the file operations it
                  expects (`cWrite`, `cSync`, `cClose`, `cCompactLocked`, `compactVia`, `loadOps`)
    * `log …`   — one traced syscall; the reply is the operation the *model* expected at this
                  position, in the same canonical text the harness prints for the real one
    * `img i j k` — crash image `lossyImageAt` of the model's operation log, loaded with the
                  model reader (`L:`), recovered as `Load` does (`C:`), then a probe record is
                  appended through the model writer and everything is loaded again (`A:`)
    A reply carries `#F:<id>` when the model state violates the Spec there. -/
namespace Driver.BStor
open Hv.BlockStore

def hexVal (c : Char) : Nat :=
  if '0' ≤ c ∧ c ≤ '9' then c.toNat - '0'.toNat
  else if 'a' ≤ c ∧ c ≤ 'f' then c.toNat - 'a'.toNat + 10
  else if 'A' ≤ c ∧ c ≤ 'F' then c.toNat - 'A'.toNat + 10 else 0

def hexBytes (s : String) : List Nat :=
  let rec go : List Char → List Nat
    | a :: b :: rest => (hexVal a * 16 + hexVal b) :: go rest
    | _ => []
  go s.toList

def nat (s : String) : Nat := s.toNat?.getD 0

def parseOp (s : String) : Option Op :=
  match s.splitOn "." with
  | "p" :: k :: v :: _ => some (.put (nat k) (nat v))
  | "d" :: k :: _ => some (.del (nat k))
  | _ => none

def parseEnts (s : String) : List Op :=
  if s == "-" || s == "" then [] else (s.splitOn ";").filterMap parseOp

def showOp : Op → String
  | .put k v => s!"p.{k}.{v}"
  | .del k => s!"d.{k}"

def showEnts (es : List Op) : String := ";".intercalate (es.map showOp)

def insertSorted (p : Nat × Nat) : List (Nat × Nat) → List (Nat × Nat)
  | [] => [p]
  | q :: rest => if p.1 ≤ q.1 then p :: q :: rest else q :: insertSorted p rest

def showIndex (m : Index) : String :=
  let sorted := m.foldl (fun acc p => insertSorted p acc) []
  if sorted.isEmpty then "-" else ",".intercalate (sorted.map fun (k, v) => s!"{k}={v}")

def sameIndex (a b : Index) : Bool := showIndex a == showIndex b

def pathOf (s : String) : Path := if s == "temp" then .temp else .main
def showPath : Path → String
  | .main => "main"
  | .temp => "temp"

def kindOf (cs : List Cell) : String :=
  match cs.head? with
  | some (.fh nl _) => s!"fh:{nl}"
  | some (.nm _) => "nm"
  | some (.bh b _) => "bh:" ++ showEnts b.ents
  | some (.bp b _) => "bp:" ++ showEnts b.ents
  | some .zero => "zero"
  | some (.junk _ _) => "raw"
  | none => "empty"

/-- canonical text of an operation, as `c02RunOps` prints the traced one -/
def showFsOp (res : String) : FsOp → String
  | .create p => s!"create {showPath p} - 0 0 - {res}"
  | .write p off cs => s!"write {showPath p} - {off} {cs.length} {if res == "ok" then kindOf cs else "-"} {res}"
  | .sync p => s!"sync {showPath p} - 0 0 - {res}"
  | .rename a b => s!"rename {showPath a} {showPath b} 0 0 - {res}"
  | .unlink p => s!"unlink {showPath p} - 0 0 - {res}"
  | .truncate p n => s!"trunc {showPath p} - {n} {n} - {res}"

structure DS where
  cfg : Cfg
  nl : Nat := 0
  bs : Nat := 16384
  tbl : List (String × Block) := []
  mdisk : Disk := {}
  mops : List FsOp := []        -- model's operation log (planted operations included)
  cursor : Nat := 0             -- log/plant lines consumed
  cs : CSt := { nlName := 0, bs := 16384 }
  spec : Index := []
  staleEp : Option String := none   -- a compaction appended to a temp it did not remove
  probe : Bool := true
  ckIdx : Nat := 0              -- checkpoint: `ckDisk` is the disk after the first `ckIdx` operations
  ckDisk : Disk := {}
  wr : List Op := []            -- every entry handed to Write, in order
  synced : List (Nat × List Op) := []   -- (index just after an fsync, entries loadable from the disk then), newest first
  tickSyncs : Bool := true      -- fileWriterHandler → chronicler.Sync → FileWriter.Sync → fsync, all present
  mres : List String := []      -- result text of each operation of `mops` (C25; "ok" otherwise)
  fc : FCfg := ⟨true, false, false, false, true, false⟩
  rs : List Res := []           -- results announced for the next region (C25)
  firstFault : Option String := none
  phantom : List Nat := []      -- header bytes of a block whose header write fails in this region (C25)
  dur : Nat := 0                -- how many of `wr` a successful Sync/Close has acknowledged (C25)
  respec : Bool := false        -- the file was cut by hand: the next load defines the expected state

def DS.mk' (s : DS) : Mk := fun es =>
  match s.tbl.find? (fun p => p.2.ents == es) with
  | some p => p.2
  | none => { hdr := s.phantom, plen := le32 s.phantom, ents := es }

def DS.block (s : DS) (id : String) : Block :=
  match s.tbl.find? (fun p => p.1 == id) with
  | some p => p.2
  | none => { hdr := [], plen := 0, ents := [] }

def DS.probeSize (s : DS) : Nat :=
  -- Entry.Size() of the probe record is not needed for flush prediction (Sync forces the flush)
  let _ := s; 400

def cellsOfKind (s : DS) (kind : String) (len idx : Nat) : List Cell :=
  if kind.startsWith "fh:" then (fhCells (nat (kind.drop 3).toString)).take len
  else if kind == "nm" then nmCells len
  else if kind.startsWith "bh:" then (hdrCells (s.block (kind.drop 3).toString)).take len
  else if kind.startsWith "bp:" then (payCells (s.block (kind.drop 3).toString)).take len
  else if kind == "zero" then zeros len
  else (List.range len).map (Cell.junk idx)

/-- the operation described by a `plant`/`log` line (fields after the verb) -/
def parseLogOp (s : DS) (f : List String) : Option FsOp :=
  match f with
  | idx :: op :: path :: to :: off :: len :: kind :: _ =>
    let p := pathOf path
    match op with
    | "create" => some (.create p)
    | "write" => some (.write p (nat off) (cellsOfKind s kind (nat len) (nat idx)))
    | "sync" => some (.sync p)
    | "rename" => some (.rename p (pathOf to))
    | "unlink" => some (.unlink p)
    | "trunc" => some (.truncate p (nat off))
    | _ => none
  | _ => none

def loadedEntries (c : Cfg) (d : Disk) : List Op :=
  match d.main with
  | some f => (match loadFile c.r f with | .ok es => es | _ => [])
  | none => []

def DS.push (s : DS) (ops : List FsOp) : DS :=
  let s1 := { s with mops := s.mops ++ ops, mdisk := s.mdisk.applyAll ops, mres := s.mres ++ ops.map (fun _ => "ok") }
  -- an fsync is always the last operation of the act that issues it
  match ops.getLast? with
  | some (.sync .main) => { s1 with synced := (s1.mops.length, loadedEntries s.cfg s1.mdisk) :: s1.synced }
  | _ => s1

/-- entries durable while operation `i` is in flight: those loadable at the last fsync that completed before it -/
def DS.syncedAt (s : DS) (i : Nat) : List Op :=
  match s.synced.find? (fun p => p.1 ≤ i) with
  | some p => p.2
  | none => []

def isPrefixOf (a b : List Op) : Bool := a.length ≤ b.length && b.take a.length == a

/-- `p.k.v.sz` / `d.k.sz`, optionally `…*N` for N copies -/
def parseItems (str : String) : List (Op × Nat) :=
  (str.splitOn ",").flatMap fun it =>
    let (body, times) := match it.splitOn "*" with
      | [b, n] => (b, nat n)
      | _ => (it, 1)
    match body.splitOn "." with
    | ["p", k, v, sz] => List.replicate times (Op.put (nat k) (nat v), nat sz)
    | ["d", k, sz] => List.replicate times (Op.del (nat k), nat sz)
    | _ => []

def parseOrder (str : String) : List (Nat × Nat) :=
  if str == "-" || str == "skip" then [] else
  (str.splitOn ",").filterMap fun it =>
    match it.splitOn "." with
    | [k, sz] => some (nat k, nat sz)
    | _ => none

def epOf (s : String) : EP := if s == "cli" then .cli else if s == "fromIndex" then .fromIndex else .locked
def epName : EP → String
  | .locked => "locked"
  | .fromIndex => "load"
  | .cli => "cli"

def loadResText (c : Cfg) (f : Option (List Cell)) : String :=
  match f with
  | none => "nofile"
  | some cs =>
    match loadFile c.r cs with
    | .ok es => showIndex (Index.replay [] es)
    | .errOpen => "err-open"
    | .errLoad => "err-load"

/-- finding id for a state that differs from the Spec (property-specific hook) -/
abbrev FlagFn := DS → (what : String) → String

structure Eval where
  text : String
  cOk : Bool
  aOk : Bool
  lText : String := ""
  cEnts : List Op := []     -- entries the load of the image returned ([] when it failed)
  cState : Index := []
  aState : Index := []

/-- load an image as the harness does: reader, chronicler Load, probe append, reload -/
def evalImage (s : DS) (img : Disk) (expectC : Index) : Eval :=
  let c := s.cfg
  let l := loadResText c img.main
  let d1 := img.applyAll (loadOps c img)
  let st := recover c d1
  let cs0 : CSt := { w := none, nlName := s.nl, bs := s.bs }
  let (cs1, o1) := cWrite c s.mk' d1 cs0 [(Op.put 9000 77, s.probeSize)]
  let d2 := d1.applyAll o1
  let (cs2, o2) := cSync c s.mk' cs1
  let d3 := d2.applyAll o2
  let (_, o3) := cClose c s.mk' cs2
  let d4 := d3.applyAll o3
  let d5 := d4.applyAll (loadOps c d4)
  let st2 := recover c d5
  let txt := if s.probe then s!"L:{l} C:{showIndex st} A:{showIndex st2}" else s!"L:{l} C:{showIndex st}"
  let ents := match d1.main with
    | some f => (match loadFile c.r f with | .ok es => es | _ => [])
    | none => []
  { text := txt, cOk := sameIndex st expectC, aOk := !s.probe || sameIndex st2 (Index.put expectC 9000 77),
    lText := l, cEnts := ents, cState := st, aState := st2 }

def pendingText (s : DS) : String :=
  match s.mops[s.cursor]? with
  | some op => "missing:" ++ showFsOp "ok" op ++ " "
  | none => ""

structure Hooks where
  /-- expected durable state at a crash point (i, j) given the driver state -/
  expectAt : DS → Nat → Nat → Index
  flagImg : DS → Eval → Nat → Nat → Nat → String
  flagLoad : DS → Index → String

/-- `lossyImageAt {} mops i j k`, computed from the checkpoint when the crash point lies behind it
    (`lossyImageAt_checkpoint`) -/
def DS.image (s : DS) (i j k : Nat) : Disk :=
  if s.ckIdx ≤ i ∧ s.ckIdx ≤ j then
    lossyImageAt s.ckDisk (s.mops.drop s.ckIdx) (i - s.ckIdx) (j - s.ckIdx) k
  else lossyImageAt {} s.mops i j k

/-- a new region of the log starts (everything predicted so far has been matched): checkpoint -/
def DS.checkpoint (s : DS) : DS :=
  if s.cursor == s.mops.length then { s with ckIdx := s.mops.length, ckDisk := s.mdisk } else s

def step (h : Hooks) (s0 : DS) (line : String) : DS × String :=
  let s := if line.startsWith "act " then s0.checkpoint else s0
  match (line.splitOn " ").filter (· ≠ "") with
  | "case" :: _ =>
    ({ cfg := s.cfg, probe := s.probe, tickSyncs := s.tickSyncs, fc := s.fc }, line)
  | ["tick", n] =>
    let n := nat n
    if s.tickSyncs then
      (s, "tick " ++ showIndex ((List.range n).map fun i => (i + 1, 101 + i)))
    else (s, "tick -\t#F:C02-ack-not-durable")
  | ["tick0", n] =>
    let n := nat n
    if s.tickSyncs then
      (s, "tick " ++ showIndex ((List.range n).map fun i => (i + 1, 101 + i)))
    else (s, "tick -\t#F:C02-ack-not-durable")
  | ["tickdel", n] =>
    let n := nat n
    if s.tickSyncs then
      (s, "tick " ++ showIndex ((List.range (n - 1)).map fun i => (i + 1, 101 + i)))
    else (s, "tick -\t#F:C02-ack-not-durable")
  | "cfg" :: rest =>
    let kv := parseArgs rest
    let nl := nat (arg kv "nl")
    let bs := nat (arg kv "bs")
    ({ s with nl := nl, bs := bs, cs := { nlName := nl, bs := bs } }, "ok")
  | ["blk", id, hdr, plen, ents, _] =>
    ({ s with tbl := s.tbl ++ [(id, { hdr := hexBytes hdr, plen := nat plen, ents := parseEnts ents })] }, "ok")
  | ["act", "new"] =>
    ({ s with cs := { w := none, nlName := s.nl, bs := s.bs } }, "ok")
  | ["act", "w", items] =>
    let its := parseItems items
    let (cs1, ops) := cWrite s.cfg s.mk' s.mdisk s.cs its
    -- Spec: a write is accepted iff the chronicler has (or can open) a writer
    let accepted := (ensureW s.cfg s.mdisk s.cs).isSome
    let spec := if accepted then Index.replay s.spec (its.map (·.1)) else s.spec
    ({ (s.push ops) with cs := cs1, spec := spec, wr := s.wr ++ its.map (·.1) }, "ok")
  | ["act", "size", _] =>
    (s, "ok " ++ (match s.mdisk.main with | some f => toString f.length | none => "-"))
  | ["act", "sync", _] =>
    let (cs1, ops) := cSync s.cfg s.mk' s.cs
    ({ (s.push ops) with cs := cs1 }, "ok ok")
  | ["act", "close", _] =>
    let (cs1, ops) := cClose s.cfg s.mk' s.cs
    ({ (s.push ops) with cs := cs1 }, "ok ok")
  | ["act", "compact", ep, order] =>
    let e := epOf ep
    -- runCompactionLocked closes the writer and cleans the temp even when Compact then skips
    let (cs1, o0) := if e == .locked then cClose s.cfg s.mk' s.cs else (s.cs, [])
    let s1 := { (s.push o0) with cs := cs1 }
    if order == "skip" then
      let o1 := if e == .locked && s.cfg.rmTempLocked then rmTempOps s1.mdisk else []
      (s1.push o1, "ok")
    else
      let stale := s1.mdisk.temp.isSome && !(e.rmFirst s.cfg)
      let o1 := compactVia s.cfg s.mk' s1.mdisk e (parseOrder order) (if e == .cli then 16384 else s.bs)
      ({ (s1.push o1) with staleEp := if stale then some (epName e) else none }, "ok")
  | ["act", "load", order, _] =>
    let o0 := loadOps s.cfg s.mdisk
    let s1 := { (s.push o0) with cs := { w := none, nlName := s.nl, bs := s.bs } }
    let st := recover s.cfg s1.mdisk
    let (s2, stale) :=
      if order == "-" then (s1, s1.staleEp) else
        let stale := s1.mdisk.temp.isSome && !(EP.rmFirst s.cfg .fromIndex)
        (s1.push (compactVia s.cfg s.mk' s1.mdisk .fromIndex (parseOrder order) s.bs),
         if stale then some "load" else s1.staleEp)
    let s3 := { s2 with staleEp := stale }
    if s.respec then
      -- the file was cut by hand (a first crash): what this load returns is the new baseline — it is
      -- on the disk, so a later crash must keep it, and the resumed session appends to it
      let base := loadedEntries s.cfg s1.mdisk
      ({ s3 with spec := st, respec := false, wr := base, synced := [(s3.mops.length, base)] },
       pendingText s ++ "ok " ++ showIndex st)
    else (s3, pendingText s ++ "ok " ++ showIndex st ++ h.flagLoad s3 st)
  | "plant" :: rest =>
    match parseLogOp s rest with
    | some op =>
      let cut := match op with | .truncate _ _ => true | _ => false
      ({ (s.push [op]) with cursor := s.cursor + 1, respec := s.respec || cut }, "ok")
    | none => (s, "bad-op")
  | "log" :: rest =>
    match s.mops[s.cursor]? with
    | some op => ({ s with cursor := s.cursor + 1 }, showFsOp (s.mres.getD s.cursor "ok") op)
    | none =>
      -- the model expected nothing here: keep the disk in step with reality
      match parseLogOp s rest with
      | some op => ({ (s.push [op]) with cursor := s.cursor + 1 }, "unexpected")
      | none => (s, "bad-op")
  | ["img", i, j, k] =>
    let (i, j, k) := (nat i, nat j, nat k)
    let img := s.image i j k
    let ev := evalImage s img (h.expectAt s i j)
    (s, pendingText s ++ ev.text ++ h.flagImg s ev i j k)
  | ["img", i, j, k, z] =>
    -- zero extension: the file size outlived the data
    let (i, j, k) := (nat i, nat j, nat k)
    let img0 := s.image i j k
    let img := { img0 with main := img0.main.map (· ++ zeros (nat z)) }
    let ev := evalImage s img (h.expectAt s i j)
    (s, pendingText s ++ ev.text ++ h.flagImg s ev i j k)
  | ["end"] => (s, pendingText s ++ "end")
  | _ => (s, "bad-op")

def boolArg (kv : List (String × String)) (k : String) : Bool := arg kv k == "yes"

end Driver.BStor
