import Driver.Util

/-! Placeholder: the line-protocol driver of domain C28 is not written yet. -/
namespace Driver.C28

def run (_args : List String) : IO UInt32 := do
  IO.eprintln "drv: domain C28 has no driver yet"
  return 2

end Driver.C28
