import Driver.Util
import Hv.Conc.LockMap

/-! Line-protocol driver for the lock-map model (domain C28). Same ops and reply format as
    `/verif/harness/c28.go`; histories are sequential, so every `Lock` call runs
    `call; getQueue; enqueue` (with the retry of the pruning variant) and a removal that marks a
    queue dead is followed at once by its `unmap`.  A reply carries `#F:C28-queues-never-pruned`
    when nothing is queued any more and the map still has entries. -/
namespace Driver.C28
open Hv.LockMap

structure Sess where
  key : Nat
  short : Bool
  cancelled : Bool := false
  acquired : Bool := false
  gone : Bool := false
  expired : Bool := false
  heldAtGotq : Bool := false
  released : Bool := false

structure DSt where
  cfg : Cfg
  s : St := init
  sess : List Sess := []

def getSess (d : DSt) (n : Nat) : Option Sess := if n = 0 then none else d.sess[n - 1]?
def setSess (d : DSt) (n : Nat) (x : Sess) : DSt := { d with sess := d.sess.set (n - 1) x }

def act (d : DSt) (a : Act) : DSt :=
  match step d.cfg d.s a with
  | some s' => { d with s := s' }
  | none => d

def holdersMax (d : DSt) : Nat :=
  let keys := d.sess.map (·.key)
  keys.foldl (fun m k => max m ((d.sess.filter (fun x => x.key == k && x.acquired && !x.released)).length)) 0

def tail (d : DSt) : String :=
  let e := d.s.map.length
  let q := queued d.s
  -- residual: every error path of the model removes the caller before it returns
  s!"entries={e} queued={q} inflight={d.s.calls.length} holders={holdersMax d} residual=0" ++
    (if q == 0 && e > 0 && d.s.calls.isEmpty && d.s.unmapPending.isEmpty then "\t#F:C28-queues-never-pruned" else "")

/-- the queue object currently mapped for a key -/
def objOf (d : DSt) (k : Nat) : Option Nat := d.s.map.lookup k

/-- `getQueue; enqueue`, retrying while the queue obtained is dead (bounded: sequentially the
    retry happens at most once) -/
def enqueueLoop (d : DSt) (id k : Nat) : Nat → DSt
  | 0 => d
  | fuel + 1 =>
    let d := act d (.getQueue id k)
    match d.s.calls.find? (·.id == id) with
    | some c =>
      match c.ptr with
      | some i =>
        let d := act d (.enqueue id k i)
        if d.s.calls.any (·.id == id) then enqueueLoop d id k fuel else d
      | none => d
    | none => d

/-- remove `id` from the queue mapped for `k`; run the pending `unmap`s -/
def removeVia (d : DSt) (id k : Nat) : DSt × Bool :=
  match objOf d k with
  | none => (d, false)
  | some i =>
    let found := match d.s.objs[i]? with
      | some o => decide (id ∈ o.q.callers)
      | none => false
    let d := act d (.remove id i)
    (d.s.unmapPending.foldl (fun d j => act d (.unmap j)) d, found)

/-- after a removal the new head (a parked waiter) acquires -/
def settle (d : DSt) (k : Nat) : DSt :=
  match (objOf d k).bind (fun i => d.s.objs[i]?) with
  | some o =>
    o.q.ready.foldl (fun d id =>
      match getSess d id with
      | some x => if !x.acquired && !x.gone then setSess d id { x with acquired := true } else d
      | none => d) d
  | none => d

def sessArg (d : DSt) (ns : String) : Option (Nat × Sess) :=
  ns.toNat?.bind (fun n => (getSess d n).map (fun x => (n, x)))

def stepLine (d : DSt) (line : String) : DSt × String :=
  match words line with
  | ["case", _] => ({ d with s := init, sess := [] }, line)
  | ["lock", ks, ttl] =>
    match ks.toNat? with
    | none => (d, "bad-op")
    | some k =>
      let n := d.sess.length + 1
      let short := ttl != "long"
      let d := { d with sess := d.sess ++ [{ key := k, short := short }] }
      let d := act d (.call n k)
      let d := enqueueLoop d n k 3
      let granted := match (objOf d k).bind (fun i => d.s.objs[i]?) with
        | some o => decide (n ∈ o.q.ready)
        | none => false
      if granted then
        let d := setSess d n { key := k, short := short, acquired := true }
        (d, s!"enq {n} acq {tail d}")
      else (d, s!"enq {n} wait {tail d}")
  | "lockc" :: ks :: obs =>
    -- a Lock whose context is already cancelled: granted on enqueue ⇒ both select branches are
    -- enabled and the observed one is followed; not granted ⇒ only the ctx.Done branch
    match ks.toNat? with
    | none => (d, "bad-op")
    | some k =>
      let n := d.sess.length + 1
      let d := { d with sess := d.sess ++ [{ key := k, short := false, cancelled := true }] }
      let d := act d (.call n k)
      let d := enqueueLoop d n k 3
      let granted := match (objOf d k).bind (fun i => d.s.objs[i]?) with
        | some o => decide (n ∈ o.q.ready)
        | none => false
      if granted && obs != ["cancel"] then
        let d := setSess d n { key := k, short := false, cancelled := true, acquired := true }
        (d, s!"lockc {n} acq {tail d}")
      else
        let d := setSess d n { key := k, short := false, cancelled := true, gone := true }
        let (d, _) := removeVia d n k
        let d := settle d k
        (d, s!"lockc {n} cancel {tail d}")
  | ["lockh", ks] =>
    match ks.toNat? with
    | none => (d, "bad-op")
    | some k =>
      let n := d.sess.length + 1
      let d := { d with sess := d.sess ++ [{ key := k, short := false, heldAtGotq := true }] }
      let d := act (act d (.call n k)) (.getQueue n k)
      (d, s!"gotq {n} {tail d}")
  | ["go", ns] =>
    match sessArg d ns with
    | none => (d, s!"skip {tail d}")
    | some (n, x) =>
      if !x.heldAtGotq then (d, s!"skip {tail d}") else
      -- enqueue on the pointer it holds; on a dead queue: getQueue again and enqueue there
      let d := match d.s.calls.find? (·.id == n) with
        | some c => (match c.ptr with
          | some i => let d1 := act d (.enqueue n x.key i)
                      if d1.s.calls.any (·.id == n) then enqueueLoop d1 n x.key 3 else d1
          | none => enqueueLoop d n x.key 3)
        | none => d
      let granted := match (objOf d x.key).bind (fun i => d.s.objs[i]?) with
        | some o => decide (n ∈ o.q.ready)
        | none => false
      let d := setSess d n { x with heldAtGotq := false, acquired := granted }
      (d, s!"enq {n} {if granted then "acq" else "wait"} {tail d}")
  | ["unlock", ns] =>
    match sessArg d ns with
    | none => (d, s!"skip {tail d}")
    | some (n, x) =>
      if !x.acquired then (d, s!"skip {tail d}") else
      let d := setSess d n { x with released := true }
      let (d, found) := removeVia d n x.key
      let d := settle d x.key
      (d, s!"unlock {n} {if found then "ok" else "err"} {tail d}")
  | ["expire", ns] =>
    match sessArg d ns with
    | none => (d, s!"skip {tail d}")
    | some (n, x) =>
      if !x.acquired || !x.short || x.expired then (d, s!"skip {tail d}") else
      let inq := match (objOf d x.key).bind (fun i => d.s.objs[i]?) with
        | some o => decide (n ∈ o.q.callers)
        | none => false
      let d := setSess d n { x with expired := true, released := x.released || inq }
      let (d, found) := removeVia d n x.key
      let d := settle d x.key
      (d, s!"expire {n} {if found then "removed" else "noop"} {tail d}")
  | ["cancel", ns] =>
    match sessArg d ns with
    | none => (d, s!"skip {tail d}")
    | some (n, x) =>
      if x.cancelled || x.heldAtGotq then (d, s!"skip {tail d}") else
      let x := { x with cancelled := true }
      if x.acquired || x.gone then (setSess d n x, s!"cancel {n} noop {tail d}") else
      let d := setSess d n { x with gone := true }
      let (d, _) := removeVia d n x.key
      let d := settle d x.key
      (d, s!"cancel {n} removed {tail d}")
  | ["count"] => (d, s!"count {tail d}")
  | _ => (d, "bad-op")

/-! ### Trace inclusion (domain C28s): replay a log of the real lock under genuine concurrency.
    Every event is logged under the mutex of the queue object it reports on; `dead` is logged
    before the map delete, so the delete (`unmap`) is an internal step the model may take at any
    later point — it is taken lazily: when the key's next queue object appears, or at a `count`. -/

structure T28 where
  cfg : Cfg
  s : St := init
  /-- log queue number ↦ heap index of the model's queue object -/
  qidx : List (Nat × Nat) := []
  /-- `dead K Q N` lines whose `rm` line has not been seen yet -/
  applied : List (Nat × Nat) := []

def parseList (w : String) : Option (List Nat) :=
  if !w.startsWith "c=[" || !w.endsWith "]" then none else
  let inner := ((w.drop 3).dropEnd 1).toString
  if inner.isEmpty then some [] else (inner.splitOn ",").mapM (·.toNat?)

def stepT (t : T28) (a : Act) : Option T28 := (step t.cfg t.s a).map (fun s' => { t with s := s' })

def flushKey (t : T28) (k : Option Nat) : T28 :=
  t.s.unmapPending.foldl (fun t i =>
    match t.s.objs[i]? with
    | some o => if k.all (· == o.key) then (stepT t (.unmap i)).getD t else t
    | none => t) t

def tstep (t : T28) (line : String) : T28 × String :=
  match words line with
  | ["case", _] => ({ cfg := t.cfg }, line)
  | ["enq", ks, qs, ns, gs, cs] =>
    match ks.toNat?, qs.toNat?, ns.toNat?, gs.toNat?, parseList cs with
    | some k, some q, some n, some g, some c =>
      match stepT t (.call n k) with
      | none => (t, "bad enq: caller number not fresh")
      | some t1 =>
        let known := t1.qidx.lookup q
        -- a queue object the log has not shown before: the key's previous (dead) one is unmapped first
        let t1 := if known.isNone then flushKey t1 (some k) else t1
        match stepT t1 (.getQueue n k) with
        | none => (t, "bad enq: getQueue is not a step")
        | some t2 =>
          match (t2.s.calls.find? (·.id == n)).bind (·.ptr) with
          | none => (t, "bad enq: no pointer")
          | some i =>
            let fresh := decide (i == t1.s.objs.length)
            match known with
            | some j =>
              if i != j then (t, s!"bad enq: caller {n} was appended to queue object {q}, which is not the queue the map holds for key {k} (retired={(t1.s.objs[j]?.map (·.dead)).getD false})")
              else finishEnq t2 k i n g c
            | none =>
              if !fresh then (t, s!"bad enq: caller {n} was appended to a new queue object {q} while key {k} is still mapped to a live queue: two queues for one key")
              else finishEnq { t2 with qidx := (q, i) :: t2.qidx } k i n g c
    | _, _, _, _, _ => (t, "bad-op")
  | ["deadq", _, qs] =>
    match qs.toNat?.bind (fun q => t.qidx.lookup q) with
    | some i =>
      if t.cfg.prune && ((t.s.objs[i]?).map (·.dead)).getD false then (t, "ok")
      else (t, "bad deadq: an enqueue was refused on a queue that is not retired in the model")
    | none => (t, "bad deadq: unknown queue object")
  | ["dead", _, qs, ns] =>
    match qs.toNat?, ns.toNat? with
    | some q, some n =>
      match t.qidx.lookup q with
      | none => (t, "bad dead: unknown queue object")
      | some i =>
        match stepT t (.remove n i) with
        | some t' =>
          if ((t'.s.objs[i]?).map (·.dead)).getD false && i ∈ t'.s.unmapPending then
            ({ t' with applied := (q, n) :: t'.applied }, "ok")
          else (t', s!"bad dead: the removal of caller {n} does not retire queue {q} in the model")
        | none => (t, "bad dead: not a step")
    | _, _ => (t, "bad-op")
  | ["rm", _, qs, ns, fs, cs] =>
    match qs.toNat?, ns.toNat?, fs.toNat? with
    | some q, some n, some f =>
      if t.applied.contains (q, n) then
        let t' := { t with applied := t.applied.filter (· != (q, n)) }
        if f == 1 && cs == "c=[]" then (t', "ok") else (t', "bad rm: the removal that retired the queue reports found=0 or a non-empty queue")
      else
      match t.qidx.lookup q with
      | none => if f == 0 then (t, "ok") else (t, "bad rm: a caller was found in a queue nobody was ever appended to")
      | some i =>
        let before := ((t.s.objs[i]?).map (·.q.callers)).getD []
        let found := decide (n ∈ before) && n != 0
        match stepT t (.remove n i) with
        | some t' =>
          let after := ((t'.s.objs[i]?).map (·.q.callers)).getD []
          if found != (f == 1) then (t', s!"bad rm: model found={found}")
          else if i ∈ t'.s.unmapPending && !(i ∈ t.s.unmapPending) then
            (t', s!"bad rm: the removal of caller {n} empties queue {q}: the model retires it, the code did not")
          else if f == 1 && parseList cs != some after then (t', s!"bad rm: queue contents differ, model {showNatList after}")
          else (t', "ok")
        | none => (t, "bad rm: not a step")
    | _, _, _ => (t, "bad-op")
  | ["count", es, ds] =>
    let t := flushKey t none
    let e := t.s.map.length
    let d := queued t.s
    if some e == es.toNat? && some d == ds.toNat? then (t, "ok")
    else (t, s!"bad count: model entries={e} queued={d}" ++
      (if d == 0 && e > 0 then "\t#F:C28-queues-never-pruned" else ""))
  | ["hang"] => (t, "bad hang: a Lock call never returned")
  | _ => (t, "bad-op")
where
  finishEnq (t : T28) (k i n g : Nat) (c : List Nat) : T28 × String :=
    match stepT t (.enqueue n k i) with
    | none => (t, "bad enq: not a step")
    | some t' =>
      if t'.s.calls.any (·.id == n) then (t, s!"bad enq: caller {n} was appended to a retired queue object (the model refuses and retries)")
      else
        let o := (t'.s.objs[i]?).map (·.q)
        let granted := (o.map (fun q => decide (n ∈ q.ready))).getD false
        let callers := (o.map (·.callers)).getD []
        if granted != (g == 1) then (t', s!"bad enq: model grants={granted}")
        else if callers != c then (t', s!"bad enq: queue contents differ, model {showNatList callers}")
        else (t', "ok")

def run (args : List String) : IO UInt32 := do
  let kv := parseArgs args
  if arg kv "mode" == "trace" then
    lineLoop tstep { cfg := { prune := arg kv "prune" == "yes" } }
    return 0
  lineLoop stepLine { cfg := { prune := arg kv "prune" == "yes" } }
  return 0

end Driver.C28
