import Driver.Util
import Driver.StorageCodec
import Driver.C01
import Hv.Storage.Listing

/-! Driver for domain C29: `readSwampName` and the explorer's per-file decision (`scanListed`) of the
    model on the real files' bytes; `create` is `createFileCfg`.  A reply is flagged when the model's
    answer differs from the name the generator wrote the file under. -/
namespace Driver.C29
open Hv.Storage Driver.Stor Driver.C01

structure DS where
  cfg : Cfg
  files : List Bytes := []     -- newest first

def engineKind (k : String) : Bool :=
  k == "v3" || k == "v3app" || k == "v3open" || k == "v2" || k == "v2app" || k == "v2resv" || k == "v3cmp" || k == "v2cmp" || k == "v3torn"

def insertSorted (x : Bytes) : List Bytes → List Bytes
  | [] => [x]
  | y :: ys => if x == y then y :: ys else if bytesLe x y then x :: y :: ys else y :: insertSorted x ys

def step (d : DS) (line : String) : DS × String :=
  match line.splitOn " " with
  | ["case", _] => ({ cfg := d.cfg }, line)
  | ["create", nm] =>
    match parseSpec nm with
    | none => (d, "bad-op")
    | some name =>
      match createFileCfg d.cfg name 0 with
      | none => (d, "rej longname")
      | some st =>
        -- `Close` right after creation: header rewrite only
        let st' := (Hv.Storage.step d.cfg idCodec crc0 0 st .close).1
        -- the file exists on disk and is seen by `scan`; its bytes do not depend on the codec
        ({ d with files := st'.file :: d.files }, "ok")
  | ["f", h, exp, kind] =>
    match unhex h, parseSpec exp with
    | some file, some want =>
      let r := readSwampName d.cfg snappyDecoder crc32 file
      let line := match r with
        | .error e => s!"name err {e.name}"
        | .ok n => s!"name {hex n}"
      let good := match r with
        | .ok n => n == want
        | .error _ => false
      let flag :=
        if good || !engineKind kind then ""
        else if 65535 < want.length then "\t#F:C29-long-name-truncated"
        else if kind.startsWith "v2" && !d.cfg.v2Fallback then "\t#F:C29-no-v2-fallback"
        else "\t#F:C29-name-mismatch"
      ({ d with files := file :: d.files }, line ++ flag)
    | _, _ => (d, "bad-op")
  | ["wipe"] => ({ d with files := [] }, "ok")
  | ["rmlast"] => ({ d with files := d.files.drop 1 }, "ok")
  | ["scan"] =>
    let fs := d.files
    let scanned := (fs.filter fun f => match openReader f with | .ok _ => true | .error _ => false).length
    -- the model's index over the directory (a set); sorted only for printing
    let names := (listing d.cfg snappyDecoder crc32 fs).mergeSort bytesLe
    let ns := if names.isEmpty then "none" else ",".intercalate (names.map hex)
    -- distinct (sanctuary, realm) pairs of the listed names
    let sr := names.foldl (fun acc n =>
      let i1 := (n.takeWhile (· != 0x2f)).length
      let rest := n.drop (i1 + 1)
      let i2 := (rest.takeWhile (· != 0x2f)).length
      let key := n.take (i1 + 1 + i2)
      if acc.contains key then acc else key :: acc) ([] : List Bytes)
    let ns' := if names.length > 40 then s!"digest:{names.length}:{hex32 (crc32 ns.toUTF8.toList)}" else ns
    let shown := (tuiView { d.cfg with tuiListsAll := false } names).length   -- one clamped ListSwamps call
    let flag := if (tuiView d.cfg names).length < names.length then "\t#F:C29-tui-truncates-large-realm" else ""
    (d, s!"listing total={fs.length} scanned={scanned} errors={fs.length - scanned} names={ns'} paged=ok realms={sr.length} detail=ok onepage={shown}/{names.length}{flag}")
  | _ => (d, "bad-op")

def run (args : List String) : IO UInt32 := do
  let kv := parseArgs args
  lineLoop step { cfg := cfgOfArgs kv }
  return 0

end Driver.C29
