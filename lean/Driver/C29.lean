import Driver.Util

/-! Placeholder: the line-protocol driver of domain C29 is not written yet. -/
namespace Driver.C29

def run (_args : List String) : IO UInt32 := do
  IO.eprintln "drv: domain C29 has no driver yet"
  return 2

end Driver.C29
