import Driver.Util

/-! Placeholder: the line-protocol driver of domain C10 is not written yet. -/
namespace Driver.C10

def run (_args : List String) : IO UInt32 := do
  IO.eprintln "drv: domain C10 has no driver yet"
  return 2

end Driver.C10
