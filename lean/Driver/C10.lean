import Driver.Util

/-! Line-protocol driver of domain C10.  The prediction for `race STRUCT FIELD` is the kernel-checked
    classification itself: /verif/check passes the (struct.field) pairs for which
    `Hv.Lockset.racyPairs Generated.factsC10.table` is non-empty as `racy=…`. -/
namespace Driver.C10

def step (racy : List String) (_ : Unit) (line : String) : Unit × String :=
  match words line with
  | ["case", _, _] => ((), line)
  | ["race", s, f] =>
    if racy.contains (s ++ "." ++ f) then ((), s!"race {s} {f} detected\t#F:C10-race-{s}-{f}")
    else ((), s!"race {s} {f} clean")
  | _ => ((), "bad-op")

def run (args : List String) : IO UInt32 := do
  let kv := parseArgs args
  let racy := (arg kv "racy").splitOn ","
  lineLoop (step racy) ()
  return 0

end Driver.C10
