import Driver.Util
import Hv.Misc.Hydrex

/-! Line-protocol driver for the Hydrex model (domain C27).  Same ops and reply format as
    `/verif/harness/c27.go`.  Besides the model state it tracks the Spec state (the last saved
    items of every (index name, domain), nothing after a destroy).  A `core` reply is flagged
    `C27-value-update-skipped` when it has the Spec's keys but other values, `C27-stale-keys-kept`
    when the keys differ; an `index` reply is flagged `C27-destroy-leaves-index` /
    `C27-index-inconsistent` when it is not the set of domains whose model core holds the key. -/
namespace Driver.C27
open Hv.Hydrex

structure DSt where
  cfg : Cfg
  s : St
  spec : Idx → Dom → Key → Option Val

def tok (pre : Char) (s : String) : Option Nat :=
  match s.toList with
  | c :: rest => if c == pre then (String.ofList rest).toNat? else none
  | [] => none

def parseItems (s : String) : Option (List (Key × Val)) :=
  if s == "-" then some []
  else (s.splitOn ",").mapM fun kv =>
    match kv.splitOn "=" with
    | [k, v] => match tok 'k' k, tok 'v' v with
      | some a, some b => some (a, b)
      | _, _ => none
    | _ => none

def itemsFn (l : List (Key × Val)) : Key → Option Val := fun k => l.lookup k

def keys : List Nat := [0, 1, 2, 3, 4]
def doms : List Nat := [0, 1, 2]

def renderCore (f : Key → Option Val) : String :=
  let parts := keys.filterMap fun k => (f k).map fun v => s!"k{k}=v{v}"
  if parts.isEmpty then "-" else ",".intercalate parts

def step (d : DSt) (line : String) : DSt × String :=
  match line.splitOn " " with
  | ["case", _] => ({ d with s := init, spec := fun _ _ _ => none }, line)
  | ["save", i, dm, its] =>
    match tok 'i' i, tok 'd' dm, parseItems its with
    | some i, some dm, some l =>
      let f := itemsFn l
      ({ d with s := Hv.Hydrex.step d.cfg d.s (.save i dm f),
                spec := fun i' d' k => if i' = i ∧ d' = dm then f k else d.spec i' d' k }, "ok")
    | _, _, _ => (d, "bad-op")
  | ["destroy", i, dm] =>
    match tok 'i' i, tok 'd' dm with
    | some i, some dm =>
      ({ d with s := Hv.Hydrex.step d.cfg d.s (.destroy i dm),
                spec := fun i' d' k => if i' = i ∧ d' = dm then none else d.spec i' d' k }, "ok")
    | _, _ => (d, "bad-op")
  | ["core", i, dm] =>
    match tok 'i' i, tok 'd' dm with
    | some i, some dm =>
      let got := keys.map (d.s.core i dm)
      let want := keys.map (d.spec i dm)
      let fl :=
        if got == want then ""
        else if got.map Option.isSome == want.map Option.isSome then "\t#F:C27-value-update-skipped"
        else "\t#F:C27-stale-keys-kept"
      (d, "core " ++ renderCore (d.s.core i dm) ++ fl)
    | _, _ => (d, "bad-op")
  | ["index", i, k] =>
    match tok 'i' i, tok 'k' k with
    | some i, some k =>
      let got := doms.filter fun dm => d.s.index i k dm
      let want := doms.filter fun dm => (d.s.core i dm k).isSome
      let fl := if got == want then "" else
        (if d.cfg.destroyCleansIndex then "\t#F:C27-index-inconsistent" else "\t#F:C27-destroy-leaves-index")
      let parts := got.map fun dm => s!"d{dm}"
      (d, "index " ++ (if parts.isEmpty then "-" else ",".intercalate parts) ++ fl)
    | _, _ => (d, "bad-op")
  | _ => (d, "bad-op")

def run (args : List String) : IO UInt32 := do
  let kv := parseArgs args
  let yes (k : String) : Bool := arg kv k == "yes"
  let cfg : Cfg := ⟨yes "updatesExisting", yes "saveRemovesStale", yes "destroyCleansIndex"⟩
  lineLoop step ⟨cfg, init, fun _ _ _ => none⟩
  return 0

end Driver.C27
