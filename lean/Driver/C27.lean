import Driver.Util

/-! Placeholder: the line-protocol driver of domain C27 is not written yet. -/
namespace Driver.C27

def run (_args : List String) : IO UInt32 := do
  IO.eprintln "drv: domain C27 has no driver yet"
  return 2

end Driver.C27
