import Driver.Util
import Hv.Misc.Hydrex

/-! Line-protocol driver for the Hydrex model (domain C27).  Same ops and reply format as
    `/verif/harness/c27.go`; names arrive as `x<hex>` tokens and are numbered on first use.
    Besides the model state it tracks the Spec state (the last saved items of every (index name,
    domain), nothing after a destroy).

    Cases whose keys are all clean swamp-name parts (non-empty, no '/') run the PROVEN step function
    `Hv.Hydrex.step`.  A case that uses a hostile key runs `stepX`, an executable extension that adds
    what the real stack does with such keys (it is compared with the implementation, not proved):
      * the gateway refuses swamp names that do not have exactly three non-empty parts, so the index swamp of a
        key that is empty or contains '/' does not exist — ONE such name in a CatalogSaveManyToMany request
        rejects the whole request (Hydrex only logs the error), CatalogDeleteManyFromMany skips it;
      * an empty key also makes the whole CatalogSaveMany of the core data fail (conversion error).
    Flags: `C27-value-update-skipped`, `C27-stale-keys-kept`, `C27-destroy-leaves-index`,
    `C27-index-inconsistent`, and for hostile keys `C27-empty-key-save-ignored`,
    `C27-key-with-separator-not-indexed`; for an index name or a domain that is empty or contains '/':
    nothing is stored when Save / Destroy validate them (`C27-invalid-key-save-ignored`: the caller is not told),
    otherwise a domain with '/' lands in the index swamps without core data (`C27-hostile-name-half-saved`). -/
namespace Driver.C27
open Hv.Hydrex

structure DSt where
  cfg : Cfg
  s : St
  spec : Idx → Dom → Key → Option Val
  idxs : List String
  doms : List String
  keys : List String          -- key tokens, numbered by position
  hostile : Bool              -- some key of this case is empty or contains '/'
  validates : Bool            -- fact: Save refuses calls with such a key up front
  validatesN : Bool           -- fact: Save and Destroy refuse an index name / domain that is empty or contains '/'
  hostileN : Bool             -- some index name or domain of this case is empty or contains '/'

def idOf (l : List String) (t : String) : List String × Nat :=
  match l.idxOf? t with
  | some i => (l, i)
  | none => (l ++ [t], l.length)

/-- hex token of the part of the name before the first '/' (0x2f) -/
def normTok (t : String) : String :=
  let body := (t.drop 1).toString.toList
  let rec go : List Char → List Char
    | a :: b :: rest => if a == '2' && b == 'f' then [] else a :: b :: go rest
    | _ => []
  "x" ++ String.ofList (go body)

def isHostileTok (t : String) : Bool := t == "x" || normTok t != t

def parseItems (s : String) : Option (List (String × Val)) :=
  if s == "-" then some []
  else (s.splitOn ",").mapM fun kv =>
    match kv.splitOn "=" with
    | [k, v] => if k.startsWith "x" && v.startsWith "v" then ((v.drop 1).toString.toNat?).map fun n => (k, n) else none
    | _ => none

/-- executable extension of `Hv.Hydrex.step` for hostile keys (see the header) -/
def stepX (cfg : Cfg) (keys : List String) (s : St) (i : Idx) (d : Dom) (items : Option (Key → Option Val)) : St :=
  let ks := List.range keys.length
  let empty (k : Key) : Bool := keys.getD k "?" == "x"
  let hostile (k : Key) : Bool := isHostileTok (keys.getD k "?")
  let old := s.core i d
  match items with
  | none =>   -- destroy
    -- CatalogDeleteManyFromMany skips an invalid swamp name and goes on with the others
    let blockedDel := false
    { core := fun i' d' k => if i' = i ∧ d' = d then none else s.core i' d' k,
      index := fun i' j d' =>
        if i' = i ∧ d' = d ∧ cfg.destroyCleansIndex ∧ !blockedDel ∧ (old j).isSome then false else s.index i' j d' }
  | some it =>
    let writes (k : Key) : Bool :=
      match old k, it k with
      | none, some _ => true
      | some v, some w => cfg.updatesExisting && v != w
      | _, _ => false
    let stale (k : Key) : Bool := (old k).isSome && (it k).isNone && cfg.saveRemovesStale
    let fresh (k : Key) : Bool := (old k).isNone && (it k).isSome
    let coreBlocked := ks.any (fun k => writes k && empty k)       -- CatalogSaveMany: "key field must be a non-empty string"
    let addBlocked := ks.any (fun k => fresh k && hostile k)       -- CatalogSaveManyToMany: one invalid swamp name rejects the request
    let delBlocked := false                                        -- CatalogDeleteManyFromMany skips invalid names one by one
    { core := fun i' d' k =>
        if i' = i ∧ d' = d then
          (if stale k then none else if writes k && !coreBlocked then it k else old k)
        else s.core i' d' k,
      index := fun i' j d' =>
        if i' = i ∧ d' = d then
          (if fresh j && !addBlocked then true
           else if stale j && !delBlocked then false
           else s.index i' j d')
        else s.index i' j d' }

def renderCore (keys : List String) (f : Key → Option Val) : String :=
  let parts := ((List.range keys.length).filterMap fun k => (f k).map fun v => s!"{keys.getD k "?"}=v{v}")
  let parts := (parts.toArray.qsort (· < ·)).toList
  if parts.isEmpty then "-" else ",".intercalate parts

def step (d : DSt) (line : String) : DSt × String :=
  match line.splitOn " " with
  | ["case", _] => ({ d with s := init, spec := fun _ _ _ => none, idxs := [], doms := [], keys := [], hostile := false, hostileN := false }, line)
  | ["idle"] => (d, "ok")
  | ["save", it, dt, its] =>
    match parseItems its with
    | none => (d, "bad-op")
    | some l =>
      let (idxs, i) := idOf d.idxs it
      let (doms, dm) := idOf d.doms dt
      let (keys, kl) := l.foldl (fun (acc : List String × List (Key × Val)) (kv : String × Val) =>
        let (ks, id) := idOf acc.1 kv.1
        (ks, acc.2 ++ [(id, kv.2)])) (d.keys, [])
      let invalid := l.any (fun kv => isHostileTok kv.1)
      let nameBad := isHostileTok it || isHostileTok dt
      let hostile := d.hostile || invalid || nameBad
      let f : Key → Option Val := fun k => kl.lookup k
      -- with validation in Save, a call that carries an invalid key / index name / domain changes nothing
      let s' := if (invalid && d.validates) || (nameBad && d.validatesN) then d.s
        else if nameBad then
          -- not validated: every swamp name built from an invalid index name, and the core swamp name of an invalid domain,
          -- is refused by the gateway; a domain with '/' still gets into the index swamps of the (clean) keys
          (if isHostileTok it || dt == "x" || invalid then d.s
           else { d.s with index := fun i' j d' => if i' = i ∧ d' = dm ∧ (f j).isSome then true else d.s.index i' j d' })
        else if hostile then stepX d.cfg keys d.s i dm (some f) else Hv.Hydrex.step d.cfg d.s (.save i dm f)
      ({ d with s := s', idxs := idxs, doms := doms, keys := keys, hostile := hostile, hostileN := d.hostileN || nameBad,
                spec := fun i' d' k => if i' = i ∧ d' = dm then f k else d.spec i' d' k }, "ok")
  | ["destroy", it, dt] =>
    let (idxs, i) := idOf d.idxs it
    let (doms, dm) := idOf d.doms dt
    let nameBad := isHostileTok it || isHostileTok dt
    -- nothing is stored under an invalid name, and every call with one fails (or is refused up front)
    let s' := if nameBad then d.s
      else if d.hostile then stepX d.cfg d.keys d.s i dm none else Hv.Hydrex.step d.cfg d.s (.destroy i dm)
    ({ d with s := s', idxs := idxs, doms := doms, hostile := d.hostile || nameBad, hostileN := d.hostileN || nameBad,
              spec := fun i' d' k => if i' = i ∧ d' = dm then none else d.spec i' d' k }, "ok")
  | ["core", it, dt] =>
    let (idxs, i) := idOf d.idxs it
    let (doms, dm) := idOf d.doms dt
    let ks := List.range d.keys.length
    let got := ks.map (d.s.core i dm)
    let want := ks.map (d.spec i dm)
    let fl :=
      if got == want then ""
      else if d.hostile && d.validates && (d.validatesN || !d.hostileN) then "\t#F:C27-invalid-key-save-ignored"
      else if d.hostileN && !d.validatesN then "\t#F:C27-hostile-name-half-saved"
      else if d.hostile then (if d.keys.contains "x" then "\t#F:C27-empty-key-save-ignored" else "\t#F:C27-key-with-separator-not-indexed")
      else if got.map Option.isSome == want.map Option.isSome then "\t#F:C27-value-update-skipped"
      else "\t#F:C27-stale-keys-kept"
    ({ d with idxs := idxs, doms := doms }, "core " ++ renderCore d.keys (d.s.core i dm) ++ fl)
  | ["index", it, kt] =>
    let (idxs, i) := idOf d.idxs it
    let (keys, k) := idOf d.keys kt
    let j := k
    let ds := List.range d.doms.length
    let got := ds.filter fun dm => d.s.index i j dm
    -- Spec: the domains whose last saved items contain exactly this key
    let want := ds.filter fun dm => (d.spec i dm k).isSome
    let fl := if got == want then "" else
      (if (d.hostile || isHostileTok kt) && d.validates && (d.validatesN || !d.hostileN) then "\t#F:C27-invalid-key-save-ignored"
       else if d.hostileN && !d.validatesN then "\t#F:C27-hostile-name-half-saved"
       else if d.hostile || isHostileTok kt then
         (if d.keys.contains "x" || kt == "x" then "\t#F:C27-empty-key-save-ignored" else "\t#F:C27-key-with-separator-not-indexed")
       else if d.cfg.destroyCleansIndex then "\t#F:C27-index-inconsistent" else "\t#F:C27-destroy-leaves-index")
    let parts := ((got.map fun dm => d.doms.getD dm "?").toArray.qsort (· < ·)).toList
    ({ d with idxs := idxs, keys := keys }, "index " ++ (if parts.isEmpty then "-" else ",".intercalate parts) ++ fl)
  | _ => (d, "bad-op")

def run (args : List String) : IO UInt32 := do
  let kv := parseArgs args
  let yes (k : String) : Bool := arg kv k == "yes"
  let cfg : Cfg := ⟨yes "updatesExisting", yes "saveRemovesStale", yes "destroyCleansIndex"⟩
  lineLoop step ⟨cfg, init, fun _ _ _ => none, [], [], [], false, yes "validatesKeys", yes "validatesNames", false⟩
  return 0

end Driver.C27
