import Driver.Util

/-! Placeholder: the line-protocol driver of domain C13 is not written yet. -/
namespace Driver.C13

def run (_args : List String) : IO UInt32 := do
  IO.eprintln "drv: domain C13 has no driver yet"
  return 2

end Driver.C13
