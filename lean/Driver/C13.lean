import Driver.Util
import Hv.Patch.Ops
import Hv.Patch.Spec

/-! Driver for domain C13: runs the Lean model of `msgpackpatch` / `PatchFields` on the op
    lines produced by `harness/c13.go` (all byte strings travel as hex on the line).

    ops:   case N
           parse HEX                         → ok TREE | err CLASS
           ap BODY COND OP…                  → out HEX wf=0/1 | err CLASS
           pf STORED CREATE SEED COND OP…    → st=N absent|other|b:HEX wf=0/1 new=HEX|-
    COND = `-` | op:pathhex:thresholdhex     OP = kind:pathhex:valuehex     empty hex = `-`/""

    A reply is annotated `#F:<id>` where the model's own answer violates the Spec:
    a reported success whose body the parser rejects, or an (in)equality that is met although an
    operand is NaN. -/
namespace Driver.C13
open Hv.Patch

def nib (c : Char) : Option Nat :=
  if '0' ≤ c ∧ c ≤ '9' then some (c.toNat - '0'.toNat)
  else if 'a' ≤ c ∧ c ≤ 'f' then some (c.toNat - 'a'.toNat + 10)
  else if 'A' ≤ c ∧ c ≤ 'F' then some (c.toNat - 'A'.toNat + 10)
  else none

def unhexL : List Char → Option Bytes
  | [] => some []
  | [_] => none
  | a :: b :: r =>
    match nib a, nib b, unhexL r with
    | some x, some y, some t => some (UInt8.ofNat (x * 16 + y) :: t)
    | _, _, _ => none

def unhex (s : String) : Option Bytes := if s == "-" then some [] else unhexL s.toList

def hexDigit (n : Nat) : Char := if n < 10 then Char.ofNat (48 + n) else Char.ofNat (87 + n)

def hex (b : Bytes) : String :=
  String.ofList (b.foldr (fun x acc => hexDigit (x.toNat / 16) :: hexDigit (x.toNat % 16) :: acc) [])

def hexOrDash (b : Bytes) : String := if b.isEmpty then "-" else hex b

mutual
def showNode : Node → String
  | .leaf raw => "L" ++ hex raw
  | .map fs => "M{" ++ showFields fs ++ "}"
  | .arr xs => "A[" ++ showItems xs ++ "]"
def showFields : Fields → String
  | [] => ""
  | [(k, v)] => hex k ++ ":" ++ showNode v
  | (k, v) :: rest => hex k ++ ":" ++ showNode v ++ "," ++ showFields rest
def showItems : List Node → String
  | [] => ""
  | [v] => showNode v
  | v :: rest => showNode v ++ "," ++ showItems rest
end

def condOpOf : String → CondOp
  | "eq" => .eq | "ne" => .ne | "gt" => .gt | "ge" => .ge | "lt" => .lt | "le" => .le
  | "ex" => .exists_ | "nex" => .notExists | _ => .unknown

def kindOf : String → OpKind
  | "set" => .set | "del" => .delete | "inc" => .inc | "app" => .append | "pre" => .prepend
  | "rmat" => .removeAt | "rmval" => .removeVal | "merge" => .merge | _ => .unknown

def parseCond (s : String) : Option (Option Condition) :=
  if s == "-" then some none else
  match s.splitOn ":" with
  | [o, p, t] =>
    match unhex p, unhex t with
    | some pb, some tb => some (some ⟨pb, condOpOf o, tb⟩)
    | _, _ => none
  | _ => none

def parseOp (s : String) : Option Op :=
  match s.splitOn ":" with
  | [k, p, v] =>
    match unhex p, unhex v with
    | some pb, some vb => some ⟨kindOf k, pb, vb⟩
    | _, _ => none
  | _ => none

def parseOps : List String → Option (List Op)
  | [] => some []
  | s :: r =>
    match parseOp s, parseOps r with
    | some o, some os => some (o :: os)
    | _, _ => none

/-- the condition is an equality-like comparison that was met with a NaN operand -/
def nanMet (cfg : Cfg) (body : Bytes) (cond : Option Condition) : Bool :=
  match cond with
  | none => false
  | some c =>
    if c.op = .eq ∨ c.op = .ge ∨ c.op = .le then
      match parse body with
      | .error _ => false
      | .ok t =>
        match evalCond cfg t c with
        | .error _ => false
        | .ok () =>
          match parsePath c.path with
          | .error _ => false
          | .ok segs =>
            match lookup segs t with
            | .ok (some (.leaf raw)) =>
              (match readNumeric raw, readNumeric c.threshold with
               | .ok (.float, a), .ok (.float, b) => f64IsNaN a || f64IsNaN b
               | _, _ => false)
            | _ => false
    else false

def storedOf (s : String) : Option Stored :=
  if s == "absent" then some .absent
  else if s == "other" then some .other
  else if s.startsWith "b:" then (unhex (s.drop 2).toString).map .bytes
  else none

def showStored : Stored → String
  | .absent => "absent" | .other => "other" | .bytes r => "b:" ++ hexOrDash r

/-- rewrite every NaN float leaf to the canonical quiet NaN (7fc00000 / 7ff8000000000000); the
    same structural walk as `c13Scan` in harness/c13.go: it stops at the first malformed or
    truncated item and leaves the rest as it is -/
def canonNaN : Nat → Nat → Bytes → Bytes
  | _, 0, b => b
  | 0, _ + 1, b => b
  | fuel + 1, n + 1, b =>
    match b with
    | [] => []
    | c :: r =>
      match shape c with
      | .invalid => b
      | .fixed k =>
        if r.length < k then b else
        let p := r.take k
        let bits := beNat p
        let p' :=
          if c.toNat = 0xca ∧ bits / 2 ^ 23 % 256 = 255 ∧ bits % 2 ^ 23 ≠ 0 then [0x7f, 0xc0, 0, 0]
          else if c.toNat = 0xcb ∧ f64IsNaN bits then [0x7f, 0xf8, 0, 0, 0, 0, 0, 0]
          else p
        c :: p' ++ canonNaN fuel n (r.drop k)
      | .lenp k e =>
        match readBE k r with
        | .error _ => b
        | .ok (m, r') =>
          if r'.length < m + e then b
          else c :: r.take k ++ r'.take (m + e) ++ canonNaN fuel n (r'.drop (m + e))
      | .mapFix k => c :: canonNaN fuel (n + 2 * k) r
      | .arrFix k => c :: canonNaN fuel (n + k) r
      | .mapLen k =>
        match readBE k r with
        | .error _ => b
        | .ok (m, r') => c :: r.take k ++ canonNaN fuel (n + 2 * m) r'
      | .arrLen k =>
        match readBE k r with
        | .error _ => b
        | .ok (m, r') => c :: r.take k ++ canonNaN fuel (n + m) r'

def stepPf (cfg : Cfg) (mg : Magic) (line : String) : Unit × String :=
  match line.splitOn " " with
  | "pf" :: sh :: cr :: seedh :: ch :: opss =>
    match storedOf sh, unhex seedh, parseCond ch, parseOps opss with
    | some st, some seed, some cond, some ops =>
      let (s, st') := patchFields cfg mg st ops cond (cr == "1") seed
      -- wf: does the parser accept what is stored behind the two prefix bytes;
      -- new: `PatchFieldsResult.NewMsgpack` (the unwrapped body, only on PATCHED / CREATED)
      let w := match st' with
        | .bytes (_ :: _ :: body) => wf body
        | _ => false
      let echo := match s, st' with
        | .patched, .bytes (_ :: _ :: body) => hexOrDash body
        | .created, .bytes (_ :: _ :: body) => hexOrDash body
        | _, _ => "-"
      let f1 := if (s == .patched || s == .created) && !w then "\t#F:C13-unvalidated-op-value" else ""
      ((), s!"st={s.code} {showStored st'} wf={if w then 1 else 0} new={echo}{f1}")
    | _, _, _, _ => ((), "bad-op")
  | _ => ((), "bad-op")

def step (cfg : Cfg) (mg : Magic) (_ : Unit) (line : String) : Unit × String :=
  match line.splitOn " " with
  | ["case", _] => ((), line)
  | ["parse", h] =>
    match unhex h with
    | none => ((), "bad-op")
    | some b =>
      match parse b with
      | .error e => ((), s!"err {e}")
      | .ok t => ((), "ok " ++ showNode t)
  | verb :: bh :: ch :: opss =>
    if verb != "ap" && verb != "apn" then stepPf cfg mg line else
    match unhex bh, parseCond ch, parseOps opss with
    | some body, some cond, some ops =>
      match applyWithCondition cfg body ops cond with
      | .error e => ((), s!"err {e}")
      | .ok out =>
        let w := wf out
        let f1 := if w then "" else "\t#F:C13-unvalidated-op-value"
        let f2 := if nanMet cfg body cond then "\t#F:C13-nan-compares-equal" else ""
        -- the Spec's document differs from what the model stored (unrepaired REMOVE_VAL: containers skipped)
        let f3 :=
          if ops.any (fun o => o.kind == .removeVal) then
            (match parse body with
             | .ok t =>
               (match Spec.refOps t ops, parse out with
                | .ok d, .ok g => if serialize d == serialize g then "" else "\t#F:C13-removeval-skips-containers"
                | _, _ => "")
             | .error _ => "")
          else ""
        -- `apn`: NaN payload bits are platform-defined; both sides print NaN leaves canonically
        let shown := if verb == "apn" then canonNaN out.length 1 out else out
        ((), s!"out {hexOrDash shown} wf={if w then 1 else 0}{f1}{f2}{f3}")
    | _, _, _ => ((), "bad-op")
  | _ => ((), "bad-op")

def run (args : List String) : IO UInt32 := do
  let kv := parseArgs args
  let nan : NanRule := if arg kv "nanCompare" == "neverEqual" then .neverEqual else .equal
  let cfg : Cfg := { validatesValues := arg kv "validatesValues" == "yes", nan := nan,
                     rmvalCanon := arg kv "removeValCompare" == "canonical" }
  let mg : Magic := match unhex (arg kv "magic") with
    | some [a, b] => ⟨a, b⟩
    | _ => ⟨0, 0⟩
  lineLoop (step cfg mg) ()
  return 0

end Driver.C13
