import Driver.Util
import Hv.Patch.Ops
import Hv.Patch.Spec
import Hv.Patch.PatchFields
import Hv.Patch.Wire
import Hv.Patch.RoundTrip

/-! Driver for domain C13: runs the Lean model of `msgpackpatch` / `PatchFields` on the op
    lines produced by `harness/c13.go` (all byte strings travel as hex on the line).

    ops:   case N
           parse HEX                         → ok TREE | err CLASS
           ap BODY COND OP…                  → out HEX wf=0/1 | err CLASS
           pf STORED CREATE SEED COND OP…    → st=N absent|other|b:HEX wf=0/1 new=HEX|-
    COND = `-` | op:pathhex:thresholdhex     OP = kind:pathhex:valuehex     empty hex = `-`/""

    A reply is annotated `#F:<id>` where the model's own answer violates the Spec:
    a reported success whose body the parser rejects, or an (in)equality that is met although an
    operand is NaN. -/
namespace Driver.C13
open Hv.Patch

def nib (c : Char) : Option Nat :=
  if '0' ≤ c ∧ c ≤ '9' then some (c.toNat - '0'.toNat)
  else if 'a' ≤ c ∧ c ≤ 'f' then some (c.toNat - 'a'.toNat + 10)
  else if 'A' ≤ c ∧ c ≤ 'F' then some (c.toNat - 'A'.toNat + 10)
  else none

def unhexL : List Char → Option Bytes
  | [] => some []
  | [_] => none
  | a :: b :: r =>
    match nib a, nib b, unhexL r with
    | some x, some y, some t => some (UInt8.ofNat (x * 16 + y) :: t)
    | _, _, _ => none

def unhex (s : String) : Option Bytes := if s == "-" then some [] else unhexL s.toList

def hexDigit (n : Nat) : Char := if n < 10 then Char.ofNat (48 + n) else Char.ofNat (87 + n)

def hex (b : Bytes) : String :=
  String.ofList (b.foldr (fun x acc => hexDigit (x.toNat / 16) :: hexDigit (x.toNat % 16) :: acc) [])

def hexOrDash (b : Bytes) : String := if b.isEmpty then "-" else hex b

mutual
def showNode : Node → String
  | .leaf raw => "L" ++ hex raw
  | .map fs => "M{" ++ showFields fs ++ "}"
  | .arr xs => "A[" ++ showItems xs ++ "]"
def showFields : Fields → String
  | [] => ""
  | [(k, v)] => hex k ++ ":" ++ showNode v
  | (k, v) :: rest => hex k ++ ":" ++ showNode v ++ "," ++ showFields rest
def showItems : List Node → String
  | [] => ""
  | [v] => showNode v
  | v :: rest => showNode v ++ "," ++ showItems rest
end

def condOpOf : String → CondOp
  | "eq" => .eq | "ne" => .ne | "gt" => .gt | "ge" => .ge | "lt" => .lt | "le" => .le
  | "ex" => .exists_ | "nex" => .notExists | _ => .unknown

def kindOf : String → OpKind
  | "set" => .set | "del" => .delete | "inc" => .inc | "app" => .append | "pre" => .prepend
  | "rmat" => .removeAt | "rmval" => .removeVal | "merge" => .merge | _ => .unknown

def parseCond (s : String) : Option (Option Condition) :=
  if s == "-" then some none else
  match s.splitOn ":" with
  | [o, p, t] =>
    match unhex p, unhex t with
    | some pb, some tb => some (some ⟨pb, condOpOf o, tb⟩)
    | _, _ => none
  | _ => none

def parseOp (s : String) : Option Op :=
  match s.splitOn ":" with
  | [k, p, v] =>
    match unhex p, unhex v with
    | some pb, some vb => some ⟨kindOf k, pb, vb⟩
    | _, _ => none
  | _ => none

def parseOps : List String → Option (List Op)
  | [] => some []
  | s :: r =>
    match parseOp s, parseOps r with
    | some o, some os => some (o :: os)
    | _, _ => none

/-- the condition is an equality-like comparison that was met with a NaN operand -/
def nanMet (cfg : Cfg) (body : Bytes) (cond : Option Condition) : Bool :=
  match cond with
  | none => false
  | some c =>
    if c.op = .eq ∨ c.op = .ge ∨ c.op = .le then
      match parse body with
      | .error _ => false
      | .ok t =>
        match evalCond cfg t c with
        | .error _ => false
        | .ok () =>
          match parsePath c.path with
          | .error _ => false
          | .ok segs =>
            match lookup segs t with
            | .ok (some (.leaf raw)) =>
              (match readNumeric raw, readNumeric c.threshold with
               | .ok (.float, a), .ok (.float, b) => f64IsNaN a || f64IsNaN b
               | _, _ => false)
            | _ => false
    else false

def storedOf (s : String) : Option Stored :=
  if s == "absent" then some .absent
  else if s == "other" then some .other
  else if s.startsWith "b:" then (unhex (s.drop 2).toString).map .bytes
  else none

def showStored : Stored → String
  | .absent => "absent" | .other => "other" | .bytes r => "b:" ++ hexOrDash r

/-- rewrite every NaN float leaf to the canonical quiet NaN (7fc00000 / 7ff8000000000000); the
    same structural walk as `c13Scan` in harness/c13.go: it stops at the first malformed or
    truncated item and leaves the rest as it is -/
def canonNaN : Nat → Nat → Bytes → Bytes
  | _, 0, b => b
  | 0, _ + 1, b => b
  | fuel + 1, n + 1, b =>
    match b with
    | [] => []
    | c :: r =>
      match shape c with
      | .invalid => b
      | .fixed k =>
        if r.length < k then b else
        let p := r.take k
        let bits := beNat p
        let p' :=
          if c.toNat = 0xca ∧ bits / 2 ^ 23 % 256 = 255 ∧ bits % 2 ^ 23 ≠ 0 then [0x7f, 0xc0, 0, 0]
          else if c.toNat = 0xcb ∧ f64IsNaN bits then [0x7f, 0xf8, 0, 0, 0, 0, 0, 0]
          else p
        c :: p' ++ canonNaN fuel n (r.drop k)
      | .lenp k e =>
        match readBE k r with
        | .error _ => b
        | .ok (m, r') =>
          if r'.length < m + e then b
          else c :: r.take k ++ r'.take (m + e) ++ canonNaN fuel n (r'.drop (m + e))
      | .mapFix k => c :: canonNaN fuel (n + 2 * k) r
      | .arrFix k => c :: canonNaN fuel (n + k) r
      | .mapLen k =>
        match readBE k r with
        | .error _ => b
        | .ok (m, r') => c :: r.take k ++ canonNaN fuel (n + 2 * m) r'
      | .arrLen k =>
        match readBE k r with
        | .error _ => b
        | .ok (m, r') => c :: r.take k ++ canonNaN fuel (n + m) r'

/-- `b:HEX[@EXPNANOS]` | absent | other → treasure before the call -/
def treasureOf (s : String) : Option Treasure :=
  if s == "absent" then some Treasure.empty
  else if s == "other" then some { Treasure.empty with content := .other }
  else if s.startsWith "other@" then ((s.drop 6).toString.toInt?).map fun n => { Treasure.empty with content := .other, exp := n }
  else if s.startsWith "b:" then
    match ((s.drop 2).toString).splitOn "@" with
    | [h] => (unhex h).map fun raw => { Treasure.empty with content := .bytes raw }
    | [h, e] =>
      match unhex h, e.toInt? with
      | some raw, some n => some { Treasure.empty with content := .bytes raw, exp := n }
      | _, _ => none
    | _ => none
  else none

def metaOf (s : String) : Option (Option PatchMeta) :=
  if s == "-" then some none else
  let step (acc : Option PatchMeta) (tok : String) : Option PatchMeta :=
    match acc with
    | none => none
    | some m =>
      if tok == "ua" then some { m with updAt := true }
      else if tok == "ca" then some { m with crAt := true }
      else if tok == "clr" then some { m with clearExp := true }
      else if tok.startsWith "ub=" then (unhex (tok.drop 3).toString).map fun b => { m with updBy := b }
      else if tok.startsWith "cb=" then (unhex (tok.drop 3).toString).map fun b => { m with crBy := b }
      else if tok.startsWith "exp=" then ((tok.drop 4).toString.toInt?).map fun n => { m with setExp := some n }
      else none
  ((s.splitOn ",").foldl step (some ⟨false, [], false, [], none, false⟩)).map some

/-- does the op list fail, in the model, at an op that the Spec applies to the decoded document? -/
def opaqueFail (cfg : Cfg) : Node → List Op → Bool
  | _, [] => false
  | t, op :: rest =>
    match stepOp cfg t op with
    | .ok t' => opaqueFail cfg t' rest
    | .error e => e == .type && (match Spec.refOp (norm t) op with | .ok _ => true | .error _ => false)

/-- the outcome of this patch depends on the REMOVE_VAL fact: with the documented comparison
    (containers too) the model answers differently — result or error -/
def rmvalDepends (cfg : Cfg) (body : Bytes) (ops : List Op) (cond : Option Condition) : Bool :=
  !cfg.rmvalCanon && ops.any (fun o => o.kind == .removeVal) &&
    (applyWithCondition cfg body ops cond != applyWithCondition { cfg with rmvalCanon := true } body ops cond)

/-- the wire number of an operator token: its number in the proto enum, `unk` = 99, `wN` = N -/
def wireNum {α : Type} [BEq α] (table : List α) (named : String → α) (tok : String) : Int :=
  if tok.startsWith "w" then ((tok.drop 1).toString.toInt?).getD 99
  else match table.findIdx? (· == named tok) with
    | some i => (i : Int)
    | none => 99

def parseWireOps (w : WireCfg) : List String → Option (List WireOp)
  | [] => some []
  | s :: r =>
    match s.splitOn ":", parseWireOps w r with
    | [k, p, v], some os =>
      (match unhex p, unhex v with
       | some pb, some vb => some (⟨wireNum w.protoOps kindOf k, pb, vb⟩ :: os)
       | _, _ => none)
    | _, _ => none

def parseWireCond (w : WireCfg) (s : String) : Option (Option WireCond) :=
  if s == "-" then some none else
  match s.splitOn ":" with
  | [o, p, t] =>
    match unhex p, unhex t with
    | some pb, some tb => some (some ⟨pb, wireNum w.protoConds condOpOf o, tb⟩)
    | _, _ => none
  | _ => none

/-- a wire number of this request reaches the engine as another operator than the proto names -/
def wireFlag (w : WireCfg) (ops : List WireOp) (cond : Option WireCond) : String :=
  let nums := ops.map (·.kind) ++ (match cond with | some c => [c.op] | none => [])
  let badOp := ops.any (fun o => w.codeOp o.kind != w.docOp o.kind)
  let badCond := match cond with | some c => w.codeCond c.op != w.docCond c.op | none => false
  if badOp || badCond then
    (if nums.any (fun n => n < 0 || n ≥ 256) && w.opOrder == w.protoOps && w.condOrder == w.protoConds
     then "\t#F:C13-wire-enum-truncated" else "\t#F:C13-wire-enum-misaligned")
  else ""

def stepPf (pc : PfCfg) (wc : WireCfg) (line : String) : Unit × String :=
  match line.splitOn " " with
  | verb :: sh :: cr0 :: seedh0 :: mh :: ch :: opss =>
    -- `pf`: swamp.PatchFields with the engine's own constants; `gp` / `gx`: the two RPCs with wire numbers
    let wired := verb == "gp" || verb == "gx"
    let cr := if verb == "gx" then "0" else cr0
    let seedh := if verb == "gx" then "-" else seedh0
    let wops := if wired then parseWireOps wc opss else some []
    let wcond := if wired then parseWireCond wc ch else some none
    let condP := if wired then wcond.map (·.map wc.convCond) else parseCond ch
    let opsP := if wired then wops.map (·.map wc.convOp) else parseOps opss
    match treasureOf sh, unhex seedh, metaOf mh, condP, opsP with
    | some tr, some seed, some m, some cond, some ops =>
      if verb != "pf" && !wired then ((), "bad-op") else
      if verb == "gx" && tr.content == .absent then ((), "bad-op") else
      let r := patchFieldsT pc tr ops cond (cr == "1") seed m
      let t := r.treasure
      -- wf: does the parser accept what is stored behind the two prefix bytes
      let w := match t.content with
        | .bytes (_ :: _ :: body) => wf body
        | _ => false
      let echo := if verb == "gp" then "-" else match r.newBody with     -- PatchTreasures does not send NewMsgpack
        | some b => hexOrDash b
        | none => "-"
      let fw := if wired then wireFlag wc (wops.getD []) ((wcond.getD none)) else ""
      -- a treasure created from a seed that is not a msgpack map
      let fsd := if r.status == 1 && !isMapBody (seedOf pc seed) then "\t#F:C13-nonmap-seed-created" else ""
      let b01 := fun (b : Bool) => if b then "1" else "0"
      let f1 := if (r.status == 0 || r.status == 1) && !w then "\t#F:C13-unvalidated-op-value" else ""
      -- the code's status for this error class is not the documented one
      let f3 :=
        (match pfGate pc tr (cr == "1") seed with
         | .ok (body, _) =>
           (match applyWithCondition pc.cfg body ops cond with
            | .error e => if pc.smap.of e != documentedMap.of e then "\t#F:C13-status-mapping" else ""
            | .ok _ => "") ++
           (if rmvalDepends pc.cfg body ops cond then "\t#F:C13-removeval-skips-containers" else "")
         | .error _ => "")
      let f2 :=
        if r.status == pc.smap.type then
          (match pfGate pc tr (cr == "1") seed with
           | .ok (body, _) =>
             (match applyWithCondition pc.cfg body ops cond, parse body with
              | .error .type, .ok t =>
                let condOk := match cond with
                  | none => true
                  | some c => (match evalCond pc.cfg t c with | .ok () => true | .error _ => false)
                if condOk && opaqueFail pc.cfg t ops then "\t#F:C13-spliced-value-opaque" else ""
              | _, _ => "")
           | .error _ => "")
        else ""
      ((), s!"st={r.status} {showStored t.content} wf={b01 w} new={echo} exp={t.exp} mat={b01 t.modAt} mby={hexOrDash t.modBy} cat={b01 t.crAt} cby={hexOrDash t.crBy}{f1}{f2}{f3}{fw}{fsd}")
    | _, _, _, _, _ => ((), "bad-op")
  | _ => ((), "bad-op")

def step (cfg : Cfg) (pc : PfCfg) (wc : WireCfg) (_ : Unit) (line : String) : Unit × String :=
  match line.splitOn " " with
  | ["case", _] => ((), line)
  | ["parse", h] =>
    match unhex h with
    | none => ((), "bad-op")
    | some b =>
      match parse b with
      | .error e => ((), s!"err {e}")
      | .ok t => ((), "ok " ++ showNode t)
  | verb :: bh :: ch :: opss =>
    if verb != "ap" && verb != "apn" then stepPf pc wc line else
    match unhex bh, parseCond ch, parseOps opss with
    | some body, some cond, some ops =>
      match applyWithCondition cfg body ops cond with
      | .error e =>
        -- a TYPE_MISMATCH at an op the documented semantics (Spec) would apply: the op addresses into a
        -- container value that an earlier op of the same patch spliced in as an opaque leaf
        let fo :=
          if e == .type then
            (match parse body with
             | .ok t =>
               let condOk := match cond with
                 | none => true
                 | some c => (match evalCond cfg t c with | .ok () => true | .error _ => false)
               if condOk && opaqueFail cfg t ops then "\t#F:C13-spliced-value-opaque" else ""
             | .error _ => "")
          else ""
        let fr := if rmvalDepends cfg body ops cond then "\t#F:C13-removeval-skips-containers" else ""
        ((), s!"err {e}{fo}{fr}")
      | .ok out =>
        let w := wf out
        let f1 := if w then "" else "\t#F:C13-unvalidated-op-value"
        let f2 := if nanMet cfg body cond then "\t#F:C13-nan-compares-equal" else ""
        -- the Spec's document differs from what the model stored (unrepaired REMOVE_VAL: containers skipped)
        let f3 := if rmvalDepends cfg body ops cond then "\t#F:C13-removeval-skips-containers" else ""
        -- `apn`: NaN payload bits are platform-defined; both sides print NaN leaves canonically
        let shown := if verb == "apn" then canonNaN out.length 1 out else out
        ((), s!"out {hexOrDash shown} wf={if w then 1 else 0}{f1}{f2}{f3}")
    | _, _, _ => ((), "bad-op")
  | _ => ((), "bad-op")

def run (args : List String) : IO UInt32 := do
  let kv := parseArgs args
  let nan : NanRule := if arg kv "nanCompare" == "neverEqual" then .neverEqual else .equal
  let cfg : Cfg := { validatesValues := arg kv "validatesValues" == "yes", nan := nan,
                     rmvalCanon := arg kv "removeValCompare" == "canonical" }
  let mg : Magic := match unhex (arg kv "magic") with
    | some [a, b] => ⟨a, b⟩
    | _ => ⟨0, 0⟩
  let nums := ((arg kv "smap").splitOn ",").filterMap (·.toNat?)
  let smap : StatusMap := match nums with
    | [a, b, c, d, e, f] => ⟨a, b, c, d, e, f⟩
    | _ => ⟨99, 99, 99, 99, 99, 99⟩
  let seed := (unhex (arg kv "seedDefault")).getD []
  let opsOf (k : String) : List OpKind := ((arg kv k).splitOn ",").map fun t =>
    match t with
    | "set" => .set | "delete" => .delete | "inc" => .inc | "append" => .append | "prepend" => .prepend
    | "removeAt" => .removeAt | "removeVal" => .removeVal | "merge" => .merge | _ => .unknown
  let condsOf (k : String) : List CondOp := ((arg kv k).splitOn ",").map fun t =>
    match t with
    | "eq" => .eq | "ne" => .ne | "gt" => .gt | "ge" => .ge | "lt" => .lt | "le" => .le
    | "exists_" => .exists_ | "notExists" => .notExists | _ => .unknown
  -- unrecognised tables / conversion: the documented ones (the verdict is `undetermined` then, flags are no evidence)
  let orDoc {α : Type} (k : String) (l : List α) (d : List α) : List α := if arg kv k == "unknown" then d else l
  let conv : WireConv := if arg kv "wireConv" == "cast" then .cast else .castChecked
  let wc : WireCfg := ⟨orDoc "opOrder" (opsOf "opOrder") protoOpsDoc, orDoc "condOrder" (condsOf "condOrder") protoCondsDoc,
    orDoc "protoOps" (opsOf "protoOps") protoOpsDoc, orDoc "protoConds" (condsOf "protoConds") protoCondsDoc, conv⟩
  lineLoop (step cfg ⟨cfg, mg, smap, seed, arg kv "seedMapCheck" == "yes"⟩ wc) ()
  return 0

end Driver.C13
