import Driver.Util
import Hv.Conc.Guard

/-! Line-protocol driver for the guard model (domain C15). Same ops and reply format as
    `/verif/harness/c15.go`.  A reply is followed by `\t#F:<finding>` when the *model* state
    violates the property's Spec (more than one believing holder). -/
namespace Driver.C15
open Hv.Guard

structure DSt where
  cfg : Cfg
  s : St

def render (s : St) : String :=
  s!"q={showNatList (s.queue.map (·.1))} c={s.counter} h={s.holders.length}"

def flag (s : St) : String := if s.holders.length > 1 then "\t#F:C15-guard-id-reuse" else ""

def step (d : DSt) (line : String) : DSt × String :=
  let s := d.s
  match words line with
  | ["case", _] => ({ d with s := init }, line)
  | ["startw"] =>
    let s' := enqueue s
    let id := s'.counter
    let verb := if s.queue.isEmpty then "acq" else "wait"
    ({ d with s := s' }, s!"{verb} {id} {render s'}{flag s'}")
  | ["startn"] =>
    if s.queue.isEmpty then
      let s' := enqueue s
      ({ d with s := s' }, s!"acq {s'.counter} {render s'}{flag s'}")
    else (d, s!"refused {render s}{flag s}")
  | ["release", n] =>
    match n.toNat? with
    | none => (d, "bad-op")
    | some sid =>
      match idOf s sid with
      | none => (d, s!"skip {render s}{flag s}")
      | some id =>
        -- a session that is still parked behind the head cannot call release
        if !(s.grants.contains sid) then (d, s!"skip {render s}{flag s}")
        else
          let s' := releaseId d.cfg s id (some sid)
          let eff := headId s == some id
          let g := if eff then
              (match headId s' with | some h => s!" eff granted={h}" | none => " eff granted=-")
            else " noop"
          ({ d with s := s' }, s!"rel {id}{g} {render s'}{flag s'}")
  | ["releaseraw", n] =>
    match n.toInt? with
    | none => (d, "bad-op")
    | some i =>
      if i < 0 then (d, s!"rel {i} noop {render s}{flag s}") else
      let id := i.toNat
      -- `releaseRaw` is enabled only for IDs other than the head's (see `Hv.Guard.step`)
      if headId s == some id then (d, s!"skip {render s}{flag s}") else
      let s' := releaseId d.cfg s id none
      ({ d with s := s' }, s!"rel {id} noop {render s'}{flag s'}")
  | _ => (d, "bad-op")

end Driver.C15

/-! ### Trace inclusion (domain C15s): replay a log produced by the real guard under genuine
    concurrency.  A line is answered `ok` iff the model can take the same step with the same
    observable values (issued ID, head at acquisition, effectiveness of a release). -/
namespace Driver.C15
open Hv.Guard

structure TSt where
  cfg : Cfg
  s : St
  /-- guard ID → session that announced (`pre`) it is about to release its hold -/
  pending : List (Nat × Nat)

def sidOfId (s : St) (id : Nat) : Option Nat :=
  -- the most recent session that was given this ID
  (s.issued.reverse.find? (·.2 == id)).map (·.1)

def tstep (t : TSt) (line : String) : TSt × String :=
  let s := t.s
  let fl (s : St) := flag s
  match words line with
  | ["case", _] => ({ t with s := init, pending := [] }, line)
  | ["enq", n] =>
    match n.toNat? with
    | some id =>
      let s' := enqueue s
      if s'.counter == id then ({ t with s := s' }, "ok" ++ fl s')
      else ({ t with s := s' }, s!"bad enq: model would issue {s'.counter}")
    | none => (t, "bad-op")
  | ["acq", n] =>
    match n.toNat? with
    | some id => if headId s == some id then (t, "ok" ++ fl s) else (t, s!"bad acq: model head is {repr (headId s)}")
    | none => (t, "bad-op")
  | ["pre", _, n] =>
    match n.toNat? with
    | some id =>
      match sidOfId s id with
      | some sid =>
        -- the announcing session must be the one the model believes holds the guard
        if s.holders.contains sid then ({ t with pending := (id, sid) :: t.pending }, "ok" ++ fl s)
        else ({ t with pending := (id, sid) :: t.pending }, s!"bad pre: session {sid} does not hold the guard in the model")
      | none => (t, "bad pre: ID never issued in the model")
    | none => (t, "bad-op")
  | ["rel", n, e] =>
    match n.toNat? with
    | some id =>
      let who := t.pending.lookup id
      let s' := releaseId t.cfg s id who
      let eff := headId s == some id
      let want := if eff then "eff" else "noop"
      let t' := { t with s := s', pending := t.pending.filter (·.1 != id) }
      if want == e then (t', "ok" ++ fl s') else (t', s!"bad rel: model says {want}")
    | none => (t, "bad-op")
  | ["hang"] => (t, "bad hang: a waiter was never woken")
  | _ => (t, "bad-op")

def runTrace (cfg : Cfg) : IO UInt32 := do
  lineLoop tstep { cfg := cfg, s := init, pending := [] }
  return 0

def run (args : List String) : IO UInt32 := do
  let kv := parseArgs args
  let cfg : Cfg := { resetsIdOnEmpty := arg kv "resetsIdOnEmpty" == "yes" }
  if arg kv "mode" == "trace" then runTrace cfg
  else do
    lineLoop step { cfg := cfg, s := init }
    return 0

end Driver.C15
