import Driver.Util
import Hv.Conc.Guard

/-! Line-protocol driver for the guard model (domain C15). Same ops and reply format as
    `/verif/harness/c15.go`.  A reply is followed by `\t#F:<finding>` when the *model* state
    violates the property's Spec (more than one believing holder). -/
namespace Driver.C15
open Hv.Guard

structure DSt where
  cfg : Cfg
  s : St

def render (s : St) : String :=
  s!"q={showNatList (s.queue.map (·.1))} c={s.counter} h={s.holders.length}"

def flag (s : St) : String := if s.holders.length > 1 then "\t#F:C15-guard-id-reuse" else ""

def step (d : DSt) (line : String) : DSt × String :=
  let s := d.s
  match words line with
  | ["case", _] => ({ d with s := init }, line)
  | ["startw"] =>
    let s' := enqueue s
    let id := s'.counter
    let verb := if s.queue.isEmpty then "acq" else "wait"
    ({ d with s := s' }, s!"{verb} {id} {render s'}{flag s'}")
  | ["startn"] =>
    if s.queue.isEmpty then
      let s' := enqueue s
      ({ d with s := s' }, s!"acq {s'.counter} {render s'}{flag s'}")
    else (d, s!"refused {render s}{flag s}")
  | ["release", n] =>
    match n.toNat? with
    | none => (d, "bad-op")
    | some sid =>
      match idOf s sid with
      | none => (d, s!"skip {render s}{flag s}")
      | some id =>
        -- a session that is still parked behind the head cannot call release
        if !(s.grants.contains sid) then (d, s!"skip {render s}{flag s}")
        else
          let s' := releaseId d.cfg s id (some sid)
          let eff := headId s == some id
          let g := if eff then
              (match headId s' with | some h => s!" eff granted={h}" | none => " eff granted=-")
            else " noop"
          ({ d with s := s' }, s!"rel {id}{g} {render s'}{flag s'}")
  | ["releaseraw", n] =>
    match n.toInt? with
    | none => (d, "bad-op")
    | some i =>
      if i < 0 then (d, s!"rel {i} noop {render s}{flag s}") else
      let id := i.toNat
      -- `releaseRaw` is enabled only for IDs other than the head's (see `Hv.Guard.step`)
      if headId s == some id then (d, s!"skip {render s}{flag s}") else
      let s' := releaseId d.cfg s id none
      ({ d with s := s' }, s!"rel {id} noop {render s'}{flag s'}")
  | _ => (d, "bad-op")

def run (args : List String) : IO UInt32 := do
  let kv := parseArgs args
  let cfg : Cfg := { resetsIdOnEmpty := arg kv "resetsIdOnEmpty" == "yes" }
  lineLoop step { cfg := cfg, s := init }
  return 0

end Driver.C15
