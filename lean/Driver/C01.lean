import Driver.Util

/-! Placeholder: the line-protocol driver of domain C01 is not written yet. -/
namespace Driver.C01

def run (_args : List String) : IO UInt32 := do
  IO.eprintln "drv: domain C01 has no driver yet"
  return 2

end Driver.C01
