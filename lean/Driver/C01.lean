import Driver.Util
import Driver.StorageCodec
import Hv.Storage.Writer
import Hv.Storage.ChronWrite

/-! Driver for domain C01.

  The writer model runs on the op lines with the identity codec (lawful; block boundaries, counts,
  header counters and the name do not depend on the codec).  On `raw HEX` the *real file's bytes*
  are parsed by the model reader instantiated with the executable snappy decoder and CRC-32, and
  the resulting structure is compared with the structure of the model's own file (`pred=`).
  On `load`/`raw` the model's result is compared with the Spec fold over the acknowledged writes
  that have left the buffer; a difference is flagged `#F:<finding>` with the cause. -/
namespace Driver.C01
open Hv.Storage Driver.Stor

structure DS where
  cfg : Cfg
  bs : Nat := 0
  name : Bytes := []
  st : St := ⟨[], none⟩
  fileExists : Bool := false
  /-- acknowledged writes, newest first -/
  accRev : List Entry := []
  /-- chronicler mode: configured, file not created yet (the writer is opened lazily) -/
  chronLazy : Bool := false
  /-- chronicler mode: everything `Write` was handed (what its caller believes stored), newest first -/
  ackRev : List Entry := []
  /-- chronicler mode: treasures the writer refused and `Write` only logged -/
  chronDropped : Nat := 0
  /-- API mode: (name length, key length, seed) of every `Set` the gateway acknowledged -/
  apiAcked : List (Nat × Nat × Nat) := []

def triArg (kv : List (String × String)) (k : String) (dflt : Bool) : Bool :=
  match arg kv k with
  | "yes" => true
  | "no" => false
  | _ => dflt

def cfgOfArgs (kv : List (String × String)) : Cfg :=
  { rejectsEmptyKey := triArg kv "rejectsEmptyKey" false
    rejectsLongKey := triArg kv "rejectsLongKey" false
    flushGe := arg kv "flushCmp" != "gt"
    flushAtCount := triArg kv "flushAtCount" false
    deleteRemoves := triArg kv "deleteRemoves" true
    validatesCrc := triArg kv "validatesCrc" true
    validatesULen := triArg kv "validatesULen" true
    boundsCompressedSize := triArg kv "boundsCompressedSize" false
    boundsDecodedLen := triArg kv "boundsDecodedLen" false
    parseConsumesAll := triArg kv "parseConsumesAll" false
    shortPayloadIsEOF := triArg kv "shortPayloadIsEOF" false
    zeroSizeIsEOF := triArg kv "zeroSizeIsEOF" false
    zeroTailIsEOF := triArg kv "zeroTailIsEOF" false
    openStopsAtZeroSize := triArg kv "openStopsAtZeroSize" false
    chronSurfacesError := triArg kv "chronSurfacesError" false
    openCutsTornTail := triArg kv "openCutsTornTail" false
    apiValidatesKeys := triArg kv "apiValidatesKeys" false
    apiBoundsNameLength := triArg kv "apiBoundsNameLength" false
    tuiListsAll := triArg kv "tuiListsAll" false
    v2Fallback := triArg kv "v2Fallback" true
    rejectsLongName := triArg kv "rejectsLongName" false }

def replyStr : Reply → String
  | .ok => "ok"
  | .rejClosed => "rej closed"
  | .rejEmptyKey => "rej emptykey"
  | .rejLongKey => "rej longkey"
  | .rejOpen => "rej open"
  | .rejHeader => "rej header"

def doOp (d : DS) (op : Op) : DS × Reply :=
  let (st', r) := step d.cfg idCodec crc0 d.bs d.st op
  let acc := match op, r with
    | .write e, .ok => e :: d.accRev
    | _, _ => d.accRev
  ({ d with st := st', accRev := acc }, r)

/-- acknowledged writes that have left the buffer, oldest first -/
def flushedOf (d : DS) : List Entry :=
  (d.accRev.drop d.st.pending.length).reverse

/-- structure of arbitrary file bytes under a decoder/checksum -/
structure Parsed where
  openErr : Option Err := none
  hdr : Option FileHeader := none
  name : Bytes := []
  counts : List Nat := []
  entries : List Entry := []
  blocksErr : Option Err := none
  load : Except Err (Index × Bytes) := .error .short

def parseFile (cfg : Cfg) (dec : Decoder) (crc : Checksum) (file : Bytes) : Parsed :=
  match openReader file with
  | .error e => { openErr := some e }
  | .ok r =>
    let rec go (fuel : Nat) (rest : Bytes) (cs : List Nat) (es : List (List Entry)) : List Nat × List (List Entry) × Option Err :=
      match fuel with
      | 0 => (cs.reverse, es.reverse, none)
      | fuel + 1 =>
        match readNextBlock cfg dec crc rest with
        | .eof => (cs.reverse, es.reverse, none)
        | .err e => (cs.reverse, es.reverse, some e)
        | .ok b rest' => go fuel rest' (b.length :: cs) (b :: es)
    let (cs, es, err) := go (file.length / 16 + 1) (file.drop r.hdr.dataStart) [] []
    let all := es.flatten
    let load : Except Err (Index × Bytes) := match err with
      | some e => .error e
      | none => .ok (replay cfg all, if r.name.isEmpty then metaName all else r.name)
    { hdr := some r.hdr, name := r.name, counts := cs, entries := all, blocksErr := err, load := load }

def countsStr (cs : List Nat) : String :=
  if cs.isEmpty then "-" else ",".intercalate (cs.map toString)

def rawLine (p : Parsed) : String :=
  match p.openErr, p.hdr with
  | some e, _ => s!"raw err:{e.name}"
  | none, none => "raw err:short"
  | none, some h =>
    let head := s!"raw v={h.version} ec={h.entryCount} bc={h.blockCount} name={hex p.name}"
    let mid := match p.blocksErr with
      | some e => s!" blocks=err:{e.name} ents=err:{e.name}"
      | none => s!" blocks={countsStr p.counts} ents={entriesDigest p.entries}"
    let tail := match p.load with
      | .error e => s!" idx=err:{e.name}"
      | .ok (m, _) => s!" idx={indexDigest m}"
    head ++ mid ++ tail

def loadLine (r : Except Err (Index × Bytes)) : String :=
  match r with
  | .error e => s!"err {e.name}"
  | .ok (m, n) => s!"idx {indexDigest m} name={hex n}{indexListing m}"

/-- why the model's load differs from the Spec (`p` = the model's own file, parsed) -/
def causeOf (d : DS) (p : Parsed) : String :=
  let fl := flushedOf d
  if fl.any (fun e => e.key.isEmpty) then "C01-empty-key-accepted"
  else if fl.any (fun e => 65535 < e.key.length) then "C01-long-key-accepted"
  else if (p.hdr.map (·.entryCount)).getD fl.length != fl.length then "C01-block-entry-count-overflow"  -- Σ (len mod 65536) ≠ len
  else if !d.cfg.deleteRemoves then "C01-delete-not-replayed"
  else "C01-replay-mismatch"

/-- does the model's load result equal the Spec state of the flushed acknowledged writes? -/
def specFlag (d : DS) (r : Except Err (Index × Bytes)) : String :=
  let want := specOf (flushedOf d)
  let good := match r with
    | .error _ => false
    | .ok (m, _) => indexDigest m == indexDigest want
  if good then "" else
    s!"\t#F:{causeOf d (parseFile d.cfg idCodec.toDecoder crc0 d.st.file)}"

/-- `chroniclerV2.Write` of a batch: `ensureWriter` (create on first use, reopen after a `Close`),
    then the model's `chronWrite` -/
def chronWriteBatch (d : DS) (batch : List Treasure) : DS :=
  let d1 : DS :=
    if d.chronLazy then
      match createFileCfg d.cfg d.name 0 with
      | none => d
      | some st => { d with st := st, fileExists := true, chronLazy := false }
    else d
  if !d1.fileExists then d1 else
  let es := batch.map entryOf
  let st' := Hv.Storage.chronWrite d1.cfg idCodec crc0 d1.bs d1.st batch
  let ok := es.filter (accepts d1.cfg)
  { d1 with st := st', accRev := ok.reverse ++ d1.accRev, ackRev := es.reverse ++ d1.ackRev,
            chronDropped := d1.chronDropped + (es.length - ok.length) }

def parseItem (s : String) : Option Treasure :=
  match s.splitOn "|" with
  | [k, key, v] =>
    match parseSpec key, parseSpec v with
    | some key, some v =>
      if k == "i" then some ⟨key, v, false, false⟩
      else if k == "u" then some ⟨key, v, false, true⟩
      else if k == "d" then some ⟨key, [], true, false⟩
      else none
    | _, _ => none
  | _ => none

def step (d : DS) (line : String) : DS × String :=
  match line.splitOn " " with
  | ["case", _] => ({ cfg := d.cfg }, line)
  | ["cfg", bs, nm] =>
    match bs.toNat?, parseSpec nm with
    | some bs, some name =>
      match createFileCfg d.cfg name 0 with
      | none => ({ cfg := d.cfg, bs := bs, name := name }, "rej longname")
      | some st => ({ cfg := d.cfg, bs := bs, name := name, st := st, fileExists := true }, "ok")
    | _, _ => (d, "bad-op")
  | ["w", op, k, v] =>
    match op.toNat?, parseSpec k, parseSpec v with
    | some op, some k, some v =>
      if op > 255 then (d, "bad-op") else
      let (d', r) := doOp d (.write ⟨UInt8.ofNat op, k, v⟩)
      (d', replyStr r)
    | _, _, _ => (d, "bad-op")
  | ["wn", n, kl, dl, st] =>
    match n.toNat?, kl.toNat?, dl.toNat?, st.toNat? with
    | some n, some kl, some dl, some st =>
      let (d', okc, last) := (List.range n).foldl (fun (acc : DS × Nat × String) i =>
        let (d, okc, last) := acc
        let (d', r) := doOp d (.write ⟨1, genBytes kl (st + i), genBytes dl (st + i)⟩)
        if r == .ok then (d', okc + 1, last) else (d', okc, replyStr r)) (d, 0, "ok")
      (d', if okc == n then "ok" else s!"{last} after={okc}")
    | _, _, _, _ => (d, "bad-op")
  | ["aset", nl, kl, sd] =>
    match nl.toNat?, kl.toNat?, sd.toNat? with
    | some nl, some kl, some sd =>
      let nameOk := apiAcceptsName d.cfg (List.replicate (min nl 70000) 0)
      let keyOk := !(d.cfg.apiValidatesKeys && (kl == 0 || 65535 < kl))
      if nameOk && keyOk then ({ d with apiAcked := (max nl (s!"verifapi/r{sd}/x").length, kl, sd) :: d.apiAcked }, "ok") else (d, "invalid")
    | _, _, _ => (d, "bad-op")
  | ["arpc", _, kl, _] =>
    match kl.toNat? with
    | some kl => (d, if d.cfg.apiValidatesKeys && (kl == 0 || 65535 < kl) then "invalid" else "ok")
    | none => (d, "bad-op")
  | ["arestart"] => (d, "ok")
  | ["aget", nl, kl, sd] =>
    match nl.toNat?, kl.toNat?, sd.toNat? with
    | some nl, some kl, some sd =>
      let nl' := max nl (s!"verifapi/r{sd}/x").length
      if !apiAcceptsName d.cfg (List.replicate (min nl' 70000) 0) then (d, "invalid") else
      let acked := d.apiAcked.contains (nl', kl, sd)
      -- what survives a restart is what the writer could store
      let stored := acked && nl' ≤ 65535 && 0 < kl && kl ≤ 65535
      let flag := if acked && !stored then
          (if 65535 < nl' then "\t#F:C01-api-acks-unstorable-name" else "\t#F:C01-chronicler-drops-refused-entry") else ""
      (d, (if stored then "found" else "missing") ++ flag)
    | _, _, _ => (d, "bad-op")
  | ["ccfg", bs, nm] =>
    match bs.toNat?, parseSpec nm with
    | some bs, some name =>
      -- NewV2WithConfig carries no name; NewV2WithName uses the default block size
      ({ cfg := d.cfg, bs := bs, name := if bs == 0 then name else [], chronLazy := true }, "ok")
    | _, _ => (d, "bad-op")
  | ["cw", k, v] =>
    match parseSpec k, parseSpec v with
    | some k, some v => (chronWriteBatch d [⟨k, v, false, false⟩], "ok")
    | _, _ => (d, "bad-op")
  | ["cd", k] =>
    match parseSpec k with
    | some k => (chronWriteBatch d [⟨k, [], true, false⟩], "ok")
    | none => (d, "bad-op")
  | ["cwb", items] =>
    match (items.splitOn ";").mapM parseItem with
    | some batch => (chronWriteBatch d batch, "ok")
    | none => (d, "bad-op")
  | ["cclose"] => let (d', _) := doOp d .close; (d', "ok")
  | ["cload"] =>
    if !d.fileExists then (d, "cidx 0:00000000 ") else
    let r := loadIndex d.cfg idCodec.toDecoder crc0 d.st.file
    let line := match r with
      | .error e => s!"cidx err:{e.name}"
      | .ok (m, _) => s!"cidx {indexDigest m}{indexListing m}"
    -- the caller of `Write` was told nothing: it believes every treasure stored
    let believed := specOf d.ackRev.reverse
    let good := match r with
      | .error _ => false
      | .ok (m, _) => indexDigest m == indexDigest believed
    let flag :=
      if good then ""
      else if d.chronDropped > 0 && !(d.cfg.chronSurfacesError || d.cfg.apiValidatesKeys) && (specFlag d r).isEmpty then "\t#F:C01-chronicler-drops-refused-entry"
      else specFlag d r
    (d, line ++ flag)
  | ["wb", n, kl, dl, st] =>
    match n.toNat?, kl.toNat?, dl.toNat?, st.toNat? with
    | some n, some kl, some dl, some st =>
      -- `WriteEntries`: validate the whole batch first, then add entry by entry (flushing as needed)
      if d.st.sess.isNone then (d, "rej closed") else
      let es := (List.range n).map fun i => (⟨1, genBytes kl (st + i), genBytes dl (st + i)⟩ : Entry)
      match es.find? (fun e => !accepts d.cfg e) with
      | some e => (d, if e.key.isEmpty then "rej emptykey" else "rej longkey")
      | none => (es.foldl (fun d e => (doOp d (.write e)).1) d, "ok")
    | _, _, _, _ => (d, "bad-op")
  | ["wk", n, dl, st] =>
    match n.toNat?, dl.toNat?, st.toNat? with
    | some n, some dl, some st =>
      let (d', okc, last) := (List.range n).foldl (fun (acc : DS × Nat × String) i =>
        let (d, okc, last) := acc
        let (d', r) := doOp d (.write ⟨1, le 4 (st + i), genBytes dl (st + i)⟩)
        if r == .ok then (d', okc + 1, last) else (d', okc, replyStr r)) (d, 0, "ok")
      (d', if okc == n then "ok" else s!"{last} after={okc}")
    | _, _, _ => (d, "bad-op")
  | ["stalehdr"] =>
    if d.st.sess.isSome then (d, "rej open")
    else if !d.fileExists then (d, "rej header")
    else ({ d with st := zeroCounts d.st }, "ok")
  | ["ztail", n] =>
    match n.toNat? with
    | none => (d, "bad-op")
    | some k =>
      if k > 1048576 then (d, "bad-op")
      else if d.st.sess.isSome then (d, "rej open")
      else if !d.fileExists then (d, "rej header")
      else ({ d with st := { d.st with file := d.st.file ++ List.replicate k 0 } }, "ok")
  | ["compact"] =>
    if d.st.sess.isSome then (d, "rej open")
    else if !d.fileExists then (d, "rej header")
    else
      let live := specOf (flushedOf d)
      let (st', r) := compactSt d.cfg idCodec crc0 d.bs 0 d.st
      match r with
      | .ok =>
        -- the Spec state is unchanged; restart the acknowledged history from the live set so that
        -- header counters and history length stay comparable
        ({ d with st := st', accRev := live.map (fun p => (⟨opInsert, p.1, p.2⟩ : Entry)) }, "ok")
      | _ => (d, "rej header")
  | ["flush"] => let (d', r) := doOp d .flush; (d', replyStr r)
  | ["sync"] => let (d', r) := doOp d .sync; (d', replyStr r)
  | ["close"] => let (d', r) := doOp d .close; (d', replyStr r)
  | ["reopen"] =>
    if d.st.sess.isNone && !d.fileExists then (d, "rej header") else
    let (d', r) := doOp d .reopen; (d', replyStr r)
  | ["load"] =>
    if !d.fileExists then (d, "err nofile") else
    let r := loadIndex d.cfg idCodec.toDecoder crc0 d.st.file
    (d, loadLine r ++ specFlag d r)
  | ["raw", h] =>
    match unhex h with
    | none => (d, "bad-op")
    | some bytes =>
      let real := parseFile d.cfg snappyDecoder crc32 bytes
      let mine := parseFile d.cfg idCodec.toDecoder crc0 d.st.file
      let same := rawLine real == rawLine mine
      let pred := if same then "ok" else s!"DIFF[{rawLine mine}]"
      (d, s!"{rawLine real} det=ok pred={pred}" ++ specFlag d real.load)
  | _ => (d, "bad-op")

def run (args : List String) : IO UInt32 := do
  let kv := parseArgs args
  lineLoop step { cfg := cfgOfArgs kv }
  return 0

end Driver.C01
