import Driver.Util
import Hv.Data.Events

/-! Line-protocol driver of domain C19 (same ops and reply format as `/verif/harness/c19.go`).
    A reply carries `\t#F:<finding>` when the model's delivery differs from the Spec's there. -/
namespace Driver.C19
open Hv.Events

structure Thread where
  name : String
  key : String
  val : String
  state : String      -- sq | guard | done
  status : String

structure DSt where
  cfg : Cfg
  timeConv : TimeConv
  mutex : Bool
  mode : String
  m : St
  sp : Spec
  ths : List Thread

def showVal : Val → String
  | .str s => "s." ++ s
  | .int i => "i." ++ toString i

def timeTok : TimeConv → String
  | .unixSec => "nsAsSec"
  | .unixNano => "ok"
  | .unixSplit => "ok"
  | .unknown => "bad"

def showEvent (tc : TimeConv) (e : Event) : String :=
  match e.kind with
  | .new => s!"N:{e.key}={showVal e.val}@{timeTok tc}"
  | .mod => s!"M:{e.key}={showVal e.val}<{match e.old with | some o => showVal o | none => "nil"}@{timeTok tc}"
  | .del => s!"D:{e.key}={showVal e.val}@{timeTok tc}"

def showStatus (op : Op) (st : Status) (m' : St) : String :=
  match op, st with
  | .inc k _, .typeErr => let _ := k; "ERR"
  | .inc k _, _ => match m'.recs k with
    | some r => (match r.val with | .int i => s!"val:{i}" | _ => "ERR")
    | none => "ERR"
  | _, .new => "NEW"
  | _, .updated => "UPDATED"
  | _, .same => "SAME"
  | _, .deleted => "DELETED"
  | _, .notFound => "NOT_FOUND"
  | _, .typeErr => "ERR"
  | _, .none => "-"

def sortNat (l : List Nat) : List Nat := (l.toArray.qsort (· < ·)).toList

def seqReply (d : DSt) (op : Op) : DSt × String :=
  let (m', st, evs) := stepM d.cfg d.m op
  let (sp', sevs) := stepS d.sp op
  let subs := sortNat d.m.subs
  let body := subs.foldl (fun acc i => acc ++ s!" s{i}=[{";".intercalate (evs.map (showEvent d.timeConv))}]") ""
  let delivered := !subs.isEmpty
  let flags :=
    (if delivered && !evs.isEmpty && d.timeConv == .unixSec then "\t#F:C19-event-time-nanos-as-seconds" else "") ++
    (if delivered && evs.length != sevs.length then "\t#F:C19-noop-save-emits-event" else "") ++
    (if delivered && evs.length == sevs.length && evs != sevs then "\t#F:C19-old-treasure-is-live-object" else "")
  ({ d with m := m', sp := sp' }, s!"st={showStatus op st m'}{body}{flags}")

def concState (d : DSt) (ths : List Thread) : String × Nat :=
  let sq := (ths.filter (·.state == "sq")).length
  let inside := if d.mutex then min 1 sq else sq
  let body := ths.foldl (fun acc t =>
    acc ++ (if t.state == "done" then s!"{t.name}:done({t.status}) " else s!"{t.name}:{t.state} ")) ""
  (body ++ s!"inside={inside}", inside)

def step (d : DSt) (line : String) : DSt × String :=
  match words line with
  | ["case", _, mode] =>
    ({ d with mode := mode, m := St.init, sp := Spec.init, ths := [] }, line)
  | ["case", _, mode, _] =>
    ({ d with mode := mode, m := St.init, sp := Spec.init, ths := [] }, line)
  | ["case", _] => ({ d with mode := "", m := St.init, sp := Spec.init, ths := [] }, line)
  | ws =>
    if d.mode == "seq" then
      match ws with
      | ["sub", i] => match i.toNat? with
        | some n => let r := seqReply d (.sub n); (r.1, "ok")
        | none => (d, "bad-op")
      | ["unsub", i] => match i.toNat? with
        | some n => let r := seqReply d (.unsub n); (r.1, "ok")
        | none => (d, "bad-op")
      | ["set", k, v] => seqReply d (.set k (.str v))
      | ["inc", k, n] => match n.toInt? with
        | some i => seqReply d (.inc k i)
        | none => (d, "bad-op")
      | ["del", k] => seqReply d (.del k)
      | ["shift", k] => seqReply d (.shift k)
      | ["get", k] => seqReply d (.get k)
      | ["reload"] => seqReply d .reload
      | _ => (d, "bad-op")
    else if d.mode == "conc" then
      match ws with
      | ["spawn", t, "set", k, v] =>
        if d.ths.any (·.name == t) then (d, "bad-op") else
        let blocked := d.ths.any (fun u => u.key == k && u.state != "done")
        let ths := d.ths ++ [{ name := t, key := k, val := v, state := if blocked then "guard" else "sq", status := "" }]
        let (s, inside) := concState d ths
        ({ d with ths := ths }, s ++ (if inside ≥ 2 then "\t#F:C19-concurrent-sendmsg" else ""))
      | ["drain"] =>
        if d.ths.all (·.state == "done") && !d.ths.isEmpty then (d, "bad-op") else
        -- commits happen in guard (= spawn) order per key
        let (m', ths) := d.ths.foldl (fun (acc : St × List Thread) t =>
          if t.state == "done" then (acc.1, acc.2 ++ [t]) else
          let r := stepM d.cfg acc.1 (.set t.key (.str t.val))
          (r.1, acc.2 ++ [{ t with state := "done", status := showStatus (.set t.key (.str t.val)) r.2.1 r.1 }])) (d.m, [])
        let (s, _) := concState d ths
        ({ d with m := m', ths := ths }, s)
      | _ => (d, "bad-op")
    else if d.mode == "stress" then
      match ws with
      | ["stress", a, _, c] =>
        match a.toNat?, c.toNat? with
        | some w, some n =>
          (d, s!"ok events={w * n} failed=0 perkey=ordered t={timeTok d.timeConv} overlap={if d.mutex then "0" else "~"}" ++
            (if d.timeConv == .unixSec then "\t#F:C19-event-time-nanos-as-seconds" else ""))
        | _, _ => (d, "bad-op")
      | _ => (d, "bad-op")
    else (d, "bad-op")

def run (args : List String) : IO UInt32 := do
  let kv := parseArgs args
  let tc : TimeConv := match arg kv "timeConv" with
    | "unixSec" => .unixSec | "unixNano" => .unixNano | "unixSplit" => .unixSplit | _ => .unknown
  let cfg : Cfg := { resetsChangedFlags := arg kv "resetsChangedFlags" == "yes",
                     oldIsLive := arg kv "oldIsLive" != "no" }
  lineLoop step { cfg := cfg, timeConv := tc, mutex := arg kv "sendUnderMutex" == "yes", mode := "",
                  m := St.init, sp := Spec.init, ths := [] }
  return 0

end Driver.C19
