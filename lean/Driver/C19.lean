import Driver.Util
import Hv.Data.Events

/-! Line-protocol driver of domain C19 (same ops and reply format as `/verif/harness/c19.go`).
    A reply carries `\t#F:<finding>` when the model's delivery differs from the Spec's there. -/
namespace Driver.C19
open Hv.Events

structure Thread where
  name : String
  key : String
  val : String
  state : String      -- sq | guard | done
  status : String

structure DSt where
  cfg : Cfg
  timeConv : TimeConv
  mutex : Bool
  mode : String
  m : St
  sp : Spec
  ths : List Thread
  /-- fact: Event.EventTime comes from the clock; keys whose record carries client-supplied CreatedAt / UpdatedAt -/
  stampFromClock : Bool := true
  metaKeys : List String := []
  /-- mode late: fact (SummonSwamp looks for subscribers after storing the instance), the parked first request, and
      the subscribers that were there before the swamp started loading -/
  checksAfterStore : Bool := true
  latePending : Option (String × String × String) := none
  lateSubs : List Nat := []
  /-- mode drain: parked requests (name, kind, key, value) -/
  dparked : List (String × String × String × String) := []

def showVal : Val → String
  | .str s => "s." ++ s
  | .int i => "i." ++ toString i

def timeTok : TimeConv → String
  | .unixSec => "nsAsSec"
  | .unixNano => "ok"
  | .unixSplit => "ok"
  | .unknown => "bad"

def showEvent (tc : TimeConv) (badKeys : List String) (e : Event) : String :=
  -- a NEW / MODIFIED event stamped from the record's metadata carries whatever instant the client supplied
  let tt := if e.kind != .del && badKeys.contains e.key then "bad" else timeTok tc
  match e.kind with
  | .new => s!"N:{e.key}={showVal e.val}@{tt}"
  | .mod => s!"M:{e.key}={showVal e.val}<{match e.old with | some o => showVal o | none => "nil"}@{tt}"
  | .del => s!"D:{e.key}={showVal e.val}@{tt}"

def showStatus (op : Op) (st : Status) (m' : St) : String :=
  match op, st with
  | .inc k _, .typeErr => let _ := k; "ERR"
  | .inc k _, _ => match m'.recs k with
    | some r => (match r.val with | .int i => s!"val:{i}" | _ => "ERR")
    | none => "ERR"
  | _, .new => "NEW"
  | _, .updated => "UPDATED"
  | _, .same => "SAME"
  | _, .deleted => "DELETED"
  | _, .notFound => "NOT_FOUND"
  | _, .typeErr => "ERR"
  | _, .none => "-"

def sortNat (l : List Nat) : List Nat := (l.toArray.qsort (· < ·)).toList

def seqReply (d : DSt) (op : Op) (withMeta : Bool := false) : DSt × String :=
  let (m', st, evs) := stepM d.cfg d.m op
  let (sp', sevs) := stepS d.sp op
  let subs := sortNat d.m.subs
  let metaKeys := match op with
    | .set k _ => if withMeta && !d.metaKeys.contains k then d.metaKeys ++ [k] else d.metaKeys
    | .del k => d.metaKeys.filter (· != k)
    | .shift k => d.metaKeys.filter (· != k)
    | _ => d.metaKeys
  let badKeys := if d.stampFromClock then [] else metaKeys
  let body := subs.foldl (fun acc i => acc ++ s!" s{i}=[{";".intercalate (evs.map (showEvent d.timeConv badKeys))}]") ""
  let delivered := !subs.isEmpty
  let flags :=
    (if delivered && evs.any (fun e => e.kind != .del && badKeys.contains e.key) then "\t#F:C19-event-time-from-record-metadata" else "") ++
    (if delivered && !evs.isEmpty && d.timeConv == .unixSec then "\t#F:C19-event-time-nanos-as-seconds" else "") ++
    (if delivered && evs.length != sevs.length then "\t#F:C19-noop-save-emits-event" else "") ++
    (if delivered && evs.length == sevs.length && evs != sevs then "\t#F:C19-old-treasure-is-live-object" else "")
  ({ d with m := m', sp := sp', metaKeys := metaKeys }, s!"st={showStatus op st m'}{body}{flags}")

def concState (d : DSt) (ths : List Thread) : String × Nat :=
  let sq := (ths.filter (·.state == "sq")).length
  let inside := if d.mutex then min 1 sq else sq
  let body := ths.foldl (fun acc t =>
    acc ++ (if t.state == "done" then s!"{t.name}:done({t.status}) " else s!"{t.name}:{t.state} ")) ""
  (body ++ s!"inside={inside}", inside)

def step (d : DSt) (line : String) : DSt × String :=
  match words line with
  | ["case", _, mode] =>
    ({ d with mode := mode, m := St.init, sp := Spec.init, ths := [], metaKeys := [], latePending := none, lateSubs := [], dparked := [] }, line)
  | ["case", _, mode, _] =>
    ({ d with mode := mode, m := St.init, sp := Spec.init, ths := [], metaKeys := [], latePending := none, lateSubs := [], dparked := [] }, line)
  | ["case", _] => ({ d with mode := "", m := St.init, sp := Spec.init, ths := [], metaKeys := [] }, line)
  | ws =>
    if d.mode == "drain" then
      match ws with
      | ["sub", i] => match i.toNat? with
        | some n => let r := seqReply d (.sub n); (r.1, "ok")
        | none => (d, "bad-op")
      | ["set", k, v] => seqReply d (.set k (.str v))
      | ["spawn", t, "set", k, v] =>
        -- parks holding its vigil, nothing written yet
        let body := (sortNat d.m.subs).foldl (fun acc i => acc ++ s!" s{i}=[]") ""
        ({ d with dparked := d.dparked ++ [(t, "set", k, v)] }, s!"{t}@gw.set.vigil{body}")
      | ["spawn", t, "del", k] =>
        -- deletes the (last) record, then Destroy starts draining the in-flight requests
        let (d1, r) := seqReply d (.del k)
        let body := (r.splitOn " ").drop 1
        let (d2, _) := seqReply d1 (.drain true)
        ({ d2 with dparked := d2.dparked ++ [(t, "del", k, "")] }, s!"{t}@destroy.draining" ++ (if body.isEmpty then "" else " " ++ " ".intercalate body))
      | ["go", t] =>
        match d.dparked.find? (fun e => e.1 == t) with
        | some (_, "set", k, v) =>
          let (d1, r) := seqReply { d with dparked := d.dparked.filter (fun e => e.1 != t) } (.set k (.str v))
          let dropped := d.m.draining && !d.cfg.sendsDuringDrain && !d.m.subs.isEmpty
          (d1, s!"{t} done {r}" ++ (if dropped then "\t#F:C19-event-dropped-during-destroy-drain" else ""))
        | some (_, "del", _, _) =>
          let (d1, _) := seqReply { d with dparked := d.dparked.filter (fun e => e.1 != t) } (.drain false)
          let body := (sortNat d.m.subs).foldl (fun acc i => acc ++ s!" s{i}=[]") ""
          (d1, s!"{t} done st=DELETED{body}")
        | _ => (d, "bad-op")
      | _ => (d, "bad-op")
    else if d.mode == "late" then
      match ws with
      | ["sub", i] => match i.toNat? with
        | some n => let r := seqReply d (.sub n); (r.1, "ok")
        | none => (d, "bad-op")
      | ["spawn", t, "set", k, v] =>
        if d.latePending.isSome then (d, "bad-op") else
        ({ d with latePending := some (t, k, v), lateSubs := d.m.subs }, s!"{t}@loading")
      | ["go", t] =>
        match d.latePending with
        | some (t', k, v) =>
          if t != t' then (d, "bad-op") else
          -- with the look-before-load order sending is switched on only if somebody was subscribed before the load
          -- (sending is per swamp: if anybody was subscribed before the load, everybody is served)
          let missed := !d.checksAfterStore && d.lateSubs.isEmpty && !d.m.subs.isEmpty
          let (d1, r) := seqReply { d with latePending := none } (.set k (.str v))
          if missed then
            let body := (sortNat d.m.subs).foldl (fun acc i => acc ++ s!" s{i}=[]") ""
            (d1, s!"{t} done st=NEW{body}\t#F:C19-subscribe-during-load-misses-events")
          else (d1, s!"{t} done {r}")
        | none => (d, "bad-op")
      | _ => (d, "bad-op")
    else if d.mode == "seq" then
      match ws with
      | ["sub", i] => match i.toNat? with
        | some n => let r := seqReply d (.sub n); (r.1, "ok")
        | none => (d, "bad-op")
      | ["unsub", i] => match i.toNat? with
        | some n => let r := seqReply d (.unsub n); (r.1, "ok")
        | none => (d, "bad-op")
      | ["set", k, v] => seqReply d (.set k (.str v))
      | ["setm", k, v] => seqReply d (.set k (.str v)) true
      | ["sete", k, v] => seqReply d (.set k (.str v))
      | ["shifte", k] => seqReply d (.shift k)
      | ["inc", k, n] => match n.toInt? with
        | some i => seqReply d (.inc k i)
        | none => (d, "bad-op")
      | ["del", k] => seqReply d (.del k)
      | ["shift", k] => seqReply d (.shift k)
      | ["get", k] => seqReply d (.get k)
      | ["reload"] => seqReply d .reload
      | _ => (d, "bad-op")
    else if d.mode == "conc" then
      match ws with
      | ["spawn", t, "set", k, v] =>
        if d.ths.any (·.name == t) then (d, "bad-op") else
        let blocked := d.ths.any (fun u => u.key == k && u.state != "done")
        let ths := d.ths ++ [{ name := t, key := k, val := v, state := if blocked then "guard" else "sq", status := "" }]
        let (s, inside) := concState d ths
        ({ d with ths := ths }, s ++ (if inside ≥ 2 then "\t#F:C19-concurrent-sendmsg" else ""))
      | ["drain"] =>
        if d.ths.all (·.state == "done") && !d.ths.isEmpty then (d, "bad-op") else
        -- commits happen in guard (= spawn) order per key
        let (m', ths) := d.ths.foldl (fun (acc : St × List Thread) t =>
          if t.state == "done" then (acc.1, acc.2 ++ [t]) else
          let r := stepM d.cfg acc.1 (.set t.key (.str t.val))
          (r.1, acc.2 ++ [{ t with state := "done", status := showStatus (.set t.key (.str t.val)) r.2.1 r.1 }])) (d.m, [])
        let (s, _) := concState d ths
        ({ d with m := m', ths := ths }, s)
      | _ => (d, "bad-op")
    else if d.mode == "stress" then
      match ws with
      | ["stress", a, _, c] =>
        match a.toNat?, c.toNat? with
        | some w, some n =>
          (d, s!"ok events={w * n} failed=0 perkey=ordered t={timeTok d.timeConv} overlap={if d.mutex then "0" else "~"}" ++
            (if d.timeConv == .unixSec then "\t#F:C19-event-time-nanos-as-seconds" else ""))
        | _, _ => (d, "bad-op")
      | _ => (d, "bad-op")
    else (d, "bad-op")

def run (args : List String) : IO UInt32 := do
  let kv := parseArgs args
  let tc : TimeConv := match arg kv "timeConv" with
    | "unixSec" => .unixSec | "unixNano" => .unixNano | "unixSplit" => .unixSplit | _ => .unknown
  let cfg : Cfg := { resetsChangedFlags := arg kv "resetsChangedFlags" == "yes",
                     oldIsLive := arg kv "oldIsLive" != "no",
                     sendsDuringDrain := arg kv "stopsSendingAfterDrain" != "no" }
  lineLoop step { cfg := cfg, timeConv := tc, mutex := arg kv "sendUnderMutex" == "yes", mode := "",
                  m := St.init, sp := Spec.init, ths := [], stampFromClock := arg kv "eventTimeFromClock" != "no",
                  checksAfterStore := arg kv "checksSubscribersAfterStore" != "no" }
  return 0

end Driver.C19
