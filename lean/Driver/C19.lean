import Driver.Util

/-! Placeholder: the line-protocol driver of domain C19 is not written yet. -/
namespace Driver.C19

def run (_args : List String) : IO UInt32 := do
  IO.eprintln "drv: domain C19 has no driver yet"
  return 2

end Driver.C19
