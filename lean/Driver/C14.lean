import Driver.Util
import Hv.Conc.Lock

/-! Line-protocol driver for the business-lock model (domain C14). Same ops and reply format as
    `/verif/harness/c14.go`.  `go S <obs>` carries the branch the real select took; the driver
    checks that the model enables it.  A reply is followed by `\t#F:<finding>` when the model
    state violates the Spec (granted ≠ {head}, or a channel closed twice). -/
namespace Driver.C14
open Hv.Lock

structure Sess where
  key : String
  short : Bool
  held : Bool := false
  cancelled : Bool := false
  acquired : Bool := false
  gone : Bool := false
  expired : Bool := false

structure DSt where
  cfg : Cfg
  gw : GwCfg
  withoutCancel : Bool
  keys : List (String × St) := []
  sess : List Sess := []

def getKey (d : DSt) (k : String) : St := (d.keys.lookup k).getD init

def setKey (d : DSt) (k : String) (s : St) : DSt :=
  { d with keys := (k, s) :: d.keys.filter (·.1 != k) }

def getSess (d : DSt) (n : Nat) : Option Sess := if n = 0 then none else d.sess[n - 1]?

def setSess (d : DSt) (n : Nat) (x : Sess) : DSt := { d with sess := d.sess.set (n - 1) x }

def render (s : St) : String :=
  let g := s.q.callers.filter (· ∈ s.q.ready)
  let h := s.q.callers.filter (· ∈ s.acquired)
  s!"q={showNatList s.q.callers} g={showNatList g} h={showNatList h}"

def flag (cfg : Cfg) (s : St) : String :=
  if s.q.panics > 0 then "\t#F:C14-ready-closed-twice"
  else if s.q.ready != s.q.callers.head?.toList then
    (match cfg.wake with
     | .last => "\t#F:C14-wakes-last-waiter"
     | .none => "\t#F:C14-no-wake"
     | .next => "\t#F:C14-ready-closed-twice")
  else ""

def applyAct (d : DSt) (k : String) (a : Act) : DSt :=
  match step d.cfg (getKey d k) a with
  | some s' => setKey d k s'
  | none => d

/-- a granted caller that is parked in its select takes the `ready` branch -/
def settle (d : DSt) (k : String) : DSt :=
  (getKey d k).q.callers.foldl (fun d id =>
    let s := getKey d k
    match getSess d id with
    | some x =>
      if id ∈ s.q.ready && !x.acquired && !x.held && !x.gone then
        setSess (applyAct d k (.acquire id)) id { x with acquired := true }
      else d
    | none => d) d

def out (d : DSt) (k : String) (msg : String) : DSt × String :=
  let s := getKey d k
  (d, s!"{msg} {render s}{flag d.cfg s}")

def roundEff (t : Int) : Int := (t + 125) / 250 * 250

def stepLine (d : DSt) (line : String) : DSt × String :=
  match words line with
  | ["case", _] => ({ d with keys := [], sess := [] }, line)
  | "lock" :: k :: ttl :: rest =>
    let hold := rest == ["hold"]
    let n := d.sess.length + 1
    let d := { d with sess := d.sess ++ [{ key := k, short := ttl == "short", held := hold }] }
    let d := applyAct d k (.enqueue n)
    if hold then out d k s!"enq {n} held"
    else if n ∈ (getKey d k).q.ready then
      let d := applyAct d k (.acquire n)
      let d := setSess d n { key := k, short := ttl == "short", acquired := true }
      out d k s!"enq {n} acq"
    else out d k s!"enq {n} wait"
  | "go" :: ns :: obs =>
    match ns.toNat?.bind (fun n => (getSess d n).map (fun x => (n, x))) with
    | none => (d, "skip")
    | some (n, x) =>
      if !x.held then (d, "skip") else
      let k := x.key
      let s := getKey d k
      let granted := decide (n ∈ s.q.ready)
      -- the branch to take: the observed one when the model enables it, else the model's own
      let want := match obs with
        | ["acq"] => if granted then "acq" else if x.cancelled then "cancel" else "wait"
        | ["cancel"] => if x.cancelled then "cancel" else if granted then "acq" else "wait"
        | _ => if granted then "acq" else if x.cancelled then "cancel" else "wait"
      if want == "acq" then
        let d := applyAct d k (.acquire n)
        out (setSess d n { x with held := false, acquired := true }) k s!"go {n} acq"
      else if want == "cancel" then
        let d := applyAct d k (.cancel n)
        let d := setSess d n { x with held := false, gone := true }
        out (settle d k) k s!"go {n} cancel"
      else out (setSess d n { x with held := false }) k s!"go {n} wait"
  | ["cancel", ns] =>
    match ns.toNat?.bind (fun n => (getSess d n).map (fun x => (n, x))) with
    | none => (d, "skip")
    | some (n, x) =>
      if x.cancelled then (d, "skip") else
      let k := x.key
      let x := { x with cancelled := true }
      if x.held then out (setSess d n x) k s!"cancel {n} pending"
      else if x.acquired || x.gone then out (setSess d n x) k s!"cancel {n} noop"
      else
        let d := applyAct d k (.cancel n)
        let d := setSess d n { x with gone := true }
        out (settle d k) k s!"cancel {n} removed"
  | ["unlock", ns] =>
    match ns.toNat?.bind (fun n => (getSess d n).map (fun x => (n, x))) with
    | none => (d, "skip")
    | some (n, x) =>
      if !x.acquired then (d, "skip") else
      let k := x.key
      let res := if unlockOk (getKey d k) n then "ok" else "err"
      let d := applyAct d k (.unlock n)
      out (settle d k) k s!"unlock {n} {res}"
  | ["unlockraw", k, _] => out d k "unlockraw err"
  | ["expire", ns] =>
    match ns.toNat?.bind (fun n => (getSess d n).map (fun x => (n, x))) with
    | none => (d, "skip")
    | some (n, x) =>
      if !x.acquired || !x.short || x.expired then (d, "skip") else
      let k := x.key
      let d := setSess d n { x with expired := true }
      if n ∈ (getKey d k).q.callers then
        let d := applyAct d k (.ttl n)
        out (settle d k) k s!"expire {n} removed"
      else out d k s!"expire {n} noop"
  | ["gwttl", t] =>
    match t.toInt? with
    | none => (d, "bad-op")
    | some ttl =>
      let eff := effTTL d.gw ttl
      (d, s!"gwttl {t} eff={roundEff eff}" ++ (if eff ≤ 0 then "\t#F:C14-ttl-floor" else ""))
  | ["gwcancel"] => (d, if d.withoutCancel then "gwcancel kept acq" else "gwcancel removed err")
  | _ => (d, "bad-op")

def parseWake (s : String) : Wake :=
  if s == "last" then .last else if s == "none" then .none else .next

def run (args : List String) : IO UInt32 := do
  let kv := parseArgs args
  let cfg : Cfg := { wake := parseWake (arg kv "wake"), wakeOnlyIfHead := arg kv "wakeOnlyIfHead" != "no" }
  let gw : GwCfg := { ttlThresh := ((arg kv "ttlThresh").toInt?).getD 0, ttlFloor := ((arg kv "ttlFloor").toInt?).getD 0 }
  lineLoop stepLine { cfg := cfg, gw := gw, withoutCancel := arg kv "gwWithoutCancel" != "no" }
  return 0

end Driver.C14
