import Driver.Util

/-! Placeholder: the line-protocol driver of domain C14 is not written yet. -/
namespace Driver.C14

def run (_args : List String) : IO UInt32 := do
  IO.eprintln "drv: domain C14 has no driver yet"
  return 2

end Driver.C14
