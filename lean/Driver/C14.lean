import Driver.Util
import Hv.Conc.Lock

/-! Line-protocol driver for the business-lock model (domain C14). Same ops and reply format as
    `/verif/harness/c14.go`.  `go S <obs>` carries the branch the real select took; the driver
    checks that the model enables it.  A reply is followed by `\t#F:<finding>` when the model
    state violates the Spec (granted ≠ {head}, or a channel closed twice). -/
namespace Driver.C14
open Hv.Lock

structure Sess where
  key : String
  short : Bool
  /-- arrival number on its own key (the lock id when ids are per-queue tickets) -/
  ticket : Nat := 0
  held : Bool := false
  cancelled : Bool := false
  acquired : Bool := false
  gone : Bool := false
  expired : Bool := false

structure DSt where
  cfg : Cfg
  gw : GwCfg
  withoutCancel : Bool
  idsUnique : Bool := true
  keys : List (String × St) := []
  sess : List Sess := []

def getKey (d : DSt) (k : String) : St := (d.keys.lookup k).getD init

def setKey (d : DSt) (k : String) (s : St) : DSt :=
  { d with keys := (k, s) :: d.keys.filter (·.1 != k) }

def getSess (d : DSt) (n : Nat) : Option Sess := if n = 0 then none else d.sess[n - 1]?

def setSess (d : DSt) (n : Nat) (x : Sess) : DSt := { d with sess := d.sess.set (n - 1) x }

def render (s : St) : String :=
  let g := s.q.callers.filter (· ∈ s.q.ready)
  let h := s.q.callers.filter (· ∈ s.acquired)
  -- e: callers still queued although their Lock call returned an error — every error path of the
  -- model (`cancel`) removes the caller first, so the list is empty in every reachable state
  s!"q={showNatList s.q.callers} g={showNatList g} h={showNatList h} e=[]"

def flag (cfg : Cfg) (s : St) : String :=
  if s.q.panics > 0 then "\t#F:C14-ready-closed-twice"
  else if s.q.ready != s.q.callers.head?.toList then
    (match cfg.wake with
     | .last => "\t#F:C14-wakes-last-waiter"
     | .none => "\t#F:C14-no-wake"
     | .next => "\t#F:C14-ready-closed-twice")
  else ""

def applyAct (d : DSt) (k : String) (a : Act) : DSt :=
  match step d.cfg (getKey d k) a with
  | some s' => setKey d k s'
  | none => d

/-- a granted caller that is parked in its select takes the `ready` branch -/
def settle (d : DSt) (k : String) : DSt :=
  (getKey d k).q.callers.foldl (fun d id =>
    let s := getKey d k
    match getSess d id with
    | some x =>
      if id ∈ s.q.ready && !x.acquired && !x.held && !x.gone then
        setSess (applyAct d k (.acquire id)) id { x with acquired := true }
      else d
    | none => d) d

def out (d : DSt) (k : String) (msg : String) : DSt × String :=
  let s := getKey d k
  (d, s!"{msg} {render s}{flag d.cfg s}")

def roundEff (t : Int) : Int := t / 1000 * 1000

def stepLine (d : DSt) (line : String) : DSt × String :=
  match words line with
  | ["case", _] => ({ d with keys := [], sess := [] }, line)
  | "lock" :: k :: ttl :: rest =>
    let hold := rest == ["hold"]
    let n := d.sess.length + 1
    let tk := (d.sess.filter (·.key == k)).length + 1
    let short := ttl != "long"   -- short | zero | neg | min: the watchdog's timer fires (at once for a TTL ≤ 0)
    let d := { d with sess := d.sess ++ [{ key := k, short := short, ticket := tk, held := hold }] }
    let d := applyAct d k (.enqueue n)
    if hold then out d k s!"enq {n} held"
    else if n ∈ (getKey d k).q.ready then
      let d := applyAct d k (.acquire n)
      let d := setSess d n { key := k, short := short, ticket := tk, acquired := true }
      out d k s!"enq {n} acq"
    else out d k s!"enq {n} wait"
  | "go" :: ns :: obs =>
    match ns.toNat?.bind (fun n => (getSess d n).map (fun x => (n, x))) with
    | none => (d, "skip")
    | some (n, x) =>
      if !x.held then (d, "skip") else
      let k := x.key
      let s := getKey d k
      let granted := decide (n ∈ s.q.ready)
      -- the branch to take: the observed one when the model enables it, else the model's own
      let want := match obs with
        | ["acq"] => if granted then "acq" else if x.cancelled then "cancel" else "wait"
        | ["cancel"] => if x.cancelled then "cancel" else if granted then "acq" else "wait"
        | _ => if granted then "acq" else if x.cancelled then "cancel" else "wait"
      if want == "acq" then
        let d := applyAct d k (.acquire n)
        out (setSess d n { x with held := false, acquired := true }) k s!"go {n} acq"
      else if want == "cancel" then
        let d := applyAct d k (.cancel n)
        let d := setSess d n { x with held := false, gone := true }
        out (settle d k) k s!"go {n} cancel"
      else out (setSess d n { x with held := false }) k s!"go {n} wait"
  | ["cancel", ns] =>
    match ns.toNat?.bind (fun n => (getSess d n).map (fun x => (n, x))) with
    | none => (d, "skip")
    | some (n, x) =>
      if x.cancelled then (d, "skip") else
      let k := x.key
      let x := { x with cancelled := true }
      if x.held then out (setSess d n x) k s!"cancel {n} pending"
      else if x.acquired || x.gone then out (setSess d n x) k s!"cancel {n} noop"
      else
        let d := applyAct d k (.cancel n)
        let d := setSess d n { x with gone := true }
        out (settle d k) k s!"cancel {n} removed"
  | ["unlock", ns] =>
    match ns.toNat?.bind (fun n => (getSess d n).map (fun x => (n, x))) with
    | none => (d, "skip")
    | some (n, x) =>
      if !x.acquired then (d, "skip") else
      let k := x.key
      let res := if unlockOk (getKey d k) n then "ok" else "err"
      let d := applyAct d k (.unlock n)
      out (settle d k) k s!"unlock {n} {res}"
  | ["unlockx", ns, k] =>
    match ns.toNat?.bind (fun n => (getSess d n).map (fun x => (n, x))) with
    | none => (d, "skip")
    | some (n, x) =>
      if !x.acquired || x.key == k then (d, "skip") else
      if d.idsUnique then out d k s!"unlockx {n} {k} err"
      else
        -- per-queue tickets: the id names whoever has the same arrival number on key `k`
        let victim := (List.range d.sess.length).find? fun i =>
          match d.sess[i]? with
          | some y => y.key == k && y.ticket == x.ticket && decide ((i + 1) ∈ (getKey d k).q.callers)
          | none => false
        match victim with
        | none => out d k s!"unlockx {n} {k} err"
        | some i =>
          let s := getKey d k
          let d := setKey d k { s with q := (s.q.rem d.cfg (i + 1)).1 }
          let (d, msg) := out (settle d k) k s!"unlockx {n} {k} ok"
          (d, msg ++ "\t#F:C14-foreign-id-unlock")
  | ["unlockraw", k, _] => out d k "unlockraw err"
  | ["expire", ns] =>
    match ns.toNat?.bind (fun n => (getSess d n).map (fun x => (n, x))) with
    | none => (d, "skip")
    | some (n, x) =>
      if !x.acquired || !x.short || x.expired then (d, "skip") else
      let k := x.key
      let d := setSess d n { x with expired := true }
      if n ∈ (getKey d k).q.callers then
        let d := applyAct d k (.ttl n)
        out (settle d k) k s!"expire {n} removed"
      else out d k s!"expire {n} noop"
  | "gwttl" :: ts =>
    if ts.isEmpty || ts.any (fun t => t.toInt?.isNone) then (d, "bad-op") else
    let rs := ts.map (fun t =>
      let ttl := t.toInt?.getD 0
      let eff := effTTL d.gw ttl
      let dur := effDurNs d.gw ttl
      -- a timer armed with a duration ≤ 0 fires at once
      let shown := if dur ≤ 0 then "0" else if dur ≥ 3000000000 then "gt3000" else toString (roundEff (dur / 1000000))
      (s!"{t}:timeout={shown}", if dur ≤ 0 then (if eff ≤ 0 then "C14-ttl-floor" else "C14-ttl-overflow") else ""))
    let flags := (rs.map (·.2)).filter (· != "") |>.eraseDups
    (d, "gwttl " ++ " ".intercalate (rs.map (·.1)) ++ (if flags.isEmpty then "" else "\t#F:" ++ ",".intercalate flags))
  | "gwrace" :: obs =>
    -- holder 1, waiter 2 (stopped before its select); 2's caller gives up; 1 unlocks: 2 is granted.  With the
    -- caller's context handed to the locker both branches are enabled and the observed one is followed; with
    -- a detached context only `acquire` is.
    let k := "gwrace"
    let d0 := { d with keys := d.keys.filter (·.1 != k) }
    let d1 := applyAct (applyAct (applyAct (applyAct d0 k (.enqueue 1)) k (.acquire 1)) k (.enqueue 2)) k (.unlock 1)
    let granted := decide (2 ∈ (getKey d1 k).q.ready)
    let cancelTaken := !d.withoutCancel && obs == ["cancel"]
    let d2 := if cancelTaken then applyAct d1 k (.cancel 2)
              else applyAct (applyAct d1 k (.acquire 2)) k (.unlock 2)
    let left := (getKey d2 k).q.callers.length
    let msg := if !granted then "gwrace not-granted" else if cancelTaken then s!"gwrace cancel err left={left}" else s!"gwrace acq ok left={left}"
    ({ d with keys := d.keys }, msg)
  | ["gwcancel"] => (d, if d.withoutCancel then "gwcancel kept acq" else "gwcancel removed err")
  | _ => (d, "bad-op")

/-! ### Trace inclusion (domain C14s): replay a log produced by the real lock under genuine
    concurrency.  Hook events of one queue are logged under that queue's mutex, so every line must be
    a step the model can take, with the same observable values. -/

structure TSt where
  cfg : Cfg
  keys : List (Nat × St) := []
  /-- callers whose context-cancel branch has announced itself (`lock.cancel`) -/
  cancelling : List Nat := []
  /-- `acq` lines that arrived before the `rm` that grants them: `lock.acq` is logged by the woken
      caller, `lock.rm` by the remover after it has closed the channel — both orders occur -/
  earlyAcq : List (Nat × Nat) := []

def tget (t : TSt) (k : Nat) : St := (t.keys.lookup k).getD init
def tset (t : TSt) (k : Nat) (s : St) : TSt := { t with keys := (k, s) :: t.keys.filter (·.1 != k) }

def tflag (cfg : Cfg) (s : St) : String := flag cfg s

def tstep (t : TSt) (line : String) : TSt × String :=
  match (words line).map (fun w => (w, w.toNat?)) with
  | [("case", _), _] => ({ cfg := t.cfg }, line)
  | [("enq", _), (_, some k), (_, some n), (_, some g)] =>
    let s := tget t k
    match step t.cfg s (.enqueue n) with
    | some s' =>
      let granted := decide (n ∈ s'.q.ready)
      if granted == (g == 1) then (tset t k s', "ok" ++ tflag t.cfg s')
      else (tset t k s', s!"bad enq: model grants={granted}")
    | none => (t, "bad enq: caller number not fresh in the model")
  | [("acq", _), (_, some k), (_, some n)] =>
    let s := tget t k
    match step t.cfg s (.acquire n) with
    | some s' => (tset t k s', "ok" ++ tflag t.cfg s')
    | none =>
      -- allowed only for a queued caller directly behind the head: the very next removal must grant it
      if s.q.callers.drop 1 |>.head? |> (· == some n) then ({ t with earlyAcq := (k, n) :: t.earlyAcq }, "ok")
      else (t, s!"bad acq: caller {n} is not granted in the model (ready={showNatList s.q.ready})")
  | [("cancel", _), (_, some _), (_, some n)] => ({ t with cancelling := n :: t.cancelling }, "ok")
  | [("rm", _), (_, some k), (_, some n), (_, some f)] =>
    let s := tget t k
    let found := decide (n ∈ s.q.callers)
    let a := if t.cancelling.contains n then Act.cancel n
             else if n ∈ s.acquired then Act.unlock n   -- (own unlock, stale unlock or TTL: the same removal)
             else Act.unlock n
    -- n = 0: an id the queue never issued (foreign)
    match step t.cfg s a with
    | some s' =>
      let t' := tset { t with cancelling := t.cancelling.filter (· != n) } k s'
      -- an `acq` that was logged early for this queue must be enabled now
      let (t', late) := t'.earlyAcq.foldl (fun (acc : TSt × String) (e : Nat × Nat) =>
        if e.1 != k then acc else
        match step acc.1.cfg (tget acc.1 k) (.acquire e.2) with
        | some s2 => (tset { acc.1 with earlyAcq := acc.1.earlyAcq.filter (· != e) } k s2, acc.2)
        | none => if found then (acc.1, s!"bad acq: caller {e.2} acquired but this removal does not grant it") else acc) (t', "")
      if late != "" then (t', late) else
      if found == (f == 1) then (t', "ok" ++ tflag t.cfg (tget t' k)) else (t', s!"bad rm: model found={found}")
    | none => (t, s!"bad rm: removal of caller {n} is not a step of the model (it is queued and never acquired)")
  | [("hang", _)] => (t, "bad hang: a caller was never served")
  | _ => (t, "bad-op")

def parseWake (s : String) : Wake :=
  if s == "last" then .last else if s == "none" then .none else .next

def run (args : List String) : IO UInt32 := do
  let kv := parseArgs args
  let cfg : Cfg := { wake := parseWake (arg kv "wake"), wakeOnlyIfHead := arg kv "wakeOnlyIfHead" != "no" }
  let gw : GwCfg := { ttlThresh := ((arg kv "ttlThresh").toInt?).getD 0, ttlFloor := ((arg kv "ttlFloor").toInt?).getD 0,
                      ttlCap := (arg kv "ttlCap").toInt? }
  if arg kv "mode" == "trace" then
    lineLoop tstep { cfg := cfg }
    return 0
  lineLoop stepLine { cfg := cfg, gw := gw, withoutCancel := arg kv "gwWithoutCancel" != "no",
                      idsUnique := arg kv "idSource" != "perQueueCounter" }
  return 0

end Driver.C14
