import Driver.Util

/-! Placeholder: the line-protocol driver of domain C17 is not written yet. -/
namespace Driver.C17

def run (_args : List String) : IO UInt32 := do
  IO.eprintln "drv: domain C17 has no driver yet"
  return 2

end Driver.C17
