import Driver.Util
import Hv.Conc.Vigil
import Hv.Conc.VigilMu

/-! Line-protocol driver for the vigil / sync.Cond model (domain C17). Same ops and reply format
    as `/verif/harness/c17.go`; each op is a fixed sequence of LTS actions (the harness stops the
    real goroutines at the same places).  `expect W` is followed by `\t#F:<finding>` when the model
    state is `Stuck` for that waiter. -/
namespace Driver.C17
open Hv.Vigil

structure DSt where
  cfg : Cfg
  s : St := init
  n : Nat := 0               -- waiters created (ids 0..n-1, printed 1..n)
  held : Option Nat := none  -- the waiter stopped after its positive check
  opn : Nat := 0             -- begun and not yet ceased, by op count
  hc : Nat := 0
  bc : Nat := 0
  /-- the harness holds the mutex; what lined up on it: `none` = a CeaseVigil, `some w` = waiter `w` -/
  muHeld : Bool := false
  closeCancels : Bool := true
  drainBeforeMu : Bool := true
  retakes : Bool := true
  retryDeferred : Bool := true
  muQueue : List (Option Nat) := []

def act (d : DSt) (a : Act) : DSt :=
  match step d.cfg d.s a with
  | some s' => { d with s := s' }
  | none => d

def acts (d : DSt) (as : List Act) : DSt := as.foldl act d

def letter (pc : WPc) : String :=
  match pc with
  | .done => "d"
  | .checked => "c"
  | .idle => "q"
  | _ => "p"

def render (d : DSt) : String :=
  let ws := (List.range d.n).map (fun w => letter (d.s.wpc w))
  s!"v={d.s.vigils} hc={d.hc} bc={d.bc} w=[{String.join ws}]"

/-- every woken waiter re-locks and re-checks; with a positive check it goes back to sleep -/
def settle (d : DSt) : DSt :=
  (List.range d.n).foldl (fun d w =>
    if d.s.wpc w == .woken then
      let d := acts d [.wLock w, .wCheck w]
      if d.s.wpc w == .checked then acts d [.wAdd w, .wPark w] else d
    else d) d

def ceaseUnderLock (d : DSt) : DSt := acts d [.cLock, .cDec, .cUnlock]

def finding (cfg : Cfg) : String :=
  if !cfg.checkStrict then "C17-wait-never-returns" else "C17-lost-wakeup"

def stepLine (d : DSt) (line : String) : DSt × String :=
  let ws := words line
  if d.muHeld && !(ws.head? ∈ [some "begin", some "cease", some "wait", some "freemu", some "case"]) then (d, "busy") else
  match ws with
  | ["case", _] => ({ cfg := d.cfg, closeCancels := d.closeCancels, drainBeforeMu := d.drainBeforeMu, retakes := d.retakes, retryDeferred := d.retryDeferred }, line)
  | ["holdmu"] =>
    if d.held.isSome then (d, "busy") else
    let d := { d with muHeld := true }
    (d, s!"holdmu {render d}")
  | ["freemu"] =>
    if !d.muHeld then (d, "skip") else
    -- the line gets the mutex in order
    let (d, res) := d.muQueue.foldl (fun (acc : DSt × List String) who =>
      let d := acc.1
      match who with
      | none =>
        if d.held.isSome then (d, acc.2 ++ ["c:blocked"]) else
        let d := if d.cfg.decUnderLock then ceaseUnderLock d else act d .cDec
        ({ d with hc := d.hc + 1, bc := d.bc - 1 }, acc.2 ++ ["c:held"])
      | some w =>
        let d := acts d [.wLock w, .wCheck w]
        if d.s.wpc w == .checked then ({ d with held := some w }, acc.2 ++ [s!"{w + 1}:checked"])
        else (d, acc.2 ++ [s!"{w + 1}:done"])) ({ d with muHeld := false }, [])
    let d := { d with muQueue := [] }
    (d, s!"freemu {" ".intercalate res} {render d}")
  | ["delpanic"] =>
    -- the retry of gateway.Delete: take the fresh instance's vigil, DeleteTreasure (panics), give it back —
    -- with call+defer the exit after the first statement restores the counter, with a plain bracket it does not
    let shape : List Tok := if d.retryDeferred then [.vigPair, .autoDestroy] else [.vigBegin, .autoDestroy, .vigCeaseNow]
    let v := (exitAt shape 1 ⟨0, 0⟩).vig
    if v == 0 then (d, "delpanic panicked=true vig=0 destroy=done")
    else (d, s!"delpanic panicked=true vig={v} destroy=stuck\t#F:C17-counter-leaks-on-early-exit")
  | ["destroysave"] =>
    -- the LTS of Hv.Conc.VigilMu: one operation in flight (`begin`), `destroy` starts; then everything that can run, runs
    let cfg : Hv.VigilMu.Cfg := ⟨!d.drainBeforeMu⟩
    let s1 := (Hv.VigilMu.run cfg Hv.VigilMu.init [.begin, .dStart]).getD Hv.VigilMu.init
    let fin := Hv.VigilMu.run cfg Hv.VigilMu.init [.begin, .dStart, .rlock, .runlock, .cease, .dDrained, .dTear, .dUnlock]
    let mu := if s1.muW then "held" else "free"
    match fin with
    | some _ => (d, s!"destroysave mu={mu} done")
    | none => (d, s!"destroysave mu={mu} stuck\t#F:C17-destroy-locks-swamp-before-drain")
  | ["closefail"] =>
    if d.closeCancels then (d, "closefail returned") else (d, "closefail stuck\t#F:C17-close-never-completes")
  | ["begin"] =>
    let d := { act d .begin with opn := d.opn + 1 }
    (d, s!"begin {render d}")
  | ["cease"] =>
    if d.opn == 0 then (d, "skip") else
    let d := { d with opn := d.opn - 1 }
    if d.muHeld && d.cfg.decUnderLock then
      let d := { d with bc := d.bc + 1, muQueue := d.muQueue ++ [none] }
      (d, s!"cease queued {render d}")
    else
    if d.cfg.decUnderLock then
      if d.held.isSome then
        let d := { d with bc := d.bc + 1 }
        (d, s!"cease blocked {render d}")
      else
        let d := { ceaseUnderLock d with hc := d.hc + 1 }
        (d, s!"cease held {render d}")
    else
      let d := { act d .cDec with hc := d.hc + 1 }
      (d, s!"cease held {render d}")
  | ["bcast"] =>
    if d.hc == 0 then (d, "skip") else
    if d.held.isSome && (List.range d.n).any (fun w => letter (d.s.wpc w) == "p") then (d, "busy") else
    let d := { act d .bcast with hc := d.hc - 1 }
    let d := settle d
    (d, s!"bcast {render d}")
  | ["wait"] =>
    if d.held.isSome || (d.muHeld && (d.muQueue.getLast?.bind id).isSome) then (d, "busy") else
    if d.muHeld then
      let w := d.n
      let d := { d with n := d.n + 1, muQueue := d.muQueue ++ [some w] }
      (d, s!"wait {w + 1} queued {render d}")
    else
    let w := d.n
    let d := acts { d with n := d.n + 1 } [.wLock w, .wCheck w]
    if d.s.wpc w == .checked then
      let d := { d with held := some w }
      (d, s!"wait {w + 1} checked {render d}")
    else (d, s!"wait {w + 1} done {render d}")
  | ["wgo", ns] =>
    match ns.toNat? with
    | none => (d, "skip")
    | some k =>
      if k == 0 || d.held != some (k - 1) then (d, "skip") else
      let w := k - 1
      let d := acts { d with held := none } [.wAdd w, .wPark w]
      -- CeaseVigil calls that waited for the mutex take it now
      let d := (List.range d.bc).foldl (fun d _ => { ceaseUnderLock d with hc := d.hc + 1, bc := d.bc - 1 }) d
      (d, s!"wgo {k} parked {render d}")
  | ["expect", ns] =>
    match ns.toNat? with
    | none => (d, "skip")
    | some k =>
      if k == 0 || k > d.n then (d, "skip") else
      let w := k - 1
      match d.s.wpc w with
      | .done => (d, s!"expect {k} done {render d}")
      | .checked => (d, s!"expect {k} checked {render d}")
      | _ =>
        if stuckB d.s w then (d, s!"expect {k} stuck {render d}\t#F:{finding d.cfg}")
        else (d, s!"expect {k} parked {render d}")
  -- (the last-key Delete: one auto-destroy fired inside a vigil pair ⇒ the dead instance's counter is −1,
  --  `Hv.C17.defer_balance_autodestroy`)
  | ["rpcs"] =>
    -- the Delete that empties its swamp: shape [vigPair, autoDestroy] with the auto-destroy firing
    let v := (exitAt [.vigPair, .autoDestroy] 2 ⟨0, 0⟩ (!d.retakes)).vig
    (d, s!"rpcs calls=7 sys=false vig=false vigdead={v}" ++ (if v != 0 then "\t#F:C17-double-cease-after-auto-destroy" else ""))
  | _ => (d, "bad-op")

/-! ### Trace inclusion (domain C17s): replay a log of the real vigil under genuine concurrency.
    `cdec` / `checked` / `passed` are logged under `v.mu`.  The increment of `BeginVigil` takes no
    lock: it is bracketed by `bpre` / `bpost` and the model takes its `begin` step at the latest
    at `bpost` — earlier when an observation under the mutex proves the increment has happened.
    Likewise a ceaser's `bcast` lies between its `cdec` and its `bdone`. -/

structure T17 where
  cfg : Cfg
  s : St := init
  /-- BeginVigil calls between `bpre` and `bpost` -/
  pre : Nat := 0
  /-- … of which the model has already taken the `begin` step -/
  early : Nat := 0
  /-- broadcasts the model has taken before their `bdone` -/
  earlyB : Nat := 0
  /-- BeginVigil calls whose `bpost` was logged since the last line logged under the mutex: the
      mutex holder that logs next read the counter at some point after that line, so it may or may
      not have seen them — the model's `begin` steps are taken after its check unless it saw them -/
  posted : Nat := 0

def fire (t : T17) (a : Act) : Option T17 := (step t.cfg t.s a).map (fun s' => { t with s := s' })

def fireAll (t : T17) (as : List Act) : Option T17 := as.foldlM fire t

def flush (t : T17) : T17 :=
  ((fireAll t (List.replicate t.posted .begin)).map (fun t' => { t' with posted := 0 })).getD t

/-- take pending `begin` steps until the model's counter is `v` (exact reading: every posted
    increment is included) -/
def raiseTo (t : T17) (v : Nat) : Option T17 :=
  let t := flush t
  if v < t.s.vigils then none else
  let need := v - t.s.vigils
  if need ≤ t.pre - t.early then
    (fireAll t (List.replicate need .begin)).map (fun t' => { t' with early := t'.early + need })
  else none

/-- waiter `w` is about to look at the counter under the mutex: a sleeping waiter needs a broadcast
    that followed its ticket; then it takes the mutex -/
def wakeAndLock (t : T17) (w : Nat) : Except String T17 :=
  let t1 : Except String T17 :=
    if t.s.wpc w == .parked then
      match fire t .bcast with
      | some t' => .ok { t' with earlyB := t'.earlyB + 1 }
      | none => .error s!"waiter {w} continued although no broadcast followed its ticket"
    else .ok t
  match t1 with
  | .error e => .error e
  | .ok t1 =>
    match fire t1 (.wLock w) with
    | some t2 => .ok t2
    | none => .error s!"waiter {w} holds the mutex while the model's mutex is not free (or it is not woken)"

def tstep (t : T17) (line : String) : T17 × String :=
  match words line with
  | ["case", _] => ({ cfg := t.cfg }, line)
  | ["bpre"] => ({ t with pre := t.pre + 1 }, "ok")
  | ["bpost"] =>
    if t.pre == 0 then (t, "bad bpost: no BeginVigil in progress") else
    if t.early > 0 then ({ t with pre := t.pre - 1, early := t.early - 1 }, "ok") else
    ({ t with pre := t.pre - 1, posted := t.posted + 1 }, "ok")
  | ["cdec", vs] =>
    match vs.toInt? with
    | none => (t, "bad-op")
    | some v =>
      if v < 0 then (t, s!"bad cdec: the counter went negative ({v})") else
      match raiseTo t (v.toNat + 1) with
      | none => (t, s!"bad cdec: counter after the decrement is {v}, the model has {t.s.vigils} in flight (+{t.pre - t.early} beginning)")
      | some t1 =>
        match fireAll t1 (if t.cfg.decUnderLock then [.cLock, .cDec, .cUnlock] else [.cDec]) with
        | some t2 => (t2, "ok")
        | none => (t, "bad cdec: the decrement under the mutex is not a step of the model (mutex not free)")
  | ["bdone"] =>
    if t.earlyB > 0 then ({ t with earlyB := t.earlyB - 1 }, "ok") else
    match fire t .bcast with
    | some t' => (t', "ok")
    | none => (t, "bad bdone: a broadcast without a preceding decrement")
  | ["checked", ws] =>
    match ws.toNat? with
    | none => (t, "bad-op")
    | some w =>
      match wakeAndLock t w with
      | .error e => (t, "bad checked: " ++ e)
      | .ok t1 =>
        let t2 := if t1.s.vigils > 0 then some t1
          else if t1.posted > 0 then (fire t1 .begin).map (fun x => { x with posted := x.posted - 1 })
          else if t1.pre > t1.early then (fire t1 .begin).map (fun x => { x with early := x.early + 1 })
          else none
        match t2 with
        | none => (t, s!"bad checked: waiter {w} saw an operation in flight, the model has none")
        | some t2 =>
          match fireAll t2 [.wCheck w, .wAdd w, .wPark w] with
          | some t3 => if t3.s.wpc w == .parked then (flush t3, "ok") else (t3, "bad checked: not parked")
          | none => (t, "bad checked: not a step")
  | ["passed", ws] =>
    match ws.toNat? with
    | none => (t, "bad-op")
    | some w =>
      match wakeAndLock t w with
      | .error e => (t, "bad passed: " ++ e)
      | .ok t1 =>
        if t1.s.vigils > 0 then (t, s!"bad passed: waiter {w} returned while {t1.s.vigils} operation(s) are in flight") else
        match fire t1 (.wCheck w) with
        | some t2 => if t2.s.wpc w == .done then (flush t2, "ok") else (t2, "bad passed: the model's check does not let the waiter through")
        | none => (t, "bad passed: not a step")
  | ["hang"] => (t, "bad hang: a waiter stayed asleep after every operation had ceased" ++
      (if (List.range 64).any (fun w => stuckB t.s w) then " (the model state is Stuck too)" else ""))
  | _ => (t, "bad-op")

def run (args : List String) : IO UInt32 := do
  let kv := parseArgs args
  let cfg : Cfg := { decUnderLock := arg kv "decrementUnderCondLock" == "yes", checkStrict := arg kv "checkStrict" != "no" }
  if arg kv "mode" == "trace" then
    lineLoop tstep { cfg := cfg }
    return 0
  lineLoop stepLine { cfg := cfg, closeCancels := arg kv "closeCancels" != "no", drainBeforeMu := arg kv "drainBeforeSwampMu" != "no", retakes := arg kv "autoDestroyRetakesVigil" != "no", retryDeferred := arg kv "handlersPaired" != "no" }
  return 0

end Driver.C17
