import Driver.Util
import Hv.Conc.Vigil

/-! Line-protocol driver for the vigil / sync.Cond model (domain C17). Same ops and reply format
    as `/verif/harness/c17.go`; each op is a fixed sequence of LTS actions (the harness stops the
    real goroutines at the same places).  `expect W` is followed by `\t#F:<finding>` when the model
    state is `Stuck` for that waiter. -/
namespace Driver.C17
open Hv.Vigil

structure DSt where
  cfg : Cfg
  s : St := init
  n : Nat := 0               -- waiters created (ids 0..n-1, printed 1..n)
  held : Option Nat := none  -- the waiter stopped after its positive check
  opn : Nat := 0             -- begun and not yet ceased, by op count
  hc : Nat := 0
  bc : Nat := 0
  /-- the harness holds the mutex; what lined up on it: `none` = a CeaseVigil, `some w` = waiter `w` -/
  muHeld : Bool := false
  closeCancels : Bool := true
  muQueue : List (Option Nat) := []

def act (d : DSt) (a : Act) : DSt :=
  match step d.cfg d.s a with
  | some s' => { d with s := s' }
  | none => d

def acts (d : DSt) (as : List Act) : DSt := as.foldl act d

def letter (pc : WPc) : String :=
  match pc with
  | .done => "d"
  | .checked => "c"
  | .idle => "q"
  | _ => "p"

def render (d : DSt) : String :=
  let ws := (List.range d.n).map (fun w => letter (d.s.wpc w))
  s!"v={d.s.vigils} hc={d.hc} bc={d.bc} w=[{String.join ws}]"

/-- every woken waiter re-locks and re-checks; with a positive check it goes back to sleep -/
def settle (d : DSt) : DSt :=
  (List.range d.n).foldl (fun d w =>
    if d.s.wpc w == .woken then
      let d := acts d [.wLock w, .wCheck w]
      if d.s.wpc w == .checked then acts d [.wAdd w, .wPark w] else d
    else d) d

def ceaseUnderLock (d : DSt) : DSt := acts d [.cLock, .cDec, .cUnlock]

def finding (cfg : Cfg) : String :=
  if !cfg.checkStrict then "C17-wait-never-returns" else "C17-lost-wakeup"

def stepLine (d : DSt) (line : String) : DSt × String :=
  let ws := words line
  if d.muHeld && !(ws.head? ∈ [some "begin", some "cease", some "wait", some "freemu", some "case"]) then (d, "busy") else
  match ws with
  | ["case", _] => ({ cfg := d.cfg, closeCancels := d.closeCancels }, line)
  | ["holdmu"] =>
    if d.held.isSome then (d, "busy") else
    let d := { d with muHeld := true }
    (d, s!"holdmu {render d}")
  | ["freemu"] =>
    if !d.muHeld then (d, "skip") else
    -- the line gets the mutex in order
    let (d, res) := d.muQueue.foldl (fun (acc : DSt × List String) who =>
      let d := acc.1
      match who with
      | none =>
        if d.held.isSome then (d, acc.2 ++ ["c:blocked"]) else
        let d := if d.cfg.decUnderLock then ceaseUnderLock d else act d .cDec
        ({ d with hc := d.hc + 1, bc := d.bc - 1 }, acc.2 ++ ["c:held"])
      | some w =>
        let d := acts d [.wLock w, .wCheck w]
        if d.s.wpc w == .checked then ({ d with held := some w }, acc.2 ++ [s!"{w + 1}:checked"])
        else (d, acc.2 ++ [s!"{w + 1}:done"])) ({ d with muHeld := false }, [])
    let d := { d with muQueue := [] }
    (d, s!"freemu {" ".intercalate res} {render d}")
  | ["closefail"] =>
    if d.closeCancels then (d, "closefail returned") else (d, "closefail stuck\t#F:C17-close-never-completes")
  | ["begin"] =>
    let d := { act d .begin with opn := d.opn + 1 }
    (d, s!"begin {render d}")
  | ["cease"] =>
    if d.opn == 0 then (d, "skip") else
    let d := { d with opn := d.opn - 1 }
    if d.muHeld && d.cfg.decUnderLock then
      let d := { d with bc := d.bc + 1, muQueue := d.muQueue ++ [none] }
      (d, s!"cease queued {render d}")
    else
    if d.cfg.decUnderLock then
      if d.held.isSome then
        let d := { d with bc := d.bc + 1 }
        (d, s!"cease blocked {render d}")
      else
        let d := { ceaseUnderLock d with hc := d.hc + 1 }
        (d, s!"cease held {render d}")
    else
      let d := { act d .cDec with hc := d.hc + 1 }
      (d, s!"cease held {render d}")
  | ["bcast"] =>
    if d.hc == 0 then (d, "skip") else
    if d.held.isSome && (List.range d.n).any (fun w => letter (d.s.wpc w) == "p") then (d, "busy") else
    let d := { act d .bcast with hc := d.hc - 1 }
    let d := settle d
    (d, s!"bcast {render d}")
  | ["wait"] =>
    if d.held.isSome || (d.muHeld && (d.muQueue.getLast?.bind id).isSome) then (d, "busy") else
    if d.muHeld then
      let w := d.n
      let d := { d with n := d.n + 1, muQueue := d.muQueue ++ [some w] }
      (d, s!"wait {w + 1} queued {render d}")
    else
    let w := d.n
    let d := acts { d with n := d.n + 1 } [.wLock w, .wCheck w]
    if d.s.wpc w == .checked then
      let d := { d with held := some w }
      (d, s!"wait {w + 1} checked {render d}")
    else (d, s!"wait {w + 1} done {render d}")
  | ["wgo", ns] =>
    match ns.toNat? with
    | none => (d, "skip")
    | some k =>
      if k == 0 || d.held != some (k - 1) then (d, "skip") else
      let w := k - 1
      let d := acts { d with held := none } [.wAdd w, .wPark w]
      -- CeaseVigil calls that waited for the mutex take it now
      let d := (List.range d.bc).foldl (fun d _ => { ceaseUnderLock d with hc := d.hc + 1, bc := d.bc - 1 }) d
      (d, s!"wgo {k} parked {render d}")
  | ["expect", ns] =>
    match ns.toNat? with
    | none => (d, "skip")
    | some k =>
      if k == 0 || k > d.n then (d, "skip") else
      let w := k - 1
      match d.s.wpc w with
      | .done => (d, s!"expect {k} done {render d}")
      | .checked => (d, s!"expect {k} checked {render d}")
      | _ =>
        if stuckB d.s w then (d, s!"expect {k} stuck {render d}\t#F:{finding d.cfg}")
        else (d, s!"expect {k} parked {render d}")
  -- (the last-key Delete: one auto-destroy fired inside a vigil pair ⇒ the dead instance's counter is −1,
  --  `Hv.C17.defer_balance_autodestroy`)
  | ["rpcs"] => (d, "rpcs calls=7 sys=false vig=false vigdead=-1")
  | _ => (d, "bad-op")

def run (args : List String) : IO UInt32 := do
  let kv := parseArgs args
  let cfg : Cfg := { decUnderLock := arg kv "decrementUnderCondLock" == "yes", checkStrict := arg kv "checkStrict" != "no" }
  lineLoop stepLine { cfg := cfg, closeCancels := arg kv "closeCancels" != "no" }
  return 0

end Driver.C17
