import Driver.Util
import Hv.Misc.Request

/-! Driver for domain C26.  Facts arrive as `loadChecksLen=…`, `checkName=…`, `handlers=…`
    (handler strings separated by newlines, grammar of `Hv/Misc/Request.lean`).  For every
    request line the driver predicts, from the request's *shape* and the extracted guard
    programs alone, what the caller sees:

      resp | body | err CODE KEY | nilnil | panic      p= lock= vig= store= close=

    `body` = the prefix lets the request through to the engine (whose answer is a parameter of
    the model): the implementation must then answer `resp` or an error that is not one of the
    prefix's own rejections.  A reply that violates the Spec carries `#F:C26-<rpc>-<shape>`. -/
namespace Driver.C26
open Hv.Request

def bit (s : String) (pre : String) : Bool := s == pre ++ "1"

def parseEntry (s : String) : Entry :=
  (s.splitOn ",").foldl (fun e t =>
    if t.startsWith "p" && (t.drop 1).toString.toNat?.isSome then { e with nameParts := (t.drop 1).toString.toNat?.getD 3 }
    else if t.startsWith "nl" then { e with nameLong := bit t "nl" }
    else if t.startsWith "ne" then { e with nameEmpty := bit t "ne" }
    else if t.startsWith "ep" then { e with emptyPart := bit t "ep" }
    else if t.startsWith "x" then { e with exist := bit t "x" }
    else if t.startsWith "kv" then { e with kvNil := bit t "kv" }
    else if t.startsWith "kb" then { e with keyBad := bit t "kb" }
    else if t.startsWith "fn" then { e with fromNeg := bit t "fn" }
    else if t.startsWith "lh" then { e with lockHeld := bit t "lh" }
    else if t.startsWith "k" then
      { e with keys := if t == "kN" then .nil else if t == "kE" then .empty else if t == "kF" then .firstEmpty else .ok }
    else if t.startsWith "iz" then { e with incZero := bit t "iz" }
    else if t.startsWith "oe" then { e with opsEmpty := bit t "oe" }
    else if t.startsWith "mn" then { e with metaNil := bit t "mn" }
    else if t.startsWith "pe" then { e with patchesEmpty := bit t "pe" }
    else if t.startsWith "cap" then
      { e with cap := if t == "capM" then .badMax else if t == "capF" then .noFilter else if t == "capB" then .badBody
                      else if t == "capO" then .ok else .absent }
    else if t.startsWith "lk" then { e with lockKeyEmpty := bit t "lk" }
    else if t.startsWith "li" then { e with lockIdEmpty := bit t "li" }
    else if t == "t0" || t == "t1" then { e with telemetryOff := t == "t1" }
    else e) ({} : Entry)

def parseShape (s : String) : Shape :=
  (words s).foldl (fun sh t =>
    if t.startsWith "top=" then { sh with top := parseEntry (t.drop 4).toString }
    else if t.startsWith "e=" then { sh with entries := sh.entries ++ [parseEntry (t.drop 2).toString] }
    else sh) ({} : Shape)

/-- which feature of the request is to blame (same tags as `Hv.Request.candEntries`) -/
def blame (es : List Entry) : String :=
  if es.any (fun e => !e.nameEmpty && e.nameParts < 3) then "shortname"
  else if es.any (fun e => e.nameEmpty) then "emptyname"
  else if es.any (fun e => e.keys == .empty) then "emptykeys"
  else if es.any (fun e => e.keys == .nil) then "nilkeys"
  else if es.any (fun e => !e.exist) then "missingswamp"
  else "valid"

structure St where
  leaked : Bool := false

def step (cfg : Cfg) (st : St) (line : String) : St × String :=
  match line.splitOn " " with
  | "case" :: _ => ({}, line)
  | ["end"] => (st, if st.leaked then "stop=hang lock=1" else "stop=ok lock=0")
  | "req" :: rpc :: mode :: _ =>
    match findHandler cfg rpc with
    | none => (st, "no-handler")
    | some h =>
      let shapeTxt := match line.splitOn " | " with
        | _ :: s :: _ => s
        | _ => ""
      let sh0 := parseShape shapeTxt
      -- mode `p`: the engine panics when it is entered
      let inject := mode == "p"
      let sh : Shape := if inject then { top := { sh0.top with engine := .panics }, entries := sh0.entries.map (fun e => { e with engine := .panics }) } else sh0
      let r := exec cfg h sh
      let engine := r.bodies > 0
      let cls := match r.out with
        | .panicEscapes => "panic"
        | .nilNil => "nilnil"
        | .grpcError c m =>
          -- a stream handler that may stop after MaxResults does not look at the entries behind that point:
          -- once an earlier entry reached the engine, a later entry's rejection is only one possibility
          (if h.mayStop && engine then "bodyor " else "") ++ "err " ++ c.tag ++ " " ++ m
        | .engineHazard _ => "body"       -- the engine is entered; what it does there is the recorded hazard
        | .response => if engine then "body" else "resp"
      let p := match r.out with
        | .nilNil => if h.okNil then 0 else 1
        | _ => 0
      let lock := if r.lock != 0 then 1 else 0
      let vig := if r.vigil != 0 then 1 else 0
      let hazard := match r.out with | .engineHazard _ => true | _ => false
      let store := if engine || hazard then "any" else "same"
      let rejectedAfterWrite := h.writes && (match r.out with | .grpcError _ _ => true | _ => false) && r.bodies != 0
      -- with an injected engine panic `(nil, nil)` is what a recovering handler yields: only an escaping panic
      -- or an unbalanced counter is a violation there
      let undefinedOut := if inject then r.out == .panicEscapes else !r.out.defined
      let bad := undefinedOut || r.lock != 0 || r.vigil != 0 || rejectedAfterWrite
      -- a handler that fails on the ordinary request too is reported once, not per shape
      let r0 := exec cfg h { top := {}, entries := [{}] }
      let always := !r0.out.defined || r0.lock != 0 || r0.vigil != 0
      let tag := match r.out with
        | .engineHazard t => t
        | _ => if always then "everyrequest" else blame (entriesOf h sh)
      let flag := if bad then "\t#F:C26-" ++ rpc ++ "-" ++ tag else ""
      ({ leaked := st.leaked || r.lock != 0 },
       s!"{cls} p={p} lock={lock} vig={vig} store={store} close=ok{flag}")
  | _ => (st, "bad-op")

def run (args : List String) : IO UInt32 := do
  let kv := parseArgs args
  let cfg : Cfg :=
    { loadChecksLen := arg kv "loadChecksLen" == "yes",
      checkName := parseSteps (arg kv "checkName"),
      handlers := ((arg kv "handlers").splitOn "\n").filter (· ≠ "") |>.map parseHandler }
  lineLoop (step cfg) {}
  return 0

end Driver.C26
