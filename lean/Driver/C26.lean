import Driver.Util

/-! Placeholder: the line-protocol driver of domain C26 is not written yet. -/
namespace Driver.C26

def run (_args : List String) : IO UInt32 := do
  IO.eprintln "drv: domain C26 has no driver yet"
  return 2

end Driver.C26
