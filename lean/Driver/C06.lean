import Driver.C30

/-! Domain C06: every data request of a sequential history is answered from `Hv.Data.Model`;
    a reply is flagged when it (or the resulting store) deviates from `Hv.Data.Spec`.  The
    histories also contain PatchTreasures requests (answered from `Model30`), because they can
    summon a swamp. -/
namespace Driver.C06

def run (args : List String) : IO UInt32 := Driver.C30.runC06 args

end Driver.C06
