import Driver.KV

/-! Domain C06: every data request of a sequential history is answered from `Hv.Data.Model`;
    a reply is flagged when it (or the resulting store) deviates from `Hv.Data.Spec`. -/
namespace Driver.C06

def run (args : List String) : IO UInt32 := Driver.KV.run "C06" .c06 args

end Driver.C06
