import Driver.Util

/-! Placeholder: the line-protocol driver of domain C06 is not written yet. -/
namespace Driver.C06

def run (_args : List String) : IO UInt32 := do
  IO.eprintln "drv: domain C06 has no driver yet"
  return 2

end Driver.C06
