import Driver.Util

/-! Placeholder: the line-protocol driver of domain C20 is not written yet. -/
namespace Driver.C20

def run (_args : List String) : IO UInt32 := do
  IO.eprintln "drv: domain C20 has no driver yet"
  return 2

end Driver.C20
