import Driver.Util
import Hv.Misc.Name
import Hv.Misc.XXHash
import Hv.Misc.Routing
import Hv.Misc.Stack

/-! Line-protocol driver for the addressing model (domain C20).  Same ops and reply format as
    `/verif/harness/c20.go`.  The hash is the Lean xxhash64 (differential-tested by this very
    comparison).  Flags: `C20-island-off-by-one` (island 0, above N, or SDK ≠ server),
    `C20-slice-out-of-range` (the level loop panics for a depth ≥ 0), `C20-default-config-panics`
    (…at the shipped depth / folders-per-level), `C20-separator-collision` (two different triples,
    one location). -/
namespace Driver.C20
open Hv.Name

def hexVal (c : Char) : Option Nat :=
  if '0' ≤ c ∧ c ≤ '9' then some (c.toNat - '0'.toNat)
  else if 'a' ≤ c ∧ c ≤ 'f' then some (c.toNat - 'a'.toNat + 10)
  else none

def unhexBytes : List Char → Option Bytes
  | [] => some []
  | [_] => none
  | a :: b :: rest =>
    match hexVal a, hexVal b, unhexBytes rest with
    | some x, some y, some bs => some (UInt8.ofNat (x * 16 + y) :: bs)
    | _, _, _ => none

def field (s : String) : Option Bytes := if s == "-" then some [] else unhexBytes s.toList

def digitChar (d : Nat) : Char := if d < 10 then Char.ofNat (48 + d) else Char.ofNat (87 + d)
def hexStr (ds : List Nat) : String := String.ofList (ds.map digitChar)
def hexOfBytes (b : Bytes) : String :=
  if b.isEmpty then "-" else String.ofList (b.flatMap fun c => [digitChar (c.toNat / 16), digitChar (c.toNat % 16)])

def hashOf (b : Bytes) : Nat := (Hv.XXHash.sum64 b).toNat

def showOpt : Option Nat → String
  | some i => toString i
  | none => "panic"

def islandHash (n : Name) : Nat := hashOf (n.s ++ n.r ++ n.w)

def renderLoc (l : Loc) : String :=
  "/r/" ++ toString l.island ++ String.join (l.levels.map fun p => "/" ++ hexStr p) ++ "/" ++ hexStr l.folder

def pathOf (cfg : Cfg) (n : Name) (island : Nat) (depth per : Int) : String :=
  match location cfg (hashOf (canon n)) island depth per with
  | some l => renderLoc l
  | none => "panic"

def tri (s : String) : Bool := s == "yes"
def natArg (kv : List (String × String)) (k : String) : Nat := ((arg kv k).toNat?).getD 0

def renderDisk (disk : List Loc) : String :=
  if disk.isEmpty then "-" else ",".intercalate ((disk.mergeSort fun a b => a.island ≤ b.island).map renderLoc)

def showReply : Hv.Stack.Reply → String
  | .served _ => "ok"
  | .refused => "refused"
  | .present b => toString b
  | .closed => "closed"
  | .crash => "panic"

/-- the `srv` op on the model of the serving stack (Hv/Misc/Stack.lean) -/
def srvOp (cfg : Cfg) (threeParts : Bool) (h i1 i2 : Nat) (depth per : Int) : String :=
  let st := Hv.Stack.step cfg 1000 depth per
  let (s1, r1) := st Hv.Stack.Srv.empty (.data i1 h)
  let (s2, _) := st s1 .closeAll
  let (s3, r3) := st s2 (.probe i2 h)
  let (s4, r4) := st s3 (.data i2 h)
  let (s5, _) := st s4 .closeAll
  let (s6, r6) := st s5 (.probe (i1 + i2 + 1) h)
  -- a four-part name: refused by the gateway; without that rule Load keeps the first three parts
  let (s7, r7) := st s6 (if threeParts then .malformed else .data i1 h)
  let (s8, _) := st s7 .closeAll
  let two := s5.disk.length > 1
  s!"set1={showReply r1} p1={renderDisk s2.disk} ex2={showReply r3} set2={showReply r4} p2={renderDisk s5.disk} ex3={showReply r6} four={showReply r7} p3={renderDisk s8.disk}" ++
    (if two then "\t#F:C20-island-unvalidated" else "")

def step (cfg : Cfg) (threeParts : Bool) (_ : Unit) (line : String) : Unit × String :=
  match line.splitOn " " with
  | ["case", _] => ((), line)
  | ["srv", s, r, w, a, b, d, p] =>
    match field s, field r, field w, a.toNat?, b.toNat?, d.toInt?, p.toInt? with
    | some s, some r, some w, some i1, some i2, some depth, some per =>
      if depth < 0 || depth > 8 || per < 1 then ((), "bad-op") else
      ((), srvOp cfg threeParts (hashOf (canon ⟨s, r, w⟩)) i1 i2 depth per)
    | _, _, _, _, _, _, _ => ((), "bad-op")
  | ["wire", s, r, w, nn] =>
    match field s, field r, field w, nn.toNat? with
    | some s, some r, some w, some N =>
      if N == 0 then ((), "bad-op") else
      -- every RPC carries GetIslandID(N) of the name: one island
      ((), s!"islands={showOpt (sdkIsland cfg (islandHash ⟨s, r, w⟩) N)} reached=ok")
    | _, _, _, _ => ((), "bad-op")
  | ["n", s, r, w, nn, d, p] =>
    match field s, field r, field w, nn.toNat?, d.toInt?, p.toInt? with
    | some s, some r, some w, some N, some depth, some per =>
      let n : Name := ⟨s, r, w⟩
      let h := islandHash n
      let sdk := sdkIsland cfg h N
      let srv := if N ≤ 65535 then some (srvIsland cfg h N) else none
      let island := sdk.getD 0
      let path := pathOf cfg n island depth per
      let badIsland :=
        (match sdk with | some i => i == 0 || i > N | none => false) ||
        (match srv with | some v => v != sdk | none => false)
      let f1 := if badIsland then "\t#F:C20-island-off-by-one" else ""
      let f2 := if path == "panic" && depth ≥ 0 then "\t#F:C20-slice-out-of-range" else ""
      let f3 := if path == "panic" && depth == (cfg.defDepth : Int) && per == (cfg.defPer : Int) then "\t#F:C20-default-config-panics" else ""
      let srvS := match srv with | some v => showOpt v | none => "na"
      ((), s!"sdk={showOpt sdk} srv={srvS} path={path} again=same{f1}{f2}{f3}")
    | _, _, _, _, _, _ => ((), "bad-op")
  | ["n2", s, r, w, a, b] =>
    match field s, field r, field w, a.toNat?, b.toNat? with
    | some s, some r, some w, some n1, some n2 =>
      let h := islandHash ⟨s, r, w⟩
      let two (f : Nat → Option Nat) (keyed : Bool) : String × Bool :=
        let x := f n1
        let y := if keyed && n1 != n2 then f n2 else islandCached (x.getD 0) (f n2)
        (s!"{showOpt x},{showOpt y}!{showOpt (f n2)}", y != f n2)
      let (a, sa) := two (sdkIsland cfg h) cfg.cacheKeyedByN
      let (b, sb) := two (srvIsland cfg h) cfg.cacheKeyedByN
      ((), s!"sdk={a} srv={b}" ++ (if sa || sb then "\t#F:C20-island-cache-stale" else ""))
    | _, _, _, _, _ => ((), "bad-op")
  | ["path2", s, r, w, i1, d1, p1, i2, d2, p2] =>
    match field s, field r, field w, i1.toNat?, d1.toInt?, p1.toInt?, i2.toNat?, d2.toInt?, p2.toInt? with
    | some s, some r, some w, some i1, some d1, some p1, some i2, some d2, some p2 =>
      if d1 > 40 || d2 > 40 then ((), "bad-op") else
      let n : Name := ⟨s, r, w⟩
      let h := hashOf (canon n)
      let show1 (o : Option Loc) : String := match o with | some l => renderLoc l | none => "panic"
      let second := secondLocation cfg h i1 d1 p1 i2 d2 p2
      let fresh := location cfg h i2 d2 p2
      ((), s!"p1={show1 (location cfg h i1 d1 p1)} p2={show1 second}!{show1 fresh}" ++ (if second != fresh then "\t#F:C20-path-cache-stale" else ""))
    | _, _, _, _, _, _, _, _, _ => ((), "bad-op")
  | ["chain", s, r, w, nn, d, p] =>
    match field s, field r, field w, nn.toNat?, d.toInt?, p.toInt? with
    | some s, some r, some w, some N, some depth, some per =>
      if N == 0 || N > 65535 || depth < 0 || depth > 1 then ((), "bad-op") else
      let n : Name := ⟨s, r, w⟩
      -- builders return new objects: nothing memoised on the way is inherited
      ((), s!"sdk={showOpt (sdkIsland cfg (islandHash n) N)} path={pathOf cfg n 1 depth per} fresh=true")
    | _, _, _, _, _, _ => ((), "bad-op")
  | ["routes", nn, ranges] =>
    match nn.toNat? with
    | none => ((), "bad-op")
    | some N =>
      let parsed : Option (List Hv.Routing.Server) :=
        if ranges == "-" then some []
        else ((ranges.splitOn ",").zipIdx.mapM fun (r, j) =>
          match r.splitOn "-" with
          | [a, b] => match a.toNat?, b.toNat? with
            | some x, some y => some (⟨x, y, j⟩ : Hv.Routing.Server)
            | _, _ => none
          | _ => none)
      match parsed with
      | none => ((), "bad-op")
      | some servers =>
        if N == 0 || N > 64 || servers.length > 6 then ((), "bad-op") else
        let cells := ((List.range N).map (· + 1)).map fun i =>
          match Hv.Routing.route servers i with
          | some s => s!"{i}:{s.id}"
          | none => s!"{i}:-"
        let fl := match Hv.Routing.gapOrOverlap servers N with
          | some _ => if cfg.validatesRanges then "" else "\t#F:C20-routing-unvalidated"
          | none => ""
        let firstGap := ((List.range N).map (· + 1)).find? fun i => (Hv.Routing.route servers i).isNone
        let call := match firstGap with
          | some _ => if cfg.unroutedIsError then " call=err" else " call=panic"
          | none => ""
        let fl2 := if firstGap.isSome && !cfg.unroutedIsError then "\t#F:C20-unrouted-island-panics" else ""
        ((), ",".intercalate cells ++ call ++ fl ++ fl2)
  | ["load", p] =>
    match field p with
    | some p =>
      match load p with
      | some n => ((), s!"sdk={hexOfBytes (canon n)} srv={hexOfBytes n.s}.{hexOfBytes n.r}.{hexOfBytes n.w}")
      | none => ((), "sdk=panic srv=panic")
    | none => ((), "bad-op")
  | ["pair", a, b, c, x, y, z, d, p] =>
    match field a, field b, field c, field x, field y, field z, d.toInt?, p.toInt? with
    | some a, some b, some c, some x, some y, some z, some depth, some per =>
      let n1 : Name := ⟨a, b, c⟩
      let n2 : Name := ⟨x, y, z⟩
      let p1 := pathOf cfg n1 1 depth per
      let p2 := pathOf cfg n2 1 depth per
      let same := p1 == p2 && p1 != "panic"
      let fl := if same && n1 != n2 && canon n1 == canon n2 then "\t#F:C20-separator-collision" else ""
      ((), s!"p1={p1} p2={p2} {if same then "same" else "diff"}{fl}")
    | _, _, _, _, _, _, _, _ => ((), "bad-op")
  | _ => ((), "bad-op")

def run (args : List String) : IO UInt32 := do
  let kv := parseArgs args
  let cfg : Cfg :=
    ⟨tri (arg kv "sdkPlusOne"), tri (arg kv "srvPlusOne"), natArg kv "srvBits", arg kv "hexVerb" == "no",
     natArg kv "cplMin", tri (arg kv "sliceClampsStart"), tri (arg kv "ctorsRejectSlash"),
     natArg kv "defDepth", natArg kv "defPer", tri (arg kv "routeValidatesRanges"), tri (arg kv "islandCacheKeyedByN"), tri (arg kv "pathCacheKeyedByArgs"), tri (arg kv "unroutedReturnsError"), tri (arg kv "serverChecksIsland")⟩
  lineLoop (step cfg (arg kv "gatewayThreeParts" != "no")) ()
  return 0

end Driver.C20
