import Driver.Util
import Hv.Data.Beacon

/-! Line-protocol driver of domain C07 (same ops as `/verif/harness/c07.go`).

    reply for `q`:  `r k1,k2,…`   the model's page, when the model's list is determined up to ties;
                    `nd`           when it is not (unstable sort / map order decide): then only the
                                   Spec oracle of checks/C07.py judges the implementation's reply;
                    `err noswamp`  when no record is alive.
    `\t#F:<finding>` is appended when the model's own page violates the Spec (exact lines), or
    names the maintenance events that may have broken the list (`nd` lines). -/
namespace Driver.C07
open Hv.Beacon

def ctOf : String → Option CT
  | "void" => some .void | "i8" => some .i8 | "i16" => some .i16 | "i32" => some .i32 | "i64" => some .i64
  | "u8" => some .u8 | "u16" => some .u16 | "u32" => some .u32 | "u64" => some .u64
  | "f32" => some .f32 | "f64" => some .f64 | "str" => some .str | "bool" => some .bool | "bytes" => some .bytes
  | _ => none

def slotOf : String → Option Slot
  | "key" => some .key | "created" => some .created | "updated" => some .updated | "expire" => some .expire
  | s => match ctOf s with
    | some .void => none
    | some .bool => none
    | some .bytes => none
    | some t => some (.value t)
    | none => none

def cmpOf (s : String) : Cmp := if s == "le" then .le else .lt
def resortOf (s : String) : Resort :=
  if s == "own" then .own else if s == "int64" then .int64 else if s == "invalidate" then .invalidate else .none

def optT : String → Option (Option Int)
  | "-" => some none
  | s => s.toInt?.map some

/-- executable Spec oracle on the *model's* page (the implementation's page is judged by
    checks/C07.py, independently) -/
def specOk (res : List Rec) (q : Query) (store : List Rec) : Bool :=
  let carriers := store.filter (carries q.slot)
  let sorted := isort (lessPure q.slot q.asc) carriers
  let expected := page q (inRange q sorted)
  let same (a b : Rec) : Bool :=
    match q.slot with
    | .key => a.key == b.key
    | .value _ => a.val == b.val
    | s => ts s a == ts s b
  res.length == expected.length &&
  (List.zip res expected).all (fun ab => same ab.1 ab.2) &&
  res.all (fun r => carriers.contains r) &&
  (res.map (·.key)).eraseDups.length == res.length

def bsAllLt (cfg : Cfg) : Bool :=
  cfg.bsAscFrom == .lt && cfg.bsAscTo == .lt && cfg.bsDescTo == .lt && cfg.bsDescFrom == .lt

def metaOf : String → Option ExpMeta
  | "-" => some .keep
  | "clear" => some .clear
  | s => s.toInt?.map (fun e => if e == 0 then .keep else .setTo e)

/-- the list the read walks (after the build) -/
def listOf (cfg : Cfg) (st : St) (q : Query) : List Rec :=
  let p := (stepBuild cfg st q).pairs (phys cfg q.slot)
  if q.asc then p.asc else p.desc

def findingOf (cfg : Cfg) (q : Query) (store : List Rec) (causes : List String) (l : List Rec := []) : List String :=
  let stale (id : String) := if causes.isEmpty then [] else [id]
  let outside (b : Option Int) : Bool := match b with | some x => decide (x < minInt64) || decide (x > maxInt64) | none => false
  let window := (if q.slot.isTime && (q.fromT.isSome || q.toT.isSome) && !bsAllLt cfg then ["C07-window-bounds-operator"] else []) ++
    (if q.slot.isTime && !cfg.windowBoundsChecked && (outside q.fromT || outside q.toT) then ["C07-window-bound-wraps"] else [])
  let cold (f : Bool) := if !f && store.any (fun r => !carries q.slot r) then ["C07-cold-build-no-zero-filter"] else []
  (if !cfg.claimLoserRefiled && store.any (fun r => carries q.slot r && !l.any (fun x => x.key == r.key))
    then ["C07-claim-loser-dropped"] else []) ++
  match q.slot with
  | .value t =>
    if store.any (fun r => r.ct != t) then ["C07-value-index-mixed-types"]
    else
      (if causes.contains "mixed" then ["C07-value-index-mixed-types"] else []) ++
      (if causes.contains "insert" then ["C07-value-insert-wrong-comparator"] else []) ++
      (if causes.contains "update" then ["C07-value-update-stale"] else [])
  | .created => stale "C07-created-update-stale" ++ window ++ cold cfg.coldFilterCreated
  | .updated => stale "C07-updated-update-stale" ++ window ++ cold cfg.coldFilterUpdated
  | .expire =>
    (if !cfg.refileGuardExpire && l.any (fun r => r.expire == 0) then ["C07-expire-cleared-refiled"] else []) ++
    (if !cfg.patchExpiredReindexesAll && store.any (fun r => r.expire != 0 && !l.any (fun x => x.key == r.key))
      then ["C07-patch-expired-partial-reindex"] else []) ++
    stale "C07-expire-index-stale" ++ window ++ cold cfg.coldFilterExpire
  | .key => stale "C07-key-index-stale"

def flagStr (fs : List String) : String := String.join (fs.map (fun f => "\t#F:" ++ f))

structure DSt where
  cfg : Cfg
  s : St
  /-- a shift held between its selection pass and its deletes (op `sheld`): threshold, selected keys -/
  held : Option (Int × List String) := none

def step (d : DSt) (line : String) : DSt × String :=
  match line.splitOn " " with
  | ["case", _] => ({ d with s := St.init, held := none }, line)
  | ["sheld", idx, ord, n, v] =>
    match slotOf idx, n.toNat?, v.toInt? with
    | some sl, some n, some v =>
      if (ord != "asc" && ord != "desc") || d.held.isSome then (d, "bad-op") else
      if d.s.store.isEmpty then (d, "done") else
      let q : Query := { slot := sl, asc := ord == "asc", from_ := 0, limit := n, fromT := none, toT := none }
      let (s', keys) := claimSelect d.cfg d.s q v
      ({ d with s := s', held := some (v, keys) }, "held")
    | _, _, _ => (d, "bad-op")
  | ["srelease"] =>
    match d.held with
    | none => (d, "ok")
    | some (v, keys) =>
      let (s', claimed) := claimRelease d.cfg d.s v keys
      ({ d with s := s', held := none }, "r " ++ ",".intercalate claimed)
  | ["set", k, t, v, c, u, e] =>
    match ctOf t, v.toInt?, c.toInt?, u.toInt?, e.toInt? with
    | some ct, some v, some c, some u, some e =>
      ({ d with s := stepSet d.cfg d.s { key := k, ct := ct, val := v, created := c, updated := u, expire := e } }, "ok")
    | _, _, _, _, _ => (d, "bad-op")
  | ["del", k] => ({ d with s := stepDel d.s k }, "ok")
  | ["inc", k, dl, e] =>
    match dl.toInt?, e.toInt? with
    | some dl, some e => ({ d with s := stepInc d.cfg d.s k dl e }, "ok")
    | _, _ => (d, "bad-op")
  | ["race", idx, ord] =>
    match slotOf idx with
    | none => (d, "bad-op")
    | some sl =>
      if ord != "asc" && ord != "desc" then (d, "bad-op") else
      let q : Query := { slot := sl, asc := ord == "asc", from_ := 0, limit := 0, fromT := none, toT := none }
      match answerSecond d.cfg d.s q, answer d.cfg d.s q with
      | some r2, some r1 =>
        let early := !(d.s.pairs (phys d.cfg q.slot)).init && !d.cfg.initialisedAfterFill
        let s' := stepBuild d.cfg d.s q
        let p := s'.pairs (phys d.cfg q.slot)
        let d' := { d with s := s' }
        if p.nd || p.broken then
          (d', "nd" ++ flagStr (findingOf d.cfg q s'.store (if p.broken then "mixed" :: p.causes else p.causes) (if q.asc then p.asc else p.desc)))
        else
          let fl2 := if specOk r2 q s'.store then [] else
            (if early then ["C07-first-readers-race"] else
              match findingOf d.cfg q s'.store p.causes with | [] => ["C07-unexplained"] | fs => fs)
          let fl1 := if specOk r1 q s'.store then [] else
            (match findingOf d.cfg q s'.store p.causes with | [] => ["C07-unexplained"] | fs => fs)
          (d', "r2=" ++ ",".intercalate (r2.map (·.key)) ++ " r1=" ++ ",".intercalate (r1.map (·.key)) ++ flagStr (fl2 ++ fl1).eraseDups)
      | _, _ => (d, "r2=err noswamp r1=err noswamp")
  | ["shiftexp"] =>
    if d.s.store.isEmpty then (d, "err noswamp") else
    let l := shiftList d.cfg d.s
    let p := (stepBuild d.cfg d.s expireAll).pairs (phys d.cfg .expire)
    let d' := { d with s := stepShiftExpired d.cfg d.s }
    if p.nd || p.broken then (d', "nd" ++ flagStr (findingOf d.cfg expireAll d.s.store p.causes p.asc))
    else
      let fl := if specOk l expireAll d.s.store then [] else
        (match findingOf d.cfg expireAll d.s.store p.causes p.asc with | [] => ["C07-unexplained"] | fs => fs)
      (d', "r " ++ ",".intercalate (l.map (·.key)) ++ flagStr fl)
  | ["patch", k, e] =>
    match metaOf e with
    | none => (d, "bad-op")
    | some m =>
      let rep := match findKey k d.s.store with
        | none => "notfound"
        | some o => if o.ct == .bytes then "patched" else if o.ct == .void then "notfound" else "mismatch"
      ({ d with s := stepPatch d.cfg d.s k m }, rep)
  | ["patchc", k, e] =>
    match metaOf e with
    | none => (d, "bad-op")
    | some m =>
      let rep := match findKey k d.s.store with
        | none => "created"
        | some o => if o.ct == .bytes then "patched" else if o.ct == .void then "created" else "mismatch"
      ({ d with s := stepPatchCreate d.cfg d.s k m }, rep)
  | ["shiftkeys", ks] =>
    let keys := (ks.splitOn ",").filter (· != "")
    let (s', out) := keys.foldl (fun (acc : St × List String) k =>
      match findKey k acc.1.store with
      | none => acc
      | some _ => (stepDel acc.1 k, acc.2 ++ [k])) (d.s, [])
    ({ d with s := s' }, "r " ++ ",".intercalate out)
  | ["patchexp", e] =>
    match metaOf e with
    | none => (d, "bad-op")
    | some m =>
      if d.s.store.isEmpty then (d, "r ") else
      let l := shiftList d.cfg d.s
      let p := (stepBuild d.cfg d.s expireAll).pairs (phys d.cfg .expire)
      let d' := { d with s := stepPatchExpired d.cfg d.s m }
      if p.nd || p.broken then (d', "nd" ++ flagStr (findingOf d.cfg expireAll d.s.store p.causes p.asc))
      else
        let fl := if specOk l expireAll d.s.store then [] else
          (match findingOf d.cfg expireAll d.s.store p.causes p.asc with | [] => ["C07-unexplained"] | fs => fs)
        (d', "r " ++ ",".intercalate (l.map (·.key)) ++ flagStr fl)
  | ["shiftmatch", idx, ord, lim, ft, tt] =>
    match slotOf idx, lim.toNat?, optT ft, optT tt with
    | some sl, some lim, some ft, some tt =>
      if ord != "asc" && ord != "desc" then (d, "bad-op") else
      let q : Query := { slot := sl, asc := ord == "asc", from_ := 0, limit := lim, fromT := ft, toT := tt }
      if d.s.store.isEmpty then (d, "r ") else
      let l := matchList d.cfg d.s q
      let p := (stepBuild d.cfg d.s q).pairs (phys d.cfg q.slot)
      let d' := { d with s := stepShiftMatch d.cfg d.s q }
      if p.nd || p.broken then (d', "nd" ++ flagStr (findingOf d.cfg q d.s.store p.causes (listOf d.cfg d.s q)))
      else
        let fl := if specOk l q d.s.store then [] else
          (match findingOf d.cfg q d.s.store p.causes (listOf d.cfg d.s q) with | [] => ["C07-unexplained"] | fs => fs)
        (d', "r " ++ ",".intercalate (l.map (·.key)) ++ flagStr fl)
    | _, _, _, _ => (d, "bad-op")
  | ["reload"] => ({ d with s := if d.s.store.isEmpty then d.s else stepReload d.s }, "ok")
  | ["q", idx, ord, fr, lim, ft, tt, _via] =>
    -- a negative Limit: `GetManyFromOrderPosition` computes a non-positive result size — nothing (the index is built all the same)
    if (lim.toInt?.getD 0) < 0 then
      (match slotOf idx with
       | some sl =>
         if d.s.store.isEmpty then (d, "err noswamp") else
         ({ d with s := stepBuild d.cfg d.s { slot := sl, asc := ord == "asc", from_ := 0, limit := 0, fromT := none, toT := none } }, "r ")
       | none => (d, "bad-op")) else
    match slotOf idx, fr.toInt?, lim.toNat?, optT ft, optT tt with
    | some sl, some fr, some lim, some ft, some tt =>
      if ord != "asc" && ord != "desc" then (d, "bad-op") else
      -- (`GetTreasuresByBeacon`: `if from < 0 { from = 0 }`)
      let q : Query := { slot := sl, asc := ord == "asc", from_ := fr.toNat, limit := lim, fromT := ft, toT := tt }
      match answer d.cfg d.s q with
      | none => (d, "err noswamp")
      | some res =>
        let s' := stepBuild d.cfg d.s q
        let p := s'.pairs (phys d.cfg q.slot)
        let d' := { d with s := s' }
        if p.nd || p.broken then
          (d', "nd" ++ flagStr (findingOf d.cfg q s'.store (if p.broken then "mixed" :: p.causes else p.causes) (if q.asc then p.asc else p.desc)))
        else
          let ok := specOk res q s'.store
          let fl := if ok then [] else
            (match findingOf d.cfg q s'.store p.causes (if q.asc then p.asc else p.desc) with
             | [] => ["C07-unexplained"]
             | fs => fs)
          (d', "r " ++ ",".intercalate (res.map (·.key)) ++ flagStr fl)
    | _, _, _, _, _ => (d, "bad-op")
  | _ => (d, "bad-op")

def yes (kv : List (String × String)) (k : String) : Bool := arg kv k == "yes"

def run (args : List String) : IO UInt32 := do
  let kv := parseArgs args
  let cfg : Cfg := {
    bsAscFrom := cmpOf (arg kv "bsAscFrom"), bsAscTo := cmpOf (arg kv "bsAscTo"),
    bsDescTo := cmpOf (arg kv "bsDescTo"), bsDescFrom := cmpOf (arg kv "bsDescFrom"),
    resortKey := resortOf (arg kv "resortKey"), resortCreated := resortOf (arg kv "resortCreated"),
    resortUpdated := resortOf (arg kv "resortUpdated"), resortExpire := resortOf (arg kv "resortExpire"),
    resortValue := resortOf (arg kv "resortValue"),
    coldFilterCreated := yes kv "coldFilterCreated", coldFilterUpdated := yes kv "coldFilterUpdated",
    coldFilterExpire := yes kv "coldFilterExpire", coldFilterValueType := yes kv "coldFilterValueType",
    addGuardCreated := yes kv "addGuardCreated", addGuardUpdated := yes kv "addGuardUpdated",
    addGuardExpire := yes kv "addGuardExpire", addGuardValueType := yes kv "addGuardValueType",
    updRefreshCreated := yes kv "updRefreshCreated", updRefreshUpdated := yes kv "updRefreshUpdated",
    updRefreshValue := yes kv "updRefreshValue", updRefreshExpireOnFlag := yes kv "updRefreshExpireOnFlag",
    typeChangeDetected := yes kv "typeChangeDetected", valueShared := yes kv "valueShared",
    flagsSticky := yes kv "flagsSticky", setVoidClearsTyped := yes kv "setVoidClearsTyped",
    initialisedAfterFill := yes kv "initialisedAfterFill", refileGuardExpire := yes kv "refileGuardExpire",
    patchExpiredReindexesAll := yes kv "patchExpiredReindexesAll", windowBoundsChecked := yes kv "windowBoundsChecked",
    claimLoserRefiled := yes kv "claimLoserRefiled" }
  lineLoop step { cfg := cfg, s := St.init }
  return 0

end Driver.C07
