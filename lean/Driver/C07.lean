import Driver.Util

/-! Placeholder: the line-protocol driver of domain C07 is not written yet. -/
namespace Driver.C07

def run (_args : List String) : IO UInt32 := do
  IO.eprintln "drv: domain C07 has no driver yet"
  return 2

end Driver.C07
