"""C03 — compaction never changes the stored state (every entry point, every leftover temp file, every crash point)."""
from . import common as K
from . import stor as S

META = {
    "level": "proof",
    "technique": ("Lean 4 theorems over a cell-level disk/crash model (all main files, temp contents, iteration orders, crash points) "
                  "+ go/ast fact tie + correspondence on the strace-captured syscall log of the real compactor, crash images "
                  "materialised and loaded through the real reader/chronicler"),
    "text": ("Hv.C03.compact_preserves: an entry point that removes the temp before NewFileWriterWithName leaves a loadable file with "
             "the same live records, for every main file, every temp content, every map-iteration order and block size; "
             "compact_stale_temp_resurrects / not_preserves_of_stale: an entry point that does not, appends to a parseable stale temp "
             "and resurrects its keys; compact_crash_atomic: with fsync-before-rename every crash image (torn writes, lost unsynced "
             "data with kept metadata) has the old main file or is the finished compaction; compact_no_fsync_loses refutes it "
             "otherwise; compaction_anywhere: compactions inserted anywhere between the writing sessions of a history leave a file that "
             "loads to the replay of everything written; compaction_mid_session: the same at the granularity of single chronicler calls "
             "(Write/Sync/Close, locked compactions on an open writer that still buffers entries, offline compactions while no writer "
             "is open) — both are clauses of Holds; the facts lockedClosesWriterFirst, cliAbortsWhenStopFails (the CLI never compacts under a "
             "running server) and wrappersDelegate (CompactIfNeeded / ForceCompact / CompactDirectory are Compactor.Compact on one file "
             "or nothing) tie the entry points to the statements; classify_sound decides from the extracted facts (incl. the block-reader facts of "
             "C04 and the count-bound flush rule the model relies on).  The byte-level codec is a parameter (assumptions A1/A2 "
             "in Hv/Storage/Disk.lean), exercised by the correspondence run."),
    "note": ("Trusted: Lean kernel (propext, Classical.choice, Quot.sound); extract/c02.go+c03.go; harness/c02.go+c03.go (strace parser, "
             "image materialiser); crash model of Hv/Storage/Disk.lean (prefix order, fsync as barrier, metadata may outlive data); "
             "trigger conditions of maybeCompactInline are not modelled (the trace says when a compaction ran); a block holds at "
             "most 65535 entries (MkOk is assumed for such batches only; the writer model flushes at that count, fact flushesAtCountBound)."),
    "design_ref": "§8 C03",
}

FINDINGS = {
    "C03-cli-stale-temp": "Compactor.Compact (hydraidectl compact) opens an existing <file>.compact for append: a stale temp's "
                          "records are resurrected, a torn one makes the swamp unloadable",
    "C03-locked-stale-temp": "runCompactionLocked appends to a leftover temp file",
    "C03-load-stale-temp": "CompactFromIndex (Load self-heal) appends to a leftover temp file",
    "C03-rename-without-fsync": "the temp file is renamed over the swamp file without an fsync: power loss can leave an empty swamp file",
    "C03-crash-not-atomic": "a crash image inside compaction loads to a state that is neither the old nor the new one",
}


def spec_scan(ops, impl):
    """Spec oracle on the implementation's replies alone: the live set before, during (crash
    images) and after every compaction equals the replay of the writes handed to Write()."""
    bad = []
    spec = {}
    for i, op in enumerate(ops):
        if i >= len(impl):
            break
        f = op.split(" ")
        rep = impl[i]
        if f[0] == "case":
            spec = {}
        elif f[0] == "act" and f[1] == "w" and spec is not None:
            S.apply_items(spec, f[2])
        elif f[0] == "plant" and f[2] == "trunc":
            spec = None      # the file was cut by hand: the next load defines the expected state
        elif f[0] == "act" and f[1] == "load" and spec is None:
            got = rep.split(" ")[1] if " " in rep else "-"
            spec = {}
            if got not in ("-", "?"):
                for kv in got.split(","):
                    k, v = kv.split("=")
                    spec[int(k)] = v
        elif f[0] == "act" and f[1] == "load":
            got = rep.split(" ")[1] if " " in rep else "?"
            if got != S.fmt_state(spec):
                bad.append((i, "load after compaction returned %s, the records written are %s" % (got, S.fmt_state(spec)), "state"))
        elif f[0] == "img":
            r = S.parse_img_reply(rep)
            want = S.fmt_state(spec)
            after = dict(spec)
            after[9000] = "77"
            if r.get("C") != want:
                bad.append((i, "crash image %s inside compaction loads %s, expected %s" % (" ".join(f[1:]), r.get("C"), want), "state"))
            elif "A" in r and r["A"] != S.fmt_state(after):
                bad.append((i, "append after recovery from crash image %s: reload gives %s, expected %s"
                            % (" ".join(f[1:]), r.get("A"), S.fmt_state(after)), "state"))
    return bad


CLASSES = {}   # every C03 finding is about the same clause: the live set changed


def spec_violated(rep):
    return S.first_relevant(rep, spec_scan, K.known_ids("C03"), CLASSES)


def run(ctx):
    facts, _, _ = K.extract_facts(ctx)
    K.lean_verdict(ctx)
    corrs = []
    c = K.Corr()
    if K.build_hx(ctx) and K.build_drv(ctx):
        args = ["%s=%s" % kv for kv in sorted(facts.items())]
        ops, err = S.trace_ops(ctx, "C03T")
        if err:
            c.err = err
        else:
            c = K.correspondence(ctx, "C03", args, ops_text=ops)
        corrs.append(("C03", args, c))
    else:
        ctx.violation("harness does not build against /repo", {"correspondence": "C03", "log": getattr(ctx, "hx_log", "")[-2000:]},
                      tag="build", found_input=False)
    for _, _, cc in corrs:   # keep replays small: hex payloads are not needed to re-run a case script
        pass
    K.decide_standard(ctx, corrs, FINDINGS)
    covered = S.impl_reported(ctx, spec_violated)
    K.report_mismatch(ctx, spec_violated)
    # Spec oracle over every implementation reply (independent of the model)
    bad = spec_scan(c.ops, c.impl) if not c.err else []
    mism = set(c.mismatch)
    unflagged = [h for h in S.relevant_hits(bad, c.flags, K.known_ids("C03"), CLASSES, -1)
                 if not (covered and h[0] in mism)]
    if unflagged:
        i, why, _ = unflagged[0]
        rep = K.case_replay(c, K.case_of(c, i), upto=i)
        rep.update({"correspondence": "C03", "oracle": "spec_scan", "violations": len(unflagged)})
        ctx.violation("implementation violates the property (not predicted by the model): " + why, rep, tag="spec")
    if ctx.thorough:
        ok, out = K.leanchecker(ctx, ["Hv.Props.C03", "Hv.Storage.Compact", "Hv.Storage.ChronLemmas", "Hv.Storage.DiskLemmas"])
        ctx.cov["leanchecker"] = "ok" if ok else out[-500:]
        if not ok:
            ctx.violation("leanchecker rejected the compiled proofs", {"log": out[-2000:]}, tag="leanchecker", found_input=False)
    by_case = {}
    imgs = 0
    for cs in c.cases:
        title = c.ops[cs[0]].split(" ", 2)[2] if c.ops[cs[0]].count(" ") >= 2 else "?"
        key = " ".join(title.split(" ")[:2])
        by_case[key] = by_case.get(key, 0) + 1
    for op in c.ops:
        if op.startswith("img "):
            imgs += 1
    compactions = sum(1 for op in c.ops if op.startswith("act compact") and not op.endswith(" skip")) + \
        sum(1 for op in c.ops if op.startswith("act load ") and op.split(" ")[2] != "-")
    return K.finish(
        ctx, "proof",
        rule=("cases = generated write histories (small: 2-6 keys with updates/deletes, compacted through the CLI entry "
              "Compactor.Compact or ForceCompaction; large: >= 100 entries crossing the inline thresholds, compacted by the Write "
              "trigger, the Close trigger or the Load self-heal) x planted temp file (none, junk, parseable stale file, stale file "
              "with torn tail, header only, shorter than a header); the real code runs under strace; every traced operation is "
              "compared with the model's predicted operation; every crash point inside each compaction (operation boundaries, torn "
              "offsets {1,15,16,17,mid,len-1} (all offsets in the thorough tier), lossy variants) is materialised and loaded through "
              "the real reader and chronicler, then appended to and reloaded; non-trivial = an img/log/load line; distinct = distinct op lines"),
        samples=[{"op": S.strip_hex(c.ops[i]), "impl": c.impl[i][:160]} for i in range(0, min(len(c.ops), 40), 7) if i < len(c.impl)],
        evaluations=len(c.ops), distinct_nontrivial=len(set(o for o in c.ops if o.split(" ")[0] in ("img", "log", "act"))),
        extra_cov={"correspondence": {"domain": "C03", "cases": len(c.cases), "op_lines": len(c.ops),
                                      "mismatching_lines": len(c.mismatch), "crash_images": imgs, "compactions": compactions,
                                      "cases_by_entry_point_and_temp": by_case, "op_histogram": c.op_hist,
                                      "lines_flagged_by_model": sum(1 for f in c.flags if f),
                                      "spec_oracle_violations": len(bad), "spec_oracle_unflagged": len(unflagged)}},
        trusted=["Lean 4.33.0 kernel", "axioms: propext, Classical.choice, Quot.sound", "extract/c02.go, extract/c03.go",
                 "harness/c02.go, harness/c03.go (strace log parser, crash-image materialiser)",
                 "crash model: prefix order of operations, fsync is a barrier, metadata may outlive unsynced data",
                 "ASSUMED (tested on every image): A1/A2 of Hv/Storage/Disk.lean — an intact block decodes to its entries, anything else fails the checksum"],
    )
