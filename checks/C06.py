"""C06 — single-client API behaves like a simple key-value model."""
from . import common as K
from . import kvcommon as KV

META = {
    "level": "proof",
    "technique": ("Lean 4 refinement proof (one-step simulation + induction over all histories) of an executable model of the "
                  "gateway/swamp/treasure mechanisms against a reference key-value Spec; go/ast fact tie (14 facts); "
                  "correspondence of the model with the real in-process gateway on long mixed histories; independent Python "
                  "reference over the implementation's replies"),
    "text": ("Hv.C06.model_refines_spec: for good facts every history of the 15 non-streaming data RPC families, on every swamp "
             "kind and float arithmetic, is answered exactly as the documented semantics (Hv.Data.Spec) answer it, the stored "
             "contents agree and no request hangs; Hv.C06.C06_partial: for ANY facts the same holds on every history during "
             "which none of the 13 quirk mechanisms fires; wit_* / not_holds_of_not_good: a closed counterexample history for "
             "each bad fact, valid whatever the other facts are; invariants count_eq_size, exists_iff_find, exists_iff_nonempty, "
             "step_total. classify_sound ties the verdict to the facts extracted from gateway.go, swamp.go, treasure.go."),
    "note": ("Trusted: Lean kernel (axioms propext, Classical.choice, Quot.sound only); extract/c06.go; harness/c06.go (requests and "
             "replies go through the protobuf wire encoding, gateway called in-process); IEEE float add/compare are parameters "
             "of the theorems (instantiated natively in the driver). One swamp per history; streaming RPCs, filters, indexes "
             "and patches are outside this property. NaN and -0.0 payloads are not generated. "
             "NOT COVERED by the theorem: more than one swamp per history and the IslandID dimension (the statement is about one swamp; multi-swamp requests are exercised by the verbs mget / mcount / mdel / mset against the same model, per-swamp independence is not proved); Set values never carry NaN or -0.0 (the setters compare with the float comparison, see harness/c06.go)."),
    "design_ref": "§8 C06, App. F",
}

FINDINGS = {
    "C06-sticky-changed-flags": "the *Changed flags of a record are never cleared: Set k v; Set k v answers UPDATED (documented: NOTHING_CHANGED)",
    "C06-meta-always-changed": "metadata setters raise their flag for an equal value: Set with the same CreatedBy answers UPDATED",
    "C06-preepoch-subsecond-accepted": "isValidTimestamp tests seconds>0 || nanos>0: a pre-epoch time with a sub-second part (-0.5 s) is stored, -5 s is dropped",
    "C06-set-void-keeps-value": "SetContentVoid does not clear typed content: Set k 5; Set k void; Get k returns 5",
    "C06-hidden-uint32-slice": "Uint32SlicePush onto a typed or void record attaches a hidden slice: Get shows the old value, Size counts the slice",
    "C06-set-slice-merges": "Set with a uint32 slice pushes into the stored slice instead of replacing it",
    "C06-u32del-self-deadlock": "Uint32SliceDelete calls DeleteTreasure while holding the record guard: removing the last value never returns",
    "C06-u32del-deletes-non-slice": "Uint32SliceDelete on a record that is not a slice deletes the record instead of reporting a type error",
    "C06-failed-increment-leaves-trace": "an Increment whose condition fails has already applied its metadata / parked an in-flight treasure that later requests inherit",
    "C06-empty-swamp-materialised": "Uint32SliceSize/IsValueExist/Delete and failed increments summon a missing swamp: IsSwampExist turns true for an empty swamp",
    "C06-arekeysexist-missing-swamp-error": "AreKeysExist on a missing swamp answers FailedPrecondition (documented: every key false)",
    "C06-count-missing-swamp-error": "Count on a missing swamp answers FailedPrecondition (compared with NotFound) instead of IsExist=false",
    "C06-set-error-entry-duplicated": "a swamp rejected by Set gets two response entries (the error entry and an empty one)",
    "C06-unstorable-key-acknowledged": ("Set / Increment / Uint32SlicePush acknowledge a record under the empty key or a key of 65536 bytes and more "
                                        "(documented since the gateway key validation: InvalidArgument for the whole request, nothing created)"),
    "C06-patch-summons-missing-swamp": ("PatchTreasures without CreateIfNotExist on a swamp that does not exist summons it and stores nothing: "
                                        "an empty swamp stays live (IsSwampExist true, Count 0) although an existing swamp is never empty"),
    "C06-float-set-compares-by-value": ("the float setters decide 'same value' with ==: a Set of -0.0 over +0.0 (or the reverse) answers NOTHING_CHANGED "
                                        "and the stored sign stays; a Set of the NaN that is already stored answers UPDATED. Nothing else is affected."),
    "C06-nan-condition-passes": ("IncrementFloat32/64 evaluate an ordering condition through its complement (`if cur <= ref { fail }` for "
                                 "'greater than'): with a NaN on either side no complement holds, so >, >=, <, <= all count as satisfied "
                                 "and the increment is applied (== and != behave as stated)"),
}


def run(ctx):
    facts, _, _ = K.extract_facts(ctx)
    K.lean_verdict(ctx)
    known = K.known_ids(ctx.pid)
    corrs = []
    if K.build_hx(ctx) and K.build_drv(ctx):
        args = KV.drv_args(facts)
        c = K.correspondence(ctx, "C06", args)
        corrs.append(("C06", args, c))
    else:
        ctx.violation("harness does not build against the repository", {"correspondence": "C06", "log": getattr(ctx, "hx_log", "")[-2000:]},
                      tag="build", found_input=False)
    K.decide_standard(ctx, corrs, FINDINGS)
    K.report_mismatch(ctx, KV.spec_violated_factory(known, ctx))
    c = corrs[0][2] if corrs else K.Corr()
    checked, devs, ostats = (0, [], {})
    if corrs and not c.err:
        checked, devs, ostats = KV.run_oracle(ctx, c, "C06", known)
    if ctx.thorough:
        ok, out = K.leanchecker(ctx, ["Hv.Props.C06", "Hv.Data.KVLemmas6", "Hv.Data.KV"])
        ctx.cov["leanchecker"] = "ok" if ok else out[-500:]
        if not ok:
            ctx.violation("leanchecker rejected the compiled proofs", {"log": out[-2000:]}, tag="leanchecker", found_input=False)
    flagged = {}
    for fl in c.flags:
        for f in fl:
            flagged[f] = flagged.get(f, 0) + 1
    samples = []
    for cs in c.cases[:2]:
        samples.append({"ops": [c.ops[i] for i in cs][:12], "impl": [c.impl[i] for i in cs if i < len(c.impl)][:12]})
    return K.finish(
        ctx, "proof",
        rule=("histories = 12 corpus cases (one per listed finding) + random mixes of set(create/overwrite flags, metadata)/get/getall/"
              "getbykeys/delete/count/iskeyexist/arekeysexist/isswampexist/increment(10 types, conditions, metadata)/uint32 push/"
              "delete/size/isvalueexist/shiftbykeys over 6 keys on in-memory and persistent (write interval 0 and 1 s) swamps, "
              "zero-heavy boundary values; a case is non-trivial when it has >= 3 ops; distinct = distinct case texts; every reply is "
              "compared between the real gateway and the Lean model, and with an independent Python reference"),
        samples=samples,
        evaluations=len(c.ops),
        distinct_nontrivial=K.distinct_cases(c),
        extra_cov={"correspondence": {"domain": "C06", "cases": len(c.cases), "op_lines": len(c.ops),
                                      "mismatching_lines": len(c.mismatch), "op_histogram": c.op_hist,
                                      "reply_histogram": c.reply_hist, "lines_flagged_by_model": flagged},
                   "oracle": {"lines_evaluated": checked, "lines_not_enough_known": ostats.get("unknown", 0), "lines_total": ostats.get("lines", 0), "deviations": len(devs)}},
        trusted=["Lean 4.33.0 kernel", "axioms: propext, Classical.choice, Quot.sound", "extract/c06.go", "harness/c06.go",
                 "IEEE float arithmetic (parameter of the theorems)"],
    )
