"""C22 — SDK model save/read round-trips exactly; a tag name never changes how another part is encoded/decoded."""
from . import common as K
from . import miscutil as U

META = {
    "level": "proof",
    "technique": "Lean 4 theorem over all tag strings (three classifiers of a struct tag) + go/ast fact tie per branch + differential run "
                 "of the real SDK conversion functions (reflect-built probe structs) and save/read through gRPC into the in-process server",
    "text": ("Lean theorem Hv.C22.slots_agree: the encoder loop, the decoder loop and the shape detector of the Go SDK classify EVERY "
             "`hydraide` tag string identically iff each of the 14 branch predicates compares the tag head (agree_of_allHeadEq / "
             "not_holds_of_not_allHeadEq with closed witnesses name+\"X\" for substring tests and name+\",o\" for whole-tag equality); "
             "witness_keywords / witness_values / witness_createdAtX / witness_key_with_option for the legacy predicates; "
             "agree_plain_partial (tags in which no reserved name occurs except as the whole tag); classify_sound ties it to the "
             "predicates extracted from conversions.go. The value half of the property (typed conversions, server precedence of typed "
             "values over the bytes body, metadata) is TESTED end to end, not proved."),
    "note": ("Trusted: Lean kernel (propext, Classical.choice, Quot.sound); extract/c22.go; harness/c22.go + the verif accessors in "
             "sdk/go/hydraidego/verif_export.go. Value round trip per Go kind is covered only for string and time.Time fields in the "
             "end-to-end run (every Go field kind: not covered). Profile models key fields by Go field name and parse options with "
             "exact comparison; they are outside the tag-interference question."),
    "design_ref": "§8 C22",
}

FINDINGS = {
    "C22-substring-tag-match": "the SDK matches reserved tag names by substring: a body field tagged `keywords` is overwritten with the record key "
                               "on read, `values` also becomes the typed value (the server then drops the body), `createdAtX`/`createdByX`/"
                               "`expireAtUnix` write and read the treasure metadata",
    "C22-whole-tag-equality": "the encoder compares the whole tag with \"key\": `hydraide:\"key,omitempty\"` is a key for the decoder and the "
                              "shape detector but not for the encoder (CatalogSave fails with `key field not found`)",
}

RESERVED = ["key", "value", "expireAt", "createdBy", "createdAt", "updatedBy", "updatedAt"]
TIMES = {"expireAt": ("EA", "2240611201"), "createdAt": ("CA", "1609459202"), "updatedAt": ("UA", "1640995203")}
STRS = {"createdBy": ("CB", "tcb"), "updatedBy": ("UB", "tub")}


def _tag(h):
    return "" if h == "-" else bytes.fromhex(h).decode("utf-8", "replace")


def expected(tag):
    """Spec: what each probe must observe when the tag is classified by its head, and only by its head."""
    head = tag.split(",")[0]
    slot = head if head in RESERVED else None
    body = head != "" and slot is None
    shape = "shape=%s body=%s" % ("1" if slot == "value" else ("0" if slot or not body else "2"), head.encode().hex() if body else "")
    b = ",B" if body else ""
    if slot == "key":
        es, et, ds, dt = "K=xv", "err:key", "s:tk", "panic"
    elif slot == "value":
        es, et, ds, dt = "K=kk,V", "K=kk,V", "s:tv", "1900000000"
    elif slot in TIMES:
        es, et, ds, dt = "err:" + slot, "K=kk," + TIMES[slot][0], "panic", TIMES[slot][1]
    elif slot in STRS:
        es, et, ds, dt = "K=kk," + STRS[slot][0], "err:" + slot, "s:" + STRS[slot][1], "panic"
    else:
        es, et, ds, dt = "K=kk" + b, "K=kk" + b, "s:tb" if body else "s:", "1672531204" if body else "zero"
    return "%s es=%s et=%s ds=%s dt=%s" % (shape, es, et, ds, dt)


def oracle(rep):
    for op, line in zip(rep["ops"], rep["impl"]):
        f = op.split(" ")
        if f[0] not in ("tag", "rt"):
            continue
        tag = _tag(f[1])
        fid = "C22-whole-tag-equality" if tag.split(",")[0] in RESERVED else "C22-substring-tag-match"
        if f[0] == "tag" and line != expected(tag):
            return (fid, "tag %r: the SDK conversions observe `%s`, classification by the tag head gives `%s`" % (tag, line, expected(tag)))
        if f[0] == "rt" and line not in ("ok", "err-shape", "bad-op"):
            return (fid, "model with a field tagged %r (%s, extra=%s) does not round-trip through CatalogSave/CatalogRead: %s" % (tag, f[2], f[3], line))
    return None


def spec_violated(rep):
    r = oracle(rep)
    return r[1] if r else None


def run(ctx):
    facts, _, _ = U.extract_facts(ctx)
    K.lean_verdict(ctx)
    corrs = U.run_corr(ctx, "C22", facts)
    K.decide_standard(ctx, corrs, FINDINGS)
    K.report_mismatch(ctx, spec_violated)
    c = corrs[0][2] if corrs else K.Corr()
    hits = 0
    if corrs and not c.mismatch and not c.err:
        for i, (op, line) in enumerate(zip(c.ops, c.impl)):
            r = oracle({"ops": [op], "impl": [line]})
            if r:
                hits += 1
                fid, text = r
                if fid in getattr(ctx, "confirmed", {}):
                    continue
                ctx.violation("implementation violates the property: " + text,
                              {"correspondence": "C22", "drv_args": corrs[0][1], "ops": [op], "impl": [line],
                               "model": [c.model[i] if i < len(c.model) else "<missing>"]}, tag=fid)
                break
    U.leancheck(ctx, ["Hv.Props.C22", "Hv.Misc.SdkTags"])
    rt = [l for o, l in zip(c.ops, c.impl) if o.startswith("rt ")]
    return K.finish(
        ctx, "proof",
        rule=("ops = corpus of 56 adversarial tags (keywords, values, createdAtX, key,omitempty, keyvalue, ' value', '', '-', non-ASCII…) "
              "+ random tags built from reserved names, fragments of them, letters and options; `tag` = shape detector, encoder and "
              "decoder probes (string- and time-typed field) through the real conversion functions; `rt` = reflect-built model "
              "(key, optional metadata fields, the tagged field, a plain body field) saved and read back through gRPC/bufconn and "
              "the in-process gateway, plus a probe read of the metadata; every op is non-trivial; distinct = distinct op lines"),
        samples=[{"op": c.ops[i], "tag": _tag(c.ops[i].split(" ")[1]), "impl": c.impl[i]} for i in range(1, min(len(c.ops), 7))],
        evaluations=len(c.ops), distinct_nontrivial=max(len(set(c.ops)) - len(c.cases), 0),
        extra_cov={"correspondence": {"domain": "C22", "op_lines": len(c.ops), "mismatching_lines": len(c.mismatch),
                                      "op_histogram": c.op_hist, "rt_ok": rt.count("ok"), "rt_bad": sum(1 for l in rt if l.startswith("bad")),
                                      "oracle_hits": hits, "lines_flagged_by_model": sum(1 for f in c.flags if f)}},
        trusted=["Lean 4.33.0 kernel", "axioms: propext, Classical.choice, Quot.sound", "extract/c22.go", "harness/c22.go",
                 "sdk/go/hydraidego/verif_export.go (accessors)", "value conversions: tested end to end, not proved"],
    )
