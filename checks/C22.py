"""C22 — SDK model save/read round-trips exactly; a tag name never changes how another part is encoded/decoded."""
from . import common as K
from . import miscutil as U

META = {
    "level": "proof",
    "technique": "Lean 4 theorem over all tag strings (three classifiers of a struct tag) + go/ast fact tie per branch + differential run "
                 "of the real SDK conversion functions (reflect-built probe structs) and save/read through gRPC into the in-process server",
    "text": ("Lean theorem Hv.C22.slots_agree: the encoder loop, the decoder loop and the shape detector of the Go SDK classify EVERY "
             "`hydraide` tag string identically iff each of the 14 branch predicates compares the tag head (agree_of_allHeadEq / "
             "not_holds_of_not_allHeadEq with closed witnesses name+\"X\" for substring tests and name+\",o\" for whole-tag equality); "
             "witness_keywords / witness_values / witness_createdAtX / witness_key_with_option for the legacy predicates; "
             "agree_plain_partial (tags in which no reserved name occurs except as the whole tag); classify_sound ties it to the "
             "predicates extracted from conversions.go. Value half: Values.convert_roundtrip / body_roundtrip — with the four conversion "
             "tables extracted from the SDK and the gateway (Go kind -> proto field -> server content type -> proto field -> Go kinds) "
             "connecting every kind to itself without a narrowing hop, every well-typed value of the exact domain (all int/uint widths "
             "in range, floats, bool, strings, []byte, slices, maps, pointers, time) comes back unchanged through the value slot and "
             "through a map-body field, with or without omitempty; closed witnesses time_value_truncated, struct_value_dropped, "
             "nil_body_field_unreadable, omitempty_normalises, gob_nil_empty_witness; holds_of_good for repaired flags."),
    "note": ("PROVED (Lean, all inputs): tag classification agreement iff head comparison (slots_agree); value round trip per kind through "
             "the extracted conversion tables incl. integer width/sign of every hop, omitempty, overwrite (convert_roundtrip, body_roundtrip, "
             "Values.holds_of_good) and the closed witnesses. TESTED end to end on every run (real SDK + gRPC + in-process server, compared with "
             "the model line by line): 25 Go field types x boundary/random values x {catalog value, map-body field, profile field} x "
             "{omitempty on/off}, overwrite of a stored value, tag interference on save/read; the whole value matrix a second time on a "
             "sanctuary registered with EncodingMsgPack (ops mval/mupd/mpupd; model: the codec parameter `lib` = identity, gob = gobLib); the "
             "read LOOPS CatalogReadMany / ReadBatch / ReadManyStream / ProfileReadBatch on two records with different optional fields "
             "(op many: every record handed to the iterator equals the saved one, also after the loop). NOT covered: one field at a time is "
             "varied (the other fields of the probe models are fixed), Subscribe / Shift / PatchExpired iterators, metadata VALUES other than "
             "the fixed probe times and strings. PARAMETERS (assumed lawful on non-empty "
             "containers, tested): gob / msgpack codecs, msgpack of scalars inside the map body, IEEE float conversions, protobuf "
             "transport. Arrays and non-UTF-8 strings are refused with an explicit error and are outside the claim. Trusted: Lean kernel "
             "(propext, Classical.choice, Quot.sound); extract/c22.go, extract/c22val.go; harness/c22*.go + sdk verif_export.go. The "
             "patch-expired result decoder (third tag classifier) is fixed but not modelled."),
    "design_ref": "§8 C22",
}

FINDINGS = {
    "C22-substring-tag-match": "the SDK matches reserved tag names by substring: a body field tagged `keywords` is overwritten with the record key "
                               "on read, `values` also becomes the typed value (the server then drops the body), `createdAtX`/`createdByX`/"
                               "`expireAtUnix` write and read the treasure metadata",
    "C22-whole-tag-equality": "the encoder compares the whole tag with \"key\": `hydraide:\"key,omitempty\"` is a key for the decoder and the "
                              "shape detector but not for the encoder (CatalogSave fails with `key field not found`)",
}

FINDINGS.update({
    "C22-nil-body-field-unreadable": "a nil slice / map / pointer in a map-body field without omitempty is saved as msgpack nil; CatalogRead of "
                                     "that treasure then fails with `decode map-body field …: EOF`",
    "C22-value-time-truncated": "a time.Time used as THE value is sent as Unix seconds: the sub-second part does not come back "
                                "(2031-02-03T04:05:06.789Z reads back as …:06Z); in a map-body field it is exact",
    "C22-struct-value-dropped": "a struct (other than time.Time) used as THE value is silently not sent: it reads back as the zero struct, no error",
    "C22-omitempty-normalises": "with omitempty an empty non-nil []byte / slice / map reads back nil and -0.0 reads back +0.0 (isFieldEmpty treats "
                                "len 0 and ±0 as empty)",
    "C22-gob-nil-empty": "gob (library): without omitempty an empty slice value reads back nil and a nil map value reads back empty",
    "C22-void-overwrite-keeps-old-value": "overwriting a stored value with nothing (nil pointer / nil []byte / zero time, or a zero value under omitempty) "
                                          "leaves the OLD value: the server's SetContentVoid does not clear a typed content (save 255, save 0 with "
                                          "omitempty, read -> 255)",
    "C22-embedded-fields-dropped": "the tagged fields of an embedded struct are not persisted (catalog and profile models walk the top-level fields only): "
                                   "they read back as zero values, no error",
    "C22-unexported-field-panics": "an unexported struct field makes the SDK panic: CatalogSave on a tagged one (reflect Interface), ProfileRead after a "
                                   "ProfileSave that stored it (reflect Set)",
    "C22-dash-tag-not-skipped": "`hydraide:\"-\"` is not a skip marker: such fields become map-body fields named \"-\" (two of them overwrite each other, "
                                "next to a `value` field CatalogSave fails with `mixes`), although the repository's own models use it to skip",
    "C22-value-conversion": "a value does not come back through CatalogSave / CatalogRead",
})

RESERVED = ["key", "value", "expireAt", "createdBy", "createdAt", "updatedBy", "updatedAt"]
TIMES = {"expireAt": ("EA", "2240611201"), "createdAt": ("CA", "1609459202"), "updatedAt": ("UA", "1640995203")}
STRS = {"createdBy": ("CB", "tcb"), "updatedBy": ("UB", "tub")}


def _tag(h):
    return "" if h == "-" else bytes.fromhex(h).decode("utf-8", "replace")


_DASH_SKIP = False


def expected(tag):
    """Spec: what each probe must observe when the tag is classified by its head, and only by its head."""
    head = tag.split(",")[0]
    slot = head if head in RESERVED else None
    body = head != "" and slot is None and not (_DASH_SKIP and head == "-")
    shape = "shape=%s body=%s" % ("1" if slot == "value" else ("0" if slot or not body else "2"), head.encode().hex() if body else "")
    b = ",B" if body else ""
    if slot == "key":
        es, et, ds, dt = "K=xv", "err:key", "s:tk", "panic"
    elif slot == "value":
        es, et, ds, dt = "K=kk,V", "K=kk,V", "s:tv", "1900000000"
    elif slot in TIMES:
        es, et, ds, dt = "err:" + slot, "K=kk," + TIMES[slot][0], "panic", TIMES[slot][1]
    elif slot in STRS:
        es, et, ds, dt = "K=kk," + STRS[slot][0], "err:" + slot, "s:" + STRS[slot][1], "panic"
    else:
        es, et, ds, dt = "K=kk" + b, "K=kk" + b, "s:tb" if body else "s:", "1672531204" if body else "zero"
    return "%s es=%s et=%s ds=%s dt=%s" % (shape, es, et, ds, dt)


def val_finding(f, line):
    """finding id for a `val` op whose reply is not `same`, from the op text alone"""
    slot, kind, om, desc = f[1], f[2], f[3] == "1", f[4]
    if line == "err":
        if kind == "arr":
            return "refused"
        if kind == "str":
            try:
                bytes.fromhex("" if desc[2:] == "-" else desc[2:]).decode("utf-8")
            except UnicodeDecodeError:
                return "refused"
        return "C22-nil-body-field-unreadable" if slot == "b" and desc.endswith(":nil") else "C22-value-conversion"
    kind = {"nbytes": "bytes", "nstr": "str", "ni32": "i32"}.get(kind, kind)
    empty = desc in ("y:-", "c:0", "y:nil", "c:nil") or (kind == "f32" and desc == "f:2147483648") or (kind == "f64" and desc == "f:9223372036854775808")
    if om and empty:
        return "C22-omitempty-normalises"
    if kind == "time":
        return "C22-value-time-truncated"
    if kind == "struct":
        return "C22-struct-value-dropped"
    if kind in ("strs", "i64s", "u32s", "map") and slot in ("v", "p"):
        return "C22-gob-nil-empty"
    return "C22-value-conversion"


def oracle(rep):
    for op, line in zip(rep["ops"], rep["impl"]):
        f = op.split(" ")
        if line.startswith("timeout"):
            continue   # the rig did not answer in time (load): common.py re-runs such a case alone with a larger budget
        if f[0] == "many":
            if line not in ("rm=ok rb=ok rs=ok", "pb=ok"):
                return (None, "the records handed to the iterator of a multi-record read are not the records saved (`%s` -> %s: "
                              "diff = wrong during the loop, alias = right during the loop but changed afterwards, NofM = records missing)" % (op, line))
            continue
        if f[0] in ("mval", "mupd", "mpupd"):
            f = [f[0][1:]] + f[1:]   # the same op on a msgpack-encoded swamp: the same Spec
        if f[0] == "shape":
            if line != "same":
                fid = {"embedded": "C22-embedded-fields-dropped", "embedded-pub": "C22-embedded-fields-dropped", "prof-embedded": "C22-embedded-fields-dropped",
                       "unexported-tagged": "C22-unexported-field-panics", "prof-unexported": "C22-unexported-field-panics",
                       "dash": "C22-dash-tag-not-skipped", "dash-value": "C22-dash-tag-not-skipped",
                       "ptrs-nil": "C22-nil-body-field-unreadable"}.get(f[1], "C22-value-conversion")
                return (fid, "model shape `%s` does not survive save + read: %s" % (f[1], line))
            continue
        if f[0] == "pupd":
            if f[2] == "o" and line in ("stale", "diff") and f[4] in ("s:-", "n:0", "f:0", "y:nil", "c:nil", "p:nil", "t:zero", "b:0", "r:0"):
                continue   # documented: an omitted profile field keeps its stored value (use `deletable`)
            if line == "stale":
                return ("C22-void-overwrite-keeps-old-value", "`%s`: the second save did not replace the first value" % op)
            f = ["val", "p", f[1], "1" if f[2] in ("o", "d") else "0", f[4]]
        if f[0] == "upd":
            if line == "stale":
                return ("C22-void-overwrite-keeps-old-value", "`%s`: the second save did not replace the first value" % op)
            f = ["val", f[1], f[2], f[3], f[5]]
        if f[0] == "val":
            if line != "same":
                fid = val_finding(f, line)
                if fid != "refused":
                    return (fid, "`%s`: the value read back is not the value saved (%s)" % (op, line))
            continue
        if f[0] not in ("tag", "rt"):
            continue
        tag = _tag(f[1])
        fid = "C22-whole-tag-equality" if tag.split(",")[0] in RESERVED else "C22-substring-tag-match"
        if f[0] == "tag" and line != expected(tag):
            return (fid, "tag %r: the SDK conversions observe `%s`, classification by the tag head gives `%s`" % (tag, line, expected(tag)))
        if f[0] == "rt" and line not in ("ok", "err-shape", "bad-op"):
            return (fid, "model with a field tagged %r (%s, extra=%s) does not round-trip through CatalogSave/CatalogRead: %s" % (tag, f[2], f[3], line))
    return None


def spec_violated(rep):
    # ops of this domain are independent: judge the op at which model and implementation part ways
    r = oracle({"ops": rep["ops"][-1:], "impl": rep["impl"][-1:]})
    return r[1] if r else None


def run(ctx):
    global _DASH_SKIP
    facts, _, _ = U.extract_facts(ctx)
    _DASH_SKIP = facts.get("dashIsSkip") == "yes"
    K.lean_verdict(ctx)
    corrs = U.run_corr(ctx, "C22", facts)
    K.decide_standard(ctx, corrs, FINDINGS)
    K.report_mismatch(ctx, spec_violated)
    c = corrs[0][2] if corrs else K.Corr()
    hits = 0
    if corrs and not c.err:
        for i, (op, line) in enumerate(zip(c.ops, c.impl)):
            r = oracle({"ops": [op], "impl": [line]})
            if r:
                hits += 1
                fid, text = r
                if fid in getattr(ctx, "confirmed", {}) or fid in K.known_ids(ctx.pid):
                    continue   # a recorded finding (reported by decide_standard when the model predicts it)
                ctx.violation("implementation violates the property: " + text,
                              {"correspondence": "C22", "drv_args": corrs[0][1], "ops": [op], "impl": [line],
                               "model": [c.model[i] if i < len(c.model) else "<missing>"]}, tag=fid)
                break
    U.leancheck(ctx, ["Hv.Props.C22", "Hv.Misc.SdkTags", "Hv.Misc.SdkValuesLemmas", "Hv.Misc.SdkValues"])
    rt = [l for o, l in zip(c.ops, c.impl) if o.startswith("rt ")]
    return K.finish(
        ctx, "proof",
        rule=("ops = corpus of 56 adversarial tags (keywords, values, createdAtX, key,omitempty, keyvalue, ' value', '', '-', non-ASCII…) "
              "+ random tags built from reserved names, fragments of them, letters and options; `tag` = shape detector, encoder and "
              "decoder probes (string- and time-typed field) through the real conversion functions; `rt` = reflect-built model "
              "(key, optional metadata fields, the tagged field, a plain body field) saved and read back through gRPC/bufconn and "
              "the in-process gateway, plus a probe read of the metadata; `val` = one field of each of 25 Go types (all int/uint "
              "widths, floats incl. -0/NaN/Inf/denormal, bool, string, []byte, three slice types, map, three pointer types, time, "
              "struct, array) x boundary table + random values, as THE value and as a map-body field, with and without omitempty, "
              "saved and read back end to end; every op is non-trivial; distinct = distinct op lines"),
        samples=[{"op": c.ops[i], "impl": c.impl[i]} for i in list(range(1, min(len(c.ops), 5))) + [j for j, o in enumerate(c.ops) if o.startswith("val ")][:4]],
        evaluations=len(c.ops), distinct_nontrivial=max(len(set(c.ops)) - len(c.cases), 0),
        extra_cov={"correspondence": {"domain": "C22", "op_lines": len(c.ops), "mismatching_lines": len(c.mismatch),
                                      "op_histogram": c.op_hist, "val_replies": {k: sum(1 for o, l in zip(c.ops, c.impl) if o.split(" ")[0] in ("val", "upd", "pupd") and l == k) for k in ("same", "nilempty", "stale", "diff", "err")},
                                      "rt_ok": rt.count("ok"), "rt_bad": sum(1 for l in rt if l.startswith("bad")),
                                      "oracle_hits": hits, "lines_flagged_by_model": sum(1 for f in c.flags if f)}},
        trusted=["Lean 4.33.0 kernel", "axioms: propext, Classical.choice, Quot.sound", "extract/c22.go", "harness/c22.go",
                 "sdk/go/hydraidego/verif_export.go (accessors)", "value conversions: tested end to end, not proved"],
    )
