"""Reference interpreter of the documented key-value semantics (DESIGN App. F), written
independently of the Lean model, over the line protocol of harness/c06.go.

It looks at the IMPLEMENTATION's replies only.  Lines that the check already attributes to a
listed finding are handed in as `skip` lines: there the oracle forgets what it knew about the
keys involved (the implementation's state deviates from the reference there by definition) and
re-learns it from later read replies.  Every other line must carry exactly the reply the
reference computes, whenever the reference knows enough to compute one.
"""
import struct

UNKNOWN = object()
INT_BITS = {"i8": (8, True), "i16": (16, True), "i32": (32, True), "i64": (64, True),
            "u8": (8, False), "u16": (16, False), "u32": (32, False), "u64": (64, False)}


def wrap(ty, x):
    bits, signed = INT_BITS[ty]
    m = 1 << bits
    y = x % m
    if signed and y >= m // 2:
        y -= m
    return y


def f64(bits):
    return struct.unpack("<d", struct.pack("<Q", bits))[0]


def f64bits(x):
    if x != x:
        return 0x7ff8000000000000        # every NaN is written as the canonical quiet NaN (as the harness does)
    return struct.unpack("<Q", struct.pack("<d", x))[0]


def f32(bits):
    return struct.unpack("<f", struct.pack("<I", bits))[0]


def f32bits(x):
    if x != x:
        return 0x7fc00000
    try:
        return struct.unpack("<I", struct.pack("<f", x))[0]
    except OverflowError:
        return 0x7f800000 if x > 0 else 0xff800000


def valid_key(k):
    """not empty, at most 65535 bytes; `x@N` stands for N letters x"""
    if k == "":
        return False
    if k.startswith("x@") and k[2:].isdigit():
        return int(k[2:]) <= 65535
    return len(k.encode()) <= 65535


def ts_valid(tok):
    """a metadata timestamp counts as supplied iff it is a positive time"""
    if tok == "":
        return False
    if tok[0] == "b":
        return True            # relative to the case base (wall clock): always far after the epoch
    if tok[0] == "a":
        return int(tok[1:]) > 0
    return False


def ts_wire(tok):
    """what a reader is shown: only positive times"""
    if tok == "" or tok[0] == "T":
        return tok
    return tok if ts_valid(tok) else ""


def dedup(xs):
    out = []
    for x in xs:
        if x not in out:
            out.append(x)
    return out


def parse_u32s(s):
    return [int(x) for x in s.split(",")] if s else []


def norm_val(v):
    """request value after protobuf decoding; a stored slice is a set"""
    if v in ("none", "void") or v == "u32s:":
        return "void"
    if v.startswith("u32s:"):
        return "u32s:" + ",".join(map(str, dedup(parse_u32s(v[5:]))))
    return v


def wire_val(v):
    return "void" if v == "u32s:" else v


# environment of the run (fact wireExpNe0): replies show every non-zero ExpiredAt, or only positive ones
EXP_NE0 = False


def show_rec(r):
    exp = r["exp"] if EXP_NE0 else ts_wire(r["exp"])
    return "|".join([wire_val(r["val"]), ts_wire(r["ca"]), r["cb"], ts_wire(r["ua"]), r["ub"], exp])


def parse_rec(tok):
    if tok == "-":
        return None
    f = tok.split("|")
    return {"val": f[0], "ca": f[1], "cb": f[2], "ua": f[3], "ub": f[4], "exp": f[5]}


def blank():
    return {"val": "void", "ca": "", "cb": "", "ua": "", "ub": "", "exp": ""}


class Oracle:
    def __init__(self, kind):
        self.kind = kind
        self.st = {}            # key -> rec | UNKNOWN   (absent keys are not in the dict)
        self.complete = True    # the key set of self.st is the whole swamp
        self.ghost = False      # an empty swamp may nevertheless answer "exists" (listed finding)

    # ---- knowledge -------------------------------------------------------------------------
    def known(self, k):
        """rec, None (absent) or UNKNOWN"""
        if k in self.st:
            return self.st[k]
        return None if self.complete else UNKNOWN

    def exists(self):
        """True / False / UNKNOWN"""
        if any(r is not UNKNOWN for r in self.st.values()):
            return True
        return False if (self.complete and not self.st and not self.ghost) else UNKNOWN

    def forget_existence(self):
        self.ghost = True

    def forget(self, keys=None):
        if keys is None:
            self.st = {k: UNKNOWN for k in self.st}
            self.complete = False
            return
        for k in keys:
            if self.known(k) is not None:
                self.st[k] = UNKNOWN
            else:
                self.st[k] = UNKNOWN   # may or may not exist now
        self.complete = False

    def keys_of(self, f):
        v = f[0]
        if v == "set":
            return [it.split("|")[0] for it in f[2:]]
        if v in ("get", "mget", "gbk", "shift", "del", "mdel", "arek"):
            return f[1:]
        if v == "mset":
            return [it.split("|")[0] for it in f[2:]]
        if v in ("iske", "size", "hasval"):
            return [f[1]]
        if v == "inc":
            return [f[2]]
        if v in ("push", "u32del"):
            return [p.split(":")[0] for p in f[1:]]
        return []

    # ---- learning from read replies ---------------------------------------------------------
    def learn(self, f, reply):
        v = f[0]
        r = reply.split(" ")
        if v == "get" and r[0] == "get" and len(r) == len(f):
            for k, tok in zip(f[1:], r[1:]):
                rec = parse_rec(tok)
                if rec is None:
                    self.st.pop(k, None)
                else:
                    self._learn_rec(k, rec)
        elif v == "getall" and r[0] == "getall":
            self.st = {}
            for item in r[1:]:
                k, tok = item.split("=", 1)
                self._learn_rec(k, parse_rec(tok))
            self.complete = True
        elif v in ("count", "issw") and reply in ("count -", "issw 0"):
            self.st, self.complete, self.ghost = {}, True, False
        elif reply in ("err:FailedPrecondition",) and v in ("get", "getall", "gbk", "shift", "iske"):
            self.st, self.complete, self.ghost = {}, True, False

    def _learn_rec(self, k, rec):
        # the wire form hides non-positive times and cannot tell an empty slice from void: only a
        # record without such ambiguity is taken as known
        if rec["val"] == "void":
            self.st[k] = UNKNOWN
        else:
            self.st[k] = rec

    # ---- the reference ----------------------------------------------------------------------
    def expect(self, f, now_tok="T"):
        """(expected reply | None when not enough is known, commit function)"""
        v = f[0]
        keys = self.keys_of(f)
        if any(self.known(k) is UNKNOWN for k in keys):
            return None, None
        ex = self.exists()
        nothing = lambda: None
        # the requests that can create a record refuse a key the file cannot hold (whole request)
        if v in ("set", "inc", "push") and any(not valid_key(k) for k in keys):
            return "err:InvalidArgument", nothing
        if v == "set":
            create, over = f[1][0] == "1", f[1][1] == "1"
            if not create and not over:
                return "set ERR:CanNotBeExecuted", nothing
            if not create:
                if ex is UNKNOWN:
                    return None, None
                if not ex:
                    return "set ERR:SwampDoesNotExist", nothing
            st = dict(self.st)
            out = []
            for it in f[2:]:
                p = it.split("|")
                k = p[0]
                old = st.get(k)
                if old is None:
                    if not create:
                        out.append("NF")
                        continue
                elif not over:
                    out.append("SAME")
                    continue
                base = old or blank()
                new = {"val": norm_val(p[1]),
                       "ca": p[2] if ts_valid(p[2]) else base["ca"], "cb": p[3] or base["cb"],
                       "ua": p[4] if ts_valid(p[4]) else base["ua"], "ub": p[5] or base["ub"],
                       "exp": p[6] if ts_valid(p[6]) else base["exp"]}
                if old is None:
                    out.append("NEW")
                elif new == old:
                    out.append("SAME")
                    continue
                else:
                    out.append("UPD")
                st[k] = new

            def commit():
                self.st = st
            return " ".join(["set"] + out), commit
        if v in ("get", "getall", "gbk", "shift", "iske", "del", "count", "issw", "arek"):
            if ex is UNKNOWN:
                return None, None
        if v == "get":
            if not ex:
                return "err:FailedPrecondition", nothing
            return " ".join(["get"] + [show_rec(self.st[k]) if k in self.st else "-" for k in keys]), nothing
        if v == "mget":
            # one Get over (this swamp, a swamp never created, this swamp): per-swamp existence in a batch
            if not ex:
                return "mget noswamp / noswamp / noswamp", nothing
            body = " ".join([show_rec(self.st[k]) if k in self.st else "-" for k in keys])
            return "mget %s / noswamp / %s" % (body, body), nothing
        if v == "getall":
            if not ex:
                return "err:FailedPrecondition", nothing
            if not self.complete or any(r is UNKNOWN for r in self.st.values()):
                return None, None
            return " ".join(["getall"] + [k + "=" + show_rec(self.st[k]) for k in sorted(self.st)]), nothing
        if v == "gbk":
            if not ex:
                return "err:FailedPrecondition", nothing
            return " ".join(["gbk"] + [k + "=" + show_rec(self.st[k]) for k in keys if k in self.st]), nothing
        if v == "shift":
            if not ex:
                return "err:FailedPrecondition", nothing
            st = dict(self.st)
            out = []
            for k in keys:
                if k in st:
                    out.append(k + "=" + show_rec(st.pop(k)))

            def commit():
                self.st = st
            return " ".join(["shift"] + out), commit
        if v == "mcount":
            # one Count over (this swamp, a swamp never created, this swamp): answers in request order
            e, _ = self.expect(["count"], now_tok)
            if e is None:
                return None, None
            c = e[len("count "):]
            return "mcount %s / - / %s" % (c, c), nothing
        if v == "mdel":
            # one Delete over (a swamp never created, this swamp)
            e, commit = self.expect(["del"] + f[1:], now_tok)
            if e is None:
                return None, None
            return "mdel ERR:SwampDoesNotExist / " + e[len("del "):], commit
        if v == "mset":
            # one Set naming this swamp twice with the same items: the second entry meets what the first stored
            import copy
            snap = copy.deepcopy((self.st, self.complete, self.ghost))
            e1, c1 = self.expect(["set"] + f[1:], now_tok)
            if e1 is None:
                return None, None
            if e1.startswith("err:"):
                return e1, nothing
            c1()
            e2, c2 = self.expect(["set"] + f[1:], now_tok)
            if e2 is not None:
                c2()
            after = (self.st, self.complete, self.ghost)
            self.st, self.complete, self.ghost = snap
            if e2 is None:
                return None, None

            def commit():
                self.st, self.complete, self.ghost = after
            return "mset %s / %s" % (e1[len("set "):], e2[len("set "):]), commit
        if v == "del":
            if not ex:
                return "del ERR:SwampDoesNotExist", nothing
            st = dict(self.st)
            out = []
            for k in keys:
                out.append("DEL" if st.pop(k, None) is not None else "NF")

            def commit():
                self.st = st
            return " ".join(["del"] + out), commit
        if v == "count":
            if not ex:
                return "count -", nothing
            if not self.complete or any(r is UNKNOWN for r in self.st.values()):
                return None, None
            return "count %d" % len(self.st), nothing
        if v == "iske":
            if not ex:
                return "err:FailedPrecondition", nothing
            return "iske %d" % (1 if keys[0] in self.st else 0), nothing
        if v == "arek":
            return " ".join(["arek"] + ["%s=%d" % (k, 1 if k in self.st else 0) for k in sorted(set(keys))]), nothing
        if v == "issw":
            return "issw %d" % (1 if ex else 0), nothing
        if v == "compact":
            # CompactSwamp rewrites the file of an existing swamp; records are untouched
            if ex is UNKNOWN:
                return None, None
            return ("compact ok" if ex else "err:FailedPrecondition"), nothing
        if v == "inc":
            return self._inc(f, now_tok)
        if v == "push":
            st = dict(self.st)
            err = False
            for p in f[1:]:
                k, vs = p.split(":")
                old = st.get(k)
                cur = old["val"] if old else "void"
                if cur == "void":
                    base = []
                elif cur.startswith("u32s:"):
                    base = parse_u32s(cur[5:])
                else:
                    err = True
                    continue
                new = dict(old or blank())
                new["val"] = "u32s:" + ",".join(map(str, dedup(base + parse_u32s(vs))))
                st[k] = new

            def commit():
                self.st = st
            return ("err:InvalidArgument" if err else "push ok"), commit
        if v == "u32del":
            st = dict(self.st)
            err = False
            for p in f[1:]:
                k, vs = p.split(":")
                old = st.get(k)
                if old is None:
                    continue
                if not old["val"].startswith("u32s:"):
                    err = True
                    continue
                dl = parse_u32s(vs)
                left = [x for x in parse_u32s(old["val"][5:]) if x not in dl]
                if not left:
                    st.pop(k)
                else:
                    st[k] = dict(old, val="u32s:" + ",".join(map(str, left)))

            def commit():
                self.st = st
            return ("err:InvalidArgument" if err else "u32del ok"), commit
        if v == "size":
            old = self.st.get(keys[0])
            if old is None:
                return "err:InvalidArgument", nothing
            if old["val"].startswith("u32s:"):
                return "size %d" % len(parse_u32s(old["val"][5:])), nothing
            return "err:FailedPrecondition", nothing
        if v == "hasval":
            old = self.st.get(keys[0])
            if old is None:
                return "err:InvalidArgument", nothing
            if old["val"].startswith("u32s:"):
                return "hasval %d" % (1 if int(f[2]) in parse_u32s(old["val"][5:]) else 0), nothing
            return "hasval 0", nothing
        return None, None

    def _inc(self, f, now_tok):
        ty, k, by, cond, ine, ie = f[1], f[2], f[3], f[4], f[5], f[6]
        isf = ty in ("f32", "f64")
        if isf:
            tof, tob = (f64, f64bits) if ty == "f64" else (f32, f32bits)
            byv = tof(int(by, 16))
            if byv == 0:
                return "err:InvalidArgument", lambda: None
        else:
            byv = int(by)
            if byv == 0:
                return "err:InvalidArgument", lambda: None
        old = self.st.get(k)
        cur_tok = old["val"] if old else "void"
        if cur_tok == "void":
            cur = 0.0 if isf else 0
            mreq = ine
        elif cur_tok.startswith(ty + ":"):
            cur = tof(int(cur_tok.split(":")[1], 16)) if isf else int(cur_tok.split(":")[1])
            mreq = ie
        else:
            return "err:InvalidArgument", lambda: None

        def show(x):
            if isf:
                return "%s:%0*x" % (ty, 16 if ty == "f64" else 8, tob(x))
            return "%s:%d" % (ty, x)

        def meta_show(r):
            m = [r["ca"], r["cb"], r["ua"], r["ub"], r["exp"]]
            return "-" if all(x == "" for x in m) else "|".join(m)
        ok = True
        if cond != "-":
            op, ref = cond.split(":")
            refv = tof(int(ref, 16)) if isf else wrap(ty, int(ref))   # the handler casts the 32-bit wire field
            ok = {"eq": cur == refv, "ne": cur != refv, "gt": cur > refv, "ge": cur >= refv,
                  "lt": cur < refv, "le": cur <= refv}[op]
        base = old or blank()
        if not ok:
            return "inc %s 0 %s" % (show(cur), meta_show(base)), lambda: None
        new = dict(base)
        if isf:
            s = cur + byv
            if ty == "f32":
                s = f32(f32bits(s))
            new["val"] = show(s)
        else:
            new["val"] = show(wrap(ty, cur + byv))
        if mreq != "-":
            m = mreq.split("|")
            if m[0] == "1":
                new["ca"] = now_tok
            if m[1]:
                new["cb"] = m[1]
            if m[2] == "1":
                new["ua"] = now_tok
            if m[3]:
                new["ub"] = m[3]
            if m[4]:
                new["exp"] = "" if m[4] == "a0" else m[4]      # the epoch itself is "never expires"

        def commit():
            self.st[k] = new
        return "inc %s 1 %s" % (new["val"], meta_show(new)), commit

    def close(self):
        if self.kind.startswith("mem"):
            self.st, self.complete = {}, True


READ_ONLY = ("get", "mget", "mcount", "getall", "gbk", "count", "iske", "arek", "issw", "size", "hasval", "compact")


def check_case(ops, impl, skip_lines=(), stats=None):
    stats = stats if stats is not None else {}
    return _check_case(ops, impl, skip_lines, stats)


def _check_case(ops, impl, skip_lines, stats):
    """ops/impl: the lines of one case (header first).  Returns the list of
    (index, op, expected, got) where the implementation's reply is not the reference's."""
    hdr = ops[0].split(" ")
    kind = "mem"
    for a in hdr[2:]:
        if a.startswith("kind="):
            kind = a[5:]
    o = Oracle(kind)
    bad = []
    opno = 0
    stats["lines"] = stats.get("lines", 0) + max(0, min(len(ops), len(impl)) - 1)
    for i in range(1, min(len(ops), len(impl))):
        f = ops[i].replace("~v|", "|").split(" ")     # `V~v`: typed value sent with VoidVal = true — V counts
        got = impl[i]
        if got == "skip" or got.startswith("hang") or f[0] in ("wait", "within"):
            if got.startswith("hang") and i not in skip_lines:
                bad.append((i, ops[i], "a reply", got))
            if got.startswith("hang"):
                break
            continue
        if f[0] in ("closeidle", "restart", "close"):
            if got != "ok":
                bad.append((i, ops[i], "ok", got))
                break
            o.close()
            if i in skip_lines:
                o.forget(None)     # a listed finding changed what the reload shows
            continue
        if f[0] in ("shiftexp", "patchexp", "patch", "getidx", "fexp"):
            # expiry-aware requests (C30's subject): what they change is not predicted here, only forgotten,
            # so that the next GetAll and the reload comparison start from what the implementation shows
            opno += 1
            if f[0] == "patch":
                if f[1] == "0" and o.exists() is False:
                    # nothing to patch and nothing may be created: the swamp still does not exist
                    if got != "patch KEY_NOT_FOUND" and i not in skip_lines:
                        bad.append((i, ops[i], "patch KEY_NOT_FOUND", got))
                    continue
                o.forget([f[2]])
                if f[1] != "0" or o.exists() is not True:
                    o.forget_existence()
            elif f[0] in ("shiftexp", "patchexp"):
                o.forget(None)
                o.forget_existence()
            continue
        if f[0] != "compact":
            opno += 1             # server stamps are written T<number of the request that took them>
        if i in skip_lines:
            if f[0] in READ_ONLY:
                o.forget_existence()    # a read cannot change records; it may have summoned the swamp
            else:
                o.forget(o.keys_of(f) or None)
            o.learn(f, got)
            continue
        exp, commit = o.expect(f, "T%d" % opno)
        if exp is None:
            stats["unknown"] = stats.get("unknown", 0) + 1
            o.forget(o.keys_of(f) if f[0] in ("set", "mset", "inc", "push", "u32del", "shift", "del", "mdel") else [])
            o.learn(f, got)
            continue
        stats["evaluated"] = stats.get("evaluated", 0) + 1
        if exp != got:
            bad.append((i, ops[i], exp, got))
            if f[0] in READ_ONLY:
                o.forget_existence()
            else:
                o.forget(o.keys_of(f) or None)
            o.learn(f, got)
            continue
        commit()
    return bad
