"""C27 — Hydrex reverse index stays consistent with core data."""
from . import common as K
from . import miscutil as U

META = {
    "level": "proof",
    "technique": "Lean 4 invariant proof by induction over all histories of save/destroy (states as total functions) + go/ast fact tie + "
                 "differential run of Hydrex through the real SDK, gRPC/bufconn and the in-process server",
    "text": ("Lean theorems Hv.C27.index_consistent (after every history, index k = {d | k in dom(core d)}), core_after_destroy, core_frame, "
             "core_last_saved (a domain reads back exactly its last saved items when Save rewrites changed values) and "
             "core_last_saved_partial (the same for saves that never present a different value for a key the domain already holds); "
             "closed witness value_update_skipped / refutes_no_update for the code as it is (save d {k:1}; save d {k:2} leaves 1); "
             "refutes_stale_kept, refutes_destroy_leaves_index for the other two steps; classify_sound ties the decision to hydrex.go."),
    "note": ("Trusted: Lean kernel (propext, Classical.choice, Quot.sound); extract/c27.go; harness/c27.go + miscsdk.go. The catalog layer "
             "under Hydrex is modelled as a finite map per swamp (assumption, checked by the correspondence). Items with a nil pointer "
             "(Go panic) are not modelled. LIMITS of the proved statement: names are ABSTRACT in the Lean model (index names, domains and keys are "
             "numbers; that distinct strings give distinct swamps is the fact namesVerbatim + C20, and is exercised with case variants, non-ASCII, "
             "180/200-byte, empty, '*' and '/'-containing names in the correspondence run); a FAILING catalog call in the middle of Save / Destroy "
             "(Hydrex ignores or only logs every error: a save whose index request fails after the core data was written leaves the two out of step) "
             "is outside the model and is only reached through invalid names, which Save / Destroy now refuse up front; close + reload of the swamps "
             "is exercised (op idle: corpus case 1 and the thorough tier) but not part of the model, which treats a swamp as a map."),
    "design_ref": "§8 C27",
}

FINDINGS = {
    "C27-value-update-skipped": "hydrex.Save only inserts keys that are not stored yet: re-saving a domain with a changed value for an existing "
                                "key leaves the old value (save d {k0:v0}; save d {k0:v1} reads back k0=v0)",
    "C27-stale-keys-kept": "hydrex.Save keeps keys that are no longer in the saved items",
    "C27-destroy-leaves-index": "hydrex.Destroy does not remove the domain from the index swamps of its keys",
    "C27-invalid-key-save-ignored": "a Save that carries an empty key or a key containing '/' (or such an index name / domain) is refused as a whole and "
                                    "only logged: Hydrex.Save has no error return, so the caller sees success while GetCoreData keeps the previous items",
    "C27-hostile-name-half-saved": "a Save for a domain containing '/' stores NO core data (the 4-part core swamp name is refused by the gateway) but adds "
                                   "the domain to the index swamp of every key: GetIndexData lists a domain that GetCoreData knows nothing about, and "
                                   "neither Save nor Destroy can ever remove it",
    "C27-empty-key-save-ignored": "a Save whose items contain the empty key reports ok but stores nothing: the core CatalogSaveMany fails on the "
                                  "empty key and the gateway rejects the index request (swamp name with an empty part); GetCoreData stays empty",
    "C27-key-with-separator-not-indexed": "a Save whose items contain a key with '/' stores the core data but writes NO index entry of that Save "
                                          "(the 4-part index swamp name makes the gateway reject the whole many-to-many request; Hydrex swallows "
                                          "the error): GetIndexData never lists the domain, also for the clean keys saved in the same call",
    "C27-index-inconsistent": "GetIndexData does not return exactly the domains whose core data holds the key",
}


_VALIDATES = False
_VALIDATES_NAMES = False


def _norm(tok):
    h = tok[1:]
    for i in range(0, len(h), 2):
        if h[i:i + 2] == "2f":
            return "x" + h[:i]
    return tok


def _hostile_id(toks):
    if not _VALIDATES_NAMES and any(t.startswith("N") and (t == "Nx" or _norm(t[1:]) != t[1:]) for t in toks):
        return "C27-hostile-name-half-saved"
    toks = {t[1:] if t.startswith("N") else t for t in toks}
    if _VALIDATES and ("x" in toks or any(_norm(t) != t for t in toks)):
        return "C27-invalid-key-save-ignored"
    if "x" in toks:
        return "C27-empty-key-save-ignored"
    if any(_norm(t) != t for t in toks):
        return "C27-key-with-separator-not-indexed"
    return None


def oracle(rep):
    """Spec on the implementation's replies only: core = last saved items (nothing after destroy);
    index k = domains whose last saved items contain k."""
    spec, seen = {}, set()
    for op, line in zip(rep["ops"], rep["impl"]):
        f = op.split(" ")
        if line.startswith("timeout"):
            continue   # the rig did not answer in time (load): common.py re-runs such a case alone with a larger budget
        if line == "panic":
            return (None, "`%s` panicked" % op)
        if f[0] == "case":
            spec, seen = {}, set()
        elif f[0] == "save":
            spec[(f[1], f[2])] = {} if f[3] == "-" else dict(kv.split("=") for kv in f[3].split(","))
            seen |= set(spec[(f[1], f[2])]) | {"N" + f[1], "N" + f[2]}
        elif f[0] == "destroy":
            spec[(f[1], f[2])] = {}
            seen |= {"N" + f[1], "N" + f[2]}
        elif f[0] == "core":
            want = spec.get((f[1], f[2]), {})
            got = {} if line == "core -" else dict(kv.split("=") for kv in line.split(" ", 1)[1].split(","))
            if got != want:
                fid = _hostile_id(seen) or ("C27-value-update-skipped" if set(got) == set(want) else "C27-stale-keys-kept")
                return (fid, "GetCoreData(%s, %s) = %s, last saved items = %s" % (f[1], f[2], got, want))
        elif f[0] == "index":
            want = sorted(d for (i, d), items in spec.items() if i == f[1] and f[2] in items)
            got = [] if line == "index -" else line.split(" ", 1)[1].split(",")
            if got != want:
                return (_hostile_id(seen | {f[2]}) or "C27-index-inconsistent", "GetIndexData(%s, %s) = %s, domains holding the key = %s" % (f[1], f[2], got, want))
    return None


def spec_violated(rep):
    r = oracle(rep)
    return r[1] if r else None


def run(ctx):
    global _VALIDATES, _VALIDATES_NAMES
    facts, _, _ = U.extract_facts(ctx)
    _VALIDATES = facts.get("validatesKeys") == "yes"
    _VALIDATES_NAMES = facts.get("validatesNames") == "yes"
    K.lean_verdict(ctx)
    corrs = U.run_corr(ctx, "C27", facts)
    K.decide_standard(ctx, corrs, FINDINGS)
    K.report_mismatch(ctx, spec_violated)
    c = corrs[0][2] if corrs else K.Corr()
    hits = 0
    if corrs:
        hits = U.oracle_sweep(ctx, c, "C27", corrs[0][1], oracle)
    U.leancheck(ctx, ["Hv.Props.C27", "Hv.Misc.Hydrex"])
    samples = [{"ops": [c.ops[i] for i in cs], "impl": [c.impl[i] for i in cs if i < len(c.impl)]} for cs in c.cases[:2]]
    return K.finish(
        ctx, "proof",
        rule=("cases = 5 corpus histories + random histories (8..25 mutations/reads, then a full dump of every core and index entry) over "
              "three name pools: plain (2 index names x 3 domains x 5 keys), adversarial (case variants, non-ASCII, punctuation, 180/200-byte "
              "names; every third case) and hostile (empty, '*', 'a/b' next to 'a' as key, as domain and as index name; one case in twenty); 4 values; "
              "corpus case 1 and the thorough tier have `idle` ops that let the swamps pass their 1 s idle timeout (close, flush, reload); saves pick each key with probability 2/5, one save in five repeats the "
              "previous items of that domain; every mutation is followed by a read of the touched core and of one index entry; a case "
              "is non-trivial when it has >= 3 ops; distinct = distinct op texts; replies sorted by key / domain"),
        samples=samples, evaluations=len(c.ops), distinct_nontrivial=K.distinct_cases(c),
        extra_cov={"correspondence": {"domain": "C27", "cases": len(c.cases), "op_lines": len(c.ops), "mismatching_lines": len(c.mismatch),
                                      "op_histogram": c.op_hist, "oracle_hits": hits,
                                      "lines_flagged_by_model": sum(1 for f in c.flags if f)}},
        trusted=["Lean 4.33.0 kernel", "axioms: propext, Classical.choice, Quot.sound", "extract/c27.go", "harness/c27.go, harness/miscsdk.go",
                 "catalog layer = finite map per swamp (assumed; compared on every run)"],
    )
