"""Shared helpers of the storage checks C02 / C03 / C25 (trace phase, Spec oracles)."""
import os
import subprocess

from . import common as K


def trace_ops(ctx, tdomain, extra_env=None, gen_args=()):
    """hx gen <T> → case scripts; hx run <T> (real code under strace) → ops text."""
    hx = os.path.join(K.BIN, "hx")
    rc, script = K.sh([hx, "gen", tdomain, "-seed", str(ctx.seed), "-tier", ctx.tier, *gen_args], timeout=600)
    if rc != 0:
        return None, "hx gen %s failed: %s" % (tdomain, script[-400:])
    with open(ctx.path(tdomain + ".script"), "w") as f:
        f.write(script)
    env = dict(os.environ, HX_TIER=ctx.tier, **(extra_env or {}))
    p = subprocess.run([hx, "run", tdomain], input=script, stdout=subprocess.PIPE, stderr=subprocess.PIPE,
                       text=True, errors="replace", timeout=3000, env=env)
    if p.returncode != 0 or not p.stdout:
        return None, "hx run %s failed (rc=%d): %s" % (tdomain, p.returncode, p.stderr[-600:])
    if p.stderr.strip():
        ctx.notes.append("%s stderr: %s" % (tdomain, p.stderr.strip()[-300:]))
    return p.stdout, None


def fmt_state(d):
    if not d:
        return "-"
    return ",".join("%d=%s" % (k, d[k]) for k in sorted(d))


def apply_items(spec, items):
    for it in items.split(","):
        p = it.split("*")[0].split(".")     # `item*N`: N copies
        if p[0] == "p":
            spec[int(p[1])] = p[2]
        elif p[0] == "d":
            spec.pop(int(p[1]), None)


def parse_img_reply(rep):
    out = {}
    for part in rep.split("\t")[0].split(" "):
        if ":" in part:
            k, v = part.split(":", 1)
            out[k] = v
    return out


def strip_hex(line, maxlen=200):
    return line if len(line) <= maxlen else line[:maxlen] + "…"


def relevant_hits(hits, flags, known, classes, last):
    """Oracle hits that a report may name as the failing input.  hits: [(line, why, cls)].
    A hit on a line the model flagged with a *listed* finding of the same class is that known
    defect, not news; everything else counts — in particular a hit at `last` (the line where
    implementation and model disagree) always does."""
    out = []
    for i, why, cls in hits:
        fl = flags[i] if i < len(flags) else []
        covered = any(f in known and classes.get(f, cls) == cls for f in fl)
        if i == last or not covered:
            out.append((i, why, cls))
    return out


def impl_reported(ctx, spec_violated):
    """Will `K.report_mismatch` name a Spec violation of the implementation (on the case prefix
    that ends at a first mismatching line)?  If not, oracle hits on mismatching lines further
    down a case have no other reporter and must not be dropped."""
    reps = [getattr(ctx, "pending_mismatch", None)] + list(getattr(ctx, "pending_mismatch_more", []))
    return any(r is not None and spec_violated(r) for r in reps)


def first_relevant(rep, scan, known, classes):
    """for report_mismatch: the oracle evaluated on a case prefix that ends at the mismatching line"""
    hits = scan(rep["ops"], rep["impl"])
    last = len(rep["ops"]) - 1
    rel = relevant_hits(hits, rep.get("flags", []), known, classes, last)
    # prefer the mismatching line itself
    rel.sort(key=lambda h: (h[0] != last, h[0]))
    return rel[0][1] if rel else None
