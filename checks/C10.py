"""C10 — concurrent use never crashes the server or races on memory (PARTIAL decision: lockset over two structs)."""
import os

from . import common as K

META = {
    "level": "proof",
    "technique": "Lean 4: lockset soundness and exact characterisation over a reader/writer-mutex LTS (all schedules), decided on an access "
                 "table GENERATED from beacon.go, treasure.go, bucket.go (equality index, pending queue) and the swamp files (writeInterval / closeAfterIdle under mu, buckets under bucketsMu, destroyed under closeMutex) by a go/ast extractor; replay of every failing table entry under the Go "
                 "race detector (child process built with -race) through the real in-process gateway",
    "text": ("Hv.C10.discipline_sound: a lockset-disciplined access table (every write under the struct's mutex in write mode, every read "
             "under it at least in read mode) admits no schedule in which two conflicting accesses are in progress together; holds_iff: "
             "for the mutex LTS the table is race-free iff it has no racy pair (same field, one write, lock modes that two threads can "
             "hold simultaneously) — race_of_pair builds the four-step schedule for any racy pair; classify evaluates racyPairs on the "
             "generated table (311 rows on the unchanged tree) and names one finding per struct.field."),
    "note": ("PARTIAL: (1) lockset is sufficient, not necessary — other synchronisation (the record guard that setters run under, "
             "happens-before through channels) is not credited, so a listed pair may be benign when both sides always run under the "
             "guard; (2) the table covers `beacon`, `treasure`, `bucket` and the mutex-guarded plain fields of `swamp` (atomics, sync.Map, "
             "fields set once in New, the hydra maps and the gateway are not in it); each field group has ONE mutex, and the "
             "publication order of lazily built indexes (the buildBeacon / bucket-served-before-drain races found by agent idx) is "
             "outside a lockset argument; "
             "(3) the statement is about unsynchronised access only: 'no request panics' and 'every read returns one committed "
             "version' are not decided (the latter only as: getters and setters of a treasure exclude each other on t.mu); "
             "(4) replays are per struct and both scenarios (Set/GetAll on the beacon, Set/Get on a treasure) are replayed on every "
             "run, whatever the table says; (5) lock modes come from a walk over the statement structure (a branch that returns does "
             "not pass its unlock on, merges keep the weaker mode); a function literal handed to a call as an argument is taken to "
             "run during that call, a stored or `go` literal runs unlocked; a map/slice field that is returned directly, through a "
             "local alias or as a slice expression is an escape.  Trusted: Lean kernel, extract/c10.go, harness/c10.go, the Go race "
             "detector."),
    "design_ref": "§8 C10",
}


def finding_text(fid):
    _, _, s, f = fid.split("-", 3)
    if s == "beacon":
        return ("beacon.%s: GetAll returns the live map and its callers (swamp.GetAll, treasuresForBeacon) iterate it without b.mu while "
                "Add/Delete/Shift* write it under b.mu — runtime fatal 'concurrent map iteration and map write' / race report" % f)
    if s == "treasure":
        return ("treasure.%s is written by setters without t.mu (they run under the record guard only) and read by getters under "
                "t.mu.RLock only (Get does not take the guard)" % f)
    return "%s.%s: two accesses, one of them a write, that do not exclude each other on the struct's mutex (see the representative pair)" % (s, f)


def run(ctx):
    facts, _, _ = K.extract_facts(ctx)
    r = K.lean_verdict(ctx)
    racy = sorted(f[len("C10-race-"):].replace("-", ".", 1) for f in r.findings)
    corrs = []
    hxrace = os.path.join(K.BIN, "hxrace")
    ok = K.build_hx(ctx) and K.build_drv(ctx)
    if ok:
        # the race-detector build of the same harness (first build takes minutes, later ones seconds)
        hdir = os.path.join(K.VERIF, "harness")
        cmd = ["go", "build", "-race", "-tags", "verif", "-o", hxrace + ".new"]
        if K.REPO != "/repo":
            cmd.append("-modfile=" + os.path.join(K.BUILD, "hx.mod"))
        with K.Lock("hxrace"):
            rc, out = K.sh(cmd + ["."], cwd=hdir, env=K.GOENV, timeout=1800)
            if rc == 0:
                os.replace(hxrace + ".new", hxrace)
        if rc != 0:
            ok = False
            ctx.hx_log = out
    if ok:
        # both race scenarios are always replayed (a table that misses a race must not hide it), plus one per failing field
        ops = ["case 0 race", "race control none", "race beacon treasuresByKeys", "race treasure treasure",
               "race bucket byValue", "race swampBuckets buckets"]
        ops += [o for o in ("race %s %s" % tuple(x.split(".", 1)) for x in racy) if o not in ops]
        logdir = ctx.path("racelogs")
        os.makedirs(logdir, exist_ok=True)
        c = K.correspondence(ctx, "C10", ["racy=" + ",".join(racy)], hx_env={"HX_RACE_BIN": hxrace, "C10_LOG_DIR": logdir},
                             ops_text="\n".join(ops) + "\n", timeout=600)
        corrs.append(("C10", ["racy=" + ",".join(racy)], c))
    else:
        ctx.violation("harness does not build against /repo", {"correspondence": "C10", "log": getattr(ctx, "hx_log", "")[-2000:]},
                      tag="build", found_input=False)
    texts = {f: finding_text(f) for f in r.findings}
    K.decide_standard(ctx, corrs, texts)
    # call-site granularity: a row that breaks the discipline and is not in the recorded list is new
    import json
    # recorded call-site rows (committed next to the check; read-only at run time)
    recorded = set()
    op = os.path.join(K.VERIF, "checks", "c10_offenders.json")
    if os.path.exists(op):
        with open(op) as fh:
            recorded = set(json.load(fh).get("offenders", []))
    offenders = sorted(set(l.split("C10-OFFENDER ", 1)[1].strip() for l in r.log.splitlines() if "C10-OFFENDER " in l))
    ctx.cov["offending_rows"] = len(offenders)
    new = [o for o in offenders if o not in recorded]
    if new:
        detected = [l for l in (corrs[0][2].impl if corrs else []) if l.endswith(" detected") and l.split()[1] in {o.split(".")[0] for o in new}]
        ctx.violation("access table: %d row(s) break the lockset discipline and are not recorded: %s" % (len(new), "; ".join(new[:6])),
                      {"new_offending_rows": new, "race_detector": detected,
                       "replay_cmd": "race-detector child of the struct: see harness/c10.go"}, tag="new-offender", found_input=bool(detected))
    K.report_mismatch(ctx, lambda rep: next(("the race detector / runtime reports unsynchronised access: " + l for l in rep["impl"] if l.endswith(" detected")), None))
    if ctx.thorough:
        okc, out = K.leanchecker(ctx, ["Hv.Props.C10", "Hv.Conc.Lockset"])
        ctx.cov["leanchecker"] = "ok" if okc else out[-500:]
        if not okc:
            ctx.violation("leanchecker rejected the compiled proofs", {"log": out[-2000:]}, tag="leanchecker", found_input=False)
    c = corrs[0][2] if corrs else K.Corr()
    pairs = [l.split("C10-PAIR ", 1)[1] for l in r.log.splitlines() if "C10-PAIR " in l]
    npairs = next((l.split("C10-PAIRS ", 1)[1].strip() for l in r.log.splitlines() if "C10-PAIRS " in l), "?")
    return K.finish(
        ctx, "proof",
        rule=("the access table is regenerated from beacon.go and treasure.go on every run (%s rows) and decided in Lean; one `race STRUCT "
              "FIELD` op per failing struct.field plus a single-goroutine control; each op is answered by a race-detector child "
              "process (3 s of concurrent Set/GetAll resp. Set/Get through the gateway) and by the classification" % facts.get("table", "?")),
        samples=[{"ops": c.ops, "impl": c.impl}],
        evaluations=len(c.ops),
        distinct_nontrivial=max(len(c.ops) - 1, 0),
        extra_cov={"correspondence": {"domain": "C10", "op_lines": len(c.ops), "mismatching_lines": len(c.mismatch)},
                   "table_rows": facts.get("table"), "racy_pairs": npairs, "representative_pairs": pairs},
        trusted=["Lean 4 kernel", "axioms: propext, Classical.choice, Quot.sound", "extract/c10.go", "harness/c10.go", "Go race detector",
                 "sync.RWMutex semantics"],
    )
