"""Shared machinery of /verif/check.

Flow of one property check (DESIGN §3):
  1. regenerate the property's facts from /repo's working tree (tie 1, /verif/extract);
  2. rebuild `Hv.Verdict.<pid>` — the kernel re-checks `classify_sound` against the new facts —
     and read the printed classification and the `#print axioms` audit;
  3. rebuild the harness from /repo with `-tags verif` and run the correspondence
     (tie 2): `hx gen` → ops, `hx run` → implementation replies, `drv` → model replies;
     a model reply may carry `#F:<finding>` when the model state violates the Spec;
  4. decide: exit 0 (possibly with KNOWN-FINDING lines) or VIOLATION with a replay file;
  5. write /verif/evidence/<pid>.json.
"""
import fcntl
import hashlib
import json
import os
import re
import subprocess
import sys
import time

VERIF = os.path.dirname(os.path.dirname(os.path.abspath(__file__)))
REPO = os.environ.get("VERIF_REPO", "/repo")
LEAN = os.path.join(VERIF, "lean")
BIN = os.path.join(VERIF, "bin")
BUILD = os.path.join(VERIF, "build")
ALLOWED_AXIOMS = {"propext", "Classical.choice", "Quot.sound"}
FORBIDDEN_SRC = re.compile(r"\b(sorry|admit|native_decide|bv_decide|implemented_by|unsafe)\b|^axiom\s|maxHeartbeats\s+0\b", re.M)

GOENV = dict(os.environ, GOFLAGS="-mod=mod", GOPROXY="off", GOTOOLCHAIN="local+path" if False else os.environ.get("GOTOOLCHAIN", ""))
if not GOENV["GOTOOLCHAIN"]:
    del GOENV["GOTOOLCHAIN"]


class Lock:
    def __init__(self, name):
        os.makedirs(os.path.join(VERIF, ".locks"), exist_ok=True)
        self.path = os.path.join(VERIF, ".locks", name)

    def __enter__(self):
        self.f = open(self.path, "w")
        fcntl.flock(self.f, fcntl.LOCK_EX)
        return self

    def __exit__(self, *a):
        fcntl.flock(self.f, fcntl.LOCK_UN)
        self.f.close()


def sh(cmd, cwd=None, env=None, timeout=1800, stdin=None, stdout=subprocess.PIPE):
    p = subprocess.run(cmd, cwd=cwd, env=env, timeout=timeout, stdin=stdin, stdout=stdout,
                       stderr=subprocess.STDOUT, text=True, errors="replace")
    return p.returncode, (p.stdout or "")


class Ctx:
    def __init__(self, pid, tier, seed):
        self.pid, self.tier, self.seed = pid, tier, seed
        self.t0 = time.time()
        self.work = os.path.join(BUILD, "run", pid)
        os.makedirs(self.work, exist_ok=True)
        os.makedirs(os.path.join(VERIF, "replays"), exist_ok=True)
        os.makedirs(os.path.join(VERIF, "evidence"), exist_ok=True)
        self.violations = []      # (what, replay_path, found_input: bool)
        self.known_hits = []      # (finding id, what)
        self.notes = []
        self.cov = {}
        self.assumptions = []
        self.thorough = tier == "thorough"

    def path(self, name):
        return os.path.join(self.work, name)

    def log(self, *a):
        print("[%s %6.1fs]" % (self.pid, time.time() - self.t0), *a, file=sys.stderr, flush=True)

    # ---- replay files -------------------------------------------------
    def write_replay(self, tag, obj):
        body = json.dumps(obj, indent=1, sort_keys=True)
        h = hashlib.sha1(body.encode()).hexdigest()[:10]
        p = os.path.join(VERIF, "replays", "%s-%s-%s.json" % (self.pid, tag, h))
        with open(p, "w") as f:
            f.write(body + "\n")
        return p

    def violation(self, what, replay_obj, tag="v", found_input=True):
        replay_obj = dict(replay_obj, property=self.pid, what=what, found_failing_input=found_input)
        p = self.write_replay(tag, replay_obj)
        self.violations.append((what, p, found_input))
        return p


# ---------------------------------------------------------------- known findings
def load_known():
    """known_findings.json plus per-property fragments known_findings.d/*.json (same format);
    read-only at run time."""
    out = []
    paths = [os.path.join(VERIF, "known_findings.json")]
    d = os.path.join(VERIF, "known_findings.d")
    if os.path.isdir(d):
        paths += sorted(os.path.join(d, n) for n in os.listdir(d) if n.endswith(".json"))
    for p in paths:
        if os.path.exists(p):
            with open(p) as f:
                out += json.load(f).get("entries", [])
    return out


def known_ids(pid):
    """finding ids that are *recorded, unrepaired* findings of this property"""
    return {e["id"]: e for e in load_known() if e.get("kind") == "finding" and e.get("property") == pid}


# ---------------------------------------------------------------- tie 1: facts
def build_extract():
    with Lock("extract"):
        rc, out = sh(["go", "build", "-o", os.path.join(BIN, "extract"), "."],
                     cwd=os.path.join(VERIF, "extract"), env=GOENV)
    if rc != 0:
        raise RuntimeError("building /verif/extract failed:\n" + out)


def extract_facts(ctx):
    """Regenerates lean/Hv/Generated/Facts<pid>.lean; returns ({name: value}, {name: where}, errs)."""
    if not os.path.exists(os.path.join(BIN, "extract")) or os.environ.get("VERIF_REBUILD_EXTRACT", "1") == "1":
        build_extract()
    with Lock("facts-" + ctx.pid):
        rc, out = sh([os.path.join(BIN, "extract"), "-repo", REPO, "-out", os.path.join(LEAN, "Hv", "Generated"), ctx.pid])
    facts, where, errs = {}, {}, []
    for line in out.splitlines():
        if line.startswith("FACTS "):
            _, pid, js = line.split(" ", 2)
            for k, v in json.loads(js).items():
                facts[k] = v["value"]
                where[k] = v["where"]
        elif line.startswith("FACTERR "):
            errs.append(line)
    if rc != 0:
        errs.append("extract exit %d: %s" % (rc, out[-400:]))
    ctx.facts, ctx.fact_where, ctx.fact_errs = facts, where, errs
    ctx.log("facts:", facts, errs or "")
    return facts, where, errs


# ---------------------------------------------------------------- Lean obligations
class LeanResult:
    def __init__(self):
        self.ok = False
        self.verdict = None          # 'holds' | 'violated' | 'undetermined'
        self.findings = []
        self.why = ""
        self.axioms = {}             # theorem -> [axioms]
        self.bad_axioms = {}
        self.forbidden = []
        self.log = ""
        self.modules = []


def lean_modules_of(pid):
    """Source files whose theorems belong to the property: Props/<pid>.lean, Verdict/<pid>.lean and
    every Hv module they import transitively (except Generated)."""
    seen, todo = [], ["Hv.Verdict." + pid]
    while todo:
        m = todo.pop()
        if m in seen or not m.startswith("Hv."):
            continue
        p = os.path.join(LEAN, m.replace(".", "/") + ".lean")
        if not os.path.exists(p):
            continue
        seen.append(m)
        with open(p) as f:
            for line in f:
                mm = re.match(r"\s*import\s+(\S+)", line)
                if mm:
                    todo.append(mm.group(1))
    return seen


def strip_comments(src):
    src = re.sub(r"/-.*?-/", "", src, flags=re.S)
    src = re.sub(r"--.*", "", src)
    return src


def lean_verdict(ctx, extra_targets=()):
    """lake build Hv.Verdict.<pid>; parse VERDICT and axioms lines."""
    r = LeanResult()
    target = "Hv.Verdict." + ctx.pid
    with Lock("lake"):
        # lake replays a module's messages only when it rebuilds it; touch so the verdict is re-elaborated
        vp = os.path.join(LEAN, "Hv", "Verdict", ctx.pid + ".lean")
        os.utime(vp, None)
        rc, out = sh(["lake", "build", target, *extra_targets], cwd=LEAN, timeout=3600)
    r.log = out
    r.ok = rc == 0
    for line in out.splitlines():
        m = re.search(r"VERDICT (\S+) (\S+)\s*(.*)$", line)
        if m and m.group(1) == ctx.pid:
            r.verdict = m.group(2)
            if r.verdict == "violated":
                r.findings = m.group(3).split()
            else:
                r.why = m.group(3)
        m = re.search(r"'([^']+)' depends on axioms: \[(.*)\]", line)
        if m:
            r.axioms[m.group(1)] = [a.strip() for a in m.group(2).split(",") if a.strip()]
        m = re.search(r"'([^']+)' does not depend on any axioms", line)
        if m:
            r.axioms[m.group(1)] = []
    for thm, axs in r.axioms.items():
        bad = [a for a in axs if a not in ALLOWED_AXIOMS]
        if bad:
            r.bad_axioms[thm] = bad
    r.modules = lean_modules_of(ctx.pid)
    for m in r.modules:
        p = os.path.join(LEAN, m.replace(".", "/") + ".lean")
        with open(p) as f:
            src = strip_comments(f.read())
        for mm in FORBIDDEN_SRC.finditer(src):
            r.forbidden.append("%s: %s" % (m, mm.group(0).strip()))
    ctx.lean = r
    ctx.log("lean: ok=%s verdict=%s %s axioms-audited=%d bad=%s forbidden=%s" %
            (r.ok, r.verdict, r.findings or r.why, len(r.axioms), r.bad_axioms, r.forbidden))
    return r


def leanchecker(ctx, modules):
    with Lock("lake"):
        rc, out = sh(["lake", "env", "leanchecker", *modules], cwd=LEAN, timeout=3600)
    ctx.log("leanchecker rc=%d" % rc)
    return rc == 0, out


# ---------------------------------------------------------------- tie 2: correspondence
def build_hx(ctx):
    """Rebuild the harness against /repo's current working tree with hooks on."""
    hdir = os.path.join(VERIF, "harness")
    with Lock("hx"):
        # go.sum of the repo is authoritative for the shared dependency set
        try:
            with open(os.path.join(REPO, "go.sum")) as f:
                want = f.read()
            have = open(os.path.join(hdir, "go.sum")).read() if os.path.exists(os.path.join(hdir, "go.sum")) else ""
            if want != have:
                with open(os.path.join(hdir, "go.sum"), "w") as f:
                    f.write(want)
        except OSError:
            pass
        out_bin = os.path.join(BIN, "hx")
        cmd = ["go", "build", "-tags", "verif", "-o", out_bin + ".new"]
        if REPO != "/repo":
            # scratch worktree of the repository: same module file with the replace targets redirected
            os.makedirs(BUILD, exist_ok=True)
            mod = open(os.path.join(hdir, "go.mod")).read().replace("=> /repo", "=> " + REPO)
            with open(os.path.join(BUILD, "hx.mod"), "w") as f:
                f.write(mod)
            with open(os.path.join(BUILD, "hx.sum"), "w") as f:
                f.write(open(os.path.join(hdir, "go.sum")).read())
            cmd.append("-modfile=" + os.path.join(BUILD, "hx.mod"))
        rc, out = sh(cmd + ["."], cwd=hdir, env=GOENV, timeout=1800)
        if rc == 0:
            os.replace(out_bin + ".new", out_bin)
    ctx.hx_ok = rc == 0
    ctx.hx_log = out
    if rc != 0:
        ctx.log("hx build FAILED:\n" + out[-2000:])
    return rc == 0


def drv_path():
    return os.path.join(LEAN, ".lake", "build", "bin", "drv")


def build_drv(ctx):
    with Lock("lake"):
        rc, out = sh(["lake", "build", "drv"], cwd=LEAN, timeout=3600)
    if rc != 0:
        ctx.log("drv build FAILED:\n" + out[-2000:])
    return rc == 0


def run_lines(cmd, ops_text, timeout=1800, env=None):
    p = subprocess.run(cmd, input=ops_text, stdout=subprocess.PIPE, stderr=subprocess.PIPE, text=True,
                       errors="replace", timeout=timeout, env=env)
    return p.returncode, p.stdout.split("\n")[:-1] if p.stdout.endswith("\n") else p.stdout.split("\n"), p.stderr


def split_cases(ops):
    """ops: list of lines → list of (case header index, [line indices])"""
    cases, cur = [], None
    for i, l in enumerate(ops):
        if l.startswith("case ") or cur is None:
            cur = [i]
            cases.append(cur)
        else:
            cur.append(i)
    return cases


class Corr:
    def __init__(self):
        self.ops = []
        self.impl = []
        self.model = []      # replies without annotation
        self.flags = []      # per line: list of finding ids
        self.mismatch = []   # line indices
        self.cases = []
        self.op_hist = {}
        self.reply_hist = {}
        self.err = None


def correspondence(ctx, domain, drv_args, gen_args=(), hx_env=None, ops_text=None, timeout=3000, drv_domain=None):
    """Runs generator, implementation and model on the same op lines."""
    c = Corr()
    hx = os.path.join(BIN, "hx")
    if ops_text is None:
        rc, out = sh([hx, "gen", domain, "-seed", str(ctx.seed), "-tier", ctx.tier, *gen_args], timeout=timeout)
        if rc != 0:
            c.err = "hx gen failed: " + out[-500:]
            return c
        ops_text = out
    with open(ctx.path(domain + ".ops"), "w") as f:
        f.write(ops_text)
    c.ops = ops_text.split("\n")
    if c.ops and c.ops[-1] == "":
        c.ops.pop()
    env = dict(os.environ, **(hx_env or {}))
    try:
        rc1, impl, err1 = run_lines([hx, "run", domain], ops_text, timeout=timeout, env=env)
    except subprocess.TimeoutExpired:
        c.err = "hx run timed out"
        return c
    try:
        rc2, model, err2 = run_lines([drv_path(), drv_domain or domain, *drv_args], ops_text, timeout=timeout)
    except subprocess.TimeoutExpired:
        c.err = "drv timed out"
        return c
    with open(ctx.path(domain + ".impl"), "w") as f:
        f.write("\n".join(impl) + "\n")
    with open(ctx.path(domain + ".model"), "w") as f:
        f.write("\n".join(model) + "\n")
    if rc1 != 0:
        c.err = "hx run exit %d: %s" % (rc1, err1[-800:])
    if rc2 != 0:
        c.err = (c.err or "") + " drv exit %d: %s" % (rc2, err2[-800:])
    c.impl = impl
    for l in model:
        parts = l.split("\t")
        c.model.append(parts[0])
        c.flags.append([p[3:] for p in parts[1:] if p.startswith("#F:")])
    n = max(len(c.ops), len(c.impl), len(c.model))
    for i in range(n):
        a = c.impl[i] if i < len(c.impl) else "<missing>"
        b = c.model[i] if i < len(c.model) else "<missing>"
        if a != b:
            c.mismatch.append(i)
    c.cases = split_cases(c.ops)
    for l in c.ops:
        k = l.split(" ", 1)[0]
        c.op_hist[k] = c.op_hist.get(k, 0) + 1
    for l in c.impl:
        k = l.split(" ", 1)[0]
        c.reply_hist[k] = c.reply_hist.get(k, 0) + 1
    return c


def recheck_slow_cases(ctx, domain, drv_args, c, max_cases=4):
    """A mismatch that involves a timeout-like reply (hang / timeout / err / stuck / broken / aborted) is re-run
    alone with every harness timeout multiplied by 6 (HX_TIMEOUT_SCALE) before it is believed: on a busy machine
    a slow reply is not a hang.  Cases that agree on the re-run are spliced back; the event is recorded in the
    evidence (coverage.rechecked_slow_cases)."""
    if c.err or not c.mismatch or getattr(c, "no_recheck", False):
        return c
    slow = re.compile(r"\b(hang|hung|timeout|timed-out|stuck|broken|aborted|unexpected-timeout|err)\b")
    todo, seen = [], set()
    for i in c.mismatch:
        cs = case_of(c, i)
        if cs[0] in seen:
            continue
        seen.add(cs[0])
        a = c.impl[i] if i < len(c.impl) else ""
        if not slow.search(a):
            return c          # a mismatch that is not timing-shaped: believe it
        todo.append(cs)
    if len(todo) > max_cases:
        return c
    fixed = 0
    for cs in todo:
        ops = [c.ops[i] for i in cs]
        if not ops[0].startswith("case "):
            return c
        r = correspondence(ctx, domain, drv_args, hx_env={"HX_TIMEOUT_SCALE": "6"}, ops_text="\n".join(ops) + "\n", timeout=1800)
        if r.err or r.mismatch or len(r.impl) != len(ops):
            return c          # reproduces (or cannot be re-run alone): believe it
        for k, i in enumerate(cs):
            if i < len(c.impl):
                c.impl[i] = r.impl[k]
            if i < len(c.model):
                c.model[i] = r.model[k]
                c.flags[i] = r.flags[k]
        fixed += 1
    c.mismatch = [i for i in range(max(len(c.ops), len(c.impl), len(c.model)))
                  if (c.impl[i] if i < len(c.impl) else "<missing>") != (c.model[i] if i < len(c.model) else "<missing>")]
    ctx.cov["rechecked_slow_cases"] = ctx.cov.get("rechecked_slow_cases", 0) + fixed
    ctx.notes.append("%d case(s) of %s with a timing-shaped mismatch agreed when re-run alone with 6x timeouts" % (fixed, domain))
    # restore the run files of the full run for later inspection
    return c


def case_of(c, line_idx):
    for cs in c.cases:
        if cs[0] <= line_idx <= cs[-1]:
            return cs
    return [line_idx]


def case_replay(c, cs, upto=None):
    idx = [i for i in cs if upto is None or i <= upto]
    g = lambda arr, i: arr[i] if i < len(arr) else "<missing>"
    return {"ops": [c.ops[i] for i in idx],
            "impl": [g(c.impl, i) for i in idx],
            "model": [g(c.model, i) for i in idx],
            # finding flags the model attached to each line (listed deviations an oracle must skip)
            "flags": [(c.flags[i] if i < len(c.flags) else []) for i in idx]}


def shrink_case(ctx, domain, drv_args, ops, pred, hx_env=None, budget=60):
    """Greedy one-op-removal shrink of a failing case; pred(Corr) says 'still failing'."""
    cur = list(ops)
    tries = 0
    changed = True
    while changed and tries < budget:
        changed = False
        i = len(cur) - 1
        while i >= 1 and tries < budget:   # keep the `case` header
            cand = cur[:i] + cur[i + 1:]
            tries += 1
            c = correspondence(ctx, domain, drv_args, hx_env=hx_env, ops_text="\n".join(cand) + "\n", timeout=120)
            if c.err is None and pred(c):
                cur = cand
                changed = True
            i -= 1
    return cur


# ---------------------------------------------------------------- decision + evidence
def decide_standard(ctx, corrs, finding_texts=None, require_flag_for_verdict=True):
    """Common decision logic. corrs: list of (domain, drv_args, Corr).
    finding_texts: {finding id: human text} for KNOWN-FINDING lines."""
    finding_texts = finding_texts or {}
    r = ctx.lean
    known = known_ids(ctx.pid)
    # (a) proof obligations
    if not r.ok or r.verdict is None:
        ctx.violation("proof obligation no longer checks: lake build Hv.Verdict.%s failed" % ctx.pid,
                      {"theorem": "Hv.%s.verdict" % ctx.pid, "log_tail": r.log[-3000:], "facts": ctx.facts},
                      tag="obligation", found_input=False)
    if r.bad_axioms or r.forbidden:
        ctx.violation("axiom audit failed", {"bad_axioms": r.bad_axioms, "forbidden": r.forbidden},
                      tag="axioms", found_input=False)
    if r.verdict == "undetermined":
        ctx.violation("classification undetermined (%s): no theorem covers the extracted facts" % r.why,
                      {"theorem": "Hv.%s.classify_sound" % ctx.pid, "facts": ctx.facts, "fact_errors": ctx.fact_errs},
                      tag="undetermined", found_input=False)
    # (b) correspondence
    confirmed = {}    # finding id -> replay dict (first confirmed occurrence: impl == model and model flags it)
    corrs = [(d, a, recheck_slow_cases(ctx, d, a, c)) for d, a, c in corrs]
    for domain, drv_args, c in corrs:
        if c.err:
            ctx.violation("correspondence domain %s could not run: %s" % (domain, c.err),
                          {"correspondence": domain, "error": c.err}, tag="corr-err", found_input=False)
            continue
        if c.mismatch:
            i = c.mismatch[0]
            cs = case_of(c, i)
            rep = case_replay(c, cs, upto=i)
            rep.update({"correspondence": domain, "drv_args": list(drv_args), "mismatches": len(c.mismatch),
                        "replay_cmd": "printf '%%s\\n' <ops> | bin/hx run %s  vs  lean/.lake/build/bin/drv %s %s" % (domain, domain, " ".join(drv_args))})
            ctx.mismatch_first = (domain, drv_args, c, i)
            ctx.pending_mismatch = rep
            # further mismatching cases (first mismatch of each), so that the Spec oracle can look for
            # one it can decide instead of giving up on the first
            more, seen_cases = [], {cs[0]}
            for j in c.mismatch:
                cj = case_of(c, j)
                if cj[0] in seen_cases:
                    continue
                seen_cases.add(cj[0])
                rj = case_replay(c, cj, upto=j)
                rj.update({"correspondence": domain, "drv_args": list(drv_args), "mismatches": len(c.mismatch)})
                more.append(rj)
                if len(more) >= 40:
                    break
            ctx.pending_mismatch_more = getattr(ctx, "pending_mismatch_more", []) + more
        mism = set(c.mismatch)
        for i, fl in enumerate(c.flags):
            if not fl or i in mism:
                continue
            for fid in fl:
                if fid not in confirmed:
                    cs = case_of(c, i)
                    rep = case_replay(c, cs, upto=i)
                    rep.update({"correspondence": domain, "finding": fid, "drv_args": list(drv_args)})
                    confirmed[fid] = rep
    ctx.confirmed = confirmed
    # (c) findings: verdict-level and run-level
    verdict_findings = set(r.findings) if r.verdict == "violated" else set()
    for fid in sorted(verdict_findings | set(confirmed)):
        rep = confirmed.get(fid)
        if fid in known:
            if rep is None and require_flag_for_verdict and fid in verdict_findings:
                ctx.violation("listed finding %s is classified by the facts but its witness no longer reproduces on the implementation (model and code have drifted)" % fid,
                              {"finding": fid, "facts": ctx.facts, "correspondence": [d for d, _, _ in corrs]},
                              tag="drift", found_input=False)
            else:
                ctx.known_hits.append((fid, finding_texts.get(fid) or known[fid].get("what", fid)))
        else:
            if r.verdict == "undetermined" and fid not in verdict_findings:
                # an unrecognised code shape makes the driver run with a pessimistic fact value; a line it flags
                # on which implementation and model agree is then NOT evidence of a violation (the reply may be
                # the same for the good value).  The undetermined verdict is reported on its own; concrete
                # failing inputs must come from the independent Spec oracle.
                ctx.notes.append("flag %s ignored: facts undetermined" % fid)
                continue
            if rep is not None:
                ctx.violation("finding %s: the implementation reproduces a Spec violation predicted by the model" % fid, rep, tag=fid)
            else:
                ctx.violation("finding %s classified from the extracted facts; witness not reproduced by this run's correspondence" % fid,
                              {"finding": fid, "facts": ctx.facts, "theorem": "Hv.%s.classify_sound" % ctx.pid},
                              tag=fid, found_input=False)
    return confirmed


def report_mismatch(ctx, spec_violated=None):
    """Turn a pending correspondence mismatch into a VIOLATION.  spec_violated: optional function
    (replay dict) -> str|None that says whether the *implementation's* replies violate the Spec."""
    rep = getattr(ctx, "pending_mismatch", None)
    if rep is None:
        return
    why = spec_violated(rep) if spec_violated else None
    if not why and spec_violated:
        for other in getattr(ctx, "pending_mismatch_more", []):
            w = spec_violated(other)
            if w:
                rep, why = other, w
                break
    if why:
        ctx.violation("implementation violates the property: " + why, rep, tag="impl")
    else:
        ctx.violation("correspondence %s no longer checks: implementation and model disagree (first at op %d of the case); no Spec violation found on the explored inputs"
                      % (rep["correspondence"], len(rep["ops"]) - 1), rep, tag="corr", found_input=False)


def finish(ctx, level, rule, samples, evaluations, distinct_nontrivial, extra_cov=None, trusted=None):
    r = ctx.lean
    obligations = len(r.axioms)
    discharged = obligations if (r.ok and not r.bad_axioms and not r.forbidden) else 0
    cov = {
        "obligations": max(obligations, 1),
        "discharged": discharged if r.ok else 0,
        "checker_cmd": "cd /verif/lean && lake build Hv.Verdict.%s   (prints VERDICT and #print axioms; thorough tier adds `lake env leanchecker`)" % ctx.pid,
        "trusted_base": trusted or [],
        "theorems": {k: v for k, v in sorted(r.axioms.items())},
        "lean_modules": r.modules,
        "verdict": {"kind": r.verdict, "findings": r.findings, "why": r.why},
        "facts": ctx.facts,
        "fact_sources": ctx.fact_where,
        "evaluations": int(evaluations),
        "distinct_nontrivial": int(distinct_nontrivial),
        "rule": rule,
        "samples": samples,
        "known_findings_reproduced": [k for k, _ in ctx.known_hits],
    }
    cov.update(ctx.cov)
    if extra_cov:
        cov.update(extra_cov)
    ev = {
        "property_id": ctx.pid, "tier": ctx.tier, "seed": ctx.seed, "level": level,
        "coverage": cov, "assumptions": ctx.assumptions,
        "wall_s": round(time.time() - ctx.t0, 2), "violations": len(ctx.violations),
        "notes": ctx.notes,
    }
    with open(os.path.join(VERIF, "evidence", ctx.pid + ".json"), "w") as f:
        json.dump(ev, f, indent=1, sort_keys=True)
        f.write("\n")
    seen = set()
    for fid, what in ctx.known_hits:
        if fid in seen:
            continue
        seen.add(fid)
        print("KNOWN-FINDING: property=%s %s: %s" % (ctx.pid, fid, what))
    for what, path, found in ctx.violations:
        ctx.log("violation:", what)
        print("VIOLATION property=%s replay=%s%s" % (ctx.pid, path, "" if found else " no-failing-input-found"))
    sys.stdout.flush()
    return 1 if ctx.violations else 0


def distinct_cases(c):
    """number of distinct cases (by op text) with at least 3 ops"""
    seen = set()
    for cs in c.cases:
        if len(cs) >= 3:
            seen.add("\n".join(c.ops[i] for i in cs[1:]))
    return len(seen)


def replay_generic(ctx, path):
    """./check Cxx --replay <file>: re-run the recorded op lines on the current /repo build and on the model."""
    rep = json.load(open(path))
    if "ops" not in rep:
        print(json.dumps(rep, indent=1)[:4000])
        print("replay file names no op sequence (obligation/undetermined/drift report)")
        return 0
    domain = rep.get("correspondence", ctx.pid)
    build_hx(ctx)
    build_drv(ctx)
    args = rep.get("drv_args", [])
    c = correspondence(ctx, domain, args, ops_text="\n".join(rep["ops"]) + "\n", timeout=600,
                       drv_domain=rep.get("drv_domain"))
    for i, op in enumerate(c.ops):
        a = c.impl[i] if i < len(c.impl) else "<missing>"
        b = c.model[i] if i < len(c.model) else "<missing>"
        print("%-40s impl: %-50s model: %s%s" % (op[:40], a[:50], b[:50], ("  #F:" + ",".join(c.flags[i])) if i < len(c.flags) and c.flags[i] else ""))
    return 1 if (c.mismatch or any(c.flags)) else 0
