"""C23 — V1→V2 migration preserves exactly the loadable data."""
import os
import re
import shutil

from . import common as K

META = {
    "level": "proof",
    "technique": ("Lean 4 theorems over all legacy folders, options, single-step failures and lawful V2 codecs (record level) and over all "
                  "segment lists (byte-level framing) + go/ast fact tie on migrator.go / chronicler.go + real V1 chronicler → real "
                  "migrator → real V2 chronicler with strace fault injection"),
    "text": ("Theorems Hv.C23.migrate_preserves (the migrated file loads to a member of the legacy-load relation, to exactly the legacy "
             "result when keys are distinct, under the name from the meta file), migrate_failure_atomic (any failed step leaves the V1 "
             "files untouched and no .hyd behind), migrate_delete_last (V1 files are removed only with DeleteOld, after write and "
             "verification succeeded, or for an empty swamp), migrate_dryRun_noop, migrate_existing_kept (whatever is at the target path "
             "before the run — Disk.hyd is arbitrary in failureAtomic / deleteLast / nameNotDropped / existingKept, only `preserves` is about "
             "a free target — is still there afterwards and no live run reports success next to it), migrate_no_silent_drop (a live run "
             "succeeds only if the V2 writer accepted every record: a V1 record with an empty key fails the load phase, one with a key over "
             "65535 bytes the write phase — unstorable_key_aborts, Hv.MigrateV2.long_key_refused — atomically); Hv.Migrate.parseMig_encode / parseV1_encode / "
             "readers_agree (the migrator's and the legacy segment readers return exactly the written segments); closed refutations "
             "for delete-before-verify, first-wins dedupe, .hyd left after failed verify / failed create, name lost when the meta file is unreadable, "
             "appending to a .hyd that is already there (appendsExisting_mixes: success with another swamp's name and records; "
             "appendsExisting_destroys: a failing write / verification removes the file that was there); verify_weaker and the "
             "chunk-overflow duplicate as observations. migrate_rerun_completes + migrate_twice (the scenario migrate(no DeleteOld); migrate(DeleteOld): the second run finds the target equal to the legacy "
             "data — sameTarget_sound / sameTarget_written: the test is sound and complete for a lawful codec — writes nothing and removes the "
             "folder), migrate_durable_before_delete (V1 files go only after the new file was fsync'ed); refutations refusesEqual "
             "(C23-rerun-never-completes) and noSync (C23-delete-before-fsync). classify_sound ties the decision to 15 extracted facts. Folders are built by "
             "the real V1 engine from generated histories (tiny chunk sizes), migrated by the real migrator under every option "
             "combination and with injected open/write/verify/unlink failures, and loaded back by the real V2 engine; records are "
             "compared by their whole gob model, not by key. Swamp names are mixed-case, non-ASCII, 400..800 bytes long and one of 70000 bytes; the "
             "name read back from the .hyd is compared byte for byte with the name the harness decodes from the V1 meta file itself. Folders with a "
             "hand-made empty-key record and a 70000-byte-key record. A file planted at the target path (valid V2 file of another swamp / header-only "
             "/ junk) under four option combinations and with write and verification failures. fault=dropkey: the hook between write and verify "
             "swaps the new file for a valid one that lacks a key, so verification fails on a really missing key. fault=rerun: every folder is "
             "migrated without DeleteOld first and then with the op's options; pre=newer: that file with one key rewritten since. fault=fsync: "
             "the fsync of FileWriter.Close fails; fault=syncorder: the system calls are observed (strace -y) — a successful fsync of the .hyd "
             "must precede the first unlink in the V1 folder. `multi`: 16 (thorough 60) swamps in one data directory, migrated by one run with "
             "Parallel 1 / 4 / 8: every swamp must end exactly as it does in a run of its own. NOT COVERED: verifyValues=no (verification "
             "compares keys only) does not change the verdict — with a lawful codec the written values are right (verify_weaker is recorded as "
             "an observation); durability of the directory entry of the new file (no fsync of the parent directory is modelled or required)."),
    "note": ("Trusted: Lean kernel (propext, Classical.choice, Quot.sound); extract/c23.go; harness/c23.go (its own framing parser + gob "
             "decode describe the folder to the model). The V2 codec is a parameter (V2.Lawful: with distinct keys a written file loads "
             "back to the inserted records and name); it is DISCHARGED for the C01 storage model by Hv.MigrateV2.storV2_lawful, which "
             "instantiates write = C01 writer model (createFile; WriteEntry(insert)…; Close) and load = C01 loadIndex and derives the three "
             "laws from Hv.Storage.loadIndex_runOps + replay_eq_specOf + find_specOf (stor1), for every lawful block codec and checksum, the "
             "default block size, keys 1..65535 bytes, payloads <= 1 GiB and a non-empty name < 65536 bytes; Hv.C23.migrate_preserves_c01 is "
             "the resulting statement without any V2 assumption (stor1 exports the same round trip as Hv.C01.inserts_roundtrip). Lawful is required only "
             "for records the writer accepts (V2.Lawful.acc/accN tie okE/okN to WriteEntry's and createNewFile's own checks); a record outside is "
             "covered by noSilentDrop + failureAtomic. Still assumed: gob decodes the key the V1 engine encoded; snappy "
             "round-trips (Codec.law). Folders with a key in several chunks (V1 chunk-overflow defect) have no unique legacy result: "
             "reported separately as dup-ok."),
    "design_ref": "§8 C23",
}

FINDINGS = {
    "C23-hyd-left-after-failed-create": "a write failure while the .hyd file is being created (header / swamp name) leaves the partial file behind: "
                                        "the migration reports failure but a .hyd now shadows the intact V1 folder",
    "C23-name-lost-when-meta-unreadable": "an unreadable meta file is only logged: the .hyd is written without the swamp name, and DeleteOld then removes the only copy of it",
    "C23-delete-before-verify": "V1 files are deleted before verification",
    "C23-dedupe-keeps-first": "dedupe keeps the first value of a key",
    "C23-hyd-left-after-failed-verify": "the .hyd file is left behind after a failed verification",
    "C23-existing-hyd-appended": "a .hyd file that is already at the target path is opened for appending: it keeps its own swamp name and records under the migrated "
                                 "ones, and a failing write or verification removes it",
}


def kv(line):
    return dict(t.split("=", 1) for t in line.split("\t")[0].split(" ") if "=" in t)


def op_kv(op):
    head = op.split(" | ")[0].split(" ")
    return {"v": head[2][2:], "d": head[3][2:], "r": head[4][2:], "fault": head[5][6:], "pre": head[6][4:]} if len(head) == 7 else {}


def impl_violation(op, line):
    """Spec oracle on the implementation's reply alone."""
    if op.startswith("multi "):
        if not re.match(r"multi n=\d+ diff=0$", line):
            return "several swamps migrated by one run (%s) do not all end as they do alone: %s" % (op.split(" | ")[0], line)
        return None
    if not op.startswith("mig "):
        return None
    o, r = op_kv(op), kv(line)
    res = r.get("res", "")
    if "error" in res or res in ("", "nothing") or line in ("bad-op", "copy-error", "no-swamp", "read-error", "no-meta-name", "plant-error"):
        return "harness could not run the migration: " + line
    pre = o.get("pre", "none") != "none"
    if pre and r.get("hyd") != "kept":
        return ("a .hyd file was already at the target path: the run %s it (result %s)"
                % ("removed" if r.get("hyd") == "0" else "appended to / replaced", res))
    if pre and res == "success" and o.get("r") != "1":
        return "success reported although the target path was not free"
    if res.startswith("failed"):
        if r.get("v1") != "same":
            return "migration failed (%s) but the V1 files changed (%s)" % (res, r.get("v1"))
        if r.get("hyd") != ("kept" if pre else "0"):
            return "migration failed (%s) but a .hyd file was left behind" % res
        return None
    if o.get("r") == "1":
        rerun_file = o.get("fault") == "rerun" and r.get("first") == "success"      # the earlier run's file is there, and stays
        if r.get("v1") != "same" or r.get("hyd") != ("kept" if pre else "1" if rerun_file else "0"):
            return "dry run changed the disk (%s)" % line
        return None
    if r.get("hyd") == "unsynced":
        return "V1 files were unlinked before the new file was fsync'ed"
    if o.get("fault") == "fsync" and res == "success":
        return "migration succeeded although the new file could not be made durable (fsync failed at Close)"
    if o.get("fault") == "rerun" and r.get("first") == "success" and res.startswith("failed") and o.get("r") != "1":
        return ("a run without DeleteOld succeeded, the next run fails the swamp (%s): the V1 folder can never be removed by the tool" % res)
    if o.get("fault") == "dropkey" and o.get("v") == "1" and res == "success":
        return "verification passed although a key is missing from the new file"
    if r.get("v1") != "same" and o.get("d") != "1":
        return "V1 files removed without DeleteOld"
    if res == "skipped" and "=" in op.split(" | folder=")[-1]:
        return ("a swamp that holds records was skipped as empty" +
                (" and its V1 files were removed: nothing is left of it" if r.get("v1") != "same" else ""))
    if pre:
        return None                          # skipped (empty swamp): the file is kept, checked above
    if res == "success":
        if r.get("hyd") != "1":
            return "migration succeeded but there is no .hyd file"
        if r.get("load") not in ("match", "dup-ok"):
            return "the migrated file does not load to what the legacy engine loaded (%s)" % r.get("load")
        if r.get("name") != "ok":
            return "the swamp name was not preserved"
    return None


def spec_violated(rep):
    for op, line in zip(rep["ops"], rep["impl"]):
        why = impl_violation(op, line)
        if why:
            return why + " (%s)" % op.split(" | ")[0]
    return None


def run(ctx):
    facts, _, errs = K.extract_facts(ctx)
    K.lean_verdict(ctx)
    corrs = []
    c = K.Corr()
    known = K.known_ids("C23")
    extra = {}
    if K.build_hx(ctx) and K.build_drv(ctx):
        args = ["%s=%s" % (k, v) for k, v in sorted(facts.items())]
        c = K.correspondence(ctx, "C23", args, timeout=2400)
        corrs.append(("C23", args, c))
        if not c.err:
            for i, line in enumerate(c.impl):
                op = c.ops[i] if i < len(c.ops) else ""
                why = impl_violation(op, line)
                agreed = i < len(c.flags) and c.flags[i] and i not in c.mismatch      # then decide_standard reports it under the model's id
                if why and not agreed:
                    fid = "C23-impl-" + re.sub(r"\W+", "-", why.split("(")[0].strip())[:50]
                    if fid not in extra:
                        cs = K.case_of(c, i)
                        extra[fid] = {"ops": [c.ops[cs[0]], op], "impl": [c.impl[cs[0]], line], "model": [c.model[cs[0]], c.model[i] if i < len(c.model) else ""],
                                      "correspondence": "C23", "finding": fid, "what_fails": why}
    else:
        ctx.violation("harness does not build against /repo", {"correspondence": "C23", "log": getattr(ctx, "hx_log", "")[-2000:]},
                      tag="build", found_input=False)
    # legacy folders (built by the real V1 writer from a history) in which a key sits in more than one segment
    if not c.err:
        cur = ""
        for i, op in enumerate(c.ops):
            if op.startswith("case "):
                cur = op
            elif op.startswith("mig ") and cur.split(" ")[2:3] and cur.split(" ")[2] in ("history", "overflow") and " | folder=" in op:
                keys = re.findall(r"([0-9a-f]*)=[0-9a-f]+", op.split(" | folder=")[1])
                if len(keys) != len(set(keys)) and "C23-v1-overflow-duplicates-key" not in extra:
                    dupk = sorted(set(k for k in keys if keys.count(k) > 1))[:3]
                    extra["C23-v1-overflow-duplicates-key"] = {
                        "ops": [cur, op[:600]], "impl": [cur, c.impl[i] if i < len(c.impl) else ""], "model": [cur, c.model[i] if i < len(c.model) else ""],
                        "correspondence": "C23", "finding": "C23-v1-overflow-duplicates-key",
                        "what_fails": "the V1 writer left keys %s in more than one chunk: the legacy load of this folder is not a function" % [bytes.fromhex(k).decode() for k in dupk]}
    K.decide_standard(ctx, corrs, FINDINGS)
    K.report_mismatch(ctx, spec_violated)
    # the generator's scratch area (the folders the ops refer to); kept when something failed, for the replay
    for op in c.ops:
        if op.startswith("mig "):
            base = os.path.dirname(op.split(" ")[1])
            if os.path.basename(base).startswith("hv-c23-") and not ctx.violations and not getattr(ctx, "pending_mismatch", None):
                shutil.rmtree(base, ignore_errors=True)
            break
    for fid, rep in sorted(extra.items()):
        if fid in known:
            ctx.known_hits.append((fid, known[fid].get("what", fid)))
        else:
            ctx.violation("implementation violates the property: " + rep["what_fails"], rep, tag=fid)
    if ctx.thorough:
        ok, out = K.leanchecker(ctx, ["Hv.Props.C23", "Hv.Storage.MigrateLemmas", "Hv.Storage.Migrate"])
        ctx.cov["leanchecker"] = "ok" if ok else out[-500:]
        if not ok:
            ctx.violation("leanchecker rejected the compiled proofs", {"log": out[-2000:]}, tag="leanchecker", found_input=False)
    kinds, results, faults, dup = {}, {}, {}, 0
    for op, rep in zip(c.ops, c.impl):
        if op.startswith("case "):
            k = op.split(" ")[2]
            kinds[k] = kinds.get(k, 0) + 1
        elif op.startswith("mig "):
            r = kv(rep)
            key = "%s/%s/%s" % (r.get("res"), r.get("v1", "").split(":")[0], r.get("load"))
            results[key] = results.get(key, 0) + 1
            f = op_kv(op).get("fault", "").split(":")[0]
            faults[f] = faults.get(f, 0) + 1
            if r.get("load") == "dup-ok":
                dup += 1
    nm = sum(1 for o in c.ops if o.startswith("mig "))
    chunks = [len(o.split(" | folder=")[1].split(";")) for o in c.ops if o.startswith("mig ") and " | folder=" in o]
    return K.finish(
        ctx, "proof",
        rule=("every run builds its folders in a scratch directory of its own (os.MkdirTemp, removed when nothing failed); folders = built by the real V1 chronicler from random histories of 1..10 (thorough ..30) write cycles over 2..25 keys (new, "
              "rewritten, deleted) with maxFileSize in {40,120,400,8192} bytes, plus an empty swamp, the recorded chunk-overflow history and "
              "hand-made folders with a key twice inside one chunk; each folder is migrated under all 8 Verify/DeleteOld/DryRun combinations "
              "and (every folder in thorough, three in quick) with one injected failure: open of the first chunk, 1st/2nd/3rd write to the "
              ".hyd, re-open for verification, a key really missing at verification (hook), unreadable meta file, k-th unlink, rmdir; every third folder also with a "
              "file already at the target path (valid / header-only / junk); a migration is non-trivial when the folder has at least one record; distinct = "
              "distinct (folder, options, fault); compared: result, V1 files afterwards, .hyd present, record-by-record V1 load vs V2 load, name"),
        samples=[{"op": c.ops[i].split(" | folder=")[0][-90:], "impl": c.impl[i] if i < len(c.impl) else "", "model": c.model[i] if i < len(c.model) else ""}
                 for i in range(1, min(len(c.ops), 6))],
        evaluations=nm, distinct_nontrivial=len(set(o for o in c.ops if o.startswith("mig ") and "=" in o.split(" | folder=")[-1])),
        extra_cov={"correspondence": {"domain": "C23", "folders": sum(kinds.values()), "folder_kinds": kinds, "migrations": nm,
                                      "mismatching_lines": len(c.mismatch), "results": results, "faults": faults,
                                      "max_chunks_in_a_folder": max(chunks) if chunks else 0,
                                      "migrations_on_folders_with_duplicate_keys_reported_separately": dup,
                                      "lines_flagged_by_model": sum(1 for f in c.flags if f)},
                   "fact_errors": errs[:10]},
        trusted=["Lean 4.33.0 kernel", "axioms: propext, Classical.choice, Quot.sound", "extract/c23.go", "harness/c23.go", "strace 6.1 fault injection",
                 "V2.Lawful discharged for the C01 storage model: Hv.MigrateV2.storV2_lawful (uses Hv.Storage.loadIndex_runOps, replay_eq_specOf, find_specOf)",
                 "ASSUMED: gob decodes the key the V1 engine encoded; snappy round-trips"],
    )
