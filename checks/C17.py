"""C17 — lifecycle waits always terminate."""
from . import common as K
from . import proto_util as P

META = {
    "level": "proof",
    "technique": "Lean 4 inductive-invariant proof over an LTS of Go's sync.Cond Wait/Broadcast decomposition + defer-balance theorem over "
                 "extracted handler shapes + go/ast fact tie + forced-schedule correspondence on the real vigil with a non-termination watchdog",
    "text": ("Lean theorems Hv.C17.no_lost_wakeup (with the vigil decrement under the condition variable's mutex no schedule of any length "
             "reaches a sleeping waiter with zero vigils and no broadcast pending), holds_good (plus: once operations have finished some "
             "waiter can step and its check returns; the drain owner's cancel is permanent and WaitForGracefulClose can return), "
             "defer_balance / defer_balance_autodestroy (every extracted gateway handler shape returns the safeops and vigil counters to their entry value at every exit point, panics included; when a last-key delete auto-destroys the swamp inside the handler the safeops counter is still exact and the vigil counter ends one BELOW entry on the dead instance — the method's own CeaseVigil plus the deferred one — never above), refutes_destroyHoldingVigil (a Destroy() without the preceding CeaseVigil waits for its own caller), refutes_current (closed witness check, dec, broadcast, add, park for the bare atomic "
             "decrement) and refutes_looseCheck; classify_sound ties the decision to 9 facts from vigil.go / swamp.go / safeops.go and the "
             "57 handler shapes of app/server/gateway; the model is run against the real vigil under forced schedules (hooks vigil.dec, "
             "vigil.checked) and a watchdog observes the lost wake-up as non-termination."),
    "note": ("Trusted: Lean kernel; extract/c17.go; harness/c17.go + app/verifhook + vigil.VerifCount/VerifLockFree; the sync.Cond model "
             "(Wait = ticket under L, unlock+sleep, re-lock; Broadcast wakes every ticket taken so far — as in sync/cond.go and "
             "runtime/sema.go notifyList); contexts are latches; safeops.WaitForUnlock and hydra's graceful stop poll, so they have no "
             "wake-up to lose; operations are anonymous in the model (a CeaseVigil is enabled only after a BeginVigil); the auto-destroy sites take the caller's vigil again after the destroy (fact autoDestroyRetakesVigil; `rpcs`: vigdead=0), so every handler shape is balanced also when an auto-destroy fires; the old shape (extra CeaseVigil, counter -1) is refuted under that fact (refutes_doubleCease)."),
    "design_ref": "§8 C17, Appendix E (vigil)",
}

FINDINGS = {
    "C17-double-cease-after-auto-destroy": "an auto-destroy site gives the caller's vigil back and does not take it again: the caller's deferred CeaseVigil "
                                           "runs once more and the instance's counter ends at -1 — a vigil of another request on that instance is lost",
    "C17-counter-leaks-on-early-exit": "a gateway handler takes a vigil (or the system lock) without deferring its release: leaving between the two statements "
                                       "— every handler recovers panics — keeps the counter up for ever and every later drain of that instance blocks",
    "C17-destroy-locks-swamp-before-drain": "destroy takes s.mu.Lock() before WaitForActiveVigilsClosed(): a Save in flight holds its vigil and needs "
                                            "s.mu.RLock() — the writer waits for the destroyer's lock, the destroyer for the writer's vigil (AB/BA deadlock)",
    "C17-lost-wakeup": "CeaseVigil decrements the vigil counter without holding the condition variable's mutex: a decrement+broadcast that "
                       "falls between a waiter's check and its cond.Wait is lost and WaitForActiveVigilsClosed (Destroy's drain) sleeps forever",
    "C17-destroy-holding-own-vigil": "an auto-destroy site calls Destroy() without giving the caller's own vigil back first: the drain waits "
                                     "for the caller itself",
    "C17-close-never-completes": "Close() can return after closing=1 without cancelling the swamp's context: WaitForGracefulClose (and "
                                 "every SummonSwamp of that swamp) waits for a close that never completes",
    "C17-wait-never-returns": "HasActiveVigils is true for a zero counter: WaitForActiveVigilsClosed never returns",
}


def spec_trace(rep):
    """C17s: the log is the implementation's behaviour"""
    posted = ceased = base = 0
    if any(op.strip() == "hang" for op in rep["ops"]):
        return "a waiter stayed asleep in WaitForActiveVigilsClosed after every operation had ceased (lost wake-up under concurrent load)"
    # the ordering argument below needs the decrement to be logged under v.mu
    under_mu = "decrementUnderCondLock=yes" in (rep.get("drv_args") or [])
    for op in rep["ops"]:
        w = op.split()
        if not w:
            continue
        if w[0] == "bpost":
            posted += 1
        elif w[0] == "cdec":
            ceased += 1
            if len(w) > 1 and w[1].lstrip("-").isdigit() and int(w[1]) < 0:
                return "the vigil counter went negative (%s)" % op
            base = posted - ceased
        elif w[0] == "passed":
            # `base`: operations whose BeginVigil had returned before the previous holder of v.mu logged its
            # line and that have not ceased — this waiter took the mutex later, so it must have seen them
            if base > 0 and under_mu:
                return "`%s`: the drain returned while %d operation(s) were in flight (begun before the waiter took the mutex, not ceased)" % (op, base)
            base = posted - ceased
        elif w[0] == "checked":
            base = posted - ceased
    return None


def spec_violated(rep):
    if rep.get("correspondence") == "C17s":
        return spec_trace(rep)
    for op, line in zip(rep["ops"], rep["impl"]):
        w = line.split()
        if len(w) > 2 and w[0] == "expect" and w[2] == "stuck":
            return "after `%s` waiter %s is still asleep although the vigil counter is 0 and no CeaseVigil is in flight (%s)" % (op, w[1], line)
        if "unwoken" in line:
            return "`%s`: a broadcast with a zero/positive counter did not wake a sleeping waiter (%s)" % (op, line)
        if line.startswith("delpanic") and ("destroy=stuck" in line or ("vig=" in line and "vig=0" not in line)):
            return ("a Delete RPC whose DeleteTreasure panicked (recovered by the handler) left the vigil counter of the swamp instance up: "
                    "every later Destroy of it waits for ever (%s)" % line)
        if line.startswith("destroysave") and ("stuck" in line or "mu=held" in line):
            return ("Destroy() with a Save in flight never completes: the destroyer %s the swamp mutex when its drain begins, the writer it waits "
                    "for needs that mutex (%s)" % ("holds" if "mu=held" in line else "blocks on", line))
        if line.startswith("closefail") and ("stuck" in line or "hang" in line):
            return ("Close() returned but the close never completes: WaitForGracefulClose got no answer within its budget after the "
                    "chronicler's final Close() failed (%s)" % line)
        if line.startswith("rpcs") and "vigdead=hang" in line:
            return "a Delete of the last key never returned: the auto-destroy drain waits for the handler's own vigil (%s)" % line
        if line.startswith("rpcs") and ("sys=true" in line or "vig=true" in line):
            return "after the RPCs a counter did not return to zero (%s)" % line
        for bad in ("unexpected-", "lock-stuck"):
            if bad in line:
                return "`%s` → `%s`" % (op, line)
    return None


def run(ctx):
    facts, _, _ = K.extract_facts(ctx)
    K.lean_verdict(ctx)
    corrs = []
    if K.build_hx(ctx) and K.build_drv(ctx):
        args = ["%s=%s" % (k, facts.get(k, "unknown")) for k in ("decrementUnderCondLock", "checkStrict", "closeCancels", "drainBeforeSwampMu", "autoDestroyRetakesVigil")]
        hp = str(facts.get("handlers", "")).replace(",", " ").split()
        args.append("handlersPaired=" + ("yes" if len(hp) >= 3 and hp[0] == hp[2] else "no"))
        c = K.correspondence(ctx, "C17", args)
        corrs.append(("C17", args, c))
        # genuinely concurrent run of the real vigil; its hook log must be a trace of the model
        targs = args + ["mode=trace"]
        ct = K.correspondence(ctx, "C17s", targs, drv_domain="C17")
        corrs.append(("C17s", targs, ct))
        ctx.cov["trace_inclusion"] = {"domain": "C17s", "log_lines": len(ct.ops), "rounds": len(ct.cases),
                                      "lines_rejected_by_model": len(ct.mismatch), "event_histogram": ct.op_hist}
    else:
        ctx.violation("harness does not build against the repository", {"correspondence": "C17", "log": getattr(ctx, "hx_log", "")[-2000:]},
                      tag="build", found_input=False)
    K.decide_standard(ctx, corrs, FINDINGS)
    K.report_mismatch(ctx, spec_violated)
    # Spec oracle over the whole run, implementation replies only
    for name, dargs, c in corrs:
        if c.err or getattr(ctx, "confirmed", {}):
            continue
        for cs in c.cases:
            rep = K.case_replay(c, cs)
            rep["correspondence"], rep["drv_args"] = name, dargs
            why = spec_violated(rep)
            if why:
                ctx.violation("implementation violates the property: " + why, rep, tag="impl")
                break
    if ctx.thorough:
        ok, out = K.leanchecker(ctx, ["Hv.Props.C17", "Hv.Conc.VigilLemmas", "Hv.Conc.Vigil"])
        ctx.cov["leanchecker"] = "ok" if ok else out[-500:]
        if not ok:
            ctx.violation("leanchecker rejected the compiled proofs", {"log": out[-2000:]}, tag="leanchecker", found_input=False)
    c = corrs[0][2] if corrs else K.Corr()
    outcomes = {}
    for l in c.impl:
        w = l.split()
        if len(w) > 2 and w[0] == "expect":
            outcomes[w[2]] = outcomes.get(w[2], 0) + 1
    return K.finish(
        ctx, "proof",
        rule=("schedules = 4 corpus cases (the Lean witness check/dec/broadcast/add/park; the same with two operations; a broadcast after the "
              "ticket; real gateway RPCs incl. a recovered panic and an early return, then both counters are read) followed by random sequences "
              "of begin / cease / bcast / wait / wgo W / expect W (4..17 ops quick, ..33 thorough), each ending with all operations finished "
              "and an `expect` per waiter; non-trivial = at least 3 ops; distinct = distinct op texts; each reply (event, counter, stopped / "
              "blocked CeaseVigil calls, waiter states; all observed) is compared between the real vigil and the Lean model"),
        samples=P.std_samples(c),
        evaluations=len(c.ops),
        distinct_nontrivial=K.distinct_cases(c),
        extra_cov={"correspondence": {"domain": "C17", "cases": len(c.cases), "op_lines": len(c.ops), "mismatching_lines": len(c.mismatch),
                                      "op_histogram": c.op_hist, "reply_histogram": c.reply_hist, "expect_outcomes": outcomes,
                                      "lines_flagged_by_model": sum(1 for f in c.flags if f)},
                   "handler_shapes": facts.get("handlers")},
        trusted=["Lean 4.33.0 kernel", "axioms: propext, Classical.choice, Quot.sound", "extract/c17.go", "harness/c17.go + app/verifhook",
                 "sync.Cond / notifyList semantics as modelled", "context cancellation is a latch"],
    )
