"""C05 — close and reload preserve every record exactly."""
from . import common as K
from . import kvcommon as KV

META = {
    "level": "proof",
    "technique": ("Lean 4: record-level theorem about the storage encoding (persistRecord_id_iff), the 'every mutation marks dirty' "
                  "invariant over all histories, lifted to what a close + reload shows; go/ast fact tie (encoding/gob on a struct "
                  "with pointer fields and no type tag); correspondence with the real gateway through forced closes (Swamp.Close, "
                  "graceful stop + restart, idle eviction) and re-summon"),
    "text": ("Verdict over Hv.C05.Full = HoldsSingle ∧ FailKeepsRecs ∧ RecreateStaysFiled, each clause proved in BOTH directions from its "
             "fact: single_typeTagged / not_single_gob (encoding; reload_view: for ANY facts the view after close + reload of a session on "
             "a buffered swamp is every record passed once through LoadFromByte∘ConvertToByte, invariant DOK; persistRecord_id_iff: gob is "
             "the identity exactly on values that are not zero-like), fail_keeps_recs / not_fail_keeps_recs (incFailClean: a conditional "
             "Increment that answers 'not incremented' leaves the records alone), recreate_stays_filed / not_recreate_stays_filed "
             "(recreateKeepsPointer: a record re-created while its delete is queued keeps the file pointer, so the next delete reaches "
             "the writer). History level, Hv.C05.Holds (every persistent kind, requests interleaved with closes): refuted by "
             "not_holds_gob / not_holds_incfail / not_holds_resurrect whenever a clause fails (findings_backed), for symbolic facts; "
             "C05_partial: single-session histories without quirk tags and without zero-like values; zero_table."),
    "note": ("Trusted: Lean kernel (propext, Classical.choice, Quot.sound); extract/c05.go + c06.go; harness/c05.go + c06.go. 'holds' means: the "
             "single-session theorem and the absence of the two known multi-session loss mechanisms are PROVED; that Holds itself (several "
             "sessions, write interval 0, the 1 s write ticker of kind p1t, CompactSwamp) then follows is TESTED by the correspondence run and "
             "the independent reference, not proved. Keys the file cannot hold are refused by the gateway (fact keyChecked, modelled: "
             "InvalidArgument before anything is created). The file format itself is C01. encoding/gob's zero omission is modelled "
             "(validated by the 28-value table case on both write paths), not verified. "
             "PARTLY PROVED: Hv.C05.holds_multi_partial — with a type-tagged encoding, Holds (any persistent kind, any number of sessions) follows from StepKeepsPOK (every request keeps the invariant 'a key that is not waiting for the writer has the persisted form of its live record in the file image'); proved around it: the invariant holds initially, a close keeps it, an instance reloaded from a written file has it, close + reload from it shows every record once through the encoding (Hv.Data.close_view_pok, any kind), SaveFunction and deleteHandler keep it under the side conditions 'a treasure whose changed flag is clear is the stored one or already queued' and 'an object without a file pointer is not in the file' (pok_save, pok_delete). OPEN: discharging those side conditions along every request (flag accuracy of the setters, recreateKeepsPointer, incFailClean) — StepKeepsPOK itself; HoldsSingle is one session on a buffered swamp (write interval > 0) only; the request universe of the Lean statements (Req) has no PatchTreasures / expired-shift / ShiftMatching — those reach persistence through the same SaveFunction / deleteHandler and are exercised by the correspondence run (one request in five) and the reference oracle, not by a theorem."),
    "design_ref": "§8 C05",
}

FINDINGS = {
    "C05-deleted-key-resurrected": ("on a swamp with a write interval > 0: delete a persisted key, create it again and delete it again before the "
                                    "writer runs — SaveFunction replaces the queued delete by the new treasure, deleteHandler then drops the "
                                    "unwritten treasure from the write buffer, nothing is written, and the originally persisted record is back "
                                    "after close + reload"),
    "C05-unstorable-key-acknowledged": ("Set / Increment / Uint32SlicePush accept the empty key and keys of 65536 bytes and more and answer NEW; the "
                                        "V2 writer refuses such entries (empty key; key length is a 16-bit field) and only logs it, so the record is "
                                        "readable until the swamp closes and is gone after the reload (a 65535-byte key survives)"),
    "C05-zero-like-reloads-void": ("gob omits zero-valued fields: Int8..Uint64 0, Float32/64 ±0.0, false, \"\", empty bytes and an empty "
                                   "uint32 slice have their content type before a close and come back as void (no value) after it; "
                                   "metadata survives"),
    "C05-failed-increment-leaves-trace": ("an Increment whose condition fails has already applied its SetIfExist metadata to the live "
                                          "record without handing it to the writer: Get shows it until the swamp closes, the reload does not"),
}


def run(ctx):
    facts, _, _ = K.extract_facts(ctx)
    K.lean_verdict(ctx)
    known = K.known_ids(ctx.pid)
    corrs = []
    if K.build_hx(ctx) and K.build_drv(ctx):
        args = KV.drv_args(facts)
        c = K.correspondence(ctx, "C05", args)
        corrs.append(("C05", args, c))
    else:
        ctx.violation("harness does not build against the repository", {"correspondence": "C05", "log": getattr(ctx, "hx_log", "")[-2000:]},
                      tag="build", found_input=False)
    K.decide_standard(ctx, corrs, FINDINGS)
    K.report_mismatch(ctx, KV.spec_violated_factory(known, ctx))
    c = corrs[0][2] if corrs else K.Corr()
    checked, devs, ostats = (0, [], {})
    if corrs and not c.err:
        # the reference must explain every reply; only close lines attributed to a listed C05 finding,
        # and (C06 territory) request lines the model marks as deviating, are exempt
        checked, devs, ostats = KV.run_oracle(ctx, c, "C05", known, exempt_model_marked=True)
    if ctx.thorough:
        ok, out = K.leanchecker(ctx, ["Hv.Props.C05", "Hv.Data.Persist"])
        ctx.cov["leanchecker"] = "ok" if ok else out[-500:]
        if not ok:
            ctx.violation("leanchecker rejected the compiled proofs", {"log": out[-2000:]}, tag="leanchecker", found_input=False)
    closes = {"close": 0, "restart": 0, "closeidle": 0}
    changed = 0
    for i, l in enumerate(c.ops):
        if l in closes:
            closes[l] += 1
            if i < len(c.flags) and c.flags[i]:
                changed += 1
    samples = []
    for cs in c.cases[:1]:
        samples.append({"ops": [c.ops[i] for i in cs][:8] + ["…"] + [c.ops[i] for i in cs][-10:],
                        "impl": [c.impl[i] for i in cs if i < len(c.impl)][-4:]})
    return K.finish(
        ctx, "proof",
        rule=("histories = corpus (28-value zero/non-zero table on both write paths, unsaved-metadata cases, an in-memory swamp) + random "
              "C06-style mixes on persistent swamps (write interval 0 and 1 s), then a forced close (Swamp.Close as GracefulStop does; every "
              "5th case a full StopHydra + restart on the same data root; two cases real idle eviction with a 1 s idle timeout), a full "
              "read-back (GetAll, Count, Get of every key, IsSwampExist), optionally more requests and a second close; a case is "
              "non-trivial when it has >= 3 ops; distinct = distinct case texts"),
        samples=samples,
        evaluations=len(c.ops),
        distinct_nontrivial=K.distinct_cases(c),
        extra_cov={"correspondence": {"domain": "C05", "cases": len(c.cases), "op_lines": len(c.ops),
                                      "mismatching_lines": len(c.mismatch), "op_histogram": c.op_hist,
                                      "closes": closes, "closes_that_changed_the_view": changed},
                   "oracle": {"lines_evaluated": checked, "lines_not_enough_known": ostats.get("unknown", 0), "lines_total": ostats.get("lines", 0), "deviations": len(devs)}},
        trusted=["Lean 4.33.0 kernel", "axioms: propext, Classical.choice, Quot.sound", "extract/c05.go", "harness/c05.go, harness/c06.go",
                 "MODELLED (validated, not verified): encoding/gob zero omission"],
    )
