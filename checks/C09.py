"""C09 — concurrent writes on a key are linearizable; no lost updates."""
import re

from . import common as K

META = {
    "level": "proof",
    "technique": "Lean 4 inductive-invariant proof over an LTS of read-modify-write calls on top of the C15 guard LTS (all schedules, "
                 "any number of calls and environment guard clients, both write modes) + go/ast fact tie + forced schedules through "
                 "hook points in IncrementInt64/SaveFunction/guard, stress and client-history linearizability checking on the real gateway",
    "text": ("Hv.C09.linearizable_of_exclusive: if the guard is exclusive and every body reads and writes between its acquire and its "
             "first release, then for every schedule the write order is a linearization (respects real time, replays as a sequential "
             "history with exactly the given responses, ends in the current value, contains every committed call once); "
             "no_lost_update: value = initial + sum of committed increments; exclusive_with_double_release: with guard IDs never "
             "reused this holds in both write modes although immediate-write mode releases twice; closed counterexamples "
             "lost_update_with_reset (3 calls, ID reuse + double release), lost_update_read_first, lost_update_write_late, "
             "stale_object_not_linearizable (delete racing an increment that already fetched the object); classify_sound over five facts."),
    "note": ("The model's calls are abstract read-modify-write functions Int -> Int (increment, set, clear, set-if-absent, "
             "set-if-present, delete); `holds` needs every body shape guarded (including: nothing is read from the object behind "
             "Save, no decision comes from a test made before the guard), guard IDs never reused and the object re-check.  The "
             "forced increment schedules drive IncrementInt64 (the ten Increment bodies, PatchFields, Set, Uint32Slice*, "
             "deleteHandler share the shape, which extract/c09.go checks syntactically; the stress part rotates four variants); "
             "conditional Sets and creating field patches are forced through their own hook points (mode setx).  Object identity "
             "(Hv.Stale) is executed by the driver next to Hv.Lin in the fetch / del cases; what a re-opened swamp finds after "
             "`reload` (delete entries written by the chronicler) is driver-level, Hv.Stale has no file.  In immediate-write mode "
             "the harness starts a call's file writer only when no earlier writer is pending (hook save.released), so the "
             "'second writer is skipped because one is active' interleaving is not exercised.  The Go scheduler is driven, not "
             "enumerated.  Trusted: Lean kernel, extract/c09.go, harness/c09.go + c09set.go, sync.Cond semantics, C15."),
    "design_ref": "§8 C09",
}

FINDINGS = {
    "C09-delete-increment-stale-object": "an increment that fetched the treasure object before a concurrent delete took it out of the key "
                                         "index continues on the orphan: the delete is acknowledged, the increment returns old+d and "
                                         "re-inserts the record (never-persisted record); on a persisted record the re-inserted object "
                                         "still carries DeletedAt and the acknowledged increment is written as a delete (gone after reload)",
    "C09-lost-update-guard-id-reuse": "guard IDs restart when the queue empties and immediate-write mode releases twice: a stale release "
                                      "frees a later holder and two increments read the same value",
    "C09-read-outside-guard": "a body reads the record before StartTreasureGuard (gateway Set: the existence tests behind "
                              "Overwrite=false / CreateIfNotExist=false are made before the treasure is guarded, so two conditional "
                              "Sets both write, or a Set without CreateIfNotExist re-creates a key deleted meanwhile)",
    "C09-write-outside-guard": "a body writes / saves the record after ReleaseTreasureGuard",
    "C09-response-read-after-save": "the Increment bodies build their metadata response (createMetaForIncrementResponse) behind obj.Save(id): "
                                    "with write interval 0 SaveFunction has released the guard by then, and the response carries the "
                                    "metadata of whoever took the record next",
}

INC = {"A": 1, "B": 10, "C": 100, "D": 1000}


def setx_violated(ops, impl):
    """mode setx: brute-force linearizability, per key, of conditional Sets / deletes / reads on "x" and of creating
    field patches / deletes / reads on "p".  A synchronous op occupies one instant, a spawned op the interval [spawn, go]."""
    import itertools
    calls, open_ = [], {}
    for i, (op, line) in enumerate(zip(ops, impl)):
        f, r = op.split(), line.split()
        if "stuck" in line or "hang" in line:
            return "request hangs at `%s`" % op
        if f[0] in ("seta", "setx") and len(r) == 2:
            calls.append((f[0], int(f[1]), r[1], i, i))
        elif f[0] in ("del", "pdel", "pinc") and len(r) == 2:
            calls.append((f[0], 0, r[1], i, i))
        elif f[0] == "get" and len(r) == 2:
            calls.append(("get", 0, r[1][2:], i, i))
        elif f[0] == "pget" and len(r) == 2:
            calls.append(("pget", 0, r[1][2:], i, i))
        elif f[0] == "spawn":
            a = int(f[3]) if len(f) > 3 else 0
            if " done " in line:
                calls.append((f[2], a, r[2], i, i))
            else:
                open_[f[1]] = (f[2], a, i)
        elif f[0] == "go" and f[1] in open_ and " done " in line:
            k, a, i0 = open_.pop(f[1])
            calls.append((k, a, r[2], i0, i))

    def apply(c, v):
        k, a, resp = c[0], c[1], c[2]
        if k == "seta":
            return (resp == "WROTE", a) if v is None else (resp == "UNCHANGED", v)
        if k == "setx":
            return (resp == "NOT_FOUND", v) if v is None else (resp == "WROTE", a)
        if k in ("del", "pdel"):
            return (resp == "NOT_FOUND", None) if v is None else (resp == "DELETED", None)
        if k == "pinc":
            return (resp == "CREATED", 1) if v is None else (resp == "PATCHED", v + 1)
        return (resp == ("absent" if v is None else str(v)), v)

    for key, kinds in (("x", ("seta", "setx", "del", "get")), ("p", ("pinc", "pdel", "pget"))):
        cs = [c for c in calls if c[0] in kinds]
        if len(cs) > 8:
            continue
        found = False
        for perm in itertools.permutations(range(len(cs))):
            ok = True
            for x in range(len(perm)):
                for y in range(x + 1, len(perm)):
                    if cs[perm[y]][4] < cs[perm[x]][3]:
                        ok = False
            if not ok:
                continue
            v = None
            for idx in perm:
                good, v = apply(cs[idx], v)
                if not good:
                    ok = False
                    break
            if ok:
                found = True
                break
        if not found:
            return "no serial order of %s on key %s explains the responses (a decision was taken outside the record guard)" % \
                (["%s(%s)->%s" % (c[0], c[1], c[2]) for c in cs], key)
    return None


def spec_violated(rep):
    ops, impl = rep["ops"], rep["impl"]
    head = ops[0].split() if ops else []
    mode = head[2] if len(head) > 2 else ""
    if mode == "setx":
        return setx_violated(ops[1:], impl[1:])
    written, deleted = set(), False
    for op, line in zip(ops[1:], impl[1:]):
        f = op.split()
        if "NONLIN" in line:
            return "client-visible history is not linearizable: " + line[:300]
        if f[0] == "stress":
            m = re.match(r"ok acked=(\d+) lost=(\d+) dup=(\d+) errors=(\d+)", line)
            if not m:
                return "stress run failed: " + line
            if int(m.group(1)) != int(f[1]) * int(f[3]) or int(m.group(2)) or int(m.group(3)) or int(m.group(4)):
                return "increments lost / duplicated under load: " + line
        if mode != "sched":
            continue
        if f[0] == "del" and "DELETED" in line:
            deleted = True
            written = set()
            continue
        m = re.match(r"(\w):(\S+)(?: r=(-?\d+))?(?: by=(\w*))? q=\[[^\]]*\] c=-?\d+ v=(\S+)", line)
        if f[0] == "reload":
            mm = re.match(r"reload v=(\S+)", line)
            if mm and head[3] != "m" and written and mm.group(1) == "absent":
                return "acknowledged increments %s are gone after reload" % sorted(written)
            continue
        if not m:
            continue
        t, state, r, by, v = m.groups()
        if by is not None and r is not None and by != t:
            return "call %s answered with the metadata stamped by %s (UpdatedBy=%s): its response was read after it let go of the record" % (t, by, by)
        if state in ("3", "3w", "4", "5"):
            written.add(t)
        base = 0 if deleted else 5
        want = base + sum(INC[x] for x in written)
        if v.lstrip("-").isdigit() and int(v) != want:
            return "value %s after `%s` but the committed increments of %s on %d give %d" % (v, op, sorted(written), base, want)
        if r is not None and deleted and int(r) != want and len(written) == 1:
            return "increment after an acknowledged delete returned %s (expected %d)" % (r, want)
    return None


def run(ctx):
    facts, _, _ = K.extract_facts(ctx)
    K.lean_verdict(ctx)
    corrs = []
    if K.build_hx(ctx) and K.build_drv(ctx):
        args = ["%s=%s" % (k, facts.get(k, "unknown")) for k in ("resetsIdOnEmpty", "releasesGuardWhenImmediate", "rechecksObjectUnderGuard", "setTestsExistenceUnderGuard", "bodyShape", "shiftByKeysOneSession", "deleteTrustsHandlerResult", "gatewayWritesRecheckObject")]
        c = K.correspondence(ctx, "C09", args, timeout=900)
        corrs.append(("C09", args, c))
    else:
        ctx.violation("harness does not build against /repo", {"correspondence": "C09", "log": getattr(ctx, "hx_log", "")[-2000:]},
                      tag="build", found_input=False)
    K.decide_standard(ctx, corrs, FINDINGS)
    K.report_mismatch(ctx, spec_violated)
    if ctx.thorough:
        ok, out = K.leanchecker(ctx, ["Hv.Props.C09", "Hv.Conc.LinearizeLemmas", "Hv.Conc.Linearize", "Hv.Conc.Stale"])
        ctx.cov["leanchecker"] = "ok" if ok else out[-500:]
        if not ok:
            ctx.violation("leanchecker rejected the compiled proofs", {"log": out[-2000:]}, tag="leanchecker", found_input=False)
    c = corrs[0][2] if corrs else K.Corr()
    samples = []
    for cs in (c.cases[:1] + c.cases[4:6]):
        samples.append({"ops": [c.ops[i] for i in cs], "impl": [c.impl[i] for i in cs if i < len(c.impl)]})
    modes = {}
    for cs in c.cases:
        f = c.ops[cs[0]].split()
        k = " ".join(f[2:4])
        modes[k] = modes.get(k, 0) + 1
    return K.finish(
        ctx, "proof",
        rule=("cases: sched = forced schedules of 2..4 IncrementInt64 calls on one key (6..23 `step T` ops; each op lets one call perform "
              "its next action enqueue/read/write/save/release; replies give the call's position, the guard queue, the ID counter and the "
              "record value) in three configurations (persistent write interval 0 / 3600 s, in-memory), preceded by the ID-reuse witness "
              "schedule in every configuration, a double-release-with-waiters schedule and the delete/increment object race; stress = W "
              "goroutines x N increments over K keys (responses per key must be 1..n, final = n); mixed = 3 clients x 4 random "
              "set / conditional set (Overwrite=false, CreateIfNotExist=false) / delete / inc / get on one key with a Wing-Gong "
              "linearizability search over the client-visible history; setx = forced schedules of conditional Sets parked at hook "
              "gw.set.tested (after the gateway's unguarded existence tests) around synchronous conditional Sets, deletes and reads, "
              "model = Hv.Lin calls with set-if-absent / set-if-present / delete bodies, oracle = brute-force linearizability.  "
              "Non-trivial = >= 3 ops."),
        samples=samples,
        evaluations=len(c.ops),
        distinct_nontrivial=K.distinct_cases(c),
        extra_cov={"correspondence": {"domain": "C09", "cases": len(c.cases), "case_modes": modes, "op_lines": len(c.ops),
                                      "mismatching_lines": len(c.mismatch), "op_histogram": c.op_hist,
                                      "lines_flagged_by_model": sum(1 for f in c.flags if f)}},
        trusted=["Lean 4 kernel", "axioms: propext, Classical.choice, Quot.sound", "extract/c09.go (+ c15.go)", "harness/c09.go + app/verifhook",
                 "sync.Cond/Mutex semantics", "C15 (guard exclusive when IDs are never reused)"],
    )
