"""C13 — structural msgpack patch matches its documented semantics."""
import os
import re
import resource
import struct
import subprocess

from . import common as K

META = {
    "level": "proof",
    "technique": ("Lean 4 theorems over all byte strings / document trees / op lists (induction on parser fuel and on the tree) for an "
                  "executable model of msgpackpatch covering every format code + go/ast fact tie + byte-exact differential "
                  "correspondence with the real ApplyWithCondition / Parse / PatchFields + independent reference oracle on the "
                  "implementation's replies"),
    "text": ("Lean theorems Hv.C13.parse_serialize (exact-bytes round trip on encoder-chosen headers) and parse_serialize_structural "
             "(any header widths), apply_wf (a reported success leaves a body the parser accepts, when op values are validated), "
             "untouched_bytes (every sub-tree off the op's path is identical afterwards), ops_atomic / ops_atomic_fold / cond_unmet, "
             "inc_preserves_code / inc_keeps_format (op level), cond_numeric and nan_equal_nothing, apply_refines_spec_partial (parsing the returned body "
             "gives Spec.refOps — the eight documented ops over the decoded tree — of the parsed input; REMOVE_VAL with scalar values), "
             "untouched_target (siblings of the target, incl. one-segment paths), atomic_fold — all for arbitrary inputs; closed witnesses witness_unvalidated "
             "(SET x <- 0xc1 succeeds, body no longer parses) and witness_nan_equal (EQUAL NaN is met) refute the property for the "
             "unrepaired fact values; classify_sound ties the decision to the extracted facts. THE WIRE: wire_cond_agrees / wire_op_agrees "
             "(when the Go const blocks of CondOp / OpKind are the proto enums' tables — extracted from condition.go, apply.go and "
             "hydraide.pb.go — and the conversion in gateway_patch.go range-checks, every wire number reaches the engine as the operator "
             "the proto names, any other number as no operator), gw_refines (Gateway.PatchTreasures and PatchExpiredTreasures / "
             "applyPatchExpiredOne do to the treasure what PatchFields does with the operators the request means), WireHolds is part "
             "of the decided statement; witness_wire_truncated (unchecked cast: 256 = SET, 257 = NOT_EQUAL) and witness_wire_swapped; "
             "every PatchFields line of the run is also sent through both RPCs with proto enum numbers (`gp` / `gx` lines). "
             "SeedIsMap (pfGate_created_map: a treasure is only ever created from a msgpack map — `non-map seeds yield TYPE_MISMATCH`; "
             "witness_nonmap_seed for the code that only parses the seed) is part of the decided statement as well."),
    "note": ("Trusted: Lean kernel (propext, Classical.choice, Quot.sound); extract/c13.go; harness/c13.go; checks/C13.py. The model "
             "mirrors vmihailenco/msgpack v5.4.1 (Skip, DecodeMapLen/ArrayLen/String, generic Unmarshal with only the time extension "
             "registered) — validated by the correspondence run, not proved. PLATFORM ASSUMPTION: the payload bits of a NaN produced by INC (x + NaN, Inf + -Inf, float32(NaN)) are not defined by the Go "
             "spec; the model states the amd64 SSE2 rule (first NaN operand, quieted; default NaN fff8…), but the correspondence does not "
             "assert it: every op line whose INC may meet NaN / ±Inf is an `apn` line, for which both sides print NaN leaves as the "
             "canonical quiet NaN (compared as \"is NaN\"). EXPLICIT EXCLUSIONS of apply_wf / "
             "apply_refines_spec / apply_error_class (RefinesSpec, SuccessWf, ErrorClassAgrees in Holds): (hpaths) an op whose path is "
             "2^32 bytes or longer, and (hsize) a patch for which (largest child count of any map / array in the parsed body) + "
             "(number of ops + number of MERGE fields) reaches 2^32 — i.e. a container that could be pushed to 2^32-1 children, where "
             "the msgpack header can no longer express the count (EncodeMapLen / EncodeArrayLen truncate to 32 bits). Both need a "
             "single request of 4 GiB or more (one byte per child at least; the path itself), which neither gRPC nor the 32-bit "
             "length prefixes of the store admit: they are unreachable and NOT covered by any theorem, witness or test here; nothing "
             "is claimed about the code's behaviour on them. ERROR CLASSES: apply_error_class proves that a documented "
             "failure of class c (Spec.refOps) is a failure of class c of the model (and op_agrees / applyOps_agrees the converse), "
             "for all op kinds, when (a) MERGE values are ones the code accepts and (b) no op runs after a same-patch container "
             "splice (NoSplice; finding C13-spliced-value-opaque otherwise). Ambiguous in the docs, tested only: a rejected MERGE "
             "value that is malformed AND not a map (code: TYPE_MISMATCH by first byte, decode-first reading: ENCODING_NOT_SUPPORTED; "
             "closed witness merge_rejected_class), msgpack-vs-nonstr inside a malformed MERGE map (same status 7), and an op with "
             "both a malformed value and a bad path (check order undocumented; the oracle abstains). That the Go code fails with the "
             "model's class is the correspondence run, not a proof."),
    "design_ref": "§8 C13",
}

FINDINGS = {
    "C13-unvalidated-op-value": "op values are spliced in unvalidated: SET x <- 0xc1 (or a value with a trailing byte / non-string map key) "
                                "reports success and leaves a body that Parse rejects",
    "C13-nan-compares-equal": "cmpFloat64 returns 0 when an operand is NaN: the condition `f EQUAL NaN` (and `f EQUAL 1.0` on a NaN field) is met",
    "C13-removeval-skips-containers": "applyRemoveVal skips every array element that is a map / array parsed from the stored body: on {\"t\":[[1]]}, "
                                      "REMOVE_VAL t <- [1] reports success and removes nothing (the docs: `the first array element whose "
                                      "msgpack-encoded bytes equal Value`); the same value IS removed when it was appended earlier in the same patch",
    "C13-removeval-all-matches": "applyRemoveVal removes EVERY array element equal to Value: on {\"t\":[1,2,1]}, REMOVE_VAL t <- 1 leaves [2] "
                                 "(the docs: `the FIRST array element whose msgpack-encoded bytes equal Value` — [2,1])",
    "C13-wire-enum-truncated": "gateway_patch.go turns PatchOp.Kind / PatchCondition.Op into the engine's uint8 enums by a bare type conversion: "
                               "a wire number that is no operator but differs from one by a multiple of 256 is executed as that operator "
                               "(Kind 256 = SET, Operator 257 = NOT_EQUAL) instead of being rejected like 8 or 99",
    "C13-wire-enum-misaligned": "the Go const block of msgpackpatch.OpKind / CondOp is not in the order of the proto enum: a wire operator "
                                "reaches the engine as another operator (PatchTreasures / PatchExpiredTreasures only; PatchFields callers "
                                "that use the Go names are unaffected)",
    "C13-nonmap-seed-created": "PatchFields only checks that InitialMsgpackOnCreate parses: with CreateIfNotExist, seed 0x01 (or an array, a "
                               "string) and no op that touches the root, the missing key is reported CREATED and the treasure's body is "
                               "that non-map value (documented twice: `Must be a msgpack-encoded map; non-map seeds yield TYPE_MISMATCH`)",
    "C13-status-mapping": "classifyPatchError maps a msgpackpatch error class to another PatchFields status than documented "
                          "(CONDITION_NOT_MET / TYPE_MISMATCH / PATH_INVALID for path and invalid-op / ENCODING_NOT_SUPPORTED)",
    "C13-spliced-value-opaque": "a map / array value stored by SET / APPEND / PREPEND / MERGE is an opaque leaf for the rest of the same patch: "
                                "`SET x <- {\"a\":1}; SET x.a <- 2` is rejected with TYPE_MISMATCH, although the same two ops sent as two "
                                "patches succeed (ops are documented to apply in order to the document)",
    "C13-prealloc-untrusted-count": "parseMap / parseArray / extractTopLevelFields and the msgpack library's generic decoder size an allocation by a "
                                    "declared 32-bit element count before reading a single element: the 5-byte MERGE value df ff ff ff ff makes the "
                                    "process ask for 160 GB and die with `fatal error: runtime: out of memory` (not recoverable)",
}

# (line, address-space limit in GiB).  On the unrepaired code the map32 threshold dies only after the
# library has filled the whole limit table by table, so it gets a small one.
PROBES = [
    ("ap 81a17801 - merge:6d:dfffffffff", 4),      # extractTopLevelFields
    ("ap dfffffffff -", 4),                        # parseMap on the body
    ("parse ddffffffff", 4),                       # parseArray
    ("ap 81a17801 - set:78:ddffffffff", 4),        # op value validated with Parse
    ("ap 81a178a161 eq:78:ddffffffff", 4),         # threshold → generic decoder, slice
    ("ap 81a178a161 eq:78:dfffffffff", 2),         # threshold → generic decoder, map
    ("ap 81a178c0 eq:78:92dfffffffffc0", 2),       # … nested
]


# ------------------------------------------------------------------ independent reference (generic values)
class Malformed(Exception):
    pass


class Skip(Exception):
    """the reference has no opinion on this case"""


class RefErr(Exception):
    """the documented semantics make the op fail"""


def _need(b, i, n):
    if i + n > len(b):
        raise Malformed("eof")


def _be(b, i, n):
    _need(b, i, n)
    return int.from_bytes(b[i:i + n], "big")


def dec(b, i=0, strkeys=True):
    """one msgpack value → (tree, next index); tree = ('L', bytes) | ('M', [(key, tree)]) | ('A', [tree])"""
    _need(b, i, 1)
    c = b[i]
    def leaf(n):
        _need(b, i, 1 + n)
        return ("L", bytes(b[i:i + 1 + n])), i + 1 + n
    if c <= 0x7f or c >= 0xe0 or c in (0xc0, 0xc2, 0xc3):
        return leaf(0)
    if 0xa0 <= c <= 0xbf:
        return leaf(c - 0xa0)
    if c == 0xc1:
        raise Malformed("c1")
    fixed = {0xca: 4, 0xcb: 8, 0xcc: 1, 0xcd: 2, 0xce: 4, 0xcf: 8, 0xd0: 1, 0xd1: 2, 0xd2: 4, 0xd3: 8,
             0xd4: 2, 0xd5: 3, 0xd6: 5, 0xd7: 9, 0xd8: 17}
    if c in fixed:
        return leaf(fixed[c])
    lp = {0xc4: (1, 0), 0xc5: (2, 0), 0xc6: (4, 0), 0xc7: (1, 1), 0xc8: (2, 1), 0xc9: (4, 1), 0xd9: (1, 0), 0xda: (2, 0), 0xdb: (4, 0)}
    if c in lp:
        k, e = lp[c]
        return leaf(k + _be(b, i + 1, k) + e)
    if 0x80 <= c <= 0x8f or c in (0xde, 0xdf):
        if c <= 0x8f:
            n, j = c - 0x80, i + 1
        else:
            k = 2 if c == 0xde else 4
            n, j = _be(b, i + 1, k), i + 1 + k
        fs = []
        for _ in range(n):
            _need(b, j, 1)
            kc = b[j]
            if not (0xa0 <= kc <= 0xbf or kc in (0xd9, 0xda, 0xdb)):
                raise Malformed("nonstr")
            (_, kraw), j2 = dec(b, j)
            hdr = 1 if kc <= 0xbf else {0xd9: 2, 0xda: 3, 0xdb: 5}[kc]
            key = kraw[hdr:]
            v, j = dec(b, j2)
            fs.append((key, v))
        return ("M", fs), j
    if 0x90 <= c <= 0x9f or c in (0xdc, 0xdd):
        if c <= 0x9f:
            n, j = c - 0x90, i + 1
        else:
            k = 2 if c == 0xdc else 4
            n, j = _be(b, i + 1, k), i + 1 + k
        xs = []
        for _ in range(n):
            v, j = dec(b, j)
            xs.append(v)
        return ("A", xs), j
    raise Malformed("code")


def dec_all(b):
    if len(b) == 0:
        raise Malformed("empty")
    t, j = dec(b, 0)
    if j != len(b):
        raise Malformed("trailing")
    return t


_SEG = re.compile(rb"^([^.\[\]#][^.\[\]]*)((?:\[[+-]?[0-9]*\])*)$")


def ref_path(p):
    if p == b"":
        raise RefErr("path")
    segs = []
    for part in p.split(b"."):
        m = _SEG.match(part)
        if not m:
            raise RefErr("path")
        segs.append(("f", m.group(1)))
        for br in re.findall(rb"\[([+-]?[0-9]*)\]", m.group(2)):
            if br == b"":
                segs.append(("a",))
            elif br in (b"+", b"-"):
                raise RefErr("path")
            else:
                n = int(br)
                if not (-2 ** 63 <= n < 2 ** 63):
                    raise RefErr("path")
                segs.append(("i", n))
    return segs


def _find(fs, key):
    """the field named `key`: with duplicate keys the FIRST one (the Spec's answer — `Spec.keyIndex`;
    the docs are silent, the SDK never writes duplicates, and a patch must not depend on a later twin)"""
    for i, (k, _) in enumerate(fs):
        if k == key:
            return i
    return None


def _canon_nan(t):
    """NaN float leaves → canonical quiet NaN (for `apn` lines: payload bits are platform-defined)"""
    if t[0] == "L":
        return ("L", (b"\xca\x7f\xc0\x00\x00" if len(t[1]) == 5 else b"\xcb\x7f\xf8" + b"\x00" * 6)) if is_nan_leaf(t[1]) else t
    if t[0] == "M":
        return ("M", [(k, _canon_nan(v)) for k, v in t[1]])
    return ("A", [_canon_nan(v) for v in t[1]])


class Opaque(Exception):
    """an op addresses INTO a map / array value that an earlier op of the same patch put there"""


SPLICED = {}        # id() → the container values spliced in by the ops of the line being judged (the
                    # objects are kept alive: a freed value's id() is reused by the next tuple built)
TOUCHED = [False]   # did the op being evaluated go through / target one of them?


def _mark(t):
    if t[0] in ("M", "A"):
        SPLICED[id(t)] = t
    return t


def _value(v):
    try:
        return _mark(dec_all(v))
    except Malformed:
        raise Skip("op value is not one well-formed value")


def _num(raw):
    c = raw[0]
    if c <= 0x7f:
        return "u", c, None
    if c >= 0xe0:
        return "i", c - 256, None
    if 0xcc <= c <= 0xcf:
        return "u", int.from_bytes(raw[1:], "big"), len(raw) - 1
    if 0xd0 <= c <= 0xd3:
        return "i", int.from_bytes(raw[1:], "big", signed=True), len(raw) - 1
    if c == 0xca:
        return "f", struct.unpack(">f", raw[1:])[0], 4
    if c == 0xcb:
        return "f", struct.unpack(">d", raw[1:])[0], 8
    return None, None, None


def _hdr(n, fix, c16, c32, lim):
    if n < lim:
        return bytes([fix | n])
    if n < 65536:
        return bytes([c16]) + n.to_bytes(2, "big")
    return bytes([c32]) + n.to_bytes(4, "big")


def _enc(t):
    """encoding of a generic tree with the smallest container / key headers; leaves verbatim"""
    if t[0] == "L":
        return t[1]
    if t[0] == "A":
        return _hdr(len(t[1]), 0x90, 0xdc, 0xdd, 16) + b"".join(_enc(x) for x in t[1])
    out = _hdr(len(t[1]), 0x80, 0xde, 0xdf, 16)
    for k, v in t[1]:
        n = len(k)
        kh = bytes([0xa0 | n]) if n < 32 else (b"\xd9" + bytes([n]) if n < 256 else
                                               (b"\xda" + n.to_bytes(2, "big") if n < 65536 else b"\xdb" + n.to_bytes(4, "big")))
        out += kh + k + _enc(v)
    return out


def _chain(keys, inner):
    for k in reversed(keys):
        inner = ("M", [(k, inner)])
    return inner


def ref_op(t, kind, path, val):
    """documented semantics of one op; raises Opaque when the op SUCCEEDS only because the reference looks
    into a container value an earlier op of the same patch stored (the code keeps it as an opaque leaf and
    answers TYPE_MISMATCH); abstains when such an op fails for another reason than a type mismatch"""
    TOUCHED[0] = False
    try:
        res = _ref_op(t, kind, path, val)
    except RefErr as e:
        if TOUCHED[0] and str(e) != "type":
            raise Skip("fails inside a spliced value: which error comes first is not documented")
        raise
    if TOUCHED[0]:
        raise Opaque()
    return res


def _ref_op(t, kind, path, val):
    """documented semantics of one op on the generic tree; returns the new tree"""
    segs = ref_path(path)
    if kind not in ("set", "del", "inc", "app", "pre", "rmat", "rmval", "merge"):
        raise RefErr("op")
    if kind in ("set", "inc", "app", "pre", "rmval", "merge") and len(val) == 0:
        raise RefErr("op")
    # an op whose value is malformed AND whose path / target is wrong: which error is reported is not
    # documented (the code validates the value first) — the reference abstains
    if kind in ("set", "app", "pre", "inc"):
        try:
            dec_all(val)
        except Malformed:
            raise Skip("malformed op value")
    # walk to the parent of the final segment, copying the spine
    def go(node, k):
        if id(node) in SPLICED:
            TOUCHED[0] = True
        seg = segs[k]
        last = k == len(segs) - 1
        if seg[0] == "f":
            if node[0] != "M":
                raise RefErr("type")
            fs = list(node[1])
            i = _find(fs, seg[1])
            if i is None:
                return ("M", fs), ("missing", k)
            if last:
                return ("M", fs), ("target", i)
            child, hit = go(fs[i][1], k + 1)
            return ("M", fs), ("down", i, child, hit)
        if seg[0] == "i":
            if node[0] != "A":
                raise RefErr("type")
            xs = list(node[1])
            n = seg[1] + len(xs) if seg[1] < 0 else seg[1]
            if not (0 <= n < len(xs)):
                raise RefErr("path")
            if last:
                return ("A", xs), ("target", n)
            child, hit = go(xs[n], k + 1)
            return ("A", xs), ("down", n, child, hit)
        if not last:
            raise RefErr("path")
        if node[0] != "A":
            raise RefErr("type")
        return ("A", list(node[1])), ("slot",)

    def rebuild(node, hit, fn):
        if hit[0] == "down":
            _, i, child, sub = hit
            new = rebuild(child, sub, fn)
            kids = list(node[1])
            kids[i] = (kids[i][0], new) if node[0] == "M" else new
            return (node[0], kids)
        return fn(node, hit)

    if kind == "rmat" and segs[-1][0] != "i":
        raise RefErr("path")
    if kind == "inc":
        try:
            dec_all(val)
        except Malformed:
            raise Skip("delta with trailing/truncated bytes")
        dc, dv, _ = _num(val)
        if dc is None:
            raise RefErr("type")
    if kind == "merge":
        if not (0x80 <= val[0] <= 0x8f or val[0] in (0xde, 0xdf)):
            raise RefErr("type")
        try:
            mv = dec_all(val)
        except Malformed:
            raise Skip("MERGE value is not one well-formed map")
        for _, fv in mv[1]:
            _mark(fv)
    root, hit = go(t, 0)

    def handler(node, hit):
        kids = list(node[1])
        def put(i, new):
            kids[i] = (kids[i][0], new) if node[0] == "M" else new
        def get(i):
            return kids[i][1] if node[0] == "M" else kids[i]
        def missing_keys(k):
            ks = []
            for s in segs[k:]:
                if s[0] != "f":
                    raise RefErr("path")
                ks.append(s[1])
            return ks
        if kind == "set":
            if hit[0] == "target":
                put(hit[1], _value(val))
            elif hit[0] == "missing":
                ks = missing_keys(hit[1])
                kids.append((ks[0], _chain(ks[1:], _value(val))))
            else:
                raise RefErr("path")
        elif kind == "del":
            if hit[0] == "target":
                del kids[hit[1]]
        elif kind == "inc":
            if hit[0] == "target":
                tgt = get(hit[1])
                if tgt[0] != "L":
                    raise RefErr("type")
                tc, tv, tw = _num(tgt[1])
                if tc is None or tc != dc:
                    raise RefErr("type")
                if tc == "f":
                    # IEEE double addition (Python floats), then the target's own width
                    if tv != tv or dv != dv:
                        raise Skip("NaN payloads are checked by the model correspondence only")
                    s = tv + dv
                    if s != s:
                        raise Skip("NaN result")
                    if tgt[1][0] == 0xca:
                        try:
                            enc = struct.pack(">f", s)
                        except OverflowError:
                            enc = struct.pack(">f", float("inf") if s > 0 else float("-inf"))
                        put(hit[1], ("L", b"\xca" + enc))
                    else:
                        put(hit[1], ("L", b"\xcb" + struct.pack(">d", s)))
                    return (node[0], kids)
                code = tgt[1][0]
                if tw is None:      # fixint target: the documented rule widens to 64 bits
                    code, tw = (0xcf, 8) if tc == "u" else (0xd3, 8)
                s = (tv + dv) % (1 << (8 * tw))
                put(hit[1], ("L", bytes([code]) + s.to_bytes(tw, "big")))
            elif hit[0] == "missing":
                ks = missing_keys(hit[1])
                kids.append((ks[0], _chain(ks[1:], ("L", bytes(val)))))
            else:
                raise RefErr("path")
        elif kind in ("app", "pre"):
            if hit[0] == "slot":
                if kind == "pre":
                    kids.insert(0, _value(val))
                else:
                    kids.append(_value(val))
            elif hit[0] == "missing" and segs[-1][0] == "a":
                ks = []
                for s in segs[hit[1]:-1]:
                    if s[0] != "f":
                        raise RefErr("path")
                    ks.append(s[1])
                kids.append((ks[0], _chain(ks[1:], ("A", [_value(val)]))))
            else:
                raise RefErr("path")
        elif kind == "rmat":
            if hit[0] != "target":
                raise RefErr("path")
            del kids[hit[1]]
        elif kind == "rmval":
            if hit[0] == "target":
                tgt = get(hit[1])
                if id(tgt) in SPLICED:
                    TOUCHED[0] = True
                if tgt[0] != "A":
                    raise RefErr("type")
                # "the first array element whose msgpack-encoded bytes equal Value": scalars by their exact
                # bytes, containers by their encoding with the smallest headers (what a re-encode gives)
                try:
                    want = _enc(dec_all(val))
                except Malformed:
                    want = bytes(val)
                xs = list(tgt[1])
                if RMVAL_RULE[0] == "all":          # hypothesis: every match goes
                    xs = [x for x in xs if _enc(x) != want]
                else:
                    for i, x in enumerate(xs):
                        if RMVAL_RULE[0] == "skip" and x[0] != "L":   # hypothesis: container elements are skipped
                            continue
                        if _enc(x) == want:
                            del xs[i]
                            break
                put(hit[1], ("A", xs))
        elif kind == "merge":
            def merged(fs):
                fs = list(fs)
                for k, v in mv[1]:
                    i = _find(fs, k)
                    if i is None:
                        fs.append((k, v))
                    else:
                        fs[i] = (k, v)
                return ("M", fs)
            if hit[0] == "target":
                tgt = get(hit[1])
                if id(tgt) in SPLICED:
                    TOUCHED[0] = True
                if tgt[0] != "M":
                    raise RefErr("type")
                put(hit[1], merged(tgt[1]))
            elif hit[0] == "missing":
                ks = missing_keys(hit[1])
                kids.append((ks[0], _chain(ks[1:], merged([]))))
            else:
                raise RefErr("path")
        else:
            raise RefErr("op")
        return (node[0], kids)

    return rebuild(root, hit, handler)


def unhex(s):
    return b"" if s in ("-", "") else bytes.fromhex(s)


def parse_ap(line):
    f = line.split(" ")
    body = unhex(f[1])
    cond = None if f[2] == "-" else tuple(f[2].split(":"))
    ops = [tuple(x.split(":")) for x in f[3:]]
    return body, cond, ops


def is_nan_leaf(raw):
    if len(raw) == 5 and raw[0] == 0xca:
        v = int.from_bytes(raw[1:], "big")
        return (v >> 23) & 0xff == 0xff and v & 0x7fffff != 0
    if len(raw) >= 9 and raw[0] == 0xcb:
        v = int.from_bytes(raw[1:9], "big")
        return (v >> 52) & 0x7ff == 0x7ff and v & ((1 << 52) - 1) != 0
    return False


def cond_nan(body, cond):
    """is the condition an (in)equality whose field or threshold is a float NaN?"""
    if cond is None or cond[0] not in ("eq", "ge", "le"):
        return False
    thr = unhex(cond[2])
    try:
        t = dec_all(body)
        segs = ref_path(unhex(cond[1]))
    except (Malformed, RefErr):
        return False
    node = t
    try:
        for s in segs:
            if s[0] == "f" and node[0] == "M":
                # duplicate keys: the first one is the field (fact dupKey = first)
                hit = [v for k, v in node[1] if k == s[1]]
                if not hit:
                    return False
                node = hit[0]
            elif s[0] == "i" and node[0] == "A":
                n = s[1] + len(node[1]) if s[1] < 0 else s[1]
                if not 0 <= n < len(node[1]):
                    return False
                node = node[1][n]
            else:
                return False
    except Skip:
        return False
    if node[0] != "L":
        return False
    fa = node[1][0] in (0xca, 0xcb)
    fb = len(thr) > 0 and thr[0] in (0xca, 0xcb)
    if not (fa and fb):
        return False
    thr_nan = is_nan_leaf(thr[:5]) if thr[0] == 0xca else is_nan_leaf(thr[:9])
    return is_nan_leaf(node[1]) or thr_nan


def _payload(raw):
    """('s'|'b', content) of a str / bin leaf, else None"""
    c = raw[0]
    if 0xa0 <= c <= 0xbf:
        return "s", raw[1:]
    hdr = {0xd9: 2, 0xda: 3, 0xdb: 5, 0xc4: 2, 0xc5: 3, 0xc6: 5}.get(c)
    if hdr is None:
        return None
    return ("s" if c >= 0xd9 else "b"), raw[hdr:]


def ref_cond(t, cond):
    """Is the condition met by the document, evaluated with exact integers / IEEE doubles?
    True / False, or None when the reference has no opinion (errors, NaN, foreign classes)."""
    op, path, thr = cond[0], unhex(cond[1]), unhex(cond[2])
    if op == "unk":
        return None
    try:
        segs = ref_path(path)
    except RefErr:
        return None
    node, exists = t, True
    for k, s in enumerate(segs):
        if s[0] == "f":
            if node[0] != "M":
                return None if op not in ("ex", "nex") else (op == "nex")
            hit = [v for kk, v in node[1] if kk == s[1]]      # duplicate keys: the first is the field
            if not hit:
                exists = False
                break
            node = hit[0]
        elif s[0] == "i":
            if node[0] != "A":
                return None if op not in ("ex", "nex") else (op == "nex")
            n = s[1] + len(node[1]) if s[1] < 0 else s[1]
            if not 0 <= n < len(node[1]):
                return None                                   # out of range: a path error, not "unmet"
            node = node[1][n]
        else:
            if k != len(segs) - 1:
                return None
            if node[0] != "A":
                return None if op not in ("ex", "nex") else (op == "nex")
            exists = False
    leaf = exists and node[0] == "L"
    if op == "ex":
        return leaf
    if op == "nex":
        return not leaf
    if not leaf:
        return False
    try:
        if dec_all(thr)[0] != "L":
            return None
    except Malformed:
        return None
    a, b = node[1], thr
    ac, av, _ = _num(a)
    bc, bv, _ = _num(b)
    if ac is not None or bc is not None:
        if ac != bc:
            return None
        if ac == "f" and (av != av or bv != bv):
            return None
        c = (av > bv) - (av < bv)
    else:
        pa, pb = _payload(a), _payload(b)
        if pa is not None and pb is not None and pa[0] == pb[0]:
            c = (pa[1] > pb[1]) - (pa[1] < pb[1])
        elif a[0] in (0xc2, 0xc3) and b[0] in (0xc2, 0xc3):
            c = (a[0] > b[0]) - (a[0] < b[0])
        else:
            return None
    return {"eq": c == 0, "ne": c != 0, "gt": c > 0, "ge": c >= 0, "lt": c < 0, "le": c <= 0}[op]


def _first_diff(x, y, path=""):
    """first position where two generic trees differ: (path, left, right)"""
    if x[0] != y[0] or x[0] == "L":
        return (path, x, y) if x != y else None
    if x[0] == "M":
        for i, ((ka, va), (kb, vb)) in enumerate(zip(x[1], y[1])):
            if ka != kb:
                return (path + "{%d}" % i, ("K", ka), ("K", kb))
            d = _first_diff(va, vb, path + "." + ka.decode("latin1"))
            if d:
                return d
    else:
        for i, (va, vb) in enumerate(zip(x[1], y[1])):
            d = _first_diff(va, vb, path + "[%d]" % i)
            if d:
                return d
    if len(x[1]) != len(y[1]):
        return (path, ("len", len(x[1])), ("len", len(y[1])))
    return None


def rmval_container(ops):
    """does the op list contain a REMOVE_VAL whose value is a map / array encoding?"""
    for k, _, v in ops:
        b = unhex(v)
        if k == "rmval" and b and (0x80 <= b[0] <= 0x9f or b[0] in (0xdc, 0xdd, 0xde, 0xdf)):
            return True
    return False


# REMOVE_VAL under the documented rule ("doc": the first element whose encoding equals Value) or under one of
# the two deviations seen in the code's history — used only to NAME the cause of an already established deviation
RMVAL_RULE = ["doc"]
RMVAL_CAUSES = (("skip", "C13-removeval-skips-containers"), ("all", "C13-removeval-all-matches"))


def rmval_cause(body, cond, ops, observed):
    """the implementation's outcome `observed` = ("ok", tree) | ("err", status) deviates from the documented one:
    is it what REMOVE_VAL-skips-containers / REMOVE_VAL-removes-every-match would give?  → finding id | None"""
    if not any(k == "rmval" for k, _, _ in ops):
        return None
    for rule, fid in RMVAL_CAUSES:
        RMVAL_RULE[0] = rule
        try:
            exp = ref_outcome(body, cond, ops)
        except Opaque:
            exp = None
        finally:
            RMVAL_RULE[0] = "doc"
        if exp is None or exp[0] != observed[0]:
            continue
        if exp[0] == "err":
            if exp[1] == observed[1]:
                return fid
        elif exp[1] == observed[1] or _canon_nan(exp[1]) == _canon_nan(observed[1]):
            return fid
    return None


def value_malformed(ops):
    """does the op list splice a value that is not exactly one well-formed, string-keyed value?"""
    for k, _, v in ops:
        if k in ("set", "inc", "app", "pre", "merge") and v not in ("", "-"):
            try:
                t = dec_all(unhex(v))
                if k == "merge" and t[0] != "M":
                    continue
            except Malformed:
                return True
    return False


def oracle_line(op, rep):
    """Spec oracle on ONE implementation reply.  Returns (finding id | None, text) or None."""
    if rep in ("panic", "input-mutated") or rep.startswith("err-with-output"):
        return (None, "`%s` → %s" % (op[:200], rep))
    canon = op.startswith("apn ")
    if canon:
        op = "ap " + op[4:]
    if op.startswith("ap "):
        body, cond, ops = parse_ap(op)
        if rep.startswith("out "):
            f = rep.split(" ")
            out = unhex(f[1])
            if f[2] != "wf=1":
                fid = "C13-unvalidated-op-value" if value_malformed(ops) else None
                return (fid, "reported success, but the real parser rejects the output body %s" % f[1])
            if cond_nan(body, cond):
                return ("C13-nan-compares-equal", "condition %s is met although an operand is NaN" % ":".join(cond))
            # success ⇒ the condition, evaluated numerically by the reference, is met
            if cond is not None:
                try:
                    met = ref_cond(dec_all(body), cond)
                except Malformed:
                    met = None
                if met is False:
                    return (None, "condition %s is NOT met by the document (exact integer / IEEE comparison), but the patch was applied"
                            % ":".join(cond))
            # success ⇒ the output is one well-formed, string-keyed msgpack value for the reference decoder too
            # (decided before anything below can skip: a lenient real parser must not hide a malformed body)
            try:
                got = dec_all(out)
            except Malformed as e:
                fid = "C13-unvalidated-op-value" if value_malformed(ops) else None
                return (fid, "reported success with wf=1, but the reference decoder rejects the output body %s (%s)" % (f[1], e))
            # success ⇒ the output decodes to what the documented semantics give
            SPLICED.clear()
            try:
                t = dec_all(body)
                for k, p, v in ops:
                    t = ref_op(t, k, unhex(p), unhex(v))
            except (Skip, Opaque):
                return None
            except RefErr as e:
                fid = rmval_cause(body, None, ops, ("ok", got))
                return (fid, "reported success, but the documented semantics reject the op list (%s)" % e)
            except Malformed:
                return (None, "reported success on a body / with an output the reference decoder rejects")
            if canon:
                got, t = _canon_nan(got), _canon_nan(t)
            if got != t:
                d = _first_diff(got, t)
                if d and d[1][0] == "L" and d[2][0] == "L" and _num(d[1][1])[0] and _num(d[2][1])[0] \
                        and d[1][1][0] != d[2][1][0] and any(k == "inc" for k, _, _ in ops) \
                        and rmval_cause(body, None, ops, ("ok", got)) is None:
                    return (None, "INC does not keep the target's numeric format: at `%s` the output holds %s (code %02x), the documented "
                            "rule gives %s (code %02x)" % (d[0].lstrip("."), d[1][1].hex(), d[1][1][0], d[2][1].hex(), d[2][1][0]))
                where = " (first difference at `%s`: got %s, expected %s)" % (
                    d[0].lstrip("."), d[1][1].hex() if d[1][0] in ("L", "K") else d[1], d[2][1].hex() if d[2][0] in ("L", "K") else d[2]) if d else ""
                fid = rmval_cause(body, None, ops, ("ok", got))
                return (fid, "output %s does not decode to the document the documented semantics give%s" % (f[1], where))
        elif rep.startswith("err "):
            return judge_error(body, cond, ops, GROUP.get(rep[4:]), "the patch was rejected with `%s`" % rep)
        return None
    if op.startswith(("pf ", "gp ", "gx ")):
        return judge_pf(op, rep)
    return None


# status groups of the documented mapping (hydraide.proto PatchResult + classifyPatchError)
GROUP = {"cond": 3, "type": 5, "path": 6, "op": 6, "msgpack": 7, "nonstr": 7}
STATUS_NAME = {0: "PATCHED", 1: "CREATED", 2: "KEY_NOT_FOUND", 3: "CONDITION_NOT_MET", 5: "TYPE_MISMATCH", 6: "PATH_INVALID",
               7: "ENCODING_NOT_SUPPORTED", 8: "INTERNAL_ERROR"}


def ref_outcome(body, cond, ops):
    """documented outcome of a patch on a body: ("ok", tree) | ("err", status group) | None (no opinion).
    Raises Opaque when an op addresses into a container spliced in earlier in the same patch."""
    SPLICED.clear()
    try:
        t = dec_all(body)
    except Malformed:
        return ("err", 7)
    if cond is not None:
        met = ref_cond(t, cond)
        if met is None:
            return None
        if met is False:
            return ("err", 3)
    try:
        for k, p, v in ops:
            t = ref_op(t, k, unhex(p), unhex(v))
    except Skip:
        return None
    except RefErr as e:
        return ("err", {"type": 5, "path": 6, "op": 6}[str(e)])
    return ("ok", t)


def judge_error(body, cond, ops, got_status, what):
    """the implementation failed with a status of group `got_status`: does the documentation agree?"""
    if got_status is None:
        return (None, "unknown error class: " + what)
    try:
        exp = ref_outcome(body, cond, ops)
    except Opaque:
        if got_status == 5:
            return ("C13-spliced-value-opaque", "a later op addresses into a map / array value that an earlier op of the same patch "
                    "stored, and %s (the same ops as two patches succeed)" % what)
        return None
    if exp is None:
        return None
    if exp[0] == "ok":
        fid = rmval_cause(body, cond, ops, ("err", got_status))
        return (fid, "the documented semantics apply the op list, but " + what)
    if exp[1] != got_status:
        if exp[1] == 3:
            return (None, "the condition is NOT met by the document (CONDITION_NOT_MET expected), but " + what)
        if got_status == 3:
            return (None, "condition %s IS met by the document (exact integer / IEEE comparison), but the patch was rejected as "
                    "CONDITION_NOT_MET" % ":".join(cond or ()))
        # a skipped container REMOVE_VAL changes what the following ops meet (another error, or an error elsewhere)
        fid = rmval_cause(body, cond, ops, ("err", got_status))
        return (fid, "the documented outcome is %s, but %s" % (STATUS_NAME.get(exp[1], exp[1]), what))
    return None


# hydraide.proto: PatchOp.Kind / PatchCondition.Op by number (the wire contract)
DOC_OPS = ["set", "del", "inc", "app", "pre", "rmat", "rmval", "merge"]
DOC_CONDS = ["eq", "ne", "gt", "ge", "lt", "le", "ex", "nex"]


def _doc_tok(k, table):
    """operator token of a gp / gx line → the operator it MEANS: `wN` is wire number N, no operator outside the enum"""
    if k.startswith("w"):
        n = int(k[1:])
        return table[n] if 0 <= n < len(table) else "unk"
    return k


def _wire_far(tokens):
    return any(t.startswith("w") and not 0 <= int(t[1:]) < 256 for t in tokens)


def judge_pf(op, rep):
    """PatchFields end-to-end (`pf`), and the same call through Gateway.PatchTreasures (`gp`) / on an expired treasure
    through Gateway.PatchExpiredTreasures (`gx`) with the proto enums: status, stored body, echoed body and meta
    against the documentation"""
    f = op.split(" ")
    verb = f[0]
    m = re.match(r"st=(\d+) (\S+) wf=(\d) new=(\S+) exp=(-?\d+) mat=(\d) mby=(\S+) cat=(\d) cby=(\S+)$", rep)
    if not m or len(f) < 6:
        return (None, "PatchFields reply `%s`" % rep)
    st, stored, wf, new = int(m.group(1)), m.group(2), m.group(3), m.group(4)
    exp, mat, mby, cat, cby = int(m.group(5)), m.group(6), m.group(7), m.group(8), m.group(9)
    before, exp0 = f[1], 0
    if "@" in before:
        before, e0 = before.split("@")
        exp0 = int(e0)
    create, seed, meta = f[2] == "1", unhex(f[3]), f[4]
    cond = None if f[5] == "-" else tuple(f[5].split(":"))
    ops = [tuple(x.split(":")) for x in f[6:]]
    raw_toks = [o[0] for o in ops] + ([cond[0]] if cond else [])
    far = verb != "pf" and _wire_far(raw_toks)       # a wire number outside 0‥255: no operator at all
    if verb != "pf":
        cond = None if cond is None else (_doc_tok(cond[0], DOC_CONDS),) + cond[1:]
        ops = [(_doc_tok(k, DOC_OPS), p_, v_) for k, p_, v_ in ops]
    if verb == "gx":
        create, seed = False, b""
    if verb == "gp" and stored.startswith("b:c700") and st in (0, 1):
        new = stored[6:]                              # PatchTreasures does not echo the body
    mt = {} if meta == "-" else dict((t.split("=") + [""])[:2] for t in meta.split(","))
    # ---- what the documentation promises
    if st in (0, 1):
        if not stored.startswith("b:c700") or stored[6:] != new:
            return (None, "PatchFields success but stored %s / echoed %s" % (stored, new))
        if wf != "1":
            fid = "C13-unvalidated-op-value" if value_malformed(ops) else None
            return (fid, "PatchFields reported success, stored body does not parse")
        # meta: stamped on success; Created* only on create; ClearExpiredAt over SetExpiredAt
        want_exp = 0 if "clr" in mt else (int(mt["exp"]) if "exp" in mt else exp0)
        want = (want_exp, "1" if "ua" in mt else "0", mt.get("ub") or "-",
                "1" if (st == 1 and "ca" in mt) else "0", (mt.get("cb") or "-") if st == 1 else "-")
        if (exp, mat, mby, cat, cby) != want:
            return (None, "PatchFields meta after %s: got exp=%d mat=%s mby=%s cat=%s cby=%s, documented %s" %
                    (STATUS_NAME[st], exp, mat, mby, cat, cby, want))
    else:
        if stored != before or new != "-" or exp != exp0 or (mat, mby, cat, cby) != ("0", "-", "0", "-"):
            return (None, "PatchFields status %d but the treasure changed: %s → %s (exp %d → %d)" % (st, f[1], stored, exp0, exp))
    if cond is not None and cond[0] == "unk" and st in (0, 1):
        return ("C13-wire-enum-truncated" if far else None,
                "the condition's operator %s is no PatchCondition.Op, but the patch was applied" % raw_toks[-1])
    # ---- expected status
    if before == "absent" and not create:
        want_st, body = 2, None
    else:
        sd = seed if seed else b"\x80"
        seed_ok = True
        try:
            dec_all(sd)
        except Malformed:
            seed_ok = False
        seed_map = sd[0] in range(0x80, 0x90) or sd[0] in (0xde, 0xdf)
        if create and not seed_ok:
            want_st, body = 5, None
        elif create and not seed_map:
            # "InitialMsgpackOnCreate … Must be a msgpack-encoded map; non-map seeds yield TYPE_MISMATCH" (hydraide.proto,
            # PatchFieldsOptions).  A success is a deviation; which error a non-map seed AND a bad op / path / unmet
            # condition give is not ordered by the docs — the reference abstains on other error statuses.
            if st == 1 and before == "absent":
                return ("C13-nonmap-seed-created", "%s created the treasure from the seed %s, which is not a msgpack map "
                        "(documented: TYPE_MISMATCH)" % ("PatchFields" if verb == "pf" else "PatchTreasures", seed.hex()))
            return None          # (an existing treasure: the seed is not used; the code may or may not look at it)
        elif before == "absent":
            want_st, body = None, sd
        elif before == "other":
            want_st, body = 5, None
        else:
            raw = unhex(before[2:])
            if len(raw) < 2 or raw[:2] != b"\xc7\x00":
                want_st, body = 7, None
            else:
                want_st, body = None, raw[2:]
    if body is not None:
        try:
            out = ref_outcome(body, cond, ops)
        except Opaque:
            return ("C13-spliced-value-opaque", "PatchFields: a later op addresses into a value stored earlier in the same patch") \
                if st == 5 else None
        if out is None:
            return None
        if out[0] == "err":
            want_st = out[1]
        else:
            want_st = 1 if before == "absent" else 0
            if st == want_st:
                try:
                    if dec_all(unhex(new)) != out[1]:
                        fid = rmval_cause(body, cond, ops, ("ok", dec_all(unhex(new)))) or ("C13-wire-enum-truncated" if far else None)
                        return (fid, "PatchFields stored %s, which is not the document the documented semantics give" % new)
                except Malformed:
                    return (None, "PatchFields stored a body the reference decoder rejects: %s" % new)
    if st != want_st:
        fid = None
        if body is not None:
            obs = ("err", st)
            if st in (0, 1):
                try:
                    obs = ("ok", dec_all(unhex(new)))
                except Malformed:
                    obs = None
            fid = rmval_cause(body, cond, ops, obs) if obs else None
            if fid is None and far:
                fid = "C13-wire-enum-truncated"
        if fid is None and body is not None and st not in (0, 1) and want_st not in (0, 1, None):
            fid = "C13-status-mapping"      # an op / condition error reported under another status
        return (fid, "%s replied %s (%d), the documented status is %s (%d)" %
                ({"pf": "PatchFields", "gp": "PatchTreasures", "gx": "PatchExpiredTreasures"}[verb],
                 STATUS_NAME.get(st, "?"), st, STATUS_NAME.get(want_st, "?"), want_st))
    return None


def spec_violated(rep):
    for op, line in zip(rep["ops"], rep["impl"]):
        r = oracle_line(op, line)
        if r is not None:
            return r[1] if r[0] is None else "%s: %s" % (r[0], r[1])
    return None


# ------------------------------------------------------------------ allocation probe (memory-limited child)
def probe(ctx, drv_args):
    """Each probe line in its own memory-limited (RLIMIT_AS) `hx run` child.  Returns (crashed lines, mismatching lines)."""
    hx = os.path.join(K.BIN, "hx")
    crashed, wrong, other = [], [], []
    for line, gib in PROBES:
        def limit(g=gib):
            resource.setrlimit(resource.RLIMIT_AS, (g << 30, g << 30))
        try:
            _, model, _ = K.run_lines([K.drv_path(), "C13", *drv_args], line + "\n", timeout=60)
            p = subprocess.run([hx, "run", "C13"], input=line + "\n", stdout=subprocess.PIPE, stderr=subprocess.PIPE,
                               text=True, timeout=120, preexec_fn=limit)
        except subprocess.TimeoutExpired:
            # not the recorded symptom (a loaded machine, or a different defect): reported separately
            other.append((line, "no reply within 120 s"))
            continue
        out = p.stdout.strip().split("\n")[0] if p.stdout.strip() else ""
        if p.returncode != 0 or out == "":
            tail = [l for l in p.stderr.split("\n") if l.startswith("fatal error") or l.startswith("runtime:")][:2]
            if "out of memory" in p.stderr:
                crashed.append((line, "exit %d %s" % (p.returncode, " ".join(tail))))
            else:
                other.append((line, "exit %d without an out-of-memory report: %s" % (p.returncode, p.stderr.strip()[-300:])))
        elif model and out != model[0].split("\t")[0]:
            wrong.append((line, out, model[0]))
    return crashed, wrong, other


# ------------------------------------------------------------------ check
def run(ctx):
    facts, _, _ = K.extract_facts(ctx)
    K.lean_verdict(ctx)
    corrs = []
    args = []
    if K.build_hx(ctx) and K.build_drv(ctx):
        magic = "%02x%02x" % (int(facts.get("magic0", "0") or 0), int(facts.get("magic1", "0") or 0)) \
            if facts.get("magic0", "unknown") != "unknown" and facts.get("magic1", "unknown") != "unknown" else "unknown"
        args = ["validatesValues=" + facts.get("validatesValues", "unknown"), "nanCompare=" + facts.get("nanCompare", "unknown"),
                "magic=" + magic, "removeValCompare=" + facts.get("removeValCompare", "unknown"),
                "smap=" + ",".join(facts.get(k, "x") for k in ("stCond", "stType", "stPath", "stOp", "stMsgpack", "stNonstr")),
                "seedDefault=%02x" % int(facts.get("seedDefault", "0") if facts.get("seedDefault", "unknown") != "unknown" else 0)] + \
               ["%s=%s" % (k, facts.get(k, "unknown")) for k in ("opOrder", "condOrder", "protoOps", "protoConds", "wireConv", "seedMapCheck")]
        c = K.correspondence(ctx, "C13", args, hx_env={"HYDRAIDE_LOG_LEVEL": "error"})
        corrs.append(("C13", args, c))
    else:
        ctx.violation("harness does not build against /repo", {"correspondence": "C13", "log": getattr(ctx, "hx_log", "")[-2000:]},
                      tag="build", found_input=False)
    K.decide_standard(ctx, corrs, FINDINGS)
    known = K.known_ids(ctx.pid)
    c = corrs[0][2] if corrs else K.Corr()
    # Spec oracle over every implementation reply (independent of the model)
    oracle_hits, oracle_new, oracle_any = {}, [], set()
    mism = set(c.mismatch)
    for i, (op, rep) in enumerate(zip(c.ops, c.impl)):
        r = oracle_line(op, rep)
        if r is None:
            continue
        fid, text = r
        oracle_any.add(i)
        if fid is None:
            oracle_new.append((i, text))
        else:
            oracle_hits.setdefault(fid, []).append(i)
            if i not in mism and fid not in c.flags[i]:
                oracle_new.append((i, "oracle classifies as %s but the model does not flag the line: %s" % (fid, text)))
    # a broken correspondence: if the oracle decides some reply of this run, that concrete failing input is the
    # report (the mismatch count goes into the replay); otherwise the first mismatching case is reported
    if oracle_new and getattr(ctx, "pending_mismatch", None) is not None:
        ctx.cov["correspondence_mismatches_explained_by_oracle"] = len(c.mismatch)
        ctx.pending_mismatch = None
    K.report_mismatch(ctx, spec_violated)
    for i, text in oracle_new[:3]:
        cs = K.case_of(c, i)
        rep = K.case_replay(c, [cs[0], i] if cs[0] != i else [i])
        rep.update({"correspondence": "C13", "oracle": text, "mismatching_lines_in_run": len(c.mismatch)})
        ctx.violation("implementation violates the property: " + text, rep, tag="oracle")
    for fid, idx in oracle_hits.items():
        if fid not in known and fid not in getattr(ctx, "confirmed", {}):
            i = idx[0]
            rep = K.case_replay(c, [i])
            rep.update({"correspondence": "C13", "finding": fid})
            ctx.violation("finding %s seen by the Spec oracle on the implementation's replies" % fid, rep, tag=fid)
    # a finding the model flags but the oracle never sees in this run (machinery drift); on a single line the
    # oracle may abstain (the reference has no opinion there), so only a finding with no oracle hit at all counts
    for i, fl in enumerate(c.flags):
        for fid in fl:
            if i not in mism and not oracle_hits.get(fid) and not any(fid in c.flags[j] for j in oracle_any):
                rep = K.case_replay(c, [i])
                rep.update({"correspondence": "C13", "finding": fid})
                ctx.violation("model flags %s but the Spec oracle sees nothing wrong in the implementation's reply" % fid, rep,
                              tag="oracle-drift", found_input=False)
                break
        else:
            continue
        break
    # allocation probe
    pid_f = "C13-prealloc-untrusted-count"
    crashed, wrong, other = ([], [], [])
    if corrs and not c.err:
        crashed, wrong, other = probe(ctx, args)
        if other:   # once more: a child that died or stalled for another reason than memory may be a loaded machine
            crashed, wrong, other = probe(ctx, args)
        ctx.cov["alloc_probe"] = {"lines": [l for l, _ in PROBES], "crashed": [l for l, _ in crashed],
                                  "other_failures": other, "limit": "RLIMIT_AS 2-4 GiB per child"}
        for line, why in other[:1]:
            ctx.violation("allocation probe: the child gave no reply, but not with the recorded out-of-memory symptom: " + why,
                          {"ops": [line], "impl": ["<%s>" % why]}, tag="probe", found_input=False)
        if crashed:
            if pid_f in known:
                ctx.known_hits.append((pid_f, FINDINGS[pid_f]))
            else:
                ctx.violation("the process dies on a 5-byte value: " + crashed[0][1],
                              {"ops": [crashed[0][0]], "impl": ["<process died: %s>" % crashed[0][1]], "finding": pid_f,
                               "replay_cmd": "(ulimit -v 4194304; printf '%s\\n' | bin/hx run C13)" % crashed[0][0]}, tag=pid_f)
        elif pid_f in known:
            ctx.violation("listed finding %s no longer reproduces (allocation probe answered every line)" % pid_f,
                          {"finding": pid_f, "probes": [l for l, _ in PROBES]}, tag="drift", found_input=False)
        for line, out, mod in wrong[:1]:
            ctx.violation("allocation probe: implementation and model disagree", {"ops": [line], "impl": [out], "model": [mod]},
                          tag="corr", found_input=False)
    if ctx.thorough:
        ok, out = K.leanchecker(ctx, ["Hv.Props.C13", "Hv.Patch.OpsWf", "Hv.Patch.RoundTrip", "Hv.Patch.Untouched", "Hv.Patch.NumLemmas",
                                      "Hv.Patch.SpecRefine", "Hv.Patch.Target", "Hv.Patch.LeafBytes", "Hv.Patch.SpecLemmas",
                                      "Hv.Patch.ErrorClass", "Hv.Patch.ErrorClassOps", "Hv.Patch.PatchFields", "Hv.Patch.Wire"])
        ctx.cov["leanchecker"] = "ok" if ok else out[-500:]
        if not ok:
            ctx.violation("leanchecker rejected the compiled proofs", {"log": out[-2000:]}, tag="leanchecker", found_input=False)
    # evidence
    hist = {}
    n_ref = 0
    for op, rep in zip(c.ops, c.impl):
        f = op.split(" ")
        if f[0] in ("ap", "apn"):
            kinds = [x.split(":")[0] for x in f[3:]] or ["none"]
            res = rep.split(" ")[0] + ("/" + rep.split(" ")[1] if rep.startswith("err") else "")
            k = "%s%s → %s" % (kinds[0], "+%d" % (len(kinds) - 1) if len(kinds) > 1 else "", res)
            hist[k] = hist.get(k, 0) + 1
            if rep.startswith("out "):
                n_ref += 1
    distinct = len(set(l for l in c.ops if l.startswith(("ap ", "apn ", "pf ", "gp ", "gx ", "parse "))))
    return K.finish(
        ctx, "proof",
        rule=("inputs = generated documents (depth ≤ 4, every leaf format code, fixmap/map16/map32 + fixarray/array16/array32 + "
              "fixstr/str8/str16/str32 key headers incl. non-minimal, duplicate and un-nameable keys, ≤ 300 bytes in quick) × 3–6 "
              "ApplyWithCondition calls each (0–4 ops of the eight kinds, kind-fitting and random/malformed paths and values, optional "
              "condition with same-class / NaN / foreign / malformed thresholds) + damaged bodies + a corpus of documented examples and "
              "recorded witnesses + PatchFields end-to-end (a corpus line per status code, then every 15th document); an op line is non-trivial when it is a parse/ap/pf "
              "line; distinct = distinct op lines; replies compared byte for byte with the Lean model, successes additionally checked "
              "against an independent generic-value reference in checks/C13.py"),
        samples=[{"op": c.ops[i][:200], "impl": c.impl[i][:120]} for i in range(1, min(len(c.ops), 7))],
        evaluations=len(c.ops), distinct_nontrivial=distinct,
        extra_cov={"correspondence": {"domain": "C13", "cases": len(c.cases), "op_lines": len(c.ops), "mismatching_lines": len(c.mismatch),
                                      "op_histogram": c.op_hist, "reply_histogram": c.reply_hist,
                                      "first_op_kind_to_outcome": dict(sorted(hist.items(), key=lambda kv: -kv[1])[:60]),
                                      "successes_checked_by_reference": n_ref,
                                      "lines_flagged_by_model": sum(1 for f in c.flags if f),
                                      "lines_flagged_by_oracle": {k: len(v) for k, v in oracle_hits.items()}}},
        trusted=["Lean 4.33.0 kernel", "axioms: propext, Classical.choice, Quot.sound", "extract/c13.go", "harness/c13.go", "checks/C13.py",
                 "MODELLED, tested not proved: vmihailenco/msgpack v5.4.1 decoder/encoder behaviour; amd64 NaN payload rules"],
    )
