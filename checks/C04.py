"""C04 — corrupt storage files are detected, never misread, never crash or exhaust memory."""
import os

from . import common as K
from . import storage_common as S

META = {
    "level": "proof",
    "technique": ("Lean 4 theorems over the reader model on arbitrary byte strings (termination accepted by Lean + explicit iteration "
                  "bound, soundness relative to the checksum, allocation bound) + go/ast fact tie + mutational/forged/random-file "
                  "correspondence of the real reader (in a memory-capped child process) with the model"),
    "text": ("Hv.C04.holds_of_good: for every byte string, decoder and checksum function the block loop stops within len/16+1 reads "
             "(reader_total; the reader model is a total Lean function), every block turned into records had crc(compressed) = stored "
             "checksum, decoded, matched the declared length and was consumed exactly by EntryCount entries (readNextBlock_sound; "
             "readNextBlock_crc_mismatch: a mismatch is always reported), and loading allocates at most 321*len + 3.3 MB "
             "(alloc_bounded) when CompressedSize and the snappy declared length are bounds-checked. Closed witnesses for each missing "
             "check: forgedSize_allocates (80-byte file -> 4 GiB request and no error), not_holds_of_unboundedDecodedLen, "
             "not_holds_of_noCrc, not_holds_of_noULen, not_holds_of_trailingIgnored (EntryCount 2->1 resurrects a deleted key). "
             "'Never decodes damaged bytes into different records' is proved relative to the 32-bit checksum (2^-32 residual, stated). "
             "'Reports the damage' is stated precisely: load_is_prefix_replay (a file cut anywhere loads a prefix of its blocks) and "
             "oversized_csize_hides_rest / load_after_oversized_csize (a CompressedSize larger than the rest of the file is a SILENT end "
             "of data, also in the middle of a file: later intact blocks are dropped without an error). Scope: NewFileReader + LoadIndex; "
             "ScanBlockHeaders and the writer's torn-tail walk are fuel-bounded by construction; CalculateFragmentation, compaction and "
             "chroniclerV2.Load are outside C04's claims."),
    "note": ("Trusted: Lean kernel; extract/c04.go; harness/c04.go (child process, RLIMIT_AS 3 GiB, runtime.MemStats.TotalAlloc); "
             "executable snappy decoder / CRC-32 of the driver (differential-tested on every file). Go-level panics are excluded by the "
             "fuzz run only. The allocation theorem assumes the decoder returns no more than it declares (true of snappy)."),
    "design_ref": "§8 C04",
}

FINDINGS = {
    "C04-unbounded-compressed-size-alloc": "readNextBlock allocates blockHeader.CompressedSize before checking it against the file size (80-byte file -> 4 GiB request, no error reported)",
    "C04-unbounded-decoded-length-alloc": "ParseBlock lets snappy.Decode allocate the length declared in a CRC-valid block's varint prefix (6-byte payload -> 4 GiB)",
    "C04-entry-count-unprotected": "EntryCount is outside the checksum and ParseBlock ignores leftover payload: a lowered count silently drops entries (deleted key comes back)",
    "C04-checksum-not-validated": "ParseBlock does not validate the block checksum",
    "C04-decoded-length-not-validated": "ParseBlock does not compare the decoded length with UncompressedSize",
    "C04-misread": "a damaged file loads without error to a state that was never written",
}

DRV_FACTS = ["validatesCrc", "validatesULen", "boundsCompressedSize", "boundsDecodedLen", "parseConsumesAll", "shortPayloadIsEOF"]


def alloc_bound(n):
    return 321 * n + 3300000


def impl_limit(n):
    # what the Go process may use before it counts as "out of proportion": 4x the proved bound of
    # the modelled sites plus room for maps/strings/os.File that the model does not count
    return 4 * alloc_bound(n) + (16 << 20)


def file_len(op):
    f = op.split(" ")
    return 0 if f[1] == "-" else len(f[1]) // 2


def oracle(ops, impl, side):
    """Independent Spec oracle on implementation replies: no crash/hang/panic, allocation within
    proportion, and a successful load only reports a state some prefix of the base's writes has."""
    bad = []
    legit = {}
    for i, (op, rep) in enumerate(zip(ops, impl)):
        f = op.split(" ")
        if f[0] == "base":
            legit[f[1]] = set(f[2].split(","))
        elif f[0] == "file":
            n = file_len(op)
            kind = f[3]
            if rep in ("crash", "hang") or "panic" in rep:
                bad.append((i, "the reader %s on a %d-byte %s file" % (rep if rep in ("crash", "hang") else "panicked", n, kind),
                            "C04-unbounded-compressed-size-alloc" if kind in ("csize", "forged-csize") else
                            "C04-unbounded-decoded-length-alloc" if kind == "forged-dlen" else None))
                continue
            a = side.get(i)
            if a is not None and a > impl_limit(n):
                bad.append((i, "loading a %d-byte %s file allocated %d bytes (limit %d)" % (n, kind, a, impl_limit(n)),
                            "C04-unbounded-compressed-size-alloc" if kind in ("csize", "forged-csize") else
                            "C04-unbounded-decoded-length-alloc" if kind == "forged-dlen" else None))
            if rep.startswith("load idx ") and kind != "payload":   # CRC-valid crafted payloads are their own content
                d = rep.split(" ")[2]
                if d not in legit.get(f[2], set()):
                    bad.append((i, "a %s-damaged file loaded without error to state %s, which no prefix of the written entries has" % (kind, d),
                                "C04-entry-count-unprotected" if kind == "count" else None))
    return bad


def spec_violated(rep):
    bad = oracle(rep["ops"], rep["impl"], {})
    return bad[0][1] if bad else None


def run(ctx):
    facts, _, _ = K.extract_facts(ctx)
    K.lean_verdict(ctx)
    corrs = []
    side = {}
    side_path = ctx.path("C04.side")
    if os.path.exists(side_path):
        os.remove(side_path)
    if K.build_hx(ctx) and K.build_drv(ctx):
        args = S.drv_args(facts)
        try:
            c = K.correspondence(ctx, "C04", args, hx_env={"HX_C04_SIDE": side_path}, timeout=3000)
        except Exception as e:  # a hung generator/run is a finding about the code, not a machinery error
            c = K.Corr()
            c.err = "harness did not finish: %r" % (e,)
        corrs.append(("C04", args, c))
    else:
        ctx.violation("harness does not build against the repository", {"correspondence": "C04", "log": getattr(ctx, "hx_log", "")[-2000:]},
                      tag="build", found_input=False)
    c = corrs[0][2] if corrs else K.Corr()
    if os.path.exists(side_path):
        for l in open(side_path):
            p = l.split()
            if len(p) == 2 and p[1].isdigit():
                side[int(p[0])] = int(p[1])
    # model allocation estimates (#A:) and allocation flags: a flag counts only where the real
    # process measurably exceeded the proved bound as well (the estimate is an upper bound)
    model_alloc, dropped = {}, 0
    mpath = ctx.path("C04.model")
    if os.path.exists(mpath) and not c.err:
        for i, l in enumerate(open(mpath).read().split("\n")):
            for p in l.split("\t")[1:]:
                if p.startswith("#A:"):
                    model_alloc[i] = int(p[3:])
        for i, fl in enumerate(c.flags):
            if any("alloc" in x for x in fl):
                n = file_len(c.ops[i])
                a = side.get(i)
                if a is not None and a <= alloc_bound(n):
                    c.flags[i] = [x for x in fl if "alloc" not in x]
                    dropped += 1
    K.decide_standard(ctx, corrs, FINDINGS)
    K.report_mismatch(ctx, spec_violated)
    known = K.known_ids(ctx.pid)
    hits = {}
    if not c.err:
        for i, what, sig in oracle(c.ops, c.impl, side):
            hits.setdefault(sig, []).append((i, what))
    for sig, hs in hits.items():
        i, what = hs[0]
        rep = {"ops": [c.ops[i][:4000]], "impl": [c.impl[i]], "model": [c.model[i] if i < len(c.model) else "<missing>"],
               "measured_alloc": side.get(i), "model_alloc_estimate": model_alloc.get(i), "correspondence": "C04", "signature": sig,
               "oracle": "python: no crash, TotalAlloc <= 4*(321*len+3.3MB)+16MiB, loaded state is a prefix state of the base file"}
        if sig is not None and sig in known:
            if sig not in [k for k, _ in ctx.known_hits]:
                ctx.known_hits.append((sig, FINDINGS.get(sig, sig)))
        else:
            ctx.violation("implementation violates the property: " + what, rep, tag=sig or "impl")
    if ctx.thorough:
        ok, out = K.leanchecker(ctx, ["Hv.Props.C04", "Hv.Storage.CorruptLemmas", "Hv.Storage.TornLemmas", "Hv.Storage.ReaderLemmas", "Hv.Storage.FormatLemmas"])
        ctx.cov["leanchecker"] = "ok" if ok else out[-500:]
        if not ok:
            ctx.violation("leanchecker rejected the compiled proofs", {"log": out[-2000:]}, tag="leanchecker", found_input=False)
    kinds, outcomes = {}, {}
    for op, rep in zip(c.ops, c.impl):
        f = op.split(" ")
        if f[0] == "file":
            kinds[f[3]] = kinds.get(f[3], 0) + 1
            k = " ".join(rep.split(" ")[:3]) if not rep.startswith("load idx") else "load idx"
            outcomes[k] = outcomes.get(k, 0) + 1
    files = [l for l in c.ops if l.startswith("file ")]
    peak = max(side.values()) if side else 0
    return K.finish(
        ctx, "proof",
        rule=("files = hand corpus (empty, truncated header, stray tail, forged CompressedSize 0xFFFFFFFF / 1 GiB, header followed by "
              "nothing, forged snappy length prefixes with valid CRC, EntryCount 0/1/3 over a 2-entry block, bad magic/version) + "
              "mutations of files written by the real writer (bit flip, byte overwrite, truncation, forged CompressedSize / "
              "UncompressedSize / EntryCount / checksum field, appended garbage, header damage) + random bytes with and without a valid "
              "header; every `file` line is non-trivial; distinct = distinct byte strings"),
        samples=[{"op": (c.ops[i][:140] + " … " + c.ops[i][-20:]), "impl": c.impl[i][:160]} for i in range(2, min(len(c.ops), 12)) if i < len(c.impl)],
        evaluations=len(files), distinct_nontrivial=len(set(l.split(" ")[1] for l in files)),
        extra_cov={"correspondence": {"domain": "C04", "op_lines": len(c.ops), "mismatching_lines": len(c.mismatch),
                                      "files_by_mutation": kinds, "impl_outcomes": dict(sorted(outcomes.items(), key=lambda kv: -kv[1])[:12]),
                                      "lines_flagged_by_model": sum(1 for f in c.flags if f),
                                      "alloc_flags_not_reached_by_impl": dropped,
                                      "peak_TotalAlloc_bytes_one_file": peak, "alloc_measurements": len(side),
                                      "oracle_violations_by_signature": {str(k): len(v) for k, v in hits.items()}}},
        trusted=["Lean 4.33.0 kernel", "axioms: propext, Classical.choice, Quot.sound", "extract/c04.go", "harness/c04.go (child process, RLIMIT_AS)",
                 "snappy / CRC-32: parameters of the theorems; executable copies differential-tested", "Go runtime panics: fuzzed, not proved"],
    )
