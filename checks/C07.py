"""C07 — ordered index reads return the correctly sorted, ranged page."""
import re

from . import common as K

META = {
    "level": "proof",
    "technique": ("Lean 4 proofs (binary-search correctness on any sorted list, page arithmetic, sortedness invariant over all "
                  "histories) + go/ast fact tie + model/implementation correspondence through the real gateway + independent Spec oracle"),
    "text": ("Lean theorems Hv.C07.bounds_correct (both binary searches of findTimeRangeBounds return exactly the index interval of "
             "[from,to) on every list sorted asc/desc), page_correct (GetManyFromOrderPosition = page of the window on a sorted list), "
             "beacon_sorted_inv / holds_of_good (for every history of sets, updates, deletes, increments, patches, expired-patches, "
             "shifts, reloads and reads the index lists stay a sorted "
             "permutation of exactly the records carrying the attribute, when every change of a sort attribute re-files the record, the "
             "comparator matches the requested type and value indexes are per type), closed counterexamples for the current facts "
             "(update moving UpdatedAt / CreatedAt, value update, insert into a built non-int64 value index, mixed-type swamp), and "
             "holds_partial (key and time indexes are always correct under the current facts), value_single_type / "
             "holds_current_single_type (value indexes are read correctly in every swamp whose records all have one content type "
             "and whose value reads ask for that type), shift_correct (what ShiftMatching hands "
             "out is the first N of the index in the window), closed witnesses for an unguarded expiry re-file and a partial "
             "ReindexExpiration; classify_sound ties the "
             "decision to facts extracted from beacon.go / swamp.go / treasure.go."),
    "note": ("Trusted: Lean kernel (propext, Classical.choice, Quot.sound); extract/c07.go; harness/c07.go; Go's sort.Slice sorts "
             "whenever its less function is a strict weak order; records with equal sort values are compared as sets (ties free). "
             "Values are modelled by their rank inside their type; timestamps by integer nanoseconds. Histories are Set (insert / "
             "in-place update), Delete, IncrementInt64 (in-place value and expiry change), ShiftExpiredTreasures (walks and empties the "
             "expiration index), PatchTreasures with a PatchMeta that sets / clears the expiry (the IsExpirationTimeChanged branch of "
             "SaveFunction), PatchExpiredTreasures (select, patch+save each, ReindexExpiration), ShiftMatchingTreasures on the key and "
             "time indexes (CloneAndDeleteMatching), close+reload, and reads. ShiftMatching on VALUE indexes is not driven: it goes "
             "through GetBeacon, whose extracted facts getBeaconServesAllValueTypes=no / getBeaconBuildsRequestedType=no say it serves "
             "only int64/float64/string value types and always builds them as int64 — C11's subject. A ShiftMatching count on a time "
             "index is always 0 (=all in the window): a count that cuts a run of equal timestamps leaves the choice to the sort. "
             "Stated edges: a negative From reads from the start (pinned statement of GetTreasuresByBeacon; generated); a negative Limit returns nothing "
             "(GetManyFromOrderPosition's result size; generated); window bounds are arbitrary instants (int64 wrap modelled, far-past / far-future generated), stored "
             "timestamps are what UnixNano makes of the request's (wrap64 in the model; the generator stays inside 1970..1970+9s). Forced "
             "schedules: two first readers (hook beacon.build), a shift that loses a claim between selection and delete (hook "
             "shift.selected; the general claim race is covered by one closed witness, not by a theorem over all schedules — that needs the "
             "`ListSub` invariant of the PatchExpired proof generalised to every index type and every op between select and release, "
             "more than the time that was left). Not "
             "driven: the other Increment variants and Uint32SlicePush (same SaveFunction path, content types without a value index "
             "of their own), PatchMeta.SetUpdatedAt / SetCreatedAt (server clock)."),
    "design_ref": "§8 C07",
}

FINDINGS = {
    "C07-updated-update-stale": "an update that moves UpdatedAt (or first sets it) is not re-filed in the built update-time index: the read is unsorted / misses the record until the next insert",
    "C07-created-update-stale": "an update that moves CreatedAt (or first sets it) is not re-filed in the built creation-time index: the read is unsorted / misses the record",
    "C07-value-update-stale": "an update that changes the value of an indexed record leaves the built value index unsorted until the next insert",
    "C07-value-insert-wrong-comparator": "inserting into an already built non-int64 value index re-sorts with the int64 comparator, which fails: the new record stays appended at the end",
    "C07-first-readers-race": "buildBeacon raises `initialized` before it fills and sorts the slice: the second of two concurrent first readers of an index is answered from the empty slice",
    "C07-claim-loser-dropped": "a shift that finds a selected record not wanted any more (changed between its selection pass and its deletes) does not put it back: the record stays out of the index it was selected from",
    "C07-window-bound-wraps": "findTimeRangeBounds converts window bounds with UnixNano(), which wraps outside the years 1677-2262: ToTime = 9999-12-31 becomes negative and the read returns nothing",
    "C07-expire-cleared-refiled": "the expiration branch of SaveFunction re-files a record whose expiry was just cleared: it stays in the built expiration index under key 0",
    "C07-patch-expired-partial-reindex": "PatchExpired hands only part of its selection back to the ascending expiration index: a patched, still expired record loaded from disk drops out of it",
    "C07-value-index-mixed-types": "the single shared value index holds records of every content type: a value read returns records of other types / in the order of whichever type built it",
}

TIME = ("created", "updated", "expire")


# ------------------------------------------------------------------ Spec oracle (implementation replies + op lines only)
class Shadow:
    """What was written, by documented semantics: a Set overwrites the value and those time fields it carries."""

    def __init__(self):
        self.recs = {}

    def set(self, k, typ, val, c, u, e):
        old = self.recs.get(k)
        if old is None:
            self.recs[k] = {"t": typ, "v": 0 if typ == "void" else val, "created": c, "updated": u, "expire": e}
            return
        old["t"], old["v"] = typ, (0 if typ == "void" else val)   # a void Set leaves a void treasure
        if c:
            old["created"] = c
        if u:
            old["updated"] = u
        if e:
            old["expire"] = e

    def delete(self, k):
        self.recs.pop(k, None)

    def inc(self, k, delta, e):
        """IncrementInt64: a missing key / void content starts from 0, int64 content is incremented, any
        other content type is an error and nothing changes"""
        if delta == 0:
            return                      # the gateway refuses IncrementBy == 0
        r = self.recs.get(k)
        if r is None:
            self.recs[k] = {"t": "i64", "v": delta, "created": 0, "updated": 0, "expire": e}
        elif r["t"] in ("i64", "void"):
            r["v"] = (r["v"] if r["t"] == "i64" else 0) + delta
            r["t"] = "i64"
            if e:
                r["expire"] = e

    def patch(self, k, e):
        """PatchTreasures / PatchExpired on one record: only a msgpack body is patched (its counter
        moves); the meta sets the expiry, clears it, or is absent.  Returns the documented status."""
        r = self.recs.get(k)
        if r is None or r["t"] == "void":
            return "notfound"
        if r["t"] != "bytes":
            return "mismatch"
        r["v"] += 1
        if e == "clear":
            r["expire"] = 0
        elif e != "-" and int(e) != 0:
            r["expire"] = int(e)
        return "patched"

    def patch_create(self, k, e):
        """PatchTreasures with CreateIfNotExist: a missing / void key becomes a body whose counter is the increment"""
        r = self.recs.get(k)
        if r is not None and r["t"] not in ("void",):
            return self.patch(k, e)
        exp = 0 if e in ("-", "clear") else int(e)
        if r is None:
            self.recs[k] = {"t": "bytes", "v": 1, "created": 0, "updated": 0, "expire": exp}
        else:
            r["t"], r["v"] = "bytes", 1
            if e == "clear":
                r["expire"] = 0
            elif exp:
                r["expire"] = exp
        return "created"

    def attr(self, idx, k):
        """sort attribute of key k under index idx, or None when the record does not carry it"""
        r = self.recs.get(k)
        if r is None:
            return None
        if idx == "key":
            return k
        if idx in TIME:
            return r[idx] if r[idx] != 0 else None
        return r["v"] if r["t"] == idx else None


def expected_attrs(sh, idx, asc, frm, limit, ft, tt):
    vals = sorted(a for a in (sh.attr(idx, k) for k in sh.recs) if a is not None)
    if not asc:
        vals.reverse()
    if idx in TIME:
        vals = [v for v in vals if (ft is None or v >= ft) and (tt is None or v < tt)]
    vals = vals[frm:]
    if limit:
        vals = vals[:limit]
    return vals


def page_verdict(sh, q, keys):
    """None if `keys` is a correct page for q on the shadow store, else a description."""
    idx, asc, frm, limit, ft, tt = q
    exp = expected_attrs(sh, idx, asc, frm, limit, ft, tt) if limit >= 0 else []   # a negative Limit asks for nothing
    got = [sh.attr(idx, k) for k in keys]
    if len(set(keys)) != len(keys):
        return "duplicate keys in the page"
    for k, a in zip(keys, got):
        if a is None:
            return "record %s does not carry the attribute (or does not exist)" % k
    if got != exp:
        return "sort values of the page are %s, a correct page has %s" % (got, exp)
    return None


def canon(sh, q, keys):
    """ties free: runs of equal sort values are compared as sets; a tie class that the page cuts
    is reduced to its size"""
    idx = q[0]
    total = {}
    for k in sh.recs:
        a = sh.attr(idx, k)
        total[a] = total.get(a, 0) + 1
    out, i = [], 0
    while i < len(keys):
        a = sh.attr(idx, keys[i])
        j = i
        while j < len(keys) and sh.attr(idx, keys[j]) == a:
            j += 1
        run = keys[i:j]
        if a is None:
            # records that do not carry the attribute: the page is wrong anyway, and their order is
            # whatever another comparator left behind — compare their number only
            out.append("?*%d" % len(run))
        elif len(run) == total.get(a, 0):
            out.append("{" + ",".join(sorted(run)) + "}")
        else:
            out.append("%s*%d" % (a, len(run)))
        i = j
    return " ".join(out)


VALUE_TYPES = ("i8", "i16", "i32", "i64", "u8", "u16", "u32", "u64", "f32", "f64", "str")


class Hist:
    """What the case did so far, read off the op lines (signature side of a finding)."""

    def __init__(self):
        self.value_types_read = set()   # value index types asked for
        self.ever_keys = set()          # every key ever written
        self.time_updates = {"created": set(), "updated": set(), "expire": set()}  # keys whose timestamp an update set
        self.value_updates = set()      # keys whose value an update set
        self.insert_after_value_read = False
        self.race_line = False               # the line being judged is the second reader of a `race`
        self.value_read_over_mixed = False   # a value read happened while a record of another type was alive
        self.claim_raced = False             # a held shift was released in this case
        self.i64_build_failed = False        # …an int64 one: SortByValueInt64 fails and leaves the slices filled, unflagged
        self.patchexp = False                # an expired-patch ran (this line included)

    def on_set(self, sh, k, c, u, e):
        if k in sh.recs:
            for idx, v in (("created", c), ("updated", u), ("expire", e)):
                if v:
                    self.time_updates[idx].add(k)
            self.value_updates.add(k)
        elif self.value_types_read:
            self.insert_after_value_read = True
        self.ever_keys.add(k)


def symptom(fid, q, keys, sh, hist):
    """Is the implementation's rejected page the kind of wrong page finding `fid` produces?
    Decided from the page, the record of what was written and the ops of the case; never from the
    model.  Anything a finding does not explain is a VIOLATION."""
    idx = q[0]
    nodup = len(set(keys)) == len(keys)
    live = all(k in sh.recs for k in keys)
    carriers = all(sh.attr(idx, k) is not None for k in keys)
    if fid == "C07-value-index-mixed-types":
        # The one shared value pair holds EVERY live record exactly once (cold build without a type filter;
        # every add / content change drops the pair, deletes prune it), in the order of whichever
        # comparator sorted it.  So whatever this finding does to a page, the page is a window of the
        # right size over ALL live records; and one of its three causes is on record in this case.
        # On a single-type swamp read as that type only, the page is correct (Hv.C07.holds_current_single_type).
        if idx not in VALUE_TYPES:
            return False
        if hist.i64_build_failed and all(k in hist.ever_keys for k in keys):
            # the debris of a failed int64 build earlier in this case (an int64 read over a swamp that held
            # another type): slices that were filled but left unflagged are filled again by the next build and
            # are not pruned by deletes — duplicates and deleted keys, but never a key this case did not write
            return True
        if not (nodup and live):
            return False
        n_all = max(0, len(sh.recs) - q[2])
        if len(keys) != (min(q[3], n_all) if q[3] else n_all):
            return False
        other_alive = any(r["t"] != idx for r in sh.recs.values())    # records of another type fill positions
        other_read = bool(hist.value_types_read - {idx})               # sorted by another type's comparator
        return other_alive or other_read or hist.value_read_over_mixed  # …or by a comparator that met another type
    clean = nodup and live and carriers     # a stale index: right kind of records, wrong order / some missing
    if fid == "C07-updated-update-stale":
        return idx == "updated" and clean and bool(hist.time_updates["updated"])
    if fid == "C07-created-update-stale":
        return idx == "created" and clean and bool(hist.time_updates["created"])
    if fid == "C07-value-update-stale":
        return idx in VALUE_TYPES and clean and bool(hist.value_updates)
    if fid == "C07-claim-loser-dropped":
        return clean and hist.claim_raced
    if fid == "C07-window-bound-wraps":
        out = lambda b: b is not None and not (-2**63 <= b <= 2**63 - 1)
        return idx in TIME and (out(q[4]) or out(q[5])) and clean
    if fid == "C07-expire-cleared-refiled":
        return idx == "expire" and nodup and live and any(sh.recs[k]["expire"] == 0 for k in keys)
    if fid == "C07-patch-expired-partial-reindex":
        return idx == "expire" and clean and hist.patchexp
    if fid == "C07-first-readers-race":
        return keys == [] and hist.race_line   # the second reader of a `race` line got nothing
    if fid == "C07-value-insert-wrong-comparator":
        return idx in VALUE_TYPES and idx != "i64" and clean and hist.insert_after_value_read
    return False


def parse_q(f):
    opt = lambda s: None if s == "-" else int(s)
    return (f[1], f[2] == "asc", max(0, int(f[3])), int(f[4]), opt(f[5]), opt(f[6]))   # a negative offset reads from the start


def judge(c):
    """Walk the run once: canonicalise, run the Spec oracle on the implementation's replies, and
    rewrite c.model / c.flags / c.mismatch accordingly.  Returns statistics and the list of
    oracle violations that no model line accounts for."""
    sh = Shadow()
    hist = Hist()
    stats = {"queries": 0, "exact": 0, "nd": 0, "impl_bad_pages": 0, "bad_pages_by_finding": {}, "by_index": {}, "windowed": 0,
             "paged": 0, "ties_cut": 0, "noswamp": 0}
    unexplained = []
    mism = []
    n = max(len(c.ops), len(c.impl), len(c.model))
    pending_vt, pending_mixed, pending_shift = None, False, False
    pending_pexp, pending_del = None, None
    held_v = None
    for i in range(n):
        op = c.ops[i] if i < len(c.ops) else ""
        impl = c.impl[i] if i < len(c.impl) else "<missing>"
        model = c.model[i] if i < len(c.model) else "<missing>"
        flags = c.flags[i] if i < len(c.flags) else []
        f = op.split(" ")
        if pending_shift:
            for k in [k for k, r in sh.recs.items() if r["expire"] != 0]:
                sh.delete(k)            # the previous line shifted every record with an expiry out of the swamp
            pending_shift = False
        if pending_pexp is not None:
            for k in [k for k, r in sh.recs.items() if r["expire"] != 0]:
                hist.on_set(sh, k, 0, 0, 1)
                sh.patch(k, pending_pexp)   # the previous line patched every record that had an expiry (all lie in the past)
            pending_pexp = None
        if pending_del is not None:
            for k in pending_del:
                sh.delete(k)            # the previous line shifted these records out (ties: the implementation's choice)
            pending_del = None
        if pending_vt:
            hist.value_types_read.add(pending_vt)   # the previous line's value read, now part of the history
            hist.value_read_over_mixed = hist.value_read_over_mixed or pending_mixed
            hist.i64_build_failed = hist.i64_build_failed or (pending_mixed and pending_vt == "i64")
            pending_vt = None
        if f[0] == "case":
            sh = Shadow()
            hist = Hist()
        elif f[0] == "set" and len(f) == 7:
            hist.on_set(sh, f[1], int(f[4]), int(f[5]), int(f[6]))
            sh.set(f[1], f[2], int(f[3]), int(f[4]), int(f[5]), int(f[6]))
        elif f[0] == "del" and len(f) == 2:
            sh.delete(f[1])
        elif f[0] == "patchc" and len(f) == 3:
            hist.on_set(sh, f[1], 0, 0, 1)
            want = sh.patch_create(f[1], f[2])
            if impl != want:
                unexplained.append((i, "`%s` answered `%s`, by the documented semantics it is `%s`" % (op, impl, want)))
        elif f[0] == "shiftkeys" and len(f) == 2:
            want, seen = [], set()
            for k in f[1].split(","):
                if k in sh.recs and k not in seen:
                    want.append(k)
                    seen.add(k)
            got = [k for k in impl[2:].split(",") if k] if impl.startswith("r ") else None
            if got != want:
                unexplained.append((i, "`%s` handed out %s, the named records that exist are %s" % (op, got, want)))
            for k in want:
                sh.delete(k)
        elif f[0] == "srelease" and impl.startswith("r "):
            for k in [k for k in impl[2:].split(",") if k]:
                if k in sh.recs and not (sh.recs[k]["t"] == "bytes" and held_v is not None and sh.recs[k]["v"] >= held_v):
                    unexplained.append((i, "`srelease` handed out %s, which does not satisfy the shift's filter any more" % k))
                sh.delete(k)            # claimed by the held shift
            held_v = None
            hist.claim_raced = True
            stats["claim_races"] = stats.get("claim_races", 0) + 1
        elif f[0] == "sheld" and len(f) == 5 and impl == "held":
            held_v = int(f[4])
        elif f[0] == "reload":
            hist.i64_build_failed = False   # every index is gone with the swamp object
            hist.value_types_read = set()
            hist.value_read_over_mixed = False
        elif f[0] == "inc" and len(f) == 4 and int(f[2]) != 0:
            hist.on_set(sh, f[1], 0, 0, int(f[3]))
            sh.inc(f[1], int(f[2]), int(f[3]))
        elif f[0] == "patch" and len(f) == 3:
            hist.on_set(sh, f[1], 0, 0, 1)
            want = sh.patch(f[1], f[2])
            stats["patches"] = stats.get("patches", 0) + 1
            if impl != want:
                unexplained.append((i, "`%s` answered `%s`, by the documented semantics it is `%s`" % (op, impl, want)))
        if f[0] == "race" and len(f) == 3:
            # two first readers: both replies are full reads of the index, judged separately
            q = (f[1], f[2] == "asc", 0, 0, None, None)
            stats["queries"] += 1
            stats["race_lines"] = stats.get("race_lines", 0) + 1
            mi = re.match(r"^r2=(.*) r1=(.*)$", impl)
            mm = re.match(r"^r2=(.*) r1=(.*)$", model)
            if f[1] in VALUE_TYPES:
                pending_vt = f[1]
                pending_mixed = any(r["t"] != f[1] for r in sh.recs.values())
            if mi is None or (model != "nd" and mm is None):
                if impl != model:
                    mism.append(i)
                continue
            if mi.group(1).startswith("err"):
                if impl != model or sh.recs:
                    mism.append(i)
                continue
            pages = [[k for k in mi.group(j).split(",") if k] for j in (1, 2)]
            bads = [page_verdict(sh, q, pg) for pg in pages]
            expl = []
            for j, (pg, bad) in enumerate(zip(pages, bads)):
                if bad:
                    stats["impl_bad_pages"] += 1
                    hist.race_line = j == 0
                    ex = [x for x in flags if symptom(x, q, pg, sh, hist)]
                    hist.race_line = False
                    for x in ex:
                        stats["bad_pages_by_finding"][x] = stats["bad_pages_by_finding"].get(x, 0) + 1
                    if not ex:
                        unexplained.append((i, "%s reader: %s" % (("second", "first")[j], bad)))
                    expl += ex
            if model == "nd":
                stats["nd"] += 1
                c.model[i] = impl
            else:
                mpages = [[k for k in mm.group(j).split(",") if k] for j in (1, 2)]
                if [canon(sh, q, pg) for pg in pages] != [canon(sh, q, pg) for pg in mpages]:
                    mism.append(i)
                else:
                    c.model[i] = impl
                    if flags and not any(bads):
                        unexplained.append((i, "model flags %s but the Spec oracle accepts both replies" % flags))
            c.flags[i] = sorted(set(expl))
            continue
        shift = f[0] == "shiftexp"
        pending_shift = shift
        if shift:
            f = ["q", "expire", "asc", "0", "0", "-", "-", "u"]   # judged as a full read of the expiration index
        elif f[0] == "patchexp" and len(f) == 2:
            pending_pexp = f[1]
            hist.patchexp = True
            stats["patchexp"] = stats.get("patchexp", 0) + 1
            f = ["q", "expire", "asc", "0", "0", "-", "-", "u"]   # the claim order is the ascending expiration index
            if not sh.recs and impl == "r ":
                if impl != model:
                    mism.append(i)
                continue                # no swamp: nothing claimed
        elif f[0] == "shiftmatch" and len(f) == 6:
            stats["shiftmatch"] = stats.get("shiftmatch", 0) + 1
            pending_del = [k for k in impl[2:].split(",") if k] if impl.startswith("r ") else []
            f = ["q", f[1], f[2], "0", f[3], f[4], f[5], "u"]    # the first N of the index inside the window
            if not sh.recs and impl == "r ":
                if impl != model:
                    mism.append(i)
                continue
        if f[0] != "q" or len(f) != 8:
            if impl != model:
                mism.append(i)
            continue
        q = parse_q(f)
        pending_vt = q[0] if q[0] in VALUE_TYPES else None
        pending_mixed = pending_vt is not None and any(r["t"] != q[0] for r in sh.recs.values())
        explained = lambda fl, keys: [x for x in fl if symptom(x, q, keys, sh, hist)]
        stats["queries"] += 1
        stats["by_index"][f[1] + "/" + f[2]] = stats["by_index"].get(f[1] + "/" + f[2], 0) + 1
        stats["windowed"] += 1 if (q[4] is not None or q[5] is not None) else 0
        stats["paged"] += 1 if (q[2] or q[3]) else 0
        stats["negative_limit"] = stats.get("negative_limit", 0) + (1 if q[3] < 0 else 0)
        if impl.startswith("err noswamp"):
            stats["noswamp"] += 1
        if not impl.startswith("r "):
            # an error is acceptable only when nothing is alive
            bad = None if (impl == "err noswamp" and not sh.recs) else "reply `%s` with %d live records" % (impl, len(sh.recs))
            if bad:
                unexplained.append((i, bad))
            if impl != model:
                mism.append(i)
            continue
        keys = [k for k in impl[2:].split(",") if k]
        bad = page_verdict(sh, q, keys)
        if bad:
            stats["impl_bad_pages"] += 1
        ci = canon(sh, q, keys)
        if "*" in ci:
            stats["ties_cut"] += 1
        if model == "nd":
            stats["nd"] += 1
            # Spec oracle only: the model names the candidate causes; a finding is confirmed here only
            # if the implementation's own reply violates the Spec
            c.model[i] = impl
            if bad:
                ex = explained(flags, keys)
                c.flags[i] = ex
                for x in ex:
                    stats["bad_pages_by_finding"][x] = stats["bad_pages_by_finding"].get(x, 0) + 1
                if not ex:
                    unexplained.append((i, bad + (" (the model names %s, whose symptom this page does not show)" % flags if flags else "")))
            else:
                c.flags[i] = []
            continue
        stats["exact"] += 1
        if not model.startswith("r "):
            mism.append(i)
            continue
        cm = canon(sh, q, [k for k in model[2:].split(",") if k])
        if ci != cm:
            mism.append(i)
            if bad:
                unexplained.append((i, bad))
            continue
        c.model[i] = impl
        if bad:
            ex = explained(flags, keys)
            for x in ex:
                stats["bad_pages_by_finding"][x] = stats["bad_pages_by_finding"].get(x, 0) + 1
            if not ex:
                unexplained.append((i, bad + (" (the model names %s, whose symptom this page does not show)" % flags if flags else "")))
            c.flags[i] = ex
        if flags and not bad:
            # same canonical page, model says Spec violated, oracle says fine: the two oracles disagree
            unexplained.append((i, "model flags %s but the Spec oracle accepts the page" % flags))
            c.flags[i] = []
    c.mismatch = mism
    return stats, unexplained


def spec_violated(rep):
    """Spec oracle on the last line of a replay (the line where implementation and model part);
    earlier lines only build the shadow store — a bad page earlier in the same case may be a
    listed finding and is judged where it occurs."""
    sh = Shadow()
    last = len(rep["ops"]) - 1
    for i, (op, impl) in enumerate(zip(rep["ops"], rep["impl"])):
        f = op.split(" ")
        if f[0] == "case":
            sh = Shadow()
        elif f[0] == "set" and len(f) == 7:
            sh.set(f[1], f[2], int(f[3]), int(f[4]), int(f[5]), int(f[6]))
        elif f[0] == "del" and len(f) == 2:
            sh.delete(f[1])
        elif f[0] == "inc" and len(f) == 4:
            sh.inc(f[1], int(f[2]), int(f[3]))
        elif f[0] == "race" and len(f) == 3 and i == last:
            m = re.match(r"^r2=(.*) r1=(.*)$", impl)
            if m and not m.group(1).startswith("err"):
                for j, who in ((1, "second"), (2, "first")):
                    bad = page_verdict(sh, (f[1], f[2] == "asc", 0, 0, None, None), [k for k in m.group(j).split(",") if k])
                    if bad:
                        return "`%s`: the %s of two concurrent first readers was answered `%s`: %s" % (op, who, m.group(j), bad)
        elif f[0] == "shiftexp":
            if i == last:
                f = ["q", "expire", "asc", "0", "0", "-", "-", "u"]
            else:
                for k in [k for k, r in sh.recs.items() if r["expire"] != 0]:
                    sh.delete(k)
        elif f[0] == "srelease" and impl.startswith("r "):
            for k in [k for k in impl[2:].split(",") if k]:
                sh.delete(k)
        elif f[0] == "patchc" and len(f) == 3:
            sh.patch_create(f[1], f[2])
        elif f[0] == "shiftkeys" and len(f) == 2:
            for k in f[1].split(","):
                sh.delete(k)
        elif f[0] == "patch" and len(f) == 3:
            want = sh.patch(f[1], f[2])
            if i == last and impl != want:
                return "`%s` answered `%s`, by the documented semantics it is `%s`" % (op, impl, want)
        elif f[0] == "patchexp" and len(f) == 2:
            if i == last:
                if not sh.recs and impl == "r ":
                    return None
                f = ["q", "expire", "asc", "0", "0", "-", "-", "u"]
            else:
                for k in [k for k, r in sh.recs.items() if r["expire"] != 0]:
                    sh.patch(k, f[1])
        elif f[0] == "shiftmatch" and len(f) == 6:
            if i == last:
                if not sh.recs and impl == "r ":
                    return None
                f = ["q", f[1], f[2], "0", f[3], f[4], f[5], "u"]
            else:
                for k in [k for k in impl[2:].split(",") if k]:
                    sh.delete(k)
        if f[0] == "q" and len(f) == 8 and i == last:
            if impl.startswith("r "):
                bad = page_verdict(sh, parse_q(f), [k for k in impl[2:].split(",") if k])
                if bad:
                    return "`%s` answered `%s`: %s" % (op, impl, bad)
            elif not (impl == "err noswamp" and not sh.recs):
                return "`%s` answered `%s`" % (op, impl)
    return None


def drv_args(facts):
    return ["%s=%s" % kv for kv in sorted(facts.items())]


def run(ctx):
    facts, _, _ = K.extract_facts(ctx)
    K.lean_verdict(ctx)
    corrs, stats, unexplained = [], {}, []
    if K.build_hx(ctx) and K.build_drv(ctx):
        args = drv_args(facts)
        c = K.correspondence(ctx, "C07", args)
        if not c.err:
            stats, unexplained = judge(c)
        corrs.append(("C07", args, c))
    else:
        ctx.violation("harness does not build against /repo", {"correspondence": "C07", "log": getattr(ctx, "hx_log", "")[-2000:]},
                      tag="build", found_input=False)
    K.decide_standard(ctx, corrs, FINDINGS)
    K.report_mismatch(ctx, spec_violated)
    c = corrs[0][2] if corrs else K.Corr()
    mism = set(c.mismatch)
    for i, why in unexplained[:1]:
        cs = K.case_of(c, i)
        rep = K.case_replay(c, cs, upto=i)
        rep.update({"correspondence": "C07", "oracle": why})
        ctx.violation("implementation violates the property (Spec oracle, not explained by any listed finding): " + why, rep, tag="oracle")
    if ctx.thorough:
        ok, out = K.leanchecker(ctx, ["Hv.Props.C07", "Hv.Data.BeaconSingle", "Hv.Data.BeaconLemmas", "Hv.Data.Beacon"])
        ctx.cov["leanchecker"] = "ok" if ok else out[-500:]
        if not ok:
            ctx.violation("leanchecker rejected the compiled proofs", {"log": out[-2000:]}, tag="leanchecker", found_input=False)
    samples = []
    for cs in c.cases[9:11]:
        samples.append({"ops": [c.ops[i] for i in cs][:14], "impl": [c.impl[i] for i in cs if i < len(c.impl)][:14]})
    return K.finish(
        ctx, "proof",
        rule=("histories = 15 corpus cases (the proved witnesses, sub-second windows, increment/reload/shift, patch meta, expired-patch "
              "after reload, shift-matching) + random cases of 6..40 ops "
              "(..76 thorough) over 3..10 keys, every third on a persistent swamp: set (new key or update; 14 content types incl. "
              "msgpack bodies; CreatedAt/UpdatedAt/ExpiredAt in nanoseconds, each present or absent), delete, IncrementInt64, "
              "ShiftExpiredTreasures, PatchTreasures (+meta: expiry set / cleared / none), PatchExpiredTreasures (same), "
              "ShiftMatchingTreasures (key index: first N; time index: window), close+reload, and index reads "
              "(15 index types x asc/desc x from 0..5 x limit 0..6 x optional fromTime/toTime, unary and streamed) interleaved so that "
              "indexes are built early and then maintained; every case ends with full reads of its focused indexes. A case is "
              "non-trivial when it has >= 3 ops; distinct = distinct op texts. Each read is compared with the Lean model up to ties "
              "(where the model's list is determined) and always judged by the Spec oracle (sorted carriers, window, page)."),
        samples=samples,
        evaluations=len(c.ops),
        distinct_nontrivial=K.distinct_cases(c),
        extra_cov={"correspondence": {"domain": "C07", "cases": len(c.cases), "op_lines": len(c.ops), "mismatching_lines": len(c.mismatch),
                                      "op_histogram": c.op_hist, "reads": stats,
                                      "lines_flagged_by_model": sum(1 for f in c.flags if f)}},
        trusted=["Lean 4.33.0 kernel", "axioms: propext, Classical.choice, Quot.sound", "extract/c07.go", "harness/c07.go",
                 "Go sort.Slice sorts under a strict weak order (ties unspecified)"],
    )
